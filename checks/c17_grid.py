"""C17 stage 3 — Grid::wrap_assign (helper of checks/c17.py).

proof:  PPLV.Props.C17Grid over the code-shaped model lean/PPLV/Wrap/GridWrap.lean of
        Grid::wrap_assign(vars, w, r, o, cs_p, complexity_threshold, wrap_individually) (src/Grid_public.cc) whose
        member-function calls are K2's verified grid operations;
tie:    harness/c17_wrap.cc --gridwrap builds grids of every shape (congruence systems and generator systems with
        rational coefficients, relational, frequencies below / equal to / multiple of / above 2^w, constants, lines,
        empty), journals the minimized generators of a copy of the argument, calls the REAL Grid::wrap_assign and
        journals the minimized generators and congruences of the result (or the exception and the receiver as left);
        pplv_gridwrap (lean/Driver/GridWrap.lean) runs the model on the same argument and compares the outcome with
        the real one by K2's verified EQUALITY decider (same grid, not same rows), and judges the real result against
        the property on sample integer points of the argument (verified membership decider).
A `MISMATCH` (a wrapped image of a concrete integer point is not in the real result) or a `THROWS` (a legal call
leaves through an exception) is a failure of the real code on concrete data: VIOLATION with the case description as
replay.  A `DIVERGE` alone (real outcome not the model's, no lost image found) is a broken correspondence:
VIOLATION … no-failing-input-found.
"""
import collections, concurrent.futures as cf, hashlib, os, shutil

PROPS = ["PPLV.Props.C17Grid"]
SITE = "Grid::wrap_assign"


def kv_of(s):
    return dict(x.split("=", 1) for x in s.split() if "=" in x)


def parse_gwrap(line):
    """(id, description, params dict) of a `gwrap` journal line"""
    t = line.split()
    cid = t[1]
    bar = t.index("|") if "|" in t else len(t)
    desc = " ".join(t[2:bar])
    par = {}
    parts = line.split(" | ")
    for p in parts[1:]:
        q = p.split()
        if q and q[0] == "P":
            n, nv = int(q[1]), int(q[2])
            rest = q[3 + nv:]
            par = {"n": n, "vars": [int(x) for x in q[3:3 + nv]], "w": int(rest[0]), "r": rest[1], "o": rest[2],
                   "gdim": int(rest[3]), "thr": int(rest[4]), "ind": rest[5], "variant": rest[6] if len(rest) > 6 else "?"}
        elif q and q[0] == "G":
            par["arg_empty"] = len(q) > 1 and q[1] == "E"
            par["arg_rows"] = 0 if par["arg_empty"] else int(q[1]) if len(q) > 1 else 0
            par["arg_kinds"] = "".join(sorted(set(x for x in q[2:] if x in ("l", "q", "p"))))
        elif q and q[0] == "X":
            par["exc"] = " ".join(q[1:])
    return cid, desc, par


def classify(verdict, detail, par):
    """narrow structural tags of a failing case (predicates of known_findings.json)"""
    kv = kv_of(detail)
    tags = []
    branch = kv.get("tags", "").split(",")
    if verdict == "MISMATCH":
        if par.get("o") == "w" and kv.get("flawed") == "1" and kv.get("modeleq") == "1" and \
                any(b.startswith("keepnonint_feq") for b in branch):
            tags.append("wraps_frequency_2w_non_integral_representative_grid_unchanged")
    elif verdict == "THROWS":
        if par.get("o") == "w" and kv.get("method") == "add_grid_generator" and kv.get("left") == "E" and \
                kv.get("integerpoints") == "0":
            tags.append("throws_invalid_generator_receiver_emptied_in_loop")
    return tags


def run_driver(ctx, drv, lines, wd, nproc=12):
    judged = [l for l in lines if l.startswith("gwrap ")]
    if not judged:
        return {}
    per = max(1, (len(judged) + nproc - 1) // nproc)
    chunks = [judged[k:k + per] for k in range(0, len(judged), per)]

    def work(idx):
        cp = os.path.join(wd, "gchunk%d.txt" % idx)
        with open(cp, "w") as f:
            f.write("\n".join(chunks[idx]) + "\n")
        rc, out, err = ctx.run([drv], stdin_path=cp, timeout=1500)
        if rc != 0:
            ctx.fatal("driver pplv_gridwrap failed rc=%s %s" % (rc, (err or "")[-500:]))
        return out

    verd = {}
    with cf.ThreadPoolExecutor(nproc) as ex:
        for out in ex.map(work, range(len(chunks))):
            for l in out.splitlines():
                t = l.split(None, 2)
                if len(t) >= 2 and t[0] in ("ok", "skip", "MISMATCH", "DIVERGE", "THROWS"):
                    verd[t[1]] = (t[0], t[2] if len(t) > 2 else "")
    return verd


def report(ctx, line, v):
    """turn a non-ok verdict into a violation / known finding; True when it is a fresh violation"""
    cid, desc, par = parse_gwrap(line)
    verdict, detail = v
    tags = classify(verdict, detail, par)
    replay = {"description": desc, "gridwrap": True, "journal_line": line[:4000], "verdict": verdict, "detail": detail[:2000],
              "site": SITE, "tags": tags, "how": "bin/check C17 --replay <this file>"}
    if verdict == "DIVERGE":
        return ctx.violation("the model gridWrapAssign is no longer the transliteration of Grid::wrap_assign (the theorems of "
                             "PPLV.Props.C17Grid do not cover this run; no lost image found on the sample points): " + detail[:400],
                             replay, found_input=False, record={"site": "gridwrap-model", "tags": []})
    what = {"MISMATCH": "Grid::wrap_assign loses a wrapped image of an integer point: ",
            "THROWS": "Grid::wrap_assign leaves a legal call through an exception: "}[verdict] + detail[:400] + " — " + desc[:300]
    return ctx.violation(what, replay, found_input=True, record={"site": SITE, "tags": tags})


def crashes(lines):
    out, last = [], None
    for l in lines:
        if l.startswith("begin "):
            last = l.split(None, 2)
        elif l.startswith("gwrap "):
            last = None
        elif l.startswith("crash "):
            out.append((last[2] if last and len(last) > 2 else "?", l[6:]))
            last = None
    return out


def judge(ctx, drv, lines, wd):
    """-> (verdicts, number of fresh violations)"""
    verd = run_driver(ctx, drv, lines, wd)
    fresh = suppressed = 0
    # concrete failures of the real code first, then bare model differences; at most 12 replays of each kind are written
    for kinds in (("MISMATCH", "THROWS"), ("DIVERGE",)):
        written = 0
        for l in lines:
            if not l.startswith("gwrap "):
                continue
            v = verd.get(l.split()[1])
            if v is None or v[0] not in kinds:
                continue
            if written >= 12:
                cid, desc, par = parse_gwrap(l)
                rec = {"site": "gridwrap-model", "tags": []} if v[0] == "DIVERGE" else {"site": SITE, "tags": classify(v[0], v[1], par)}
                if ctx.match_known(rec) is None:
                    suppressed += 1
                continue
            if report(ctx, l, v):
                fresh += 1; written += 1
    if suppressed:
        msg = "note: %d further failing Grid::wrap_assign cases of the same kinds are not written as replays" % suppressed
        print(msg, flush=True); ctx.notes.append(msg)
    for d, sig in crashes(lines):
        if ctx.violation("the library died (%s) during Grid::wrap_assign: %s" % (sig, d[:300]),
                         {"description": d, "gridwrap": True, "crash": sig}, found_input=True,
                         record={"site": SITE, "tags": ["crash"]}):
            fresh += 1
    return verd, fresh


def replay(ctx, path):
    """bin/check C17 --replay on a stage-3 replay file: the recorded description on the real library of this tree"""
    import json
    obj = json.load(open(path))
    ctx.ensure_ppl()
    drv = ctx.ensure_pplv("pplv_gridwrap")
    h = ctx.compile_harness("c17_wrap.cc")
    wd = ctx.workdir()
    print("property=C17 what=%s" % str(obj.get("what", "-"))[:300])
    ip, jp = os.path.join(wd, "greplay_in.txt"), os.path.join(wd, "greplay.journal")
    with open(ip, "w") as f:
        f.write(obj["description"] + "\n")
    rc, _, err = ctx.run([h, "--replay"], stdin_path=ip, stdout_path=jp, timeout=600)
    if rc != 0:
        ctx.fatal("harness failed rc=%s %s" % (rc, (err or "")[-500:]))
    lines = open(jp).read().splitlines()
    verd, fresh = judge(ctx, drv, lines, wd)
    for l in lines:
        if l.startswith("gwrap "):
            v = verd.get(l.split()[1], ("skip", "no verdict"))
            print("  %s -> %s %s" % (l[:300], v[0], v[1][:400]), flush=True)
    if fresh == 0:
        print("replay: no (new) violation on this tree")
    shutil.rmtree(wd, ignore_errors=True)
    return 1 if fresh else 0


def run(ctx):
    """returns the number of broken obligations (proof obligations; violations are reported through ctx.violation)"""
    broken = ctx.prove(PROPS)
    for b in broken:
        ctx.violation("proof obligation broken: " + b, {"obligation": b}, found_input=False)
    drv = ctx.ensure_pplv("pplv_gridwrap")
    h = ctx.compile_harness("c17_wrap.cc")
    wd = os.path.join(ctx.workdir(), "gridwrap")
    os.makedirs(wd, exist_ok=True)
    quick = ctx.tier == "quick"
    nb, per = (12, 500) if quick else (48, 3000)
    jp = os.path.join(wd, "journal.txt")
    rc, _, err = ctx.run([h, "--gridwrap", "--seed", str(ctx.seed), "--first", "0", "--last", str(nb), "--cases", str(per)],
                         stdout_path=jp, timeout=1500)
    if rc != 0:
        ctx.fatal("harness c17_wrap --gridwrap failed rc=%s %s" % (rc, (err or "")[-500:]))
    lines = open(jp).read().splitlines()
    verd, fresh = judge(ctx, drv, lines, wd)

    st = collections.Counter()
    hist = collections.defaultdict(collections.Counter)
    ALLV = ("beforefix", "kf12", "kf13", "kf12+kf13")
    CURRENT = "kf12+kf13"            # the variant `gridWrapAssign` models: the function as it is in /repo
    not_current = []
    explained_by = set(ALLV)           # the variants of the model that explain EVERY run
    distinguishing = 0
    distinct, nontrivial, samples = set(), set(), []
    pts = imgs = 0
    planted = {}
    for l in lines:
        if not l.startswith("gwrap "):
            continue
        cid, desc, par = parse_gwrap(l)
        v = verd.get(cid)
        if v is None:
            st["no_verdict"] += 1
            continue
        st[v[0]] += 1
        kv = kv_of(v[1])
        if cid.startswith("gp"):
            planted[desc] = v[0]
        if par:
            hist["overflow"][par["o"]] += 1
            hist["representation"][par["r"]] += 1
            hist["width"][par["w"]] += 1
            hist["space_dimension"][par["n"]] += 1
            hist["wrapped_vars"][len(par["vars"])] += 1
            hist["cs_p"]["null" if par["gdim"] < 0 else "within_dim" if par["gdim"] <= par["n"] else "beyond_dim"] += 1
            hist["entry_state"][{"0": "as_built", "1": "generators_minimized", "2": "congruences_minimized"}.get(par["variant"], "?")] += 1
            hist["argument_built_from"]["grid_generators" if "G" in desc.split()[2:] else "congruences"] += 1
            hist["argument_generator_kinds"][par.get("arg_kinds", "") or ("empty" if par.get("arg_empty") else "?")] += 1
        if v[0] in ("ok", "MISMATCH", "THROWS") and kv.get("variants"):
            vs = set(kv["variants"].split(","))
            explained_by &= vs
            if CURRENT not in vs:
                not_current.append((desc, kv["variants"]))
            if vs != set(ALLV):
                distinguishing += 1
                hist["runs_distinguishing_the_variants"][kv["variants"]] += 1
        if v[0] in ("ok", "MISMATCH", "THROWS"):
            hist["outcome"][kv.get("out", "exception" if v[0] == "THROWS" else "ok")] += 1
            for b in kv.get("tags", "").split(","):
                if b:
                    hist["branch_per_variable"][b] += 1
            pts += int(kv.get("pts", 0)); imgs += int(kv.get("imgs", 0))
            if kv.get("flawed") == "1":
                st["through_branch_of_KF_C17_12"] += 1
        key = hashlib.sha256(desc.encode()).hexdigest()
        if key not in distinct:
            distinct.add(key)
            nt = v[0] in ("MISMATCH", "THROWS") or (v[0] == "ok" and kv.get("out") == "ok" and kv.get("resempty") == "0"
                                                     and int(kv.get("pts", 0)) > 0 and not par.get("arg_empty"))
            if nt and not cid.startswith("gp"):
                nontrivial.add(key)
                if len(samples) < 6:
                    samples.append(desc[:300])

    # the literal witnesses of the open findings are planted in batch 0: say so when one no longer fails
    for f in ctx.findings:
        if f.get("property") == "C17" and f.get("status") == "open" and f.get("site") == SITE:
            w = (f.get("witness") or {}).get("description")
            if w and w in planted and planted[w] == "ok":
                msg = "note: the witness of %s no longer fails on this tree (entry is stale / defect repaired)" % f["id"]
                print(msg, flush=True); ctx.notes.append(msg)

    # which variant of the function does the library implement?  (each run is explained by a set of variants)
    if not explained_by and not st["DIVERGE"]:
        ctx.violation("every run of Grid::wrap_assign is explained by some variant of the model (repairs of KF-C17-12 / KF-C17-13 "
                      "applied or not), but no single variant explains all of them", {"counts": dict(st)}, found_input=False,
                      record={"site": "gridwrap-model", "tags": []})
    measured = sorted(explained_by, key=ALLV.index)
    if not_current:
        # the real function is another variant than the one `gridWrapAssign` models: the theorems stated for the current
        # function do not cover these runs (a regression of 3a4d83e / 4614ba1, or a new repair the model has to follow)
        ctx.violation("Grid::wrap_assign is not the function the model `gridWrapAssign` (variant kf12+kf13) transliterates on %d runs; "
                      "variant(s) explaining every run: %s; first: %s [%s]" % (len(not_current), measured or "none", not_current[0][0][:300], not_current[0][1]),
                      {"description": not_current[0][0], "gridwrap": True, "variants": not_current[0][1], "runs": len(not_current),
                       "variants_explaining_every_run": measured}, found_input=False, record={"site": "gridwrap-model", "tags": []})

    judged = st["ok"] + st["MISMATCH"] + st["THROWS"] + st["DIVERGE"]
    ctx.cov["grid_wrap_assign"] = {
        "cases_compared_model_vs_real": judged, "distinct_cases": len(distinct), "distinct_nontrivial": len(nontrivial),
        "rule": "distinct = hash of the case description; non-trivial = normal return with a non-empty result and at least one "
                "sample integer point of the argument whose images were tested, or a failing case; planted witnesses (gp*) excluded",
        "variants_of_the_model_explaining_every_run": measured, "runs_distinguishing_the_variants": distinguishing,
        "verdicts": dict(st), "sample_points": pts, "images_tested_in_real_result": imgs,
        "histograms": {k: dict(v) for k, v in hist.items() if sum(v.values())}, "samples": samples,
    }
    ctx.assumptions += [
        "Grid::wrap_assign: the theorems of PPLV.Props.C17Grid are about the code-shaped model gridWrapAssign whose member-function calls "
        "are K2's verified grid operations (frequency_no_check is transliterated: the function depends on which representative it returns); "
        "the model's outcome equals the real one on every generated case (K2's verified equality decider; exceptions and the receiver "
        "they leave included); the argument's minimized generators are read from a copy taken before the call",
    ]
    if not fresh and not ctx.violations:
        shutil.rmtree(wd, ignore_errors=True)
    return len(broken)
