"""C08 stage 2 — the widenings of the weakly-relational domains as coded (helper of checks/c08_impl.py).

proof:  PPLV.Props.C08ImplShape over the code-shaped model lean/PPLV/Widen/ImplShape.lean of
        BD_Shape<T>::{CC76_extrapolation_assign, BHMZ05_widening_assign, get_limiting_shape, limited_CC76_…, limited_BHMZ05_…},
        Octagonal_Shape<T>::{CC76_…, BHMZ05_…, get_limiting_octagon, limited_…}, Box::{CC76_widening_assign (both overloads),
        get_limiting_box, limited_CC76_…} with the closures / reductions of lean/PPLV/WR: result contains the larger argument,
        CC76 chains stabilise at the matrix level (rank), BHMZ05 leaves only cells of the reduced smaller argument (finite-cell
        count), limited results lie between the larger argument and the plain widening and keep the expressible inequalities.
tie:    harness/c08_impl_shape.cc runs ascending chains and raw matrix pairs through the REAL functions
        (BD_Shape<mpq_class>, BD_Shape<mpz_class>, Octagonal_Shape<mpq_class>, Rational_Box; plain, token, explicit stop
        points, limited, the private get_limiting_* directly) and journals the raw matrices, flags, redundancy bits, stop
        points, tokens and constraint systems before and after each call; the native driver pplv_widenimpl_shape replays the
        model and demands IDENTICAL output (`model`), and judges the theorems' conclusions on the real output (`sup`,
        `below_plain`, `keeps`, `keeps_rounded`, `rank`, `finite`, `larsen`).
A `model` difference alone is a broken correspondence (VIOLATION … no-failing-input-found); a judge that fails on the real
output, an exception or a crash is a violation of the property with the journalled call as replay.
"""
import collections, hashlib, json, os, shutil
from .common import BUILD

PROPS = ["PPLV.Props.C08ImplShape"]
DRIVER = "pplv_widenimpl_shape"
PROPERTY_OBS = ("sup", "below_plain", "keeps", "keeps_rounded", "rank", "finite", "larsen", "exception")


def _fields(line):
    """journal line -> dict of the input side"""
    t = line.split(" ")
    d = {"id": t[0]}
    if len(t) > 15:
        d.update(dom=t[1], T=t[2], op=t[3], n=t[4], xflags=t[5], yflags=t[8], stops=t[11], tp=t[12], cs=t[14])
    return d


def run(ctx):
    """returns the number of broken obligations (each one is reported here)."""
    broken = ctx.prove(PROPS)
    if ctx.tier == "thorough":
        broken += ctx.leanchecker(PROPS)
    nbroken = 0
    for b in broken:
        nbroken += 1
        ctx.violation("C08 impl_shape: proof obligation broken: %s" % b, {"obligation": b, "module": PROPS[0]}, found_input=False,
                      record={"site": "impl_shape:proof", "tags": ["proof"]})
    drv = ctx.ensure_pplv(DRIVER)
    h = ctx.compile_harness("c08_impl_shape.cc")
    wd = os.path.join(BUILD, "run-%s-implshape-%d" % (ctx.pid, os.getpid()))
    shutil.rmtree(wd, ignore_errors=True)
    os.makedirs(wd)
    nb = 24 if ctx.tier == "quick" else 400
    seed, first, last, only = ctx.seed, 0, nb, None
    if ctx.replay:
        try:
            rp = json.load(open(ctx.replay))
        except Exception:
            rp = {}
        if "impl_shape_chain" in rp:
            seed = rp.get("seed", seed)
            first = int(rp["impl_shape_batch"]); last = first + 1; only = rp["impl_shape_chain"]
    journal = os.path.join(wd, "journal.txt")
    stored = None
    if ctx.replay and only:
        stored = rp.get("journal_line")
    if stored:
        # a recorded call is re-judged from its journalled line (the generator may have changed since it was recorded)
        with open(journal, "w") as f:
            f.write(stored + "\n")
    else:
        cmd = [h, "--seed", str(seed), "--first", str(first), "--last", str(last)]
        if only:
            cmd += ["--only", only]
        rc, _, err = ctx.run(cmd, stdout_path=journal, timeout=1500)
        if rc != 0:
            ctx.fatal("harness c08_impl_shape failed rc=%s %s" % (rc, (err or "")[-500:]))
    verdicts = os.path.join(wd, "verdicts.txt")
    rc, _, err = ctx.run([drv], stdin_path=journal, stdout_path=verdicts, timeout=1500)
    if rc != 0:
        ctx.fatal("driver %s failed rc=%s %s" % (DRIVER, rc, (err or "")[-500:]))

    J = {}
    crashes = []
    last_begin = None
    ncalls = 0
    for l in open(journal):
        l = l.rstrip("\n")
        t = l.split(" ", 2)
        if t[0] == "begin":
            last_begin = t[1]
        elif t[0] == "crash":
            crashes.append((last_begin, l))
        elif t[0] == "end" or len(t) < 2:
            pass
        elif t[1] == "exc-outside":
            pass
        else:
            J[t[0]] = l
            ncalls += 1

    harness_name = os.path.basename(h)

    def replay_obj(cid, extra):
        p = cid.split(".")
        chain = ".".join(p[:3]) if len(p) >= 3 else cid
        batch = p[1] if len(p) > 1 else "0"
        o = {"impl_shape_chain": chain, "impl_shape_batch": batch, "call": cid, "journal_line": J.get(cid),
             "driver": DRIVER,
             "replay_cmd": "build/%s --seed %d --first %s --last %d --only %s | lean/.lake/build/bin/%s   # or: VERIF_SEED=%d bin/check C08 --replay <this file>"
                           % (harness_name, seed, batch, int(batch) + 1 if batch.isdigit() else 1, chain, DRIVER, seed)}
        o.update(extra)
        return o

    ok = collections.Counter()
    mism = collections.Counter()
    tags = collections.Counter()
    judged = set()
    per_site = collections.Counter()
    for l in open(verdicts):
        t = l.rstrip("\n").split(" ", 3)
        if t[0] == "ok" and len(t) >= 3:
            ok[t[2]] += 1; judged.add(t[1])
        elif t[0] == "tag" and len(t) >= 3:
            tags[t[2]] += 1
        elif t[0] == "MISMATCH" and len(t) >= 3:
            cid, ob = t[1], t[2]
            detail = t[3] if len(t) > 3 else ""
            judged.add(cid)
            mism[ob] += 1
            f = _fields(J.get(cid, cid))
            site = "impl_shape:%s:%s:%s" % (f.get("dom", "?"), f.get("op", "?"), ob)
            tg = ["T=" + f.get("T", "?"), "n=" + f.get("n", "?")]
            if f.get("tp", "-") not in ("-", "0"):
                tg.append("token")
            if "E|" in f.get("cs", ""):
                tg.append("equality_in_cs")
            if f.get("stops", "-") != "-":
                tg.append("explicit_stops")
            if f.get("xflags", "000")[0] == "1" or f.get("yflags", "000")[0] == "1":
                tg.append("marked_empty_argument")
            per_site[site] += 1
            if per_site[site] > 2:          # at most two replays per site; the rest is counted in cov
                continue
            if ob in PROPERTY_OBS:
                what = ("C08 impl_shape: the real %s %s breaks `%s` (%s) on call %s"
                        % (f.get("dom", "?") + "<" + f.get("T", "?") + ">", f.get("op", "?"), ob, detail[:300], cid))
                if ctx.violation(what, replay_obj(cid, {"obligation": ob, "detail": detail}), found_input=True,
                                 record={"site": site, "tags": tg}):
                    nbroken += 1
            else:
                what = ("C08 impl_shape: model and real %s %s differ (%s) on call %s: %s"
                        % (f.get("dom", "?") + "<" + f.get("T", "?") + ">", f.get("op", "?"), ob, cid, detail[:400]))
                if ctx.violation(what, replay_obj(cid, {"obligation": ob, "detail": detail}), found_input=False,
                                 record={"site": site, "tags": tg}):
                    nbroken += 1
    for (cid, l) in crashes:
        f = _fields(J.get(cid, cid or "?"))
        if ctx.violation("C08 impl_shape: the library died (%s) inside call %s" % (l, cid),
                         replay_obj(cid or "?", {"obligation": "crash", "detail": l}), found_input=True,
                         record={"site": "impl_shape:crash", "tags": ["crash", l.split(" ")[-1]]}):
            nbroken += 1
    missing = [c for c in J if c not in judged]
    if missing:
        ctx.fatal("%s judged %d of %d journalled calls (first missing: %s)" % (DRIVER, len(judged), len(J), missing[0]))

    per = collections.Counter()
    for k, v in tags.items():
        if k.split("-")[0] in ("bd", "oct", "box"):
            per[k] = v
    distinct = len(set(hashlib.sha256(l.split(" ", 1)[1].encode()).hexdigest()[:12] for l in J.values()))
    ctx.cov["impl_shape"] = {
        "calls": ncalls, "distinct_calls": distinct, "batches": last - first, "seed": seed,
        "ok_by_obligation": dict(ok), "mismatch_by_obligation": dict(mism),
        "by_domain_op_dim": dict(sorted(per.items())),
        "branches": {k: v for k, v in tags.items() if k not in per},
        "crashes": len(crashes), "mismatch_by_site": dict(per_site),
        "rule": "a call is non-trivial when the result differs from the receiver or a token is consumed; counted through rank-decreased / bhmz-decreased tags",
        "samples": [J[k][:300] for k in list(J)[:3]],
    }
    return nbroken
