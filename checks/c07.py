"""C07 — PIP solver: the tree yields the lexicographic minimum for every parameter value.

proof:  PPLV.Props.C07 — the tree semantics (`Tree.eval`) is a function that agrees with the
        relational "spanning" of the class documentation, never raises a scope error on a
        well-scoped tree; the reference `lexminRef` is sound whenever it answers (point: feasible,
        non-negative, lexicographically least; bottom: no non-negative integer point), for all
        problems, all parameter values, unbounded regions included (the answer `unknown` is the
        only escape); stage 2: the Gomory cut of `generate_cut` is valid and its two context rows
        define the floor.
tie:    harness/c07_pip.cc builds seeded problems (1–3 variables, 0–2 parameters, =, >=, >,
        context rows, big parameter), solves them with the real `PIP_Problem` under the 3 x 2
        strategy settings, through constructor / add_constraint / add_constraints, with additions
        of constraints, dimensions and parameters between solves, and from scratch on the final
        data; the tree is walked through the public node interface.  The native driver pplv_pip
        evaluates every tree at every parameter valuation of a box that satisfies the context and
        compares with the verified reference; UNFEASIBLE is refuted by a valuation with a point.
A solve that does not return within the CPU limit is inconclusive (DESIGN §4 (viii)); it is counted.
"""
import collections, hashlib, json, os, re
from . import c07_core

LEVEL = "proof"
SCRATCH = ("fresh", "single", "initial")
# Share of generated cases that each known finding excuses (first matching finding in file order), and a floor.
# The shares are MEASURED per source state of the solver: `C07_MEASURE=20000 VERIF_SEED=11 bin/check C07` adds one
# measurement to checks/c07_kf_shares.json under the hash of src/PIP_*; a finding that excused no case in >= 20 000
# measured cases (a repaired class) gets budget 0.  The constants below are the fall-back for an unmeasured source state
# (unchanged tree, two runs of 20 000 cases).
KF_SHARES_FILE = os.path.join(os.path.dirname(os.path.abspath(__file__)), "c07_kf_shares.json")
KF_FLOOR = {"KF-C07-10": 4, "KF-C07-11": 4}
KF_BUDGET = {"KF-C07-1": (0.0044, 6), "KF-C07-2": (0.0016, 6), "KF-C07-3": (0.0059, 6), "KF-C07-4": (0.0031, 6),
             "KF-C07-5": (0.025, 6), "KF-C07-6": (0.0046, 6), "KF-C07-7": (0.0037, 6), "KF-C07-8": (0.001, 6),
             "KF-C07-9": (0.0005, 6), "KF-C07-10": (0.0003, 4), "KF-C07-11": (0.0001, 4)}


class Rec:
    """one solve of the real library: the `tree` line and what led to it"""
    __slots__ = ("case", "ln", "prob", "cs", "solved", "tree", "ops", "prev", "verdict", "details", "text", "first_ln")

    def __init__(self):
        self.ops, self.details, self.text = [], [], []
        self.prev, self.verdict = None, None

    @property
    def kind(self):
        return self.solved.split()[1]

    def field(self, name):
        t = self.solved.split()
        return t[t.index(name) + 1] if name in t else ""


def parse_rows(prob, cs):
    """-> (dim, params(list), rows [(rel, k, coeffs)])"""
    p = prob.split()
    dim, np_ = int(p[1]), int(p[2])
    params = [int(x) for x in p[3:3 + np_]]
    big = int(p[p.index("big") + 1])
    t = cs.split()
    m = int(t[1])
    rows, i = [], 2
    for _ in range(m):
        rel, k = t[i], int(t[i + 1])
        cf = [int(x) for x in t[i + 2:i + 2 + dim]]
        rows.append((rel, k, cf))
        i += 2 + dim
    return dim, params, big, rows


def features(rec):
    dim, params, big, rows = parse_rows(rec.prob, rec.cs)
    var = [i for i in range(dim) if i not in params]
    f = {"nv": len(var), "np": len(params), "rows": len(rows), "big": big >= 0}
    f["eq_with_vars"] = sum(1 for (rel, k, cf) in rows if rel == "=" and any(cf[i] for i in var))
    f["strict"] = sum(1 for (rel, k, cf) in rows if rel == ">")
    f["context_rows"] = sum(1 for (rel, k, cf) in rows if not any(cf[i] for i in var))
    return f


def parse_tree(tokens):
    """tokens of a `tree` line -> nested dict (same grammar as Driver/PIP.lean)"""
    t = tokens.split()[1:]
    pos = [0]

    def expr():
        sd = int(t[pos[0]]); k = int(t[pos[0] + 1])
        cf = [int(x) for x in t[pos[0] + 2:pos[0] + 2 + sd]]
        pos[0] += 2 + sd
        return (k, cf)

    def node():
        h = t[pos[0]]; pos[0] += 1
        if h == "B":
            return {"k": "B"}
        if h == "S":
            na, nc, nv = int(t[pos[0]]), int(t[pos[0] + 1]), int(t[pos[0] + 2]); pos[0] += 3
        else:
            na, nc, nv = int(t[pos[0]]), int(t[pos[0] + 1]), 0; pos[0] += 2
        arts = []
        for _ in range(na):
            den = int(t[pos[0]]); pos[0] += 1
            arts.append((den, expr()))
        cons = []
        for _ in range(nc):
            rel = t[pos[0]]; pos[0] += 1
            cons.append((rel, expr()))
        n = {"k": h, "arts": arts, "cons": cons}
        if h == "S":
            vals = []
            for _ in range(nv):
                d = int(t[pos[0]]); pos[0] += 1
                vals.append((d, expr()))
            n["vals"] = vals
        else:
            n["t"] = node(); n["f"] = node()
        return n
    try:
        return node()
    except (IndexError, ValueError):
        return {"k": "?"}


def walk_nodes(n):
    if n["k"] in ("B", "?"):
        return
    yield n
    if n["k"] == "D":
        yield from walk_nodes(n["t"])
        yield from walk_nodes(n["f"])


def tree_stats(tokens):
    root = parse_tree(tokens)
    nodes = list(walk_nodes(root))
    return {"null": root["k"] == "B",
            "decision": sum(1 for n in nodes if n["k"] == "D"),
            "solution": sum(1 for n in nodes if n["k"] == "S"),
            "arts": sum(len(n["arts"]) for n in nodes),
            "decision_with_false_child": sum(1 for n in nodes if n["k"] == "D" and n["f"]["k"] != "B"),
            "decision_with_arts": sum(1 for n in nodes if n["k"] == "D" and n["arts"])}


def kv(s):
    return dict(m.groups() for m in re.finditer(r"(\w+)=(\S+)", s))


def read_journal(path):
    J = [l.rstrip("\n") for l in open(path)]
    recs, events = [], []          # events: crashes / exceptions
    case, prob, cs, solved, ops, last_obj_rec, text = None, None, None, None, [], None, None
    case_recs = []
    for i, l in enumerate(J, 1):
        t = l.split(" ", 1)
        h = t[0]
        if h == "case":
            case = int(t[1]); prob = cs = solved = None; ops = []; last_obj_rec = None; case_recs = []
        elif h == "phase":
            ops = []; last_obj_rec = None; case_recs = []      # the from-scratch solves run in a process of their own
        elif h == "prob":
            prob = l
        elif h == "cs":
            cs = l
        elif h == "op":
            ops.append(t[1])
        elif h == "solved":
            solved = l
        elif h == "tree":
            r = Rec()
            r.case, r.ln, r.prob, r.cs, r.solved, r.tree = case, i, prob, cs, solved, l
            r.ops, ops = ops, []
            if r.kind != "fresh":
                r.prev = last_obj_rec
                last_obj_rec = r
                case_recs.append(r)
            recs.append(r)
            text = r.text
        elif h.startswith("#") and text is not None:
            text.append(l)
        elif h in ("crash", "exc"):
            events.append({"case": case, "ln": i, "what": l, "ops": ops[:], "prev": last_obj_rec,
                           "prob": prob, "cs": cs, "recs": case_recs[:]})
    return J, recs, events


def added_rows(rec):
    """constraints added to the object since its previous solve"""
    dim, params, big, rows = parse_rows(rec.prob, rec.cs)
    if rec.prev is None:
        return dim, params, rows
    pdim, pparams, pbig, prows = parse_rows(rec.prev.prob, rec.prev.cs)
    return dim, params, rows[len(prows):]


def history_tags(prev, dim, params, new_rows, ops):
    """structural facts about an incremental re-solve (prev = the previous solve of the same object)"""
    tags = []
    if prev is None:
        return ["no_previous_solve"]
    ts = tree_stats(prev.tree)
    dims_added = any(o.startswith("add_space_dimensions_and_embed") for o in ops)
    if prev.field("status") == "UNF":
        tags.append("previous_solve_unfeasible")
    var = [i for i in range(dim) if i not in params]
    if not ts["null"]:
        # PIP_Solution_Node::update_tableau: `p_row.insert(p_index, c * denom)` overwrites what the rows of the
        # non-basic variables met earlier in the same constraint have already contributed to that parameter
        for (rel, k, cf) in new_rows:
            vs = [i for i in var if cf[i] != 0]
            ps = [i for i in params if cf[i] != 0]
            if vs and ps and min(vs) < max(ps):
                tags.append("added_row_has_variable_before_parameter")
                break
    if dims_added and ts["arts"] > 0:
        tags.append("dimensions_added_and_previous_tree_has_artificial_parameter")
    if ts["decision_with_false_child"] > 0:
        tags.append("previous_tree_has_decision_node_with_false_child")
    if ts["decision_with_arts"] > 0 and any(not any(cf[i] for i in var) for (rel, k, cf) in new_rows):
        tags.append("context_row_added_and_previous_tree_has_decision_node_with_artificial_parameters")
    return tags


def classify(rec, v):
    """site + tags of a failing solve (v = parsed MISMATCH verdict: obligation, kv, details)"""
    obl, info, details = v
    f = features(rec)
    dim, params, big, rows = parse_rows(rec.prob, rec.cs)
    var = [i for i in range(dim) if i not in params]
    scratch = rec.kind in SCRATCH
    site = "solve:from-scratch" if scratch else "solve:incremental"
    tags = ["obligation:" + obl]
    kinds = set(info.get("kinds", "").split(",")) if info.get("kinds") else set()
    nbad = int(info.get("bad", "0") or 0)
    if obl in ("eval", "unfeasible-but-feasible") and kinds == {"bottom/point"} and nbad > 0 \
            and info.get("bad_with_zero_param") == info.get("bad"):
        tags.append("solution_lost_only_where_a_parameter_is_zero")
    if obl == "eval" and nbad > 0 and info.get("bad_infeasible_point") == info.get("bad"):
        # every wrong valuation yields a point outside the feasible region (a row violated or a negative coordinate):
        # a test guarding the parametric values was lost.  This is a symptom, not a structural class of inputs: the
        # number of cases it may excuse in one run is capped (KF_BUDGET).
        tags.append("tree_point_outside_feasible_region")
        if info.get("bad_infeasible_at_guarded_leaf") == info.get("bad"):
            tags.append("infeasible_point_at_guarded_solution_node")
    if obl in ("ok-false", "malformed"):
        if any(n["k"] == "D" and n["f"]["k"] != "B" and len(n["cons"]) >= 2 for n in walk_nodes(parse_tree(rec.tree))):
            tags.append("decision_node_with_several_tests_and_false_child")
    if obl == "scope" or info.get("scoped") == "false" or any(k.startswith("scopeError") for k in kinds):
        tags.append("undeclared_artificial_parameter")
    if big >= 0 and any(cf[big] != 0 and any(abs(cf[i]) >= 2 for i in var) for (rel, k, cf) in rows):
        tags.append("big_parameter_and_non_unit_variable_coefficient")
    if f["eq_with_vars"] >= 2:
        tags.append("two_or_more_equalities_on_variables")
    if not scratch:
        d2, p2, new_rows = added_rows(rec)
        tags += history_tags(rec.prev, dim, params, new_rows, rec.ops)
    return site, tags, f


def pip_source_hash():
    from .common import REPO, file_hash
    src = os.path.join(REPO, "src")
    files = sorted(f for f in os.listdir(src) if f.startswith("PIP_") and (f.endswith(".cc") or f.endswith(".hh")))
    return file_hash(*[os.path.join(src, f) for f in files])


def load_shares():
    try:
        return json.load(open(KF_SHARES_FILE))
    except (OSError, ValueError):
        return {}


def budget_of(kid, ngen, entry):
    """cases finding `kid` may excuse in a run of `ngen` generated cases"""
    floor = KF_FLOOR.get(kid, 6)
    if entry is not None and entry.get("cases", 0) >= 20000:
        n = entry.get("counts", {}).get(kid, 0)
        if n == 0:
            return 0, 0.0
        share = n / float(entry["cases"])
    else:
        share = KF_BUDGET.get(kid, (0.01, 6))[0]
    return max(floor, int(5 * share * ngen)), share


def run(ctx):
    ctx.ensure_ppl()
    if ctx.replay and json.load(open(ctx.replay)).get("stage") == c07_core.STAGE:
        return c07_core.replay(ctx, json.load(open(ctx.replay)))   # a case of the stage 2 tie (solver core)
    broken = ctx.prove(["PPLV.Props.C07"])
    if ctx.tier == "thorough":
        broken += ctx.leanchecker(["PPLV.Props.C07"])
    drv = ctx.ensure_pplv("pplv_pip")
    from .common import REPO
    # one binary per tree under test, so that runs against different trees do not evict each other's harness
    h = ctx.compile_harness("c07_pip.cc", out_name="c07_pip_" + hashlib.sha256(REPO.encode()).hexdigest()[:6])
    wd = ctx.workdir()
    quick = ctx.tier == "quick"
    measure = int(os.environ.get("C07_MEASURE", "0") or 0)
    ncases = measure or int(os.environ.get("C07_CASES", "600" if quick else "12000"))
    box = 6 if quick else 14
    seed, first, last = ctx.seed, 0, ncases
    fixed = True
    if ctx.replay:
        rp = json.load(open(ctx.replay))
        seed = rp.get("seed", seed)
        if rp.get("fixed_case") is not None:
            first = last = 0
        elif rp.get("case") is not None:
            first, last, fixed = rp["case"], rp["case"] + 1, False
    jpath, vpath = os.path.join(wd, "journal.txt"), os.path.join(wd, "verdicts.txt")
    if os.environ.get("C07_JOURNAL"):          # development aid: judge a saved journal again
        import shutil
        shutil.copy(os.environ["C07_JOURNAL"], jpath)
        fixed, first, last = False, 0, 0
    with open(jpath, "a" if os.environ.get("C07_JOURNAL") else "w") as out:
        if fixed:
            rc, o, err = ctx.run([h, "--fixed", "1", "--cpu", "3"], timeout=600)
            if rc != 0:
                ctx.fatal("harness failed rc=%s %s" % (rc, (err or "")[-500:]))
            out.write("".join("case %d\n" % (-1 - int(l.split()[1])) if l.startswith("case ") else l + "\n"
                              for l in o.splitlines()))
        if last > first:
            # several harness processes side by side (each forks one child per case)
            import concurrent.futures as cf
            nproc = 8
            step = (last - first + nproc - 1) // nproc
            parts = [(a, min(a + step, last)) for a in range(first, last, step)]

            def work(ab):
                rc, o, err = ctx.run([h, "--seed", str(seed), "--first", str(ab[0]), "--last", str(ab[1]), "--cpu", "2"],
                                     timeout=3000)
                if rc != 0:
                    ctx.fatal("harness failed rc=%s %s" % (rc, (err or "")[-500:]))
                return o
            with cf.ThreadPoolExecutor(nproc) as ex:
                for o in ex.map(work, parts):
                    out.write(o)
    rc, _, err = ctx.run([drv, "--box", str(box), "--window", "200", "--bigs", "40,70,100", "--bigbox", "3"],
                         stdin_path=jpath, stdout_path=vpath, timeout=3000)
    if rc != 0:
        ctx.fatal("driver failed rc=%s %s" % (rc, (err or "")[-500:]))

    J, recs, events = read_journal(jpath)
    V, D = {}, collections.defaultdict(list)
    for l in open(vpath):
        t = l.rstrip("\n").split(" ", 3)
        if t[0] in ("ok", "MISMATCH", "skip") and len(t) > 1 and t[1].isdigit():
            V[int(t[1])] = t
        elif t[0] == "detail":
            D[int(t[1])].append(l.rstrip("\n").split(" ", 2)[2])
    missing = [r.ln for r in recs if r.ln not in V]
    if missing:
        ctx.fatal("driver judged %d of %d trees (first missing: journal line %d)" % (len(recs) - len(missing), len(recs), missing[0]))
    unparsable = [r.ln for r in recs if V[r.ln][0] == "skip"]
    if unparsable:
        ctx.fatal("driver could not parse the tree at journal line %d: %s" % (unparsable[0], J[unparsable[0] - 1][:300]))

    hname = os.path.basename(h)

    def replay_of(rec_case, extra):
        d = {"seed": seed, "replay_cmd": "VERIF_SEED=%d bin/check C07 --replay <this file>" % seed}
        if rec_case < 0:
            d["fixed_case"] = -1 - rec_case
            d["harness_cmd"] = "build/%s --fixed 1 | lean/.lake/build/bin/pplv_pip" % hname
        else:
            d["case"] = rec_case
            d["harness_cmd"] = "build/%s --seed %d --first %d --last %d | lean/.lake/build/bin/pplv_pip --box %d" % (
                hname, seed, rec_case, rec_case + 1, box)
        d.update(extra)
        return d

    kf_cases = collections.defaultdict(set)      # finding id -> cases it excused in this run

    def report(what, replay, record, case):
        k = ctx.match_known(record)
        if k is not None:
            kf_cases[k["id"]].add(case)
        return ctx.violation(what, replay, found_input=True, record=record)

    stats = collections.Counter()
    kinds_hist, strat_hist, shape_hist = collections.Counter(), collections.Counter(), collections.Counter()
    fail_classes = collections.Counter()
    distinct, nontrivial, samples = set(), 0, []
    evals_total = unknown_total = 0
    reported = set()
    for r in recs:
        t = V[r.ln]
        info = kv(" ".join(t[2:]))
        kinds_hist[r.kind] += 1
        strat_hist["cut%s/piv%s" % (r.field("cut"), r.field("piv"))] += 1
        key = hashlib.sha256((r.prob + r.cs + r.solved.split(" ok ")[0] + r.tree).encode()).hexdigest()
        if t[0] == "ok":
            r.verdict = ("ok",)
            stats["ok"] += 1
            evals_total += int(info.get("evals", 0)); unknown_total += int(info.get("unknown", 0))
            if key not in distinct:
                distinct.add(key)
                # non-trivial: at least one valuation with a point AND (a decision node, an artificial
                # parameter or a valuation with bottom), i.e. the tree really depends on the parameters
                if int(info.get("points", 0)) > 0 and (int(info.get("nodes", 1)) > 1 or int(info.get("arts", 0)) > 0
                                                          or int(info.get("bottoms", 0)) > 0):
                    nontrivial += 1
                    shape_hist["nodes=%s" % min(int(info.get("nodes", 1)), 9)] += 1
                    if len(samples) < 3 and int(info.get("arts", 0)) > 0:
                        samples.append({"prob": r.prob, "cs": r.cs, "solved": r.solved, "tree_text": r.text[:12]})
            continue
        obl = t[2]
        r.verdict = ("MISMATCH", obl)
        stats["mismatch"] += 1
        if r.kind not in SCRATCH and r.prev is not None and r.prev.verdict is not None and r.prev.verdict[0] != "ok":
            # a history is judged up to its first failure: the state of the object is already wrong
            stats["mismatch_after_earlier_failure_of_the_same_object(not reported)"] += 1
            r.verdict = ("MISMATCH-masked", obl)
            continue
        site, tags, f = classify(r, (obl, info, D[r.ln]))
        fail_classes[(site, obl, tuple(sorted(x for x in tags if not x.startswith("obligation:"))))] += 1
        what = "%s [%s %s, case %d]: %s %s" % (site, r.kind, r.solved.split(" how ")[0].split(" ", 2)[2], r.case, obl,
                                                (t[3] if len(t) > 3 else ""))
        if D[r.ln]:
            what += " | e.g. " + D[r.ln][0]
        # one report per (case, site, obligation): the six strategies of one problem share a defect
        rk = (r.case, site, obl, tuple(tags))
        if rk in reported:
            continue
        reported.add(rk)
        report(what, replay_of(r.case, {"prob": r.prob, "cs": r.cs, "solved": r.solved, "tree": r.tree,
                                        "tree_text": r.text[:40], "details": D[r.ln][:40], "site": site, "tags": tags,
                                        "ops_since_previous_solve": r.ops,
                                        "previous_tree": r.prev.tree if r.prev else None}),
               {"site": site, "tags": tags}, r.case)

    # crashes and exceptions
    timeouts = 0
    timeouts_first = []       # under PIVOT_ROW_STRATEGY_FIRST (the endless loop of KF-C07-9 cannot be the cause)
    for e in events:
        w = e["what"]
        if w.startswith("crash SIGXCPU"):
            timeouts += 1
            stats["timeout(inconclusive)"] += 1
            if e["ops"] and " piv 0" in e["ops"][-1]:
                timeouts_first.append(e)
            continue
        if w.startswith("exc "):
            stats["exception"] += 1
        else:
            stats["crash"] += 1
        last_op = e["ops"][-1] if e["ops"] else "?"
        incr = e["prev"] is not None
        site = ("crash:" if w.startswith("crash") else "exception:") + ("incremental" if incr else "from-scratch")
        tags = []
        if " piv 1" in last_op:
            # Tableau::is_better_pivot is only reached under PIVOT_ROW_STRATEGY_MAX_COLUMN
            tags.append("pivot_row_strategy_max_column")
        if incr and any(r.verdict is not None and r.verdict[0] != "ok" for r in e["recs"]):
            stats["crash_after_earlier_failure_of_the_same_object(not reported)"] += 1
            continue
        if incr:
            # memory damage may surface later than the solve that did it (even in the destructor): the structural
            # facts of every re-solve of this object so far, and of the one in progress, are collected
            for r in e["recs"]:
                if r.prev is not None:
                    d2, p2, new_rows = added_rows(r)
                    tags += [x for x in history_tags(r.prev, d2, p2, new_rows, r.ops) if x not in tags]
            if e["prob"] and e["cs"] and last_op != "destroy" and (e["prob"], e["cs"]) != (e["prev"].prob, e["prev"].cs):
                dim, params, big, rows = parse_rows(e["prob"], e["cs"])
                pdim, pparams, pbig, prows = parse_rows(e["prev"].prob, e["prev"].cs)
                tags += [x for x in history_tags(e["prev"], dim, params, rows[len(prows):], e["ops"]) if x not in tags]
        fail_classes[(site, w, tuple(tags))] += 1
        report("%s [case %d] %s during `%s`" % (site, e["case"], w, last_op),
               replay_of(e["case"], {"event": w, "ops": e["ops"], "prob": e["prob"], "cs": e["cs"], "site": site, "tags": tags,
                                     "previous_tree": e["prev"].tree if e["prev"] else None}),
               {"site": site, "tags": tags}, e["case"])

    # A single solve that hits the CPU limit is inconclusive (DESIGN §4 (viii)).  A solver that stops returning on a
    # sizeable share of the problems is not: on the clean tree about 1 solve in 15 000 under PIVOT_ROW_STRATEGY_FIRST hits
    # the limit (CPU time of the child, so machine load cannot cause it).
    n_first = sum(1 for r in recs if r.field("piv") == "0") + len(timeouts_first)
    if len(timeouts_first) >= max(10, n_first // 100):
        e = timeouts_first[0]
        ctx.violation("solve() does not return within the CPU limit on %d of %d solves under PIVOT_ROW_STRATEGY_FIRST "
                      "(clean tree: < 0.1 %%); first: case %d during `%s`" % (len(timeouts_first), n_first, e["case"], e["ops"][-1]),
                      replay_of(e["case"], {"event": e["what"], "ops": e["ops"], "prob": e["prob"], "cs": e["cs"],
                                            "site": "timeout-rate", "tags": []}),
                      found_input=True, record={"site": "timeout-rate", "tags": []})

    # Known findings excuse the cases that fall into their class; a code change that multiplies such cases must not
    # hide behind them.  Budget per finding = max(floor, factor x the share of cases measured on the unchanged tree
    # over 40 000 cases); exceeding it is reported as a violation of its own (not excusable).
    ngen = max(1, len(set(r.case for r in recs if r.case >= 0)))
    src_hash = pip_source_hash()
    shares = load_shares()
    if measure:
        ent = shares.setdefault(src_hash, {"cases": 0, "seeds": [], "counts": {}})
        if seed not in ent["seeds"]:
            ent["seeds"].append(seed)
            ent["cases"] += ngen
            for kid, cases in kf_cases.items():
                ent["counts"][kid] = ent["counts"].get(kid, 0) + len([c for c in cases if c >= 0])
            with open(KF_SHARES_FILE, "w") as f:
                json.dump(shares, f, indent=1, sort_keys=True)
        print("measured: source state %s, %d cases at seed %d: %s" % (src_hash, ngen, seed, {k: len(v) for k, v in sorted(kf_cases.items())}))
    entry = shares.get(src_hash)
    budgets = {}
    for kid, cases in sorted(kf_cases.items()):
        budget, share = budget_of(kid, ngen, entry)
        budgets[kid] = budget
        if len(cases) > budget and not measure:
            c0 = sorted(cases)[0]
            ctx.violation("known finding %s matches %d of %d cases in this run; this source state produces about %.2f %% "
                          "(budget %d): the class of failures has grown" % (kid, len(cases), ngen, 100 * share, budget),
                          replay_of(c0, {"finding": kid, "cases": sorted(cases)[:50]}), found_input=True, record=None)
    ctx.cov["known_finding_budgets"] = {"source_state": src_hash, "measured_cases": (entry or {}).get("cases", 0),
                                        "budgets_of_findings_met": budgets}
    ctx.cov["known_finding_cases"] = {k: len(v) for k, v in kf_cases.items()}

    if not ctx.replay and not os.environ.get("C07_JOURNAL") and not measure:
        broken += c07_core.run(ctx)        # stage 2: the solver core (tableau, pivot, signs, lexicographic choice, split, cuts)
    for b in broken:
        ctx.violation("proof obligation broken: " + b, {"obligation": b}, found_input=False)

    ctx.cov.update({
        "evaluations": len(recs), "distinct_nontrivial": nontrivial,
        "rule": "one evaluation = one solve of the real PIP_Problem whose tree was judged at every valuation of the box [0,%d]^p "
                "inside the context; distinct by hash of (problem data, strategy, entry point, tree); non-trivial = the reference "
                "has a point at some valuation and the tree has a decision node, an artificial parameter or a bottom valuation" % box,
        "samples": samples, "traces_validated_against_impl": len(recs),
        "valuations_compared": evals_total, "valuations_reference_unknown": unknown_total,
        "cases": ncases, "solve_kinds": dict(kinds_hist), "strategies": dict(strat_hist), "tree_sizes_nontrivial": dict(shape_hist),
        "outcomes": dict(stats), "timeouts_inconclusive": timeouts,
        "failure_classes": [{"site": k[0], "obligation": k[1], "tags": list(k[2]), "count": v} for k, v in fail_classes.most_common(40)],
    })
    ctx.assumptions += [
        "parameter valuations are sampled from the box [0,%d]^p (big parameter: 40, 70, 100 — a mismatch counts only if it persists at the two largest values)" % box,
        "the reference answers `unknown` when a coordinate is unbounded in the relaxation and no point is found in the window (200): such valuations are skipped and counted",
        "UNFEASIBLE is only refuted (a valuation of the box with a point); OPTIMIZED with a tree that is bottom everywhere is not judged",
        "a solve that exceeds the CPU limit is inconclusive (DESIGN §4 (viii)); the simplex/cut algorithm itself is not modelled (stage 2 proves the cut formula only)",
    ]


def replay(ctx, path):
    """re-run the recorded case (or the fixed corpus) on the real library of the current tree and judge it again"""
    ctx.replay = path
    run(ctx)
    print("replay: %d violation(s), %d known finding(s) met" % (len(ctx.violations), len(ctx.known_hits)))
    return 1 if ctx.violations else 0
