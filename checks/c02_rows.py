"""C02 stage 2 — the row-level IMPLEMENTATIONS of the Polyhedron operators (helper of checks/c02.py).

proof:  PPLV.Props.C02Rows — for every modelled operator (`Polyhedron::affine_image/affine_preimage`,
        add_space_dimensions_and_embed/_project, remove_(higher_)space_dimensions, map_space_dimensions,
        expand_space_dimension, fold_space_dimensions, concatenate_assign, intersection_assign,
        poly_hull_assign, time_elapse_assign, topological_closure_assign, unconstrain,
        generalized_affine_image for the non-strict relation symbols) the code-shaped
        model of what the C++ does to the raw pair (con_sys rows, gen_sys rows, status word)
        (lean/PPLV/PolyOps/*.lean) leaves descriptions that denote the already verified reference
        operator (PPLV/Lin/Ops.lean, Ops2.lean — C02 stage 1) applied to the set denoted before.
tie:    harness/c02_rows.cc reads con_sys / gen_sys / status of the receiver (and the argument) RAW
        (`#define private public`), before and after one public call, in every lazy state; the native
        driver pplv_polyops replays the model from the observed pre-state and demands the same dimension,
        status word, number of pending rows and the same rows (multisets of raw rows, no
        re-normalisation; sets only where the code itself sorts and removes duplicates), and checks the
        theorem's conclusion on the real rows with K1 (equivB / checkDD / isEmptyB).
verdicts: a row difference together with a wrong SET on that input is a violation of C02 with the case
        as replay; a row difference whose set is right is a broken correspondence: the operator is
        searched with a focused batch for an input on which the set is wrong (found: violation with
        replay; not found: VIOLATION … no-failing-input-found).
"""
import collections, concurrent.futures as cf, hashlib, os, re, shutil
from .common import BUILD

PROPS = ["PPLV.Props.C02Rows"]
OPS = ["affine_image", "affine_preimage", "embed", "project", "remove", "remove_higher", "map", "expand", "fold",
       "concat", "intersection", "hull", "time_elapse", "closure", "unconstrain", "gen_affine_image"]
CXX = {"embed": "add_space_dimensions_and_embed", "project": "add_space_dimensions_and_project",
       "remove": "remove_space_dimensions", "remove_higher": "remove_higher_space_dimensions",
       "map": "map_space_dimensions", "expand": "expand_space_dimension", "fold": "fold_space_dimensions",
       "concat": "concatenate_assign", "intersection": "intersection_assign", "hull": "poly_hull_assign",
       "time_elapse": "time_elapse_assign", "closure": "topological_closure_assign",
       "gen_affine_image": "generalized_affine_image"}


def _run_cases(ctx, h, drv, wd, tag, first, last, op=None, nproc=14):
    """-> (journal lines by case id, verdict lines)"""
    per = max(1, (last - first + nproc - 1) // nproc)
    jobs = [(a, min(last, a + per)) for a in range(first, last, per)]

    def work(j):
        a, b = j
        jp = os.path.join(wd, "%s-%d.journal" % (tag, a))
        cmd = [h, "--seed", str(ctx.seed), "--first", str(a), "--last", str(b), "--batch", "25", "--maxdim", "3"]
        if op is not None:
            cmd += ["--op", str(op)]
        rc, _, err = ctx.run(cmd, stdout_path=jp, timeout=1200)
        if rc != 0:
            ctx.fatal("harness c02_rows failed rc=%s %s" % (rc, (err or "")[-400:]))
        rc, out, err = ctx.run([drv], stdin_path=jp, timeout=2400)
        if rc != 0:
            ctx.fatal("driver pplv_polyops failed rc=%s %s" % (rc, (err or "")[-400:]))
        return open(jp).read().splitlines(), out.splitlines(), cmd

    journal, verdicts, cmds = {}, [], []
    with cf.ThreadPoolExecutor(nproc) as ex:
        for jl, vl, cmd in ex.map(work, jobs):
            for l in jl:
                t = l.split(None, 2)
                if len(t) > 1 and t[0] == "case":
                    journal[t[1]] = l
            verdicts += vl
            cmds.append(cmd)
    return journal, verdicts, cmds


def _field(toks, key):
    return next((x[len(key):] for x in toks if x.startswith(key)), "")


def run(ctx):
    """returns the list of broken proof obligations (the caller reports them)."""
    broken = ctx.prove(PROPS)
    quick = ctx.tier == "quick"
    if not quick:
        broken += ctx.leanchecker(PROPS)
    drv = ctx.ensure_pplv("pplv_polyops")
    h = ctx.compile_harness("c02_rows.cc")
    wd = os.path.join(BUILD, "run-%s-rows-%d" % (ctx.pid, os.getpid()))
    shutil.rmtree(wd, ignore_errors=True)
    os.makedirs(wd)
    n_cases = 3200 if quick else 64000
    import time
    t0 = time.time()
    journal, verdicts, _ = _run_cases(ctx, h, drv, wd, "main", 0, n_cases)
    t_run = time.time() - t0

    per_op = collections.defaultdict(collections.Counter)     # op -> kind of comparison -> count
    states = collections.Counter()                            # (op, pre-status) -> count
    dims = collections.Counter()
    distinct = set()
    n_ok = n_conv = n_empty = n_sem = 0
    row_bad, sem_bad = collections.defaultdict(list), collections.defaultdict(list)
    other_bad = []
    for l in verdicts:
        t = l.split()
        if not t:
            continue
        if t[0] == "ok":
            n_ok += 1
            op = t[2]
            rows, sem = _field(t, "rows="), _field(t, "sem=")
            kind = "conversion-path(not replayed)" if rows == "conv" else "marked-empty" if rows == "empty" else \
                   "rows:" + (lambda ks: "set" if "set" in ks else "multiset" if "mset" in ks else "ordered")(re.findall(r"=([a-z]+|-)", rows))
            per_op[op][kind] += 1
            per_op[op]["sem:" + sem] += 1
            n_conv += rows == "conv"
            n_empty += rows == "empty"
            n_sem += sem == "ok"
            states[(op, _field(t, "pre="))] += 1
            dims[_field(t, "dim=")] += 1
            jl = journal.get(t[1])
            if jl and rows not in ("conv", "empty"):
                distinct.add(hashlib.sha256(jl.split(None, 2)[2].encode()).hexdigest()[:16])
        elif t[0] == "MISMATCH":
            if len(t) > 3 and t[2] == "rows":
                (sem_bad if "sem=BAD" in l else row_bad)[t[3]].append((t[1], l))
            elif len(t) > 3 and t[2] == "sem":
                sem_bad[t[3]].append((t[1], l))
            else:
                other_bad.append((t[1] if len(t) > 1 else "?", l))

    def site(op):
        return "rows:" + CXX.get(op, op)

    def report(op, cid, line, jl, found, extra=""):
        cmd = "harness c02_rows --seed %d --first %s --last %d%s | pplv_polyops" % (ctx.seed, cid, int(cid) + 1 if cid.isdigit() else 0, extra)
        what = ("row-level %s: %s | %s" % (CXX.get(op, op),
                "the result rows differ from the model AND do not denote the documented set" if found and " rows " in line
                else "the result does not denote the documented set" if found
                else "the result rows differ from the code-shaped model (broken correspondence; no input found on which the set is wrong)",
                line[:700]))
        ctx.violation(what, {"case": jl, "history": [jl], "driver": "pplv_polyops", "verdict": line, "site": site(op), "replay_cmd": cmd},
                      found_input=found, record={"site": site(op), "tags": ["set_wrong" if found else "rows_differ"]})

    # a wrong set on a concrete input: the property is violated there
    for op, lst in sorted(sem_bad.items()):
        cid, line = lst[0]
        report(op, cid, line, journal.get(cid, ""), True)
    # rows differ, set right on all such inputs: search the operator for a failing input
    for op, lst in sorted(row_bad.items()):
        if op in sem_bad:
            continue
        cid, line = lst[0]
        found = None
        if op in OPS:
            j2, v2, _ = _run_cases(ctx, h, drv, wd, "focus-" + op, 10_000_000, 10_000_000 + (3000 if quick else 30000),
                                   op=OPS.index(op))
            for l2 in v2:
                if l2.startswith("MISMATCH") and "sem=BAD" in l2:
                    found = (l2.split()[1], l2, j2.get(l2.split()[1], ""))
                    break
        if found:
            report(op, found[0], found[1], found[2], True, extra=" --op %d" % OPS.index(op))
        else:
            report(op, cid, line, journal.get(cid, ""), False)
    for cid, line in other_bad[:5]:
        ctx.violation("row-level operators: " + line[:600], {"case": journal.get(cid, ""), "verdict": line, "site": "rows:crash"},
                      found_input=True, record={"site": "rows:other", "tags": ["crash_or_exception"]})

    ctx.cov["rows"] = {
        "cases": len(journal), "harness_and_driver_wall_s": round(t_run, 1), "verdict_ok": n_ok, "rows_replayed": n_ok - n_conv - n_empty,
        "conversion_paths_not_replayed": n_conv, "marked_empty_results": n_empty, "conclusion_checked_with_K1": n_sem,
        "distinct_replayed_cases": len(distinct),
        "row_mismatches": sum(len(v) for v in row_bad.values()), "set_mismatches": sum(len(v) for v in sem_bad.values()),
        "per_operator": {op: dict(c) for op, c in sorted(per_op.items())},
        "pre_status_words_per_operator": {op: sorted({s for (o, s) in states if o == op}) for op in sorted(per_op)},
        "dimension_histogram": dict(dims),
        "rule": "one public call per case on a receiver (and argument) forced into one of 7 lazy states (only constraints / only "
                "generators / both minimized / + pending constraint / + pending generator / marked empty / both, sorted by the "
                "observers), dimension 0-3 (results up to 5), both topologies; replayed = the model reproduces dimension, the 9 "
                "status flags, the number of pending rows and the raw rows (ordered / as multisets; as sets only on merge / sort "
                "paths); conclusion = every description the real post-status declares valid is K1-equivalent to the reference "
                "operator applied to the pre-state's set; status word = E CU GU CM GM SC SG CP GP",
    }
    ctx.assumptions += [
        "row-level operators: the Chernikova conversion (minimize, process_pending_*, update_*) is not part of these models "
        "(a path that calls it is judged by its result only); sortedness flags of intermediate systems are followed only where "
        "the code derives them without comparing rows",
    ]
    return broken
