"""C05 stage 3 — the Grid class itself inside the Lean model (helper of checks/c05.py).

proof:  PPLV.Props.C05Ops over the code-shaped model of the Grid object (raw congruence rows, raw generator rows,
        dim_kinds, status flags) and of every public operation.
tie:    harness/c05_ops.cc runs seeded histories over a pool of REAL Grids and journals, for EVERY operation, the RAW
        private state of the receiver (and of the argument Grid) before and after the call, the raw arguments and the
        returned value (format: the header of harness/c05_ops.cc).  The native driver pplv_gridops replays the model
        from the journalled raw pre-state and prints one verdict per event:
            ok <id> <opname> <tags…> | skip <id> <opname> <why…> | MISMATCH <id> <obligation> <opname> <detail…>
        obligation: state / modelret (model and code differ), sem (the REAL post-state does not denote the reference
        result), ret (the REAL answer differs from the K2 reference answer), inv (the REAL post-state breaks the
        invariant: flags not truthful).
`sem` / `ret` / `inv` / a crash are violations of the property with the journalled event as the concrete input;
`state` / `modelret` alone is a broken correspondence (VIOLATION … no-failing-input-found).
"""
import collections, json, os, re, shutil
from .common import BUILD, LEAN

PROPS = ["PPLV.Props.C05Ops"]
DRIVER = "pplv_gridops"
HARNESS = "c05_ops.cc"
HIST_ID = 10000                      # id = history * HIST_ID + running number (harness/c05_ops.cc)
MAX_REPORTS = 10                     # violations written per (obligation class, opname); all are counted

# status.flags (Grid_Status_idefs.hh:137); ZERO_DIM_UNIV is flags == 0
EMPTY, C_UP, G_UP, C_MIN, G_MIN, SAT_C, SAT_G, CS_PEND, GS_PEND = (1 << i for i in range(9))

# ------------------------------------------------------------------------------------------------ journal grammar
# argument kinds: i integer, EXPR, CG, CGS, GEN, GS, CON, CS, VARS, PF
CONSTRUCTORS = {"new_univ": "i", "new_empty": "i", "new_cgs": "CGS", "new_gens": "GS", "new_cs": "CS"}
STATIC = {"normalize_divisors": "GS", "normalize_divisors2": "GS GS"}            # no receiver at all
LAZY = {k: "" for k in ("minimize", "update_congruences", "update_generators", "congruences", "minimized_congruences",
                        "grid_generators", "minimized_grid_generators", "is_empty", "set_empty", "set_zero_dim_univ")}
MUTATORS = {
    "add_congruence": "CG", "refine_with_congruence": "CG",
    "add_congruences": "CGS", "refine_with_congruences": "CGS", "add_recycled_congruences": "CGS",
    "add_constraint": "CON", "refine_with_constraint": "CON",
    "add_constraints": "CS", "refine_with_constraints": "CS", "add_recycled_constraints": "CS",
    "add_grid_generator": "GEN", "add_grid_generators": "GS", "add_recycled_grid_generators": "GS",
    "intersection_assign": "", "upper_bound_assign": "", "difference_assign": "", "time_elapse_assign": "",
    "concatenate_assign": "", "upper_bound_assign_if_exact": "",
    "affine_image": "i EXPR i", "affine_preimage": "i EXPR i",
    "generalized_affine_image_var": "i i EXPR i i", "generalized_affine_preimage_var": "i i EXPR i i",
    "generalized_affine_image_lr": "EXPR i EXPR i", "generalized_affine_preimage_lr": "EXPR i EXPR i",
    "bounded_affine_image": "i EXPR EXPR i", "bounded_affine_preimage": "i EXPR EXPR i",
    "unconstrain_var": "i", "unconstrain_set": "VARS",
    "add_space_dimensions_and_embed": "i", "add_space_dimensions_and_project": "i",
    "remove_space_dimensions": "VARS", "remove_higher_space_dimensions": "i",
    "map_space_dimensions": "PF", "expand_space_dimension": "i i", "fold_space_dimensions": "VARS i",
    "m_swap": "", "topological_closure_assign": "", "copy": "", "assign": "",
}
OBSERVERS = {
    "contains": "", "strictly_contains": "", "equals": "", "is_disjoint_from": "", "is_included_in": "",
    "quick_equivalence_test": "", "relation_with_cg": "CG", "relation_with_gen": "GEN", "relation_with_con": "CON",
    "is_universe": "", "is_discrete": "", "is_bounded": "", "is_topologically_closed": "", "contains_integer_point": "",
    "affine_dimension": "", "space_dimension": "", "constrains": "i", "bounds_from_above": "EXPR", "bounds_from_below": "EXPR",
    "maximize": "EXPR", "minimize_expr": "EXPR", "frequency": "EXPR", "OK": "",
}
BINARY = {"intersection_assign", "upper_bound_assign", "difference_assign", "time_elapse_assign", "concatenate_assign",
          "upper_bound_assign_if_exact", "m_swap", "assign", "contains", "strictly_contains", "equals", "is_disjoint_from",
          "is_included_in", "quick_equivalence_test"}
ARGS = {}
for _d in (CONSTRUCTORS, STATIC, LAZY, MUTATORS, OBSERVERS):
    ARGS.update(_d)
# ret kinds: "" none, b 0|1, n natural, tvb 0|1|2, rel 4 chars, mm `0` | `1 num den incl`, fr `0` | `1 fn fd vn vd`
RET = {k: "" for k in ARGS}
RET.update({k: "b" for k in ("minimize", "update_generators", "is_empty", "upper_bound_assign_if_exact", "contains",
                             "strictly_contains", "equals", "is_disjoint_from", "is_included_in", "relation_with_gen",
                             "is_universe", "is_discrete", "is_bounded", "is_topologically_closed", "contains_integer_point",
                             "constrains", "bounds_from_above", "bounds_from_below", "OK")})
RET.update({"quick_equivalence_test": "tvb", "relation_with_cg": "rel", "relation_with_con": "rel", "affine_dimension": "n",
            "space_dimension": "n", "maximize": "mm", "minimize_expr": "mm", "frequency": "fr",
            "normalize_divisors": "GS", "normalize_divisors2": "GS GS"})


def family(op):
    if op in CONSTRUCTORS:
        return "constructor"
    if op in LAZY or op in STATIC:
        return "lazy"
    if op in OBSERVERS:
        return "observer"
    return "mutator"


# sites as the existing known findings (checks/c05.py) name them
SITE = {"relation_with_cg": "relation_with(Congruence)", "relation_with_con": "relation_with(Constraint)",
        "relation_with_gen": "relation_with(Grid_Generator)", "maximize": "maximize/minimize", "minimize_expr": "maximize/minimize",
        "bounds_from_above": "bounds_from_above/below", "bounds_from_below": "bounds_from_above/below", "equals": "operator==",
        "copy": "copy_constructor", "assign": "operator=", "add_grid_generators": "add_recycled_grid_generators"}


class ParseError(Exception):
    pass


class Tok:
    def __init__(self, toks, pos=0):
        self.t, self.i = toks, pos

    def int(self):
        if self.i >= len(self.t):
            raise ParseError("unexpected end of line")
        s = self.t[self.i]
        self.i += 1
        try:
            return int(s)
        except ValueError:
            raise ParseError("not an integer: %r" % s)

    def nat(self):
        v = self.int()
        if v < 0:
            raise ParseError("negative count %d" % v)
        return v

    def lit(self, w):
        if self.i >= len(self.t) or self.t[self.i] != w:
            raise ParseError("expected %r at token %d" % (w, self.i))
        self.i += 1

    def ints(self, n):
        return [self.int() for _ in range(n)]

    def done(self):
        if self.i != len(self.t):
            raise ParseError("%d trailing tokens" % (len(self.t) - self.i))


def p_row(t):               # <first> <len> e_0 … : (first, entries)
    a = t.int()
    return a, t.ints(t.nat())


def p_sys(t):               # <dim> <nrows> rows
    d = t.nat()
    return d, [p_row(t) for _ in range(t.nat())]


def p_expr(t):              # <sd> <b> a…
    sd = t.nat()
    b = t.int()
    return sd, b, t.ints(sd)


def p_con(t):               # <kind> <inconsistent> <tautological> <sd> <b> a…
    kind, inc, taut = t.nat(), t.nat(), t.nat()
    if kind > 2 or inc > 1 or taut > 1:
        raise ParseError("bad constraint header")
    return (kind, inc, taut) + p_expr(t)


def p_cs(t):
    sd = t.nat()
    return sd, [p_con(t) for _ in range(t.nat())]


def p_list(t):
    return t.ints(t.nat())


def p_arg(kind, t):
    if kind == "i":
        return t.int()
    if kind == "EXPR":
        return p_expr(t)
    if kind in ("CG", "GEN"):
        return p_row(t)
    if kind in ("CGS", "GS"):
        return p_sys(t)
    if kind == "CON":
        return p_con(t)
    if kind == "CS":
        return p_cs(t)
    if kind in ("VARS", "PF"):
        return p_list(t)
    raise ParseError("argument kind " + kind)


def p_state(t):
    """<space_dim> <flags> C <cdim> <nrows> {<modulus> <len> e…}* G <gdim> <nrows> {<isline> <len> e…}* K <len> k… X <ifp> <sorted>"""
    st = {"dim": t.nat(), "flags": t.nat()}
    t.lit("C")
    st["cdim"], st["crows"] = p_sys(t)
    t.lit("G")
    st["gdim"], st["grows"] = p_sys(t)
    t.lit("K")
    st["kinds"] = p_list(t)
    t.lit("X")
    st["ifp"], st["sorted"] = t.nat(), t.nat()
    for (m, e) in st["crows"]:
        if len(e) != st["cdim"] + 1:
            raise ParseError("congruence row of %d entries in a system of dimension %d" % (len(e), st["cdim"]))
    for (l, e) in st["grows"]:
        if len(e) != st["gdim"] + 2 or l not in (0, 1):
            raise ParseError("generator row of %d entries in a system of dimension %d" % (len(e), st["gdim"]))
    if any(k not in (0, 1, 2) for k in st["kinds"]) or st["sorted"] > 1:
        raise ParseError("bad dim_kinds / sorted")
    return st


def p_ret(kind, toks):
    t = Tok(toks)
    if kind == "b":
        v = t.nat()
        if v > 1:
            raise ParseError("boolean ret %d" % v)
    elif kind == "tvb":
        v = t.nat()
        if v > 2:
            raise ParseError("tvb ret %d" % v)
    elif kind == "n":
        v = t.nat()
    elif kind == "rel":
        v = toks[0] if toks else ""
        if not re.fullmatch(r"[01]{4}", v):
            raise ParseError("relation ret %r" % v)
        t.i = 1
    elif kind in ("mm", "fr"):
        ok = t.nat()
        v = (ok,) + tuple(t.ints(0 if ok == 0 else (3 if kind == "mm" else 4)))
        if ok > 1:
            raise ParseError("bad ret")
    elif kind == "GS":
        v = p_sys(t)
    elif kind == "GS GS":
        v = (p_sys(t), p_sys(t))
    else:
        raise ParseError("unexpected ret")
    t.done()
    return v


class Event:
    __slots__ = ("id", "op", "args", "pre", "post", "ret", "exc", "lines", "complete", "aux", "lineno")

    def __init__(self):
        self.pre, self.post, self.ret, self.exc, self.lines, self.complete, self.aux = {}, {}, None, None, [], False, {}

    @property
    def hist(self):
        return self.id // HIST_ID


def parse_event(ev, full=True):
    """parse (and validate against the grammar) the lines of one event block; raises ParseError"""
    head = ev.lines[0].split(" ")
    if len(head) < 3 or head[0] != "ev":
        raise ParseError("bad ev line")
    ev.id, ev.op = int(head[1]), head[2]
    if ev.op not in ARGS:
        raise ParseError("unknown opname " + ev.op)
    t = Tok(head, 3)
    ev.args = [p_arg(k, t) for k in ARGS[ev.op].split()]
    t.done()
    want_pre = []
    if ev.op not in CONSTRUCTORS and ev.op not in STATIC and ev.op != "copy":
        want_pre.append("x")
    if ev.op in BINARY or ev.op == "copy":
        want_pre.append("y")
    i = 1
    for w in want_pre:
        if i >= len(ev.lines) or not ev.lines[i].startswith("pre %s " % w):
            raise ParseError("missing `pre %s`" % w)
        tt = Tok(ev.lines[i].split(" "), 2)
        ev.pre[w] = p_state(tt)
        tt.done()
        i += 1
    if not ev.complete:
        if i != len(ev.lines):
            raise ParseError("lines after the pre-states of an unfinished event")
        return ev
    if i < len(ev.lines) and ev.lines[i].startswith("exc "):
        ev.exc = ev.lines[i].split(" ", 1)[1]
        i += 1
    want_post = [] if ev.op in STATIC else (["x"] if not (ev.exc and (ev.op in CONSTRUCTORS or ev.op == "copy")) else [])
    if ev.op in BINARY or ev.op == "copy":
        want_post.append("y")
    for w in want_post:
        if i >= len(ev.lines) or not ev.lines[i].startswith("post %s " % w):
            raise ParseError("missing `post %s`" % w)
        tt = Tok(ev.lines[i].split(" "), 2)
        ev.post[w] = p_state(tt)
        tt.done()
        i += 1
    if not ev.exc and RET[ev.op]:
        if i >= len(ev.lines) or not ev.lines[i].startswith("ret "):
            raise ParseError("missing ret")
        ev.ret = p_ret(RET[ev.op], ev.lines[i].split(" ")[1:])
        i += 1
    if i >= len(ev.lines) or ev.lines[i] != "end %d" % ev.id:
        raise ParseError("expected `end %d`, got %r" % (ev.id, ev.lines[i][:60] if i < len(ev.lines) else None))
    if i + 1 != len(ev.lines):
        raise ParseError("lines after end")
    return ev


def read_journal(path):
    """-> (events, crashes, stray): events in order (complete or cut by a crash); crashes = [(signal text, event or None)]"""
    events, crashes, stray = [], [], []
    cur, aux = None, {}
    with open(path) as f:
        for n, line in enumerate(f, 1):
            line = line.rstrip("\n")
            kw = line.split(" ", 1)[0]
            if kw == "ev":
                if cur is not None:
                    stray.append((n, "ev inside an open event"))
                cur = Event()
                cur.lineno = n
                cur.lines.append(line)
                cur.aux, aux = aux, {}
                events.append(cur)
            elif kw == "aux":
                aux = dict(x.split("=", 1) for x in line.split(" ")[2:])
                aux["id"] = line.split(" ")[1]
            elif kw == "hist":
                if cur is not None:
                    stray.append((n, "hist inside an open event"))
            elif kw == "crash":
                crashes.append((line, cur))
                cur = None
            elif kw == "end" and line == "end":
                pass                                  # the bare `end` pplv::run_batches prints after a crash line
            elif cur is not None:
                cur.lines.append(line)
                if kw == "end":
                    cur.complete = True
                    cur = None
            elif line:
                stray.append((n, "line outside any event: " + line[:60]))
    if cur is not None:
        stray.append((cur.lineno, "journal ends inside an event"))
    return events, crashes, stray


# ------------------------------------------------------------------------------------------------ state predicates
def flag_class(st, truly_empty=None):
    f = st["flags"]
    if f & EMPTY:
        return "marked_empty"
    if st["dim"] == 0:
        return "zero_dim_universe"
    s = {C_UP: "c-only", G_UP: "g-only", C_UP | G_UP: "c+g"}.get(f & (C_UP | G_UP), "neither")
    if f & C_MIN:
        s += " Cmin"
    if f & G_MIN:
        s += " Gmin"
    if f & (CS_PEND | GS_PEND | SAT_C | SAT_G):
        s += " pending/sat"
    if truly_empty:
        s += " EMPTY-UNDETECTED"
    return s


def first_point_divisor(st):
    for (l, e) in st["grows"]:
        if l == 0 and e and e[0] != 0:
            return e[0]
    return None


def mixed_divisors(st):
    """up-to-date generators whose points / parameters do not share one divisor: a state no correct operation produces
    (Grid keeps gen_sys normalised); on the unchanged tree only known findings produce it"""
    if st is None or st["flags"] & EMPTY or not st["flags"] & G_UP or st["dim"] == 0:
        return False
    return len(set((e[0] if e[0] != 0 else e[-1]) for (l, e) in st["grows"] if l == 0)) > 1


def some_divisor_ne_1(st):
    return st is not None and not st["flags"] & EMPTY and bool(st["flags"] & G_UP) and \
        any(abs(e[0] if e[0] != 0 else e[-1]) != 1 for (l, e) in st["grows"] if l == 0)


def trivially_inconsistent(st):
    """a congruence row 0 = b (mod m) that no point satisfies"""
    for (m, e) in st["crows"]:
        if e and not any(e[1:]):
            if (m == 0 and e[0] != 0) or (m != 0 and e[0] % m != 0):
                return True
    return False


def event_tags(ev):
    """predicates of the input of an event, named as the known findings of checks/c05.py name them"""
    tags = []
    x = ev.pre.get("x")
    if x is not None:
        f = x["flags"]
        if x["dim"] == 0:
            tags.append("zero_dim")
            if not f & EMPTY:
                tags.append("zero_dim_universe")
        if f & EMPTY:
            tags.append("receiver_empty")
        elif ev.aux.get("xe") == "1" or (f & C_UP and not f & C_MIN and trivially_inconsistent(x)):
            tags.append("receiver_empty_not_yet_detected")
        if f & G_MIN:
            tags.append("generators_minimized")
        gens_live = not f & EMPTY and x["dim"] > 0 and f & G_UP
        if gens_live:
            d = first_point_divisor(x)
            if d is not None and abs(d) != 1:
                tags.append("point_divisor_ne_1")
            if x["grows"] and (x["grows"][0][0] == 1 or x["grows"][0][1][0] == 0):
                tags.append("first_generator_not_a_point")
            zl = sum(1 for (l, e) in x["grows"] if l == 1 and not any(e[1:-1]))
            zq = sum(1 for (l, e) in x["grows"] if l == 0 and e[0] == 0 and not any(e[1:-1]))
            if zl:
                tags.append("zero_line_in_gen_sys")
            if zl or zq:
                tags.append("zero_generator_in_gen_sys")
            if not f & C_UP:
                tags.append("gens_up_to_date_cons_not")
    y = ev.pre.get("y")
    if y is not None and y["flags"] & EMPTY:
        tags.append("source_empty" if ev.op in ("copy", "assign") else "argument_empty")
    op = ev.op
    if ev.exc:
        tags.append("threw")
        if (x is not None and ev.post.get("x") != x) or (y is not None and ev.post.get("y") != y):
            tags.append("state_changed_before_throw")
    if op == "relation_with_cg" and ev.args[0][0] != 0:
        tags.append("proper_congruence")
    if op in ("frequency", "maximize", "minimize_expr") and ev.args[0][1] != 0:
        tags.append("inhomogeneous_ne_0")
        if "zero_dim" in tags:
            tags.append("zero_dim_inhomogeneous_ne_0")
        if "point_divisor_ne_1" in tags:
            tags.append("point_divisor_ne_1_and_inhomogeneous_ne_0")
    if op == "relation_with_con" and ev.args[0][0] == 2 and x is not None and ev.args[0][3] < x["dim"]:
        # the epsilon coefficient of the strict inequality meets coordinate c.space_dimension() of the generators
        tags.append("strict_inequality_of_smaller_dimension")
    if op == "relation_with_con" and ev.args[0][0] != 0:
        tags.append("inequality")
        # KF-C05-26: a point after the first one has a zero coefficient where the first point has a non-zero one:
        # linear_combine inserts into the sparse row and the reference `g_div` into that row dangles
        stp = ev.post.get("x") if (x is not None and not x["flags"] & G_UP) else x
        if stp and not stp["flags"] & EMPTY and stp["flags"] & G_UP:
            pts = [e for (l, e) in (x["grows"] if x["flags"] & G_UP else []) if l == 0 and e[0] != 0]
            if len(pts) >= 2 and any(p[i] == 0 and pts[0][i] != 0 for p in pts[1:] for i in range(1, len(p) - 1)):
                tags.append("inequality_and_later_point_zero_where_first_point_nonzero")
        # KF-C05-16: the const observer rewrites gen_sys; visible when the common divisor is not 1 (read after the call
        # when the generators were only brought up to date by the call itself)
        st = ev.post.get("x") or x
        d = first_point_divisor(st) if st and not st["flags"] & EMPTY and st["flags"] & G_UP else None
        if d is not None and abs(d) != 1:
            tags.append("inequality_and_point_divisor_ne_1_state_rewritten")
    if op in ("generalized_affine_image_var", "generalized_affine_preimage_var"):
        v, rel, (sd, b, a), d, m = ev.args
        c = a[v] if 0 <= v < sd else 0
        if rel == 2 and m != 0 and c != 0 and abs(c) != abs(d):
            tags.append("modulus_ne_0_and_var_coefficient_ne_denominator")
        tags.append("relsym_EQUAL" if rel == 2 else "relsym_other")
        tags.append("invertible" if c != 0 else "non_invertible")
    if op in ("add_grid_generators", "add_recycled_grid_generators") and x is not None:
        gdim, rows = ev.args[0]
        if gdim == 0 and rows and x["dim"] > 0 and not x["flags"] & EMPTY and \
                (some_divisor_ne_1(ev.post.get("x")) or some_divisor_ne_1(x)):
            tags.append("zero_dim_generator_system_and_divisor_ne_1")
    if op in ("affine_image", "affine_preimage"):
        v, (sd, b, a), d = ev.args
        tags.append("invertible" if (0 <= v < sd and a[v] != 0) else "non_invertible")
    return tags


# ------------------------------------------------------------------------------------------------ the check
def run(ctx):
    """returns the number of broken obligations (each one is reported here)."""
    broken = []
    props_file = os.path.join(LEAN, PROPS[0].replace(".", "/") + ".lean")
    if os.path.exists(props_file):
        broken = ctx.prove(PROPS)
        if ctx.tier == "thorough":
            broken += ctx.leanchecker(PROPS)
    else:
        print("NOTE C05 stage 3: %s DOES NOT EXIST YET — the theorems of %s are NOT checked in this run" % (props_file, PROPS[0]), flush=True)
        ctx.notes.append("C05Ops: Props module missing, proofs not checked")
    drv = os.environ.get("C05_OPS_DRIVER")
    if not drv:
        if not os.path.exists(props_file) and not os.path.exists(os.path.join(LEAN, "Driver", "GridOps.lean")):
            # stage 3 has not landed at all (neither theorems nor driver): nothing to run; once either file exists a
            # missing / non-building driver is a CHECK-ERROR
            print("NOTE C05 stage 3: lean/Driver/GridOps.lean DOES NOT EXIST YET — the Grid-operations correspondence is NOT run", flush=True)
            return 0
        drv = ctx.ensure_pplv(DRIVER)
    h = ctx.compile_harness(HARNESS)
    wd = os.path.join(BUILD, "run-%s-ops-%d" % (ctx.pid, os.getpid()))
    shutil.rmtree(wd, ignore_errors=True)
    os.makedirs(wd)
    nhist = 1100 if ctx.tier == "quick" else 16500
    length = 12
    per_batch = 25
    seed, first, last = ctx.seed, 0, nhist
    if ctx.replay:
        try:
            rp = json.load(open(ctx.replay))
        except Exception:
            rp = {}
        if rp.get("ops"):
            seed = rp.get("seed", seed)
            first, last = int(rp["hist"]), int(rp["hist"]) + 1
            length = int(rp.get("length", length))
    raw = os.path.join(wd, "journal_raw.txt")
    cmd = [h, "--seed", str(seed), "--first", str(first), "--last", str(last), "--len", str(length),
           "--per-batch", str(per_batch), "--aux", "1"]
    rc, _, err = ctx.run(cmd, stdout_path=raw, timeout=3000)
    if rc != 0:
        ctx.fatal("harness c05_ops failed rc=%s %s" % (rc, (err or "")[-500:]))
    events, crashes, stray = read_journal(raw)
    if stray:
        ctx.fatal("c05_ops journal is malformed at line %d: %s" % stray[0])
    # the driver sees the spec'd journal only: hist lines and complete event blocks (no aux / crash lines, no event cut by a crash)
    journal = os.path.join(wd, "journal.txt")
    with open(journal, "w") as f:
        h_cur = None
        for ev in events:
            try:
                parse_event(ev)
            except ParseError as e:
                ctx.fatal("c05_ops journal: event at line %d does not follow the grammar: %s | %s" % (ev.lineno, e, ev.lines[0][:200]))
            if not ev.complete:
                continue
            if ev.hist != h_cur:
                h_cur = ev.hist
                f.write("hist %d\n" % h_cur)
            f.write("\n".join(ev.lines) + "\n")
    verdicts = os.path.join(wd, "verdicts.txt")
    rc, _, err = ctx.run([drv], stdin_path=journal, stdout_path=verdicts, timeout=3000)
    if rc != 0:
        ctx.fatal("driver %s failed rc=%s %s" % (DRIVER, rc, (err or "")[-500:]))
    V = collections.defaultdict(list)          # id -> [(kind, rest tokens)]
    for l in open(verdicts):
        t = l.rstrip("\n").split(" ")
        if len(t) >= 2 and t[0] in ("ok", "skip", "MISMATCH") and re.fullmatch(r"\d+", t[1]):
            V[int(t[1])].append((t[0], t[2:]))
    complete = [ev for ev in events if ev.complete]
    unjudged = [ev for ev in complete if ev.id not in V]
    if unjudged:
        ctx.fatal("%s judged %d of %d journalled events (first missing: %s)" % (DRIVER, len(complete) - len(unjudged), len(complete), unjudged[0].lines[0][:160]))
    for ev in complete:
        for (k, rest) in V[ev.id]:
            if k == "skip" and re.search(r"unparsable|parse error|cannot parse", " ".join(rest)):
                ctx.fatal("%s could not parse event %d: %s | %s" % (DRIVER, ev.id, " ".join(rest)[:200], ev.lines[0][:200]))

    harness_name = os.path.basename(h)

    def replay_obj(ev, extra):
        lines = [l if len(l) <= 4000 else l[:4000] + " …" for l in ev.lines]
        o = {"ops": True, "seed": seed, "hist": ev.hist, "event": ev.id, "length": length, "journal": lines,
             "replay_cmd": "build/%s --seed %d --first %d --last %d --len %d | lean/.lake/build/bin/%s   # or: VERIF_SEED=%d bin/check C05 --replay <this file>"
                           % (harness_name, seed, ev.hist, ev.hist + 1, length, DRIVER, seed)}
        o.update(extra)
        return o

    def record_for(ev, tags):
        """the record of a failing event: the site name under which an OPEN known finding matches (the names of checks/c05.py
        first, then Grid::<opname>); Grid::<opname> when none does"""
        for site in (SITE.get(ev.op, ev.op), "Grid::" + ev.op):
            r = {"site": site, "tags": tags}
            if ctx.match_known(r) is not None:
                return r
        return {"site": "Grid::" + ev.op, "tags": tags}

    reported = collections.Counter()
    mism = collections.Counter()
    n_tainted = 0                               # mismatching events whose PRE-state was already corrupted (mixed divisors)
    n_ok = n_skip = n_bad = 0
    branch_tags = collections.Counter()
    skips = collections.Counter()
    for ev in complete:
        vs = V[ev.id]
        obls = [(rest[0], " ".join(rest[2:])) for (k, rest) in vs if k == "MISMATCH" and rest]
        if not obls:
            if any(k == "ok" for (k, _) in vs):
                n_ok += 1
                for (k, rest) in vs:
                    if k == "ok":
                        for tg in rest[1:]:
                            branch_tags["%s:%s" % (ev.op, tg)] += 1
            else:
                n_skip += 1
                for (k, rest) in vs:
                    if k == "skip":
                        skips["%s: %s" % (ev.op, " ".join(rest[1:])[:60] or "-")] += 1
            continue
        if mixed_divisors(ev.pre.get("x")) or mixed_divisors(ev.pre.get("y")):
            n_tainted += 1                      # the consequence of an earlier (reported) event, not a new failure
            continue
        n_bad += 1
        names = sorted(set(o for (o, _) in obls))
        broken_property = [o for o in names if o in ("sem", "ret", "inv")]
        cls = "+".join(names)
        mism["%s %s" % (ev.op, cls)] += 1
        tags = event_tags(ev) + names
        rec = record_for(ev, tags)
        k = ctx.match_known(rec)
        reported[(cls, ev.op)] += 1
        if reported[(cls, ev.op)] > MAX_REPORTS and k is None:
            continue
        detail = " | ".join("%s: %s" % (o, d[:300]) for (o, d) in obls)
        if broken_property:
            what = "Grid::%s: the real output breaks the property (%s) — %s   [%s]" % (ev.op, cls, detail[:500], ev.lines[0][:160])
        else:
            what = ("Grid::%s: the real code no longer does what the verified model does (%s; the real result still denotes the "
                    "reference result on this event) — %s   [%s]" % (ev.op, cls, detail[:500], ev.lines[0][:160]))
        ctx.violation(what, replay_obj(ev, {"obligations": names, "detail": detail, "site": rec["site"], "tags": tags}),
                      found_input=bool(broken_property), record=rec)

    # crashes of the real library: the event without `end` before a crash line
    lost_hist = 0
    for (cl, ev) in crashes:
        n_bad += 1
        if ev is None:
            mism["crash outside any event"] += 1
            ctx.violation("c05_ops: the harness died outside any journalled operation (%s)" % cl,
                          {"ops": True, "crash": cl, "seed": seed}, found_input=False, record={"site": "harness", "tags": ["crash"]})
            continue
        b_end = min(last, first + ((ev.hist - first) // per_batch + 1) * per_batch)
        lost_hist += b_end - ev.hist            # the rest of this history and the histories after it in the batch
        if mixed_divisors(ev.pre.get("x")) or mixed_divisors(ev.pre.get("y")):
            n_tainted += 1
            continue
        mism["%s crash" % ev.op] += 1
        tags = event_tags(ev) + ["crash"]
        rec = record_for(ev, tags)
        reported[("crash", ev.op)] += 1
        if reported[("crash", ev.op)] > MAX_REPORTS and ctx.match_known(rec) is None:
            continue
        ctx.violation("Grid::%s: the library crashed (%s) on a journalled input   [%s]" % (ev.op, cl, ev.lines[0][:200]),
                      replay_obj(ev, {"crash": cl, "site": rec["site"], "tags": tags}), found_input=True, record=rec)

    for b in broken:
        ctx.violation("proof obligation broken (C05 stage 3): " + b,
                      {"obligation": b, "note": "the correspondence run is the search for a failing input in the implementation; "
                       "it found %d mismatching / crashing events" % n_bad},
                      found_input=False, record={"site": "lean", "tags": ["proof"]})

    # ---------------------------------------------------------------------------------------- coverage
    per_op = collections.Counter(ev.op for ev in events)
    per_family = collections.Counter(family(ev.op) for ev in events)
    flags_by_family = collections.defaultdict(collections.Counter)
    flags_by_op = collections.defaultdict(set)
    flags_all = collections.Counter()
    argflags = collections.Counter()
    exc_by_op = collections.Counter()
    dims, crow_h, grow_h = collections.Counter(), collections.Counter(), collections.Counter()
    input_tags = collections.Counter()
    discovered_empty = 0
    for ev in events:
        x = ev.pre.get("x")
        if x is not None:
            fc = flag_class(x, ev.aux.get("xe") == "1" and not x["flags"] & EMPTY)
            flags_by_family[family(ev.op)][fc] += 1
            flags_by_op[ev.op].add(fc)
            flags_all[fc] += 1
            dims[x["dim"]] += 1
            if x["flags"] & C_UP:
                crow_h[min(len(x["crows"]), 8)] += 1
            if x["flags"] & G_UP:
                grow_h[min(len(x["grows"]), 8)] += 1
            px = ev.post.get("x")
            if family(ev.op) in ("observer", "lazy") and ev.op not in ("set_empty", "set_zero_dim_univ") and px is not None \
                    and not x["flags"] & EMPTY and px["flags"] & EMPTY:
                discovered_empty += 1
        y = ev.pre.get("y")
        if y is not None:
            argflags[flag_class(y, ev.aux.get("ye") == "1" and not y["flags"] & EMPTY)] += 1
        if ev.exc:
            exc_by_op["%s %s" % (ev.op, ev.exc)] += 1
        for tg in event_tags(ev):
            input_tags["%s:%s" % (SITE.get(ev.op, ev.op), tg)] += 1
    nontrivial = sum(1 for ev in complete if (ev.pre.get("x") or {}).get("dim", 0) >= 1 and not ev.pre["x"]["flags"] & EMPTY)
    ctx.cov["ops"] = {
        "histories": last - first, "history_length": length, "events": len(events), "events_complete": len(complete),
        "events_agree": n_ok, "events_skipped": n_skip, "events_mismatch_or_crash": n_bad,
        "events_mismatching_on_a_corrupted_pre_state_not_reported": n_tainted,
        "events_with_corrupted_pre_state": sum(1 for ev in events if mixed_divisors(ev.pre.get("x")) or mixed_divisors(ev.pre.get("y"))),
        "events_producing_a_corrupted_state": dict(collections.Counter(
            ev.op for ev in complete if not (mixed_divisors(ev.pre.get("x")) or mixed_divisors(ev.pre.get("y")))
            and (mixed_divisors(ev.post.get("x")) or mixed_divisors(ev.post.get("y"))))),
        "events_nontrivial": nontrivial, "rule": "an event = one call on a real Grid with the raw pre-state journalled; non-trivial: "
        "the receiver has dimension >= 1 and is not marked empty",
        "events_per_opname": dict(per_op), "operations_covered": len(per_op), "operations_in_grammar": len(ARGS),
        "operations_never_run": sorted(set(ARGS) - set(per_op)),
        "events_per_family": dict(per_family),
        "receiver_flag_classes": dict(flags_all),
        "receiver_flag_classes_per_family": {k: dict(v) for k, v in flags_by_family.items()},
        "receiver_flag_classes_distinct_per_opname": {k: len(v) for k, v in flags_by_op.items()},
        "argument_flag_classes": dict(argflags),
        "emptiness_discovered_by_observer_or_lazy_call": discovered_empty,
        "exceptions": sum(exc_by_op.values()), "exceptions_by_opname": dict(exc_by_op),
        "crashes": len(crashes), "histories_lost_after_crashes": lost_hist,
        "receiver_dimension": {str(k): v for k, v in dims.items()},
        "congruence_rows_when_up_to_date": {str(k): v for k, v in crow_h.items()},
        "generator_rows_when_up_to_date": {str(k): v for k, v in grow_h.items()},
        "model_branches_hit": dict(branch_tags), "skips_by_reason": dict(skips),
        "input_predicates": dict(input_tags), "mismatch_histogram": dict(mism),
        "compared": "raw post-state (rows, dim_kinds, flags, pending index) and returned value exactly (model vs real); on the real "
                    "output: denotation against the K2 reference result (sem), answer against the K2 reference answer (ret), "
                    "truthfulness of the status flags (inv)",
        "driver": os.path.basename(drv),
    }
    ctx.assumptions += [
        "C05 stage 3: the raw state of a Grid is read through `#define private public` from the object itself (no copy, no lazy "
        "update); emptiness used for the coverage classes only is decided by the library on a copy",
        "C05 stage 3: a mismatch on an event whose journalled PRE-state already has up-to-date generators without a common divisor "
        "(a representation only a reported defect produces: events_producing_a_corrupted_state) is the consequence of that earlier "
        "event and is counted (events_mismatching_on_a_corrupted_pre_state_not_reported), not reported again",
    ]
    if not ctx.violations:
        shutil.rmtree(wd, ignore_errors=True)
    return len(broken)
