"""C13 — objects are values: copies are independent and aliased arguments are safe.

Lean: PPLV.Props.C13 (value specification: frame / alias invariance; Determinate<PSET> heap machine:
exact reference counts, copy-on-write independence, self-assignment / self-swap, refinement).
Correspondence: harness c13_values.cc runs pool histories over every class family of the statement,
driver pplv_c13 replays them on PPLV.Value.Spec and judges every observation exactly (K1 / K2)."""
import collections, hashlib, json, os, re
from . import poly_common as pc
from . import c13_move

LEVEL = "proof"
FAMILIES = ["lin", "cpoly", "nnc", "bds", "oct", "box", "grid", "pps", "prod", "det_cpoly", "det_grid"]

# operations of the harness that hand the library a reference INTO an argument's own description
OWN_REF = re.compile(r"own_|\(y\.|first_disjunct|y's_|\(CS\)|\(CGS\)|\(GS\)|\(GGS\)")
READS_GRID_DESCRIPTION = re.compile(r"congruence|constraint|grid_generators|relation_with|extrapolation|generalized_affine_image\(lhs|affine_image\(v,_expr")


def parse_step(line):
    """step <kind> <name> <ndst> d… <nargs> a… [# info…] -> dict   (also the `dstep` lines of the Determinate histories)"""
    t = line.split()
    if t[0] == "dstep":
        hs = [int(x) for x in t[2:4] if x.isdigit()]
        name = t[1] + (":" + t[-1] if t[1] in ("mutate", "binop") else "")
        return {"kind": "det", "name": name, "dsts": hs[:1], "args": hs, "info": []}
    info = []
    if "#" in t:
        k = t.index("#")
        info = t[k + 1:]
        t = t[:k]
    kind, name = t[1], t[2]
    nd = int(t[3])
    dsts = [int(x) for x in t[4:4 + nd]]
    na = int(t[4 + nd])
    args = [int(x) for x in t[5 + nd:5 + nd + na]]
    return {"kind": kind, "name": name, "dsts": dsts, "args": args, "info": info}


def is_empty_poly_text(tokens):
    """a printed polyhedron that consists of the single row `= k 0 … 0` (k != 0)"""
    # P n 1 = k 0…0
    if len(tokens) >= 5 and tokens[0] == "P" and tokens[2] == "1" and tokens[3] == "=":
        return tokens[4] != "0" and all(x == "0" for x in tokens[5:5 + int(tokens[1])])
    return False


def has_empty_disjunct(value_tokens):
    """S n k P n m rows… : some disjunct is the empty polyhedron"""
    if not value_tokens or value_tokens[0] != "S":
        return False
    s = " ".join(value_tokens)
    for m in re.finditer(r"P (\d+) 1 = (-?\d+)((?: 0)+)(?= P|$)", s):
        if m.group(2) != "0" and len(m.group(3).split()) == int(m.group(1)):
            return True
    return False


def classify(hist_lines, rel_idx, verdict):
    """site + tags of a failing event (rel_idx: index inside the history).
    Tags are structural facts about the failing step; the predicates of known_findings.json are among them."""
    fam = hist_lines[0].split()[2] if len(hist_lines[0].split()) > 2 else "?"
    obligation = verdict.split()[0] if verdict else "?"
    k = rel_idx
    while k > 0 and not hist_lines[k].startswith(("step ", "dstep ")):
        k -= 1
    st = parse_step(hist_lines[k]) if hist_lines[k].startswith(("step ", "dstep ")) else {"kind": "?", "name": "?", "dsts": [], "args": [], "info": []}
    if st["kind"] == "det":
        site = "Determinate::" + st["name"]
        tags = ["fam_" + fam, "obl_" + obligation, "kind_det"] + (["aliased"] if len(set(st["args"])) < len(st["args"]) else [])
        if obligation == "crash":
            tags.append("crash")
        return site, tags, st
    pre = {}                      # value of every slot before the step
    for l in hist_lines[:k]:
        if l.startswith("obs "):
            t = l.split()
            pre[int(t[1])] = t[2:]
    name, args = st["name"], st["args"]
    tags = ["fam_" + fam, "obl_" + obligation, "kind_" + st["kind"]] + ["info_" + x for x in st["info"]]
    aliased = len(set(args)) < len(args)
    if aliased:
        tags.append("aliased")
    argvals = [pre.get(a, []) for a in args]
    site = name
    # --- a reference into the description of an operand (x.f(*x.constraints().begin()), x.limited_W(y, x.constraints()))
    ref_into_operand = False
    if OWN_REF.search(name) and len(args) == 2:
        ref_into_operand = args[0] == args[1]
    if "extrapolation_assign" in name and len(args) == 3:
        ref_into_operand = args[2] in args[:2]
    if ref_into_operand:
        site = "ref_into_operand:" + name
        if fam in ("cpoly", "nnc", "pps"):
            tags.append("argument_refers_into_a_polyhedron_operand_that_the_call_minimizes_lazily")
        if fam == "grid":
            tags.append("argument_refers_into_a_grid_operand_that_the_call_minimizes_lazily")
    elif fam == "pps" and OWN_REF.search(name) and len(args) == 2 and args[0] != args[1] and argvals[0] and argvals[0] == argvals[1]:
        site = "ref_into_shared_disjunct:" + name
        tags.append("argument_refers_into_a_disjunct_whose_representation_the_receiver_shares")
    elif obligation == "crash":
        site = "crash:" + name
    if obligation == "crash":
        tags.append("crash")
    # --- KF-C05-1: the copy of an empty grid keeps an empty congruence system
    if fam in ("grid", "prod") and any(" G %s E" % v[v.index("G") + 1] in " " + " ".join(v) for v in argvals if "G" in v):
        tags.append("an_argument_is_an_empty_grid")
        if READS_GRID_DESCRIPTION.search(name) and obligation in ("op_on_copies", "copy_query", "alias", "alias_query", "const_arg_copy"):
            tags.append("copy_of_empty_grid_described_by_congruences")
    if fam == "pps" and any(has_empty_disjunct(v) for v in argvals):
        tags.append("an_argument_has_an_empty_disjunct")
    if fam == "lin" and aliased and "info_rx=S" in tags:
        tags.append("sparse_receiver_is_its_own_argument")
    if fam == "pps" and aliased and len(args) == 2 and st["kind"] == "op":
        tags.append("powerset_receiver_is_its_own_argument")
    return site, tags, st


def run(ctx):
    ctx.ensure_ppl()
    if ctx.replay and json.load(open(ctx.replay)).get("move"):
        c13_move.run(ctx, replay=json.load(open(ctx.replay)))      # a case of the moving-mechanics stage
        return
    broken = ctx.prove(["PPLV.Props.C13"])
    if not ctx.replay:
        broken += c13_move.run(ctx)      # stage 2: the moving mechanics (ownership model + storage-level correspondence)
    drv = ctx.ensure_pplv("pplv_c13")
    quick = ctx.tier == "quick"
    flags = () if quick else ("-fsanitize=address,undefined", "-fno-sanitize-recover=undefined", "-fno-omit-frame-pointer")
    h = ctx.compile_harness("c13_values.cc", out_name="c13_values" if quick else "c13_values_asan", flags=flags)
    wd = ctx.workdir()
    n_hist = 4950 if quick else 49500
    length = 15 if quick else 30
    if ctx.replay:
        rp = json.load(open(ctx.replay))
        cmd = [h] + [str(x) for x in rp.get("harness_args", [])]
    else:
        cmd = [h, "--seed", str(ctx.seed), "--first", "0", "--last", str(n_hist), "--len", str(length), "--cpu", "10" if quick else "120"]
    # independent slices of the history range run in parallel
    import concurrent.futures as cf
    nproc = 8
    jpaths = []
    env = {"ASAN_OPTIONS": "detect_leaks=0:abort_on_error=1", "UBSAN_OPTIONS": "halt_on_error=1"} if not quick else None

    def slice_cmd(i):
        if ctx.replay:
            return cmd
        a = n_hist * i // nproc
        b = n_hist * (i + 1) // nproc
        return [h, "--seed", str(ctx.seed), "--first", str(a), "--last", str(b), "--len", str(length), "--cpu", "10" if quick else "120"]

    def work(i):
        jp = os.path.join(wd, "journal%d.txt" % i)
        rc, _, err = ctx.run(slice_cmd(i), stdout_path=jp, timeout=3000, env=env)
        if rc != 0:
            ctx.fatal("harness failed rc=%s %s" % (rc, (err or "")[-500:]))
        return jp
    with cf.ThreadPoolExecutor(nproc) as ex:
        jpaths = list(ex.map(work, range(1 if ctx.replay else nproc)))
    journal = []
    for jp in jpaths:
        journal += open(jp).read().splitlines()
    verd, summary = pc.run_driver_parallel(ctx, drv, journal, wd, nproc=12)
    hists = pc.split_histories(journal)

    stats = collections.Counter()
    opc, oblc, famc, kindc = collections.Counter(), collections.Counter(), collections.Counter(), collections.Counter()
    aliased_steps = collections.Counter()
    detpat = collections.Counter()
    per_hist = collections.Counter()
    distinct, nontrivial, samples = set(), 0, []
    exceptions = collections.Counter()
    for start, lines in hists:
        fam = lines[0].split()[2] if len(lines[0].split()) > 2 else "?"
        famc[fam] += 1
        key = hashlib.sha256("\n".join(lines[1:]).encode()).hexdigest()
        n_alias = n_copy = n_mut_after_copy = 0
        seen_copy = False
        addr = {}                      # Determinate histories: handle -> address of its point set
        for l in lines:
            if l.startswith("dobs "):
                t = l.split()
                if t[2] == "dead":
                    addr.pop(int(t[1]), None)
                else:
                    addr[int(t[1])] = t[2]
            elif l.startswith("dstep "):
                t = l.split()
                op = t[1]
                opc["Determinate::" + op + (":" + t[-1] if op in ("mutate", "binop") else "")] += 1
                kindc["det"] += 1
                if op in ("assign", "swap", "binop"):
                    h, y = int(t[2]), int(t[3])
                    holders = lambda a: sum(1 for v in addr.values() if v == a)
                    if h == y:
                        pat = "%s:self:%s" % (op, "sole_owner" if holders(addr.get(h)) == 1 else "shared")
                        n_alias += 1
                    elif addr.get(h) == addr.get(y):
                        pat = "%s:two_handles_of_one_Rep" % op
                        n_alias += 1
                    else:
                        pat = "%s:different_Reps:%s" % (op, "last_holder" if holders(addr.get(h)) == 1 else "receiver_shared")
                    detpat[pat] += 1
                elif op == "mutate":
                    h = int(t[2])
                    detpat["mutate:%s" % ("unshared" if sum(1 for v in addr.values() if v == addr.get(h)) == 1 else "shared")] += 1
                    if seen_copy:
                        n_mut_after_copy += 1
                elif op == "copy":
                    n_copy += 1
                    seen_copy = True
                    detpat["copy"] += 1
                elif op == "destroy":
                    h = int(t[2])
                    detpat["destroy:%s" % ("last_holder" if sum(1 for v in addr.values() if v == addr.get(h)) == 1 else "shared")] += 1
                else:
                    detpat[op] += 1
            if l.startswith("step "):
                st = parse_step(l)
                opc[st["name"]] += 1
                kindc[st["kind"]] += 1
                if len(set(st["args"])) < len(st["args"]) or (st["kind"] in ("assign", "swap") and st["name"].startswith("self_")):
                    n_alias += 1
                    aliased_steps[st["name"]] += 1
                if st["kind"] in ("copy", "assign"):
                    n_copy += 1
                    seen_copy = True
                elif st["kind"] in ("op", "recycle") and seen_copy:
                    n_mut_after_copy += 1
            elif l.startswith("exc "):
                exceptions[l] += 1
        if key not in distinct:
            distinct.add(key)
            if n_alias >= 1 and n_copy >= 1 and n_mut_after_copy >= 1:
                nontrivial += 1
                if len(samples) < 3 and fam in ("pps", "cpoly", "lin"):
                    samples.append([l[:160] for l in lines if l.startswith(("hist", "step"))][:16])
        for i, l in enumerate(lines):
            v = verd.get(start + i)
            if not v:
                continue
            stats[v[0]] += 1
            if v[0] == "skip":
                stats["skip:" + v[1].split()[0]] += 1
            elif v[0] == "ok":
                pass
            if v[0] == "MISMATCH":
                site, tags, st = classify(lines, i, v[1])
                oblc[v[1].split()[0]] += 1
                # a broken history goes on failing: at most 2 reports per history, 250 per run (all are counted)
                per_hist[start] += 1
                if per_hist[start] > 2 or (len(ctx.violations) >= 250 and ctx.match_known({"site": site, "tags": tags}) is None):
                    stats["mismatch_not_reported_separately"] += 1
                    continue
                # the replay: the whole history up to the event (the harness regenerates it from seed and index)
                hid = lines[0].split()[1]
                ctx.violation("%s [%s]: %s" % (site, fam, v[1][:500]),
                              {"history_id": hid, "family": fam, "event": l[:400], "verdict": v[1][:1500],
                               "step": st, "site": site, "tags": tags,
                               "history": [x[:300] for x in lines[: i + 1] if not x.startswith("obs ")][-40:],
                               "harness_args": ["--seed", str(ctx.seed), "--first", hid, "--last", str(int(hid) + 1), "--len", str(length)],
                               "replay_cmd": "bin/check C13 --replay <this file>"},
                              found_input=True, record={"site": site, "tags": tags})
    for b in broken:
        ctx.violation("proof obligation broken: " + b, {"obligation": b}, found_input=False)
    if not quick and not broken:
        for b in ctx.leanchecker(["PPLV.Props.C13"]):
            ctx.violation("leanchecker: " + b, {"obligation": b}, found_input=False)
    ctx.cov.update({
        "evaluations": len(hists), "distinct_nontrivial": nontrivial,
        "rule": "seeded pool histories (pool of 4 objects + auxiliary systems; 18 syntactic objects for `lin`), len %d, dimension 1..3, "
                "round-robin over the families %s; distinct by hash of the journal text; non-trivial = at least one aliased step "
                "(x.op(x), one object in two positions, self-assignment/self-swap), one copy/assignment, and one mutation after it" % (length, ",".join(FAMILIES)),
        "samples": samples, "traces_validated_against_impl": len(hists),
        "observations_decided": stats["ok"], "observations_mismatch": stats["MISMATCH"],
        "mismatches_beyond_the_report_limit": stats["mismatch_not_reported_separately"],
        "observations_skipped": {k[5:]: v for k, v in stats.items() if k.startswith("skip:")},
        "families": dict(famc), "step_kinds": dict(kindc), "operations": len(opc),
        "op_histogram": dict(opc.most_common(400)), "aliased_step_histogram": dict(aliased_steps.most_common(400)),
        "determinate_patterns": dict(detpat),
        "runs_cut_short_by_repeated_crashes": [l for l in journal if l.startswith("aborted ")],
        "mismatch_obligations": dict(oblc), "exception_lines": dict(exceptions.most_common(20)),
        "driver_summary": summary, "sanitizers": list(flags),
    })
    import shutil
    shutil.rmtree(wd, ignore_errors=True)       # ~60 MB of journals per run
    ctx.assumptions += [
        "the judge of `denotes the same` is exact: K1 equivB (polyhedral values), K2 equivB (grids), omega-reduced sets of polyhedra (powersets), "
        "pairs after the product's own reduction (products), token equality (syntactic objects); `all histories' of the real code is sampled",
        "outside Determinate<PSET>: recycling entry points, row swapping (Swapping_Vector / Linear_System), m_swap / operator= of systems and polyhedra and the aliased "
        "binary operations are modelled as a heap-with-ownership machine and tied at the storage level in stage 2 (coverage.c13_move); lazy updates of const arguments "
        "and the sharing inside the other domains (BD shapes, octagons, boxes, products) are validated by the histories, not modelled",
        "the operations themselves are uninterpreted: the oracle of f(args) is the same library operation run on distinct copy-constructed copies",
        "Determinate<C_Polyhedron> / Determinate<Grid> histories run in lock step with the Lean machine PPLV.Value.Cow (the one the theorems are about): values, "
        "liveness, the partition of the handles by representation and its stability in time (address of the const pointset(), freed blocks are poisoned and never "
        "reused during a history), double deletes seen by the executable's operator delete, and the live-block count after all handles are gone "
        "(measured on the second of two identical passes, so that the library's lazily grown scratch objects have their final size)",
        "widenings / narrowings are run after a separate upper-bound (meet) step so that their precondition holds; "
        "simplify_using_context_assign is judged through its meet with a saved copy of the context (its result is not a function of the values)",
        "operations avoided because of defects owned by other properties: Grid::remove_higher_space_dimensions (KF-C05-14), "
        "add_grid_generators on an empty grid (KF-C05-11), bounded_affine_image on an empty receiver (C02), "
        "BD_Shape/Octagonal_Shape limited extrapolations with constraints without variables (out-of-bounds read in get_limiting_shape)",
    ]


def replay(ctx, path):
    """bin/check C13 --replay <file>: regenerate the recorded history from its seed and index on the
    current tree (harness + driver rebuilt) and judge it again; 1 (with a VIOLATION line) if it still fails."""
    rp = json.load(open(path))
    print("property=%s what=%s" % (rp.get("property"), str(rp.get("what"))[:300]))
    print("harness_args: %s" % rp.get("harness_args"))
    if not rp.get("harness_args"):
        print(json.dumps(rp, indent=1)[:3000])
        return 0
    ctx.replay = path
    run(ctx)
    for k in ctx.known_hits:
        pass
    print("replayed: %d violation(s), %d known finding(s)" % (len(ctx.violations), len(ctx.known_hits)))
    return 1 if ctx.violations else 0
