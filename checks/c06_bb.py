"""C06 stage 3 — the branch-and-bound recursion of MIP_Problem (helper of checks/c06.py).

proof:  PPLV.Props.C06BB over the code-shaped model lean/PPLV/Solver/BB.lean (solve_mip, the MIP case of
        solve(), choose_branching_variable, is_mip_satisfiable, the MIP case of is_satisfiable()) with the LP
        machinery as an oracle whose hypothesis is the statement of C06.lp_spec (plus the point it returns);
tie:    harness/c06_bb.cc calls the REAL private static solve_mip / is_mip_satisfiable /
        choose_branching_variable on Inherit_Constraints copies of every node of the tree (the node objects are
        built exactly as the library builds them) and journals, per node, the real LP answer, the entry
        incumbent and the real result of the whole subtree; pplv_mip --bb replays the model with the
        journalled LP answers as oracle and compares status / incumbent / point exactly, node for node,
        checks every LP answer against the verified LP reference (the oracle hypothesis), and judges the
        conclusions of C06.solve_mip_sound on the real result of every node with the verified MIP reference;
        independently, the model is run with the PROVED LP reference as oracle (its own vertices / tree) and
        its final answer — the true one by C06.solve_mip_sound + C06.ref_oracle_ok — is compared with solve().
        The public answers of the same objects go through the existing judges of checks/c06.py.
A `lp-oracle` / `sub-answer` / `sat-answer` / `top-ref` failure is a wrong answer of the real code on concrete data: VIOLATION with the
instance as replay.  A `node` / `sat-node` / `branch-var` / `top` difference alone (real result right, model
different) is a broken correspondence: VIOLATION … no-failing-input-found.
"""
import collections, concurrent.futures as cf, hashlib, importlib, os

from .common import VERIF, LEAN

PROPS = ["PPLV.Props.C06BB"]
OLD_GRAMMAR = ("hist", "new", "newc", "op", "copy", "drop", "obs", "fresh", "exc", "crash", "end")


def bb_verdicts(ctx, drv, lines, path):
    with open(path, "w") as f:
        f.write("\n".join(lines) + "\n")
    rc, out, err = ctx.run([drv, "--bb"], stdin_path=path, timeout=3000)
    if rc != 0:
        ctx.fatal("driver pplv_mip --bb failed rc=%s %s" % (rc, (err or "")[-500:]))
    verd, stats = [], {}
    for l in out.splitlines():
        t = l.split(None, 4)
        if not t:
            continue
        if t[0] in ("ok", "skip", "MISMATCH") and len(t) >= 4:
            verd.append((t[0], t[1], t[2], t[3], t[4] if len(t) > 4 else ""))
        elif t[0] == "stats":
            head, _, sizes = l.partition(" tree_sizes=")
            for kv in head.split()[1:]:
                k, _, v = kv.partition("=")
                stats[k] = int(v)
            stats["tree_sizes"] = {a.split(":")[0]: int(a.split(":")[1]) for a in sizes.split() if ":" in a}
    return verd, stats


def case_lines(lines):
    cases, cur, cid = {}, None, None
    for l in lines:
        if l.startswith("hist "):
            cid = l.split()[1]
            cur = cases.setdefault(cid, [])
        if cur is not None:
            cur.append(l)
    return cases


def replay(ctx, path):
    """bin/check C06 --replay on a stage-3 replay file: re-run the tree of the recorded root on the real library"""
    import json
    obj = json.load(open(path))
    ctx.ensure_ppl()
    drv = ctx.ensure_pplv("pplv_mip")
    h = ctx.compile_harness("c06_bb.cc")
    wd = ctx.workdir()
    rp = os.path.join(wd, "bb_replay.txt")
    with open(rp, "w") as f:
        f.write(obj["root"] + "\n")
    jp = os.path.join(wd, "bb_replay.journal")
    rc, _, err = ctx.run([h, "--replay", rp], stdout_path=jp, timeout=300)
    lines = open(jp).read().splitlines()
    verd, _ = bb_verdicts(ctx, drv, lines, os.path.join(wd, "bb_replay.in"))
    badv = [v for v in verd if v[0] == "MISMATCH"]
    for l in lines:
        print("  " + l[:200])
    for v in badv:
        print("  MISMATCH " + " ".join(v[1:])[:400])
    if badv:
        print("VIOLATION property=C06 replay=%s" % path)
        return 1
    print("replay: model and library agree on every node, every LP answer and sub-answer is right")
    return 0


def run(ctx):
    """returns the list of broken proof obligations (the caller reports them)."""
    from . import c06 as base
    props = list(PROPS)          # (PPLV.Props.C06Tab is proved by checks/c06_tab.py)
    broken = ctx.prove(props)
    quick = ctx.tier == "quick"
    if not quick:
        broken += ctx.leanchecker(props)
    drv = ctx.ensure_pplv("pplv_mip")
    h = ctx.compile_harness("c06_bb.cc")
    wd = os.path.join(ctx.workdir(), "bb")
    os.makedirs(wd, exist_ok=True)
    n_cases = int(os.environ.get("VERIF_C06_BB_CASES", "0")) or (3600 if quick else 96000)
    nproc = 12
    per = (n_cases + nproc - 1) // nproc

    def work(k):
        a, b = k * per, min(n_cases, (k + 1) * per)
        if a >= b:
            return None
        jp = os.path.join(wd, "j%d.txt" % k)
        rc, _, err = ctx.run([h, "--seed", str(ctx.seed), "--first", str(a), "--last", str(b), "--batch", "20",
                              "--call-ms", "300", "--max-nodes", "60"], stdout_path=jp, timeout=3000)
        if rc != 0:
            ctx.fatal("harness c06_bb failed rc=%s %s" % (rc, (err or "")[-500:]))
        lines = open(jp).read().splitlines()
        verd, stats = bb_verdicts(ctx, drv, lines, os.path.join(wd, "b%d.in" % k))
        old = [l for l in lines if l.split(" ", 1)[0] in OLD_GRAMMAR]
        overd = base.run_driver(ctx, drv, old, os.path.join(wd, "o%d.in" % k))
        return lines, verd, stats, old, overd

    results = []
    # regression roots first (2x = 1, 2x + 2y = 1, unbounded relaxation with a fractional vertex, knapsack, …)
    corpus = os.path.join(VERIF, "corpus", "C06", "bb_roots.txt")
    if os.path.exists(corpus):
        jp = os.path.join(wd, "corpus.journal")
        rc, _, err = ctx.run([h, "--replay", corpus], stdout_path=jp, timeout=600)
        if rc != 0:
            ctx.fatal("harness c06_bb --replay failed rc=%s %s" % (rc, (err or "")[-300:]))
        lines = open(jp).read().splitlines()
        verd, stats = bb_verdicts(ctx, drv, lines, os.path.join(wd, "corpus.in"))
        old = [l for l in lines if l.split(" ", 1)[0] in OLD_GRAMMAR]
        results.append((lines, verd, stats, old, base.run_driver(ctx, drv, old, os.path.join(wd, "corpus_o.in"))))
    with cf.ThreadPoolExecutor(nproc) as ex:
        for r in ex.map(work, range(nproc)):
            if r is not None:
                results.append(r)

    tot = collections.Counter()
    tree_sizes = collections.Counter()
    vc = collections.Counter()
    fam = collections.Counter()
    extra_rows = 0
    extra_answers = collections.Counter()   # public answers given by objects holding rows left by is_satisfiable()
    reported = collections.Counter()
    distinct = set()
    nontrivial = 0
    samples = []
    ostats = collections.Counter()
    seen_sites = {}
    for lines, verd, stats, old, overd in results:
        for k, v in stats.items():
            if k == "tree_sizes":
                for a, b in v.items():
                    tree_sizes[a] += b
            elif k == "max_tree":
                tot[k] = max(tot[k], v)
            else:
                tot[k] += v
        cases = case_lines(lines)
        extra_rows += sum(1 for l in lines if l.startswith("extra "))
        for cid, cl in cases.items():
            key = hashlib.sha256("\n".join(cl[1:]).encode()).hexdigest()
            if key in distinct:
                continue
            distinct.add(key)
            nb = sum(1 for l in cl if l.startswith("bb "))
            if nb >= 3:
                nontrivial += 1
                if len(samples) < 2:
                    samples.append([l[:160] for l in cl[:14]])
        # objects that hold branching rows appended by is_satisfiable(): every later public answer (solve(),
        # optimal_value(), feasible_point()) is judged against the reference of the USER's data
        grown = set(l.split()[1] for l in lines if l.startswith("extra "))
        opos = 0
        for hist in base.split_histories(old):
            b0 = old.index(hist[0], opos)
            opos = b0 + 1
            if hist[0].split()[1] in grown:
                seen_sat = False
                for i, l in enumerate(hist):
                    t = l.split()
                    if t[0] == "obs" and t[2] == "sat":
                        seen_sat = True
                    elif t[0] == "obs" and seen_sat:
                        v = overd.get(b0 + i)
                        extra_answers[v[0] if v else "unjudged"] += 1
        bad_cases = collections.OrderedDict()
        for v in verd:
            vc[v[0] + ":" + v[2]] += 1
            if v[0] == "skip":
                vc["skip-why:" + v[4].split()[0] if v[4] else "skip-why:?"] += 1
            if v[0] == "MISMATCH":
                bad_cases.setdefault(v[1], []).append(v)
        # public answers through the existing judges (KF matching, shrinking by the c06_mip replayer is not
        # applicable to this grammar subset: report with the history as replay)
        pos = 0
        for hist in base.split_histories(old):
            b0 = old.index(hist[0], pos)
            pos = b0 + 1
            base.examine(ctx, hist, lambda i, b=b0, vv=overd: vv.get(b + i), "c06_bb seed %d" % ctx.seed, ostats, seen_sites, None)
        for cid, vs in bad_cases.items():
            cl = cases.get(cid, [])
            root = next((l for l in cl if l.startswith("root ")), "")
            kinds = sorted(set(v[2] for v in vs))
            wrong_answer = [v for v in vs if v[2] in ("lp-oracle", "sub-answer", "sat-answer", "top-ref")]
            first = (wrong_answer or vs)[0]
            cls = "+".join(kinds)
            reported[cls] += 1
            if reported[cls] > 3 or sum(reported.values()) > 24:
                continue
            found = bool(wrong_answer)
            if found:
                site = {"sub-answer": "MIP_Problem::solve_mip", "sat-answer": "MIP_Problem::is_mip_satisfiable",
                        "top-ref": "MIP_Problem::solve"}.get(
                    first[2], "MIP_Problem::lp_of_bb_node")
                what = ("C06 branch-and-bound: the real %s at node %s of case %s is wrong: %s" %
                        ({"lp-oracle": "LP answer", "sub-answer": "solve_mip result", "sat-answer": "is_mip_satisfiable result",
                          "top-ref": "solve() answer (against the model run with the proved LP reference as oracle)"}[first[2]],
                         first[3], cid, first[4][:300]))
            else:
                site = "correspondence:" + cls
                what = ("C06 branch-and-bound CORRESPONDENCE-DIFF (%s) at node %s of case %s: the model of solve_mip / "
                        "is_mip_satisfiable (lean/PPLV/Solver/BB.lean) and the library disagree although every LP answer "
                        "and sub-answer is right: %s" % (cls, first[3], cid, first[4][:300]))
            ctx.violation(what, {
                "stage": "c06_bb", "root": root, "case_journal": cl, "verdicts": [" ".join(v) for v in vs][:20],
                "site": site, "tags": ["bb_" + k for k in kinds],
                "how_to_replay": "bin/check C06 --replay <this file>  (or: echo '<root line>' > r.txt ; build/c06_bb-* --replay r.txt | lean/.lake/build/bin/pplv_mip --bb)",
            }, found_input=found, record={"site": site, "tags": ["bb_" + k for k in kinds]})

    ctx.cov["c06_bb"] = {
        "cases": sum(len(case_lines(r[0])) for r in results), "distinct": len(distinct),
        "distinct_nontrivial": nontrivial,
        "rule": "seeded MIP instances (families: boxed, half-open boxes, equality-heavy, degenerate rows, objective / "
                "constraint changes between solves, parity-infeasible 2x=1 / 2x+2y=1, knapsack); distinct by hash of the "
                "journal; non-trivial = the optimisation tree has at least 3 nodes",
        "samples": samples,
        "tree_size_histogram": dict(sorted(tree_sizes.items(), key=lambda kv: int(kv[0]))),
        "driver_stats": dict(tot), "verdicts": dict(vc),
        "objects_holding_branch_rows_left_by_is_satisfiable": extra_rows,
        "public_answers_after_is_satisfiable_grew_the_object": dict(extra_answers),
        "public_answers_judged_by_reference": dict((k, v) for k, v in ostats.items() if k in ("ok", "skip", "MISMATCH")),
        "reported_classes": dict(reported),
    }
    ctx.assumptions += [
        "stage 3: the LP machinery below solve_mip is an oracle in the model; its hypothesis (the statement of C06.lp_spec and "
        "a feasible point attaining it) is CHECKED on every journalled node against the verified LP reference",
        "is_satisfiable() (a const method) appends the right-branch rows of its search to the object's input_cs (visible through "
        "constraints_begin/end); C06 speaks about the ANSWERS: they are unchanged (C06.is_satisfiable_leaves_rows_harmless: the "
        "feasible integral points are the same), and every answer such a grown object gives later (after more constraints / a new "
        "objective) is judged against the reference of the user's data (cov: public_answers_after_is_satisfiable_grew_the_object); "
        "the copy constructor resetting first_pending_constraint and the stale incumbent flag after an UNBOUNDED return of solve_mip "
        "are internal and not observable in any answer (the former is exercised by the copy operations of harness/c06_mip.cc)",
        "termination of branch-and-bound is proved only for integer variables bounded in the relaxation "
        "(C06.solve_mip_terminates_partial); the model is fuelled, soundness holds for every fuel",
    ]
    return broken
