"""C10 — products denote the intersection of their components; reductions never lose it.

proof:  PPLV.Props.C10 — for every pair of K5 component domains, every component values and every
        state of the lazy flag: reduce_preserves_meet (all five policies), lazy_reduce_preserves_meet,
        shrink_to_congruence_preserves_meet + shrink_arithmetic (C++ % = Int.tmod), transformer_sound,
        is_empty_sound, contains_sound, any_component_sound.
tie:    harness/c10_product.cc (4 pair sets = 8 component pairs x 5 policies; Grid first and second, second component
        polyhedron / box / BD shape / octagon) runs seeded histories over pools of products; grids and bounds have
        non-unit divisors and moduli.  EVERY transformer of the interface is called (affine / generalized / bounded images
        and preimages, unconstrain, time_elapse, closure, dimension operators, add/refine with constraint(s)/congruence(s),
        intersection / upper bound / difference / concatenate / widening) and every predicate (relation_with constraint
        incl. strict and saturating ones / congruence / generator, maximize / minimize / bounds, is_discrete / bounded /
        topologically_closed / constrains / contains / disjoint / empty / universe).  The driver pplv_ps judges every
        observation three ways: (A) it is a reduction of the unreduced shadow components (components shrink, intersection
        unchanged); (B) it contains the exact image, computed by the K1 reference operators, of the last observed
        intersection through all operators applied since; (C) it contains pointwise witnesses of that image.  Pairs with
        a proper Grid are judged on ALL lattice points of the grid inside the K1 bounding box of the other component
        (exhaustive when that box is bounded and the grid has no line), the others exactly with K1.
"""
import collections, concurrent.futures as cf, hashlib, os, re
from . import poly_common as pc
from .c09 import run_driver_parallel

LEVEL = "proof"
PROPS = ["PPLV.Props.C10"]
PAIRS = {"0": "C_Polyhedron x Grid", "1": "Grid x NNC_Polyhedron", "2": "Rational_Box x Grid",
         "3": "BD_Shape<mpq_class> x C_Polyhedron", "4": "Octagonal_Shape<mpq_class> x Rational_Box",
         "5": "Grid x BD_Shape<mpq_class>", "6": "Grid x Octagonal_Shape<mpq_class>", "7": "Grid x Rational_Box"}
NPAIRSETS = 4
REFINES = ("refine_con", "refine_cons", "refine_cg", "add_con", "add_cg")
# base-level operators of Box known to cut away points of the exact result (C03, DESIGN section 9 #11)
BOX_LOSSY = {"gen_pre": "generalized_affine_preimage", "gen_pre2": "generalized_affine_preimage",
             "gen_img2": "generalized_affine_image(lhs,relsym,rhs)", "bnd_img": "bounded_affine_image",
             "bnd_pre": "bounded_affine_preimage"}


def chain_of(lines, idx, slot):
    """operators applied to `slot` since its previous observation"""
    ops = []
    for l in reversed(lines[:idx]):
        t = l.split()
        if t[0] == "pobs" and t[1] == slot:
            break
        if t[0] in ("pnew", "pgrid") and t[1] == slot:
            ops.append("create"); break
        if t[0] == "pcopy" and t[1] == slot:
            ops.append("copy"); break
        if t[0] == "pop" and t[1] == slot:
            ops.append(t[2])
    return list(reversed(ops))


def classify(lines, idx, what):
    head = lines[0].split()
    pair, pol = (head[4], head[5]) if len(head) > 5 else ("?", "?")
    kinds = head[6:8] if len(head) > 7 else ["?", "?"]
    tags = ["pair_" + pair, "policy_" + pol]
    t = lines[idx].split()
    site = "?"
    if what.startswith("transformer:"):
        chain = chain_of(lines, idx, t[1])
        real = [o for o in chain if o not in REFINES] or chain
        m = re.search(r"\(component ([0-9+?]+)\)", what)
        culprit = kinds[int(m.group(1)) - 1] if m and m.group(1) in ("1", "2") else "?"
        tags += ["chain_" + o for o in sorted(set(chain))] + ["culprit_" + culprit]
        site = "transformer:" + (real[-1] if real else "?")
        if "diff" in chain:
            # the component-wise difference (d1 \\ y1, d2 \\ y2) is not an over-approximation of the difference of
            # the intersections
            site = "difference_assign"
            tags.append("componentwise_difference_loses_points")
        elif culprit == "B":
            lossy = [o for o in real if o in BOX_LOSSY]
            if lossy:
                site = "transformer:Box::" + BOX_LOSSY[lossy[-1]]
                tags.append("box_component_" + lossy[-1] + "_cuts_image_points")
                tags.append("box_component_lossy_transformer")
    elif what.startswith("reduce:"):
        site = "reduce:" + pol
    elif what.startswith("smash_propagation"):
        site = "reduce:" + pol
        tags.append("emptiness_not_propagated")
    elif t[0] == "pq":
        site = "query:" + t[2]
        if t[2] == "relcg" and "B" in kinds and "is_disjoint reported" in what:
            # Box::relation_with(Congruence) answers IS_DISJOINT for boxes that meet the congruence (base-level defect)
            tags.append("box_component_relation_with_congruence_disjoint")
    elif t[0] == "crash":
        prev = [l for l in lines[:idx] if l.split()[0] in ("pop", "pq", "pnew", "pgrid", "pexp")]
        last = prev[-1].split() if prev else ["?", "?", "?"]
        site = "crash:" + (last[2] if last[0] in ("pop", "pq") else last[0])
        if "B" in kinds:
            tags.append("box_component")
            if last[0] == "pop" and last[2] == "bnd_pre":
                tags.append("box_bounded_affine_preimage_sigfpe")
    elif t[0] == "exc":
        prev = [l for l in lines[:idx] if l.split()[0] == "pop"]
        site = "exc:" + (prev[-1].split()[2] if prev else "?")
    elif t[0] == "notok":
        site = "OK()"
        # which operator left the `reduced' flag set on a pair that is no longer reduced?
        last = None
        for l in lines[:idx]:
            u = l.split()
            if u[0] == "pop" and u[1] == t[1]:
                last = u[2]
        if last in ("unconstrain", "ub", "time_elapse", "widen", "remove_dims", "remove_higher", "map_dims", "expand", "fold",
                    "closure", "add_dims_embed", "add_dims_project"):
            tags.append("reduced_flag_stale_after_" + last)
    return site, tags, pair, pol


def run(ctx):
    ctx.ensure_ppl()
    broken = ctx.prove(PROPS)
    quick = ctx.tier == "quick"
    drv = ctx.ensure_pplv("pplv_ps")
    with cf.ThreadPoolExecutor(NPAIRSETS) as ex:
        hs = list(ex.map(lambda k: ctx.compile_harness("c10_product.cc", out_name="c10_product_p%d" % k,
                                                       flags=("-DPAIRSET=%d" % k,)), range(NPAIRSETS)))
    n_hist, length = (320, 10) if quick else (10000, 16)
    wd = ctx.workdir()
    stats, opc, qc, pairc, polc, okfalse = (collections.Counter() for _ in range(6))
    distinct, nontrivial, samples, total = set(), 0, [], 0
    summaries = []
    for k, h in enumerate(hs):
        jpath = os.path.join(wd, "journal%d.txt" % k)
        cmd = [h, "--seed", str(ctx.seed), "--first", "0", "--last", str(n_hist), "--len", str(length), "--batch", "4"]
        rc, _, err = ctx.run(cmd, stdout_path=jpath, timeout=3000)
        if rc != 0:
            ctx.fatal("harness failed rc=%s %s" % (rc, (err or "")[-500:]))
        journal = open(jpath).read().splitlines()
        sub = os.path.join(wd, "d%d" % k); os.makedirs(sub, exist_ok=True)
        verd, summary = run_driver_parallel(ctx, drv, journal, sub)
        summaries.append(summary)
        for start, lines in pc.split_histories(journal):
            total += 1
            head = lines[0].split()
            pairc[PAIRS.get(head[4], head[4])] += 1; polc[head[5]] += 1
            key = hashlib.sha256("\n".join(lines[1:]).encode()).hexdigest()
            changed, last_raw = False, {}
            for l in lines:
                t = l.split()
                if t[0] in ("pop", "pimp"):
                    opc[t[2]] += 1
                elif t[0] == "pq":
                    qc[t[2]] += 1
                elif t[0] == "praw":
                    last_raw[t[1]] = t[3:]
                elif t[0] == "pobs" and t[1] in last_raw:
                    body = t[3:]
                    if body != last_raw[t[1]] and "G 1 0 0" not in " ".join(body):
                        changed = True          # a reduction really changed a component of a non-empty product
            if key not in distinct:
                distinct.add(key)
                if changed:
                    nontrivial += 1
                    if len(samples) < 2:
                        samples.append([x[:160] for x in lines[:12]])
            for i, l in enumerate(lines):
                v = verd.get(start + i)
                if not v:
                    continue
                stats[v[0]] += 1
                if v[0] == "ok" and v[1].startswith("sampled"):
                    stats["ok_by_sampling"] += 1
                if v[0] == "ok" and v[1].startswith("exhaustive"):
                    stats["ok_by_exhaustive_enumeration"] += 1
                if v[0] == "skip":
                    stats["skip:" + v[1].split()[0]] += 1
                elif v[0] == "MISMATCH":
                    if v[1].startswith("OK() returned false"):
                        # Partially_Reduced_Product::OK() re-reduces a copy and compares: it is false when the
                        # `reduced' flag is stale (unconstrain / upper_bound / time_elapse do not clear it) or when
                        # one pass of the reduction is not a fixpoint.  The denotation is unaffected: diagnostic only.
                        site, tags, pair, pol = classify(lines, i, v[1])
                        cause = [t for t in tags if t.startswith("reduced_flag_stale")]
                        okfalse[(cause[0] if cause else "reduction_not_idempotent") + ":" + pol] += 1
                        stats["MISMATCH"] -= 1
                        continue
                    if len(ctx.violations) >= 25:
                        stats["mismatch_not_reported_individually"] += 1
                        continue
                    site, tags, pair, pol = classify(lines, i, v[1])
                    hid = head[1]
                    args = list(cmd[1:])
                    for j, a in enumerate(args):
                        if a == "--first": args[j + 1] = hid
                        if a == "--last": args[j + 1] = str(int(hid) + 1)
                    ctx.violation("%s [%s, %s]: %s | event: %s" % (site, PAIRS.get(pair, pair), pol, v[1][:300], l[:200]),
                                  {"history": lines[: i + 1], "verdict": v[1], "site": site, "tags": tags,
                                   "driver": "pplv_ps", "harness": "c10_product.cc", "pairset": k, "harness_args": args,
                                   "replay_cmd": "bin/check C10 --replay <this file>   (re-runs the history on the current tree)"},
                                  found_input=True, record={"site": site, "tags": tags})
    for b in broken:
        ctx.violation("proof obligation broken: " + b, {"obligation": b}, found_input=False)
    ctx.cov.update({
        "evaluations": total, "distinct_nontrivial": nontrivial,
        "rule": "seeded histories (len %d, dim<=3) over pools of 3 products, 8 component pairs x 5 reduction policies; distinct by hash of "
                "the journal text; non-trivial = some observation where reduce() really changed a component of a non-empty product" % length,
        "samples": samples, "traces_validated_against_impl": total,
        "observations_decided": stats["ok"], "of_which_by_lattice_point_sampling": stats["ok_by_sampling"],
        "of_which_by_exhaustive_lattice_enumeration": stats["ok_by_exhaustive_enumeration"],
        "observations_mismatch": stats["MISMATCH"],
        "mismatch_not_reported_individually": stats["mismatch_not_reported_individually"],
        "observations_skipped": {k[5:]: v for k, v in stats.items() if k.startswith("skip:")},
        "OK_false_diagnostics": dict(okfalse),
        "pair_histogram": dict(pairc), "policy_histogram": dict(polc),
        "op_histogram": dict(opc), "query_histogram": dict(qc), "driver_summaries": summaries,
    })
    ctx.assumptions += [
        "the K5 hypothesis fields of the component domains (sound is_empty / refine_with_* / maximize / minimize / frequency, "
        "minimized_constraints and minimized_congruences valid on the element) are the content of C01-C05 for the real domains",
        "pairs whose components are both expressible as constraint systems (polyhedra, boxes, BD shapes, octagons, and grids that are "
        "affine spaces or empty) are judged exactly by the proved K1 deciders; for the other pairs with a Grid the intersection is "
        "judged on all lattice points of the grid component inside the K1 bounding box of the other component (exhaustive, hence exact, "
        "when the box is bounded and the grid has no line; a window otherwise: refutation-complete only); containment of the grid "
        "component itself is decided exactly on its generators",
        "transformers are judged against the specification, not against the shadows: the exact image (K1 reference operators, "
        "PPLV.Lin.OpsProofs) of the last observed intersection must be contained in the next observation; fold_space_dimensions and "
        "proper congruences on polyhedral pairs are judged on pointwise witnesses / finitely many hyperplanes only",
        "time_elapse on products with a Grid follows the grid definition (integer time): the image is judged for time steps 0, 1, 2, 3",
        "'all histories' of the real code is sampled by seeded histories",
    ]


def replay(ctx, path):
    import json
    r = json.load(open(path))
    print("property=%s what=%s" % (r.get("property"), r.get("what")))
    if "harness_args" not in r:
        print(json.dumps(r, indent=1)[:3000]); return 0
    ctx.ensure_ppl()
    drv = ctx.ensure_pplv("pplv_ps")
    k = int(r.get("pairset", 0))
    h = ctx.compile_harness("c10_product.cc", out_name="c10_product_p%d" % k, flags=("-DPAIRSET=%d" % k,))
    wd = ctx.workdir()
    jpath = os.path.join(wd, "journal.txt")
    ctx.run([h] + r["harness_args"], stdout_path=jpath, timeout=600)
    rc, out, err = ctx.run([drv], stdin_path=jpath, timeout=600)
    journal = open(jpath).read().splitlines()
    bad = [l for l in (out or "").splitlines() if l.startswith("MISMATCH")]
    for b in bad:
        ln = int(b.split()[1])
        print("  event: " + journal[ln - 1][:300]); print("  " + b[:400])
    if bad:
        print("VIOLATION property=%s replay=%s" % (ctx.pid, path)); return 1
    print("no mismatch when re-run on the current tree"); return 0
