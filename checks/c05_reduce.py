"""C05 stage 2 — Grid's own algorithms inside the Lean model (helper of checks/c05.py).

proof:  PPLV.Props.C05Reduce over the code-shaped models lean/PPLV/Lattice/Reduce.lean (Grid::simplify, both
        overloads, with reduce_line_with_line / reduce_equality_with_equality / reduce_pc_with_pc /
        reduce_parameter_with_line / reduce_congruence_with_equality / reduce_reduced / rows_are_zero) and
        lean/PPLV/Lattice/Convert.lean (Grid::conversion both directions, multiply_grid, lower/upper_triangular,
        normalize_divisors): every reduce step keeps the denoted grid, hence the whole loops do; the result is
        triangular; the emptiness flag is sound; the converted system is satisfied by the source.
tie:    harness/c05_reduce.cc calls the REAL private functions (Grid::simplify, Grid::conversion,
        Grid::normalize_divisors, gcdext_assign) on seeded systems and journals the raw rows, dim_kinds and results;
        the native driver pplv_gridred replays the model on the same input and demands identical rows / dim_kinds /
        flag (obligation `rows`), the triangular form of the real output (`tri`) and, with the verified K2 deciders,
        that the real output denotes the input grid (`sem`).
A `rows` difference alone is a broken correspondence (VIOLATION … no-failing-input-found: the real output still
denotes the right grid); `sem` / `tri` / a crash is a violation of the property with the journalled input as replay.
"""
import collections, hashlib, json, os, re, shutil
from .common import BUILD

PROPS = ["PPLV.Props.C05Reduce"]
KINDS = ("ND", "SG", "GC", "SC", "CG", "GX")
SITE = {"ND": "Grid::normalize_divisors", "SG": "Grid::simplify(Grid_Generator_System)", "GC": "Grid::conversion(gens->cgs)",
        "SC": "Grid::simplify(Congruence_System)", "CG": "Grid::conversion(cgs->gens)", "GX": "gcdext_assign"}


def run(ctx):
    """returns the number of broken obligations (each one is reported here)."""
    broken = ctx.prove(PROPS)
    if ctx.tier == "thorough":
        broken += ctx.leanchecker(PROPS)
    drv = ctx.ensure_pplv("pplv_gridred")
    h = ctx.compile_harness("c05_reduce.cc")
    wd = os.path.join(BUILD, "run-%s-reduce-%d" % (ctx.pid, os.getpid()))
    shutil.rmtree(wd, ignore_errors=True)
    os.makedirs(wd)
    ncase = 6000 if ctx.tier == "quick" else 150000
    seed, first, last = ctx.seed, 0, ncase
    if ctx.replay:
        try:
            rp = json.load(open(ctx.replay))
        except Exception:
            rp = {}
        if "reduce_case" in rp:
            seed = rp.get("seed", seed)
            first, last = int(rp["reduce_case"]), int(rp["reduce_case"]) + 1
    journal = os.path.join(wd, "journal.txt")
    cmd = [h, "--seed", str(seed), "--first", str(first), "--last", str(last), "--per-batch", "100"]
    rc, _, err = ctx.run(cmd, stdout_path=journal, timeout=1500)
    if rc != 0:
        ctx.fatal("harness c05_reduce failed rc=%s %s" % (rc, (err or "")[-500:]))
    verdicts = os.path.join(wd, "verdicts.txt")
    rc, _, err = ctx.run([drv], stdin_path=journal, stdout_path=verdicts, timeout=1500)
    if rc != 0:
        ctx.fatal("driver pplv_gridred failed rc=%s %s" % (rc, (err or "")[-500:]))

    J = [l.rstrip("\n") for l in open(journal)]
    V = {}
    for l in open(verdicts):
        t = l.rstrip("\n").split(" ", 2)
        if len(t) >= 2 and t[1].isdigit():
            V[int(t[1])] = (t[0], t[2] if len(t) > 2 else "")
    calls = [(i, l) for i, l in enumerate(J, 1) if l.split(" ", 1)[0] in KINDS]
    if any(i not in V for i, _ in calls):
        ctx.fatal("pplv_gridred judged %d of %d journalled calls" % (sum(1 for i, _ in calls if i in V), len(calls)))
    bad_parse = [(i, v) for i, v in V.items() if v[0] == "skip" and "unparsable" in v[1]]
    if bad_parse:
        ctx.fatal("pplv_gridred could not parse journal line %d: %s" % (bad_parse[0][0], J[bad_parse[0][0] - 1][:300]))

    harness_name = os.path.basename(h)

    def replay_obj(case_id, ln, extra):
        o = {"reduce_case": case_id, "journal_line": J[ln - 1] if ln else None,
             "replay_cmd": "build/%s --seed %d --first %s --last %s | lean/.lake/build/bin/pplv_gridred   # or: VERIF_SEED=%d bin/check C05 --replay <this file>"
                           % (harness_name, seed, case_id, (int(case_id) + 1) if str(case_id).isdigit() else case_id, seed)}
        o.update(extra)
        return o

    per_kind = collections.Counter()
    mism = collections.Counter()
    tags = collections.Counter()
    tag_calls = collections.Counter()
    hist_n = collections.Counter()
    hist_rows = collections.Counter()
    flags = collections.Counter()
    distinct, nontrivial = set(), set()
    reported = collections.Counter()
    n_ok = n_bad = n_skip = 0
    samples = []
    for ln, line in calls:
        kind = line.split(" ", 1)[0]
        verdict, rest = V[ln]
        per_kind[kind] += 1
        inp = line.split(" => ")[0]
        key = hashlib.sha256(re.sub(r"^(\w+) \d+ ", r"\1 ", inp).encode()).hexdigest()[:16]
        distinct.add(key)
        if verdict == "ok":
            n_ok += 1
            kv = dict(m.groups() for m in re.finditer(r"(\w+)=(-?\d+)", rest))
            if kind != "GX":
                hist_n["%s n=%s" % (kind, kv.get("n"))] += 1
                hist_rows["%s rows=%s" % (kind, kv.get("rows"))] += 1
                if int(kv.get("rows", "0")) >= 2 and int(kv.get("n", "0")) >= 1:
                    nontrivial.add(key)
            if kind == "SC":
                flags["inconsistent" if kv.get("flag") == "1" else "consistent"] += 1
            for k, v in kv.items():
                if k in ("n", "rows", "out", "flag", "norm"):
                    continue
                if int(v) > 0:
                    tags[k] += int(v)
                    tag_calls[k] += 1
            if len(samples) < 6 and kind in ("SG", "SC") and int(kv.get("rows", "0")) >= 3:
                samples.append(line[:400])
        elif verdict == "skip":
            n_skip += 1
        elif verdict == "MISMATCH":
            n_bad += 1
            t = rest.split(" ", 3)          # kind id obligation detail
            case_id, obl, detail = t[1], t[2], (t[3] if len(t) > 3 else "")
            site = SITE.get(kind, kind)
            mism["%s %s" % (site, obl)] += 1
            reported[(site, obl)] += 1
            if reported[(site, obl)] > 2:
                continue
            property_broken = obl != "rows"
            if property_broken:
                what = ("%s: the real output breaks the property (%s): %s" % (site, obl, detail[:500]))
            else:
                what = ("%s: the real code no longer does what the verified model does (rows/dim_kinds differ; the real output "
                        "still denotes the input grid on this case): %s" % (site, detail[:500]))
            ctx.violation(what, replay_obj(case_id, ln, {"obligation": obl, "detail": detail, "site": site}),
                          found_input=property_broken, record={"site": site, "tags": obl.split("+")})
    # crashes / exceptions of the real functions
    last_try = None
    for i, l in enumerate(J, 1):
        if l.startswith("try "):
            last_try = l
        elif l.startswith("crash") or l.startswith("exc "):
            n_bad += 1
            kind = last_try.split()[1] if last_try else "?"
            cid = last_try.split()[2] if last_try else "?"
            site = SITE.get(kind, kind)
            mism["%s crash" % site] += 1
            reported[(site, "crash")] += 1
            if reported[(site, "crash")] <= 2:
                ctx.violation("%s: the library crashed / threw (%s) on a journalled input" % (site, l[:80]),
                              replay_obj(cid, 0, {"crash": l, "during": last_try, "site": site}),
                              found_input=True, record={"site": site, "tags": ["crash"]})
    for b in broken:
        ctx.violation("proof obligation broken (C05 stage 2): " + b,
                      {"obligation": b, "note": "the correspondence run is the search for a failing input in the implementation; "
                       "it found %d mismatching calls" % n_bad},
                      found_input=False, record={"site": "lean", "tags": ["proof"]})
    ctx.cov["reduce"] = {
        "cases": last - first, "calls": len(calls), "calls_agree": n_ok, "calls_mismatch_or_crash": n_bad, "calls_skipped": n_skip,
        "calls_per_function": {SITE[k]: v for k, v in per_kind.items()},
        "distinct_inputs": len(distinct), "distinct_nontrivial": len(nontrivial),
        "rule": "a case = one seeded generator system (normalize_divisors, simplify, conversion to congruences) and one seeded "
                "congruence system (simplify, conversion to generators) + gcdext samples; distinct by sha256 of the journalled "
                "input; non-trivial: dimension >= 1 and at least 2 input rows",
        "branches_hit_total": dict(tags), "branches_hit_calls": dict(tag_calls),
        "dimension_histogram": dict(hist_n), "input_rows_histogram": dict(hist_rows),
        "simplify_cgs_flag": dict(flags), "mismatch_histogram": dict(mism), "samples": samples,
        "compared": "rows, dim_kinds, flag exactly (model vs real); on the real output: triangular form (upper/lowerTriangular, gnormB), certificate checkers gcCertB/cgCertB, K2 equivalence with the input (equivB of consToGens / gensOf)",
    }
    ctx.assumptions += [
        "C05 stage 2: mpz_gcdext is modelled by its documented choice of the Bezout pair (|s| < |b|/(2g), tie s = sgn a), "
        "validated on every journalled gcdext_assign call; the theorems only use s*a + t*b = gcd(a,b)",
        "C05 stage 2: Linear_Expression row primitives (linear_combine on a column range, negate, mul_assign, exact_div_assign) are "
        "modelled entry-wise; the sparse/dense row layer itself is the subject of C16",
    ]
    if not ctx.violations:
        shutil.rmtree(wd, ignore_errors=True)
    return len(broken)
