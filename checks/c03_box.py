"""C03 stage 4 — the transformers of Box<ITV> (helper of checks/c03.py).

proof:  PPLV.Props.C03Box over the code-shaped model lean/PPLV/WR/BoxTrans.lean, BoxTrans2.lean (a box = the list of
        C12-model intervals + the EMPTY / EMPTY_UP_TO_DATE status bits; add_constraint_no_check, refine_no_check,
        propagate_constraint(s)_no_check with its four sign blocks, max_min, affine_image / affine_preimage,
        generalized_affine_image / _preimage in both forms, bounded_affine_image / _preimage, unconstrain, is_empty / check_empty,
        intersection / upper_bound / difference / concatenate, remove_higher_space_dimensions), for every interval
        policy and every sound directed rounding of the boundary type and of the temporaries.
tie:    harness/c03_box.cc calls the REAL functions of Rational_Box, Z_Box, Int8_Box, Double_Box on boxes whose interval
        sequence and status bits are written directly (`#define private public`), journals the state before, the
        arguments and the state after (or the exception); the native driver pplv_wrb
          (a) replays the model with the roundings of the instantiation (exact / floor-ceil / int8 with long long
              temporaries / binary64 simulated exactly) and demands the IDENTICAL state: status bits, bounds, open flags;
          (b) independently judges the real output: sampled members of the exact result (end points, points moved onto
              the hyperplane of the constraint, exact images / preimages of members) must be members of the real result.
verdicts: MISMATCH   -> the model does not say what the code does: CORRESPONDENCE-DIFF (a VIOLATION: the theorems are
                        about the model); when the judge fails on the same input the property itself is violated there.
          JUDGE-FAIL -> the real result loses a point of the exact result: VIOLATION with the journal line as replay
                        (open findings: structural predicate of the input, see `structural_tags`).
          CRASH      -> the library died in the call (bounded_affine_preimage is run in a child of its own: the model predicts
                        its SIGFPE exactly, open finding KF-C03-1; a death the model does not predict is a CORRESPONDENCE-DIFF).
"""
import collections, concurrent.futures as cf, hashlib, json, os, shutil
from .common import BUILD

PROPS = ["PPLV.Props.C03Box"]
DRIVER = "pplv_wrb"
HARNESS = "c03_box.cc"
NPROC = 16
TNAME = {"Q": "mpq", "Z": "mpz", "I": "int8", "D": "double"}
SITE = {"addc": "Box::add_constraint", "refine": "Box::refine_with_constraint", "refs": "Box::refine_with_constraints",
        "prop": "Box::propagate_constraint", "props": "Box::propagate_constraints", "aff": "Box::affine_image",
        "apre": "Box::affine_preimage", "gaff": "Box::generalized_affine_image(var)",
        "gapre": "Box::generalized_affine_preimage(var)", "gaffl": "Box::generalized_affine_image(lhs)",
        "gaprel": "Box::generalized_affine_preimage(lhs)", "baff": "Box::bounded_affine_image",
        "bapre": "Box::bounded_affine_preimage", "unc": "Box::unconstrain",
        "uncs": "Box::unconstrain", "isempty": "Box::is_empty", "meet": "Box::intersection_assign",
        "join": "Box::upper_bound_assign", "diff": "Box::difference_assign", "concat": "Box::concatenate_assign",
        "rmhi": "Box::remove_higher_space_dimensions"}


def parse_line(line):
    """journal line -> dict(id, ty, op, box, args, result) or None"""
    t = line.split()
    if len(t) < 4 or t[2] not in SITE or t[1] not in TNAME:
        return None
    rest = t[4:]
    if "=>" in rest:
        k = rest.index("=>")
        return {"id": t[0], "ty": t[1], "op": t[2], "box": t[3], "args": rest[:k], "result": " ".join(rest[k + 1:])}
    return {"id": t[0], "ty": t[1], "op": t[2], "box": t[3], "args": rest, "result": None}


def _exprs(ev):
    """(kind, coefficients, inhomogeneous term) of every expression / constraint among the arguments"""
    out = []
    for a in ev["args"]:
        if "|" not in a:
            continue
        kind, _, e = a.rpartition(":")
        cs, _, b = e.partition("|")
        try:
            out.append((kind, [int(c) for c in cs.split(",") if c != ""], int(b)))
        except ValueError:
            pass
    return out


def _fits_double(c):
    c = abs(c)
    return c == 0 or c.bit_length() <= 53 or c % (1 << (c.bit_length() - 53)) == 0


def structural_tags(ev):
    """the structural class of the input: the predicates of the open findings"""
    tn = TNAME.get(ev["ty"], ev["ty"])
    tags = ["T_" + tn, "op_" + ev["op"]]
    es = _exprs(ev)
    dens = [int(a) for a in ev["args"] if a.lstrip("-").isdigit()]
    ints = [c for _, cs, _ in es for c in cs]
    prods = ints + [c * d for c in ints for d in dens if abs(d) > 1]
    if tn == "double" and any(not _fits_double(c) for c in prods):
        tags.append("coefficient_not_representable_in_double_temporary")
    if tn == "int8" and any(c > 2 ** 63 - 1 or c < -2 ** 63 for c in prods):
        tags.append("coefficient_beyond_long_long_temporary")
    if any(k == "eq" and b == 0 and not any(cs) for k, cs, b in es):
        tags.append("trivial_equality_zero_eq_zero")
    if ev["op"] == "bapre" and len(es) >= 2 and ev["args"][:1] and ev["args"][0].isdigit():
        v = int(ev["args"][0])
        if any((cs[v] if v < len(cs) else 0) == 0 for _, cs, _ in es[:2]):
            tags.append("bound_expr_omits_var")          # KF-C03-1: the GMP division by zero
    return tags


def _run_chunk(ctx, h, drv, wd, k, seed, first, last, per):
    jp = os.path.join(wd, "journal.%d.txt" % k)
    rc, _, err = ctx.run([h, "--seed", str(seed), "--first", str(first), "--last", str(last), "--per", str(per)],
                         stdout_path=jp, timeout=3000)
    if rc != 0:
        ctx.fatal("harness c03_box failed rc=%s %s" % (rc, (err or "")[-500:]))
    rc, out, err = ctx.run([drv], stdin_path=jp, timeout=3000)
    if rc != 0:
        ctx.fatal("driver pplv_wrb failed rc=%s %s" % (rc, (err or "")[-500:]))
    return open(jp).read().splitlines(), out.splitlines()


def _examine(ctx, journal, verdicts, harness_args, cov):
    by_id = {}
    for l in journal:
        t = l.split(None, 1)
        if t:
            by_id[t[0]] = l
    per_id = collections.defaultdict(list)
    for v in verdicts:
        t = v.split()
        if len(t) >= 2 and t[0] in ("ok", "MISMATCH", "JUDGE-FAIL", "CRASH"):
            per_id[t[1]].append(v)
    reported = collections.Counter()
    for vid, vs in per_id.items():
        line = by_id.get(vid, "")
        ev = parse_line(line) or {"id": vid, "ty": "?", "op": "?", "box": "", "args": [], "result": None}
        tn = TNAME.get(ev["ty"], ev["ty"])
        site = SITE.get(ev["op"], "Box::?")
        jfail = next((v for v in vs if v.startswith("JUDGE-FAIL")), None)
        head = vs[0].split()
        kind = head[0]
        cov["verdicts"][kind] += 1
        if jfail and kind != "JUDGE-FAIL":
            cov["verdicts"]["JUDGE-FAIL"] += 1
        replay = {"stage": "c03_box", "history": [line], "driver": DRIVER, "verdicts": vs, "site": site, "type": tn,
                  "harness_args": harness_args + ["--id", vid],
                  "how_to_replay": "bin/check C03 --replay <this file>   (or: echo '<history[0]>' > l.txt ; build/c03_box-* --replay l.txt "
                                   "| lean/.lake/build/bin/pplv_wrb ; the recorded outcome alone: lean/.lake/build/bin/pplv_wrb < l.txt)"}
        if kind == "ok":
            op, br = head[2], head[3]
            cov["branches"]["%s %s %s" % (tn, op, br)] += 1
            cov["per_type_op"]["%s %s" % (tn, op)] += 1
            cov["dims"][ev["box"].split(":")[0]] += 1
            cov["status_before"][ev["box"].split(":")[1] if ":" in ev["box"] else "?"] += 1
            try:
                cov["judged_points"] += int(head[4])
            except (IndexError, ValueError):
                pass
            res = ev["result"] or ""
            cov["outcomes"]["%s %s" % (op, "throws" if res.startswith("X:") else "marked_empty" if res.split(":")[1:2] == ["11"]
                                       else "unchanged" if res == ev["box"] else "changed")] += 1
        if kind == "MISMATCH":
            tags = ["T_" + tn, "op_" + ev["op"], "model_mismatch"] + (["judge_fail"] if jfail else [])
            cls = (site, tn, "MISMATCH", bool(jfail))      # a divergence that also loses points is reported as a class of its own
            reported[cls] += 1
            if reported[cls] <= 3:
                what = ("CORRESPONDENCE-DIFF %s [%s]: the code-shaped model (lean/PPLV/WR/BoxTrans*.lean) does not compute what the "
                        "library computes on this input%s | %s | event: %s" % (
                            site, tn, " AND the real result loses a point of the exact result" if jfail else
                            " (the sampled members of the exact result are still in the real result)", vs[0][:500], line[:400]))
                ctx.violation(what, dict(replay, tags=tags), found_input=True, record={"site": site, "tags": tags})
        elif kind == "CRASH":
            predicted = "predicted" in head[4:6]
            cov["crashes"]["%s %s %s" % (tn, ev["op"], "predicted_by_model" if predicted else "UNPREDICTED")] += 1
            # a death that the model does not predict is a divergence of model and code, never an open finding
            tags = (structural_tags(ev) + ["crash", "crash_predicted_by_model"]) if predicted else ["T_" + tn, "op_" + ev["op"], "crash", "model_mismatch"]
            cls = (site, tn, "CRASH", predicted)
            reported[cls] += 1
            if reported[cls] <= 3:
                ctx.violation("%s [%s]: the library dies in the call | event: %s" % (site, tn, line[:400]),
                              dict(replay, tags=tags), found_input=True, record={"site": site, "tags": tags})
        if jfail and kind != "MISMATCH":
            tags = structural_tags(ev) + ["judge_fail"]
            cls = (site, tn, "JUDGE", tuple(t for t in tags if not t.startswith(("T_", "op_"))))
            reported[cls] += 1
            cov["judge_fail_classes"]["%s %s %s" % (site, tn, ",".join(cls[3]))] += 1
            if reported[cls] <= 3:
                what = ("%s [%s]: the result does not contain the exact result (sampled member of the exact result outside the real "
                        "result) | %s | event: %s" % (site, tn, jfail[:400], line[:400]))
                ctx.violation(what, dict(replay, tags=tags), found_input=True, record={"site": site, "tags": tags})
    cov["reported_classes"] = {" ".join(map(str, k)): v for k, v in reported.items()}


def run(ctx):
    """returns the list of broken proof obligations (the caller reports them)."""
    broken = ctx.prove(PROPS)
    quick = ctx.tier == "quick"
    drv = ctx.ensure_pplv(DRIVER)
    h = ctx.compile_harness(HARNESS)
    wd = os.path.join(BUILD, "run-%s-box-%d" % (ctx.pid, os.getpid()))
    shutil.rmtree(wd, ignore_errors=True)
    os.makedirs(wd)
    n_batches, per = (64, 60) if quick else (1600, 60)
    chunk = (n_batches + NPROC - 1) // NPROC
    jobs = [(k, k * chunk, min(n_batches, (k + 1) * chunk)) for k in range(NPROC) if k * chunk < n_batches]
    journal, verdicts = [], []
    with cf.ThreadPoolExecutor(NPROC) as ex:
        for j, v in ex.map(lambda a: _run_chunk(ctx, h, drv, wd, a[0], ctx.seed, a[1], a[2], per), jobs):
            journal += j
            verdicts += v
    harness_args = ["--seed", str(ctx.seed), "--per", str(per)]
    cov = {"verdicts": collections.Counter(), "branches": collections.Counter(), "per_type_op": collections.Counter(),
           "dims": collections.Counter(), "status_before": collections.Counter(), "outcomes": collections.Counter(),
           "judge_fail_classes": collections.Counter(), "crashes": collections.Counter(), "judged_points": 0}
    _examine(ctx, journal, verdicts, harness_args, cov)
    events = [l for l in journal if parse_line(l)]
    key = lambda l: hashlib.sha256(" ".join(l.split()[1:]).encode()).hexdigest()
    distinct = set(key(l) for l in events)
    nontrivial = set(key(l) for l in events if (lambda e: e["result"] is not None and not e["result"].startswith("X:")
                                               and e["result"] != e["box"])(parse_line(l)))
    out = {k: (dict(sorted(v.items())) if isinstance(v, collections.Counter) else v) for k, v in cov.items()}
    out.update({
        "events": len(events), "distinct": len(distinct), "distinct_nontrivial": len(nontrivial),
        "batches": n_batches, "per_type_per_batch": per,
        "rule": "seeded calls of the real Box transformers on boxes written into seq/status (1/9 with an empty interval, detected or "
                "not; 1/50 coefficients beyond the temporaries); distinct by hash of (T, op, box, args, result); non-trivial = the "
                "call returned a state different from `before`; branch = status class of the receiver / path through the C++ "
                "(interval | trivial | propagated constraint with its number of variables and type; invertible or not; which bound "
                "expression mentions the variable; number of variables of lhs)",
        "samples": events[:3],
    })
    ctx.cov["c03_box"] = out
    ctx.assumptions += [
        "stage 4 (Box transformers): the model is tied to the code by exact replay of every journalled call for mpq, mpz, int8 and "
        "double (binary64 directed rounding simulated exactly, the two-step multiply-subtract of the x86-64 build included); "
        "floating-point overflow to infinity inside propagate_constraint_no_check is not exercised; the judge on the real output "
        "is sample based (members of the exact result must be members of the real result)",
    ]
    shutil.rmtree(wd, ignore_errors=True)
    return broken


def is_replay(path):
    try:
        return json.load(open(path)).get("stage") == "c03_box"
    except Exception:
        return False


def replay(ctx, path):
    """bin/check C03 --replay <file>: re-execute the recorded call on the current tree and judge the fresh outcome."""
    obj = json.load(open(path))
    drv = ctx.ensure_pplv(DRIVER)
    h = ctx.compile_harness(HARNESS)
    wd = ctx.workdir()
    rp = os.path.join(wd, "recorded.txt")
    open(rp, "w").write("\n".join(obj.get("history", [])) + "\n")
    print("recorded    : %s" % "\n".join(obj.get("history", []))[:700])
    jp = os.path.join(wd, "replay.journal.txt")
    rc, _, err = ctx.run([h, "--replay", rp], stdout_path=jp, timeout=600)
    now = open(jp).read().splitlines()
    print("current tree: %s" % "\n".join(now)[:700])
    rc, out, err = ctx.run([drv], stdin_path=jp, timeout=600)
    verd = (out or "").splitlines()
    print("\n".join(verd))
    bad = [l for l in verd if l.split()[:1] and l.split()[0] in ("MISMATCH", "JUDGE-FAIL", "CRASH", "CRASHLINE")]
    if bad:
        print("VIOLATION property=%s replay=%s" % (ctx.pid, path))
        return 1
    print("no difference when re-executed on the current tree")
    return 0
