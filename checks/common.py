"""Shared machinery of the PPL verification checks (python3, stdlib only).

A check module `checks/cNN.py` defines `run(ctx)`; it uses the `Ctx` API below to
 * rebuild PPL from /repo's working tree,
 * build the Lean obligations and audit their axioms,
 * compile and run C++ harnesses against the real library,
 * pipe journals through the native Lean driver `pplv`,
 * report violations / known findings and write the evidence file.
"""
import fcntl, hashlib, json, os, re, shutil, subprocess, sys, time, random

VERIF = os.path.dirname(os.path.dirname(os.path.abspath(__file__)))
REPO = os.environ.get("VERIF_REPO", "/repo")
LEAN = os.path.join(VERIF, "lean")
BUILD = os.path.join(VERIF, "build")
EVID = os.path.join(VERIF, "evidence")
REPLAYS = os.path.join(VERIF, "replays")
LOCK = os.path.join(BUILD, "locks")
ALLOWED_AXIOMS = {"propext", "Classical.choice", "Quot.sound"}
FORBIDDEN = re.compile(r"\bsorry\b|\badmit\b|^axiom\s|native_decide|bv_decide|implemented_by|\bunsafe\s|maxHeartbeats\s+0\b", re.M)
TRUSTED_BASE = [
    "Lean 4.33 kernel (lake build; leanchecker in the thorough tier)",
    "axioms propext, Classical.choice, Quot.sound only (audited by #print axioms on every property theorem at every run)",
    "Lean compiler/runtime for the native driver pplv (deciders are proved as Lean functions, executed compiled)",
    "C++ harness, journal protocol and its parsers; g++; GMP",
]


def sh(cmd, **kw):
    kw.setdefault("stdout", subprocess.PIPE)
    kw.setdefault("stderr", subprocess.STDOUT)
    kw.setdefault("text", True)
    return subprocess.run(cmd, **kw)


class Lock:
    def __init__(self, name):
        os.makedirs(LOCK, exist_ok=True)
        self.path = os.path.join(LOCK, name)

    def __enter__(self):
        self.f = open(self.path, "w")
        fcntl.flock(self.f, fcntl.LOCK_EX)
        return self

    def __exit__(self, *a):
        fcntl.flock(self.f, fcntl.LOCK_UN)
        self.f.close()


def file_hash(*paths, extra=""):
    h = hashlib.sha256()
    for p in paths:
        with open(p, "rb") as f:
            h.update(f.read())
    h.update(extra.encode())
    return h.hexdigest()[:16]


def strip_lean_comments(s):
    # remove /- ... -/ (nested) and -- ... comments
    out, i, depth, n = [], 0, 0, len(s)
    while i < n:
        if s.startswith("/-", i):
            depth += 1; i += 2; continue
        if depth and s.startswith("-/", i):
            depth -= 1; i += 2; continue
        if depth:
            i += 1; continue
        if s.startswith("--", i):
            while i < n and s[i] != "\n":
                i += 1
            continue
        out.append(s[i]); i += 1
    return "".join(out)


class Ctx:
    def __init__(self, pid, tier, seed, replay=None):
        self.pid, self.tier, self.seed, self.replay = pid, tier, seed, replay
        self.t0 = time.time()
        self.violations = []        # (what, replay_path, found_input)
        self.known_hits = []        # strings
        self.obligations = 0
        self.discharged = 0
        self.obligation_names = []
        self.cov = {}
        self.assumptions = []
        self.rng = random.Random(seed)
        self.notes = []
        os.makedirs(BUILD, exist_ok=True)
        os.makedirs(EVID, exist_ok=True)
        os.makedirs(REPLAYS, exist_ok=True)
        self.findings = load_findings()

    # ------------------------------------------------------------------ PPL
    def ensure_ppl(self, c_interface=False):
        """Rebuild libppl (and optionally libppl_c) from the current working tree."""
        with Lock("ppl"):
            t = time.time()
            if not os.path.exists(os.path.join(REPO, "config.h")) and not os.path.exists(os.path.join(REPO, "src", "Makefile")):
                r = sh(["./configure"], cwd=REPO)
                if r.returncode:
                    self.fatal("configure failed:\n" + r.stdout[-3000:])
            r = sh(["make", "-C", os.path.join(REPO, "src"), "-j16", "libppl.la", "ppl.hh"])
            if r.returncode:
                self.fatal("PPL does not build:\n" + r.stdout[-4000:])
            if c_interface:
                r = sh(["make", "-C", os.path.join(REPO, "interfaces", "C"), "-j16", "SUBDIRS=."])
                if r.returncode:
                    self.fatal("PPL C interface does not build:\n" + r.stdout[-4000:])
            self.cov["ppl_build_s"] = round(time.time() - t, 1)
        return file_hash(os.path.join(REPO, "src", "ppl.hh"))

    # ------------------------------------------------------------------ Lean
    def lake_build(self, targets):
        with Lock("lake"):
            r = sh(["lake", "build"] + targets, cwd=LEAN)
        return r.returncode == 0, r.stdout

    def ensure_pplv(self, name):
        """Build the native Lean driver `name` (e.g. "pplv_lin") and return its path."""
        ok, log = self.lake_build([name])
        if not ok:
            self.fatal("driver %s does not build:\n%s" % (name, log[-4000:]))
        return os.path.join(LEAN, ".lake", "build", "bin", name)

    def theorem_names(self, module_path):
        """Fully qualified names of the theorems declared in a Props file."""
        src = strip_lean_comments(open(module_path).read())
        names, ns = [], []
        for line in src.splitlines():
            m = re.match(r"\s*namespace\s+(\S+)", line)
            if m:
                ns.append(m.group(1)); continue
            m = re.match(r"\s*end\s+(\S+)", line)
            if m and ns and ns[-1].split(".")[-1] == m.group(1).split(".")[-1]:
                ns.pop(); continue
            m = re.match(r"\s*(?:@\[[^\]]*\]\s*)?(?:private\s+|protected\s+)?theorem\s+([^\s:({\[]+)", line)
            if m:
                names.append(".".join(ns + [m.group(1)]))
        return names

    def import_closure(self, modules):
        """Source files of the project modules reachable from `modules` through `import`."""
        seen, todo, files = set(), list(modules), []
        while todo:
            m = todo.pop()
            if m in seen:
                continue
            seen.add(m)
            p = os.path.join(LEAN, m.replace(".", "/") + ".lean")
            if not os.path.exists(p):
                continue
            files.append(p)
            for line in open(p):
                mm = re.match(r"\s*(?:public\s+)?import\s+((?:PPLV|Driver)\.[\w.]+)", line)
                if mm:
                    todo.append(mm.group(1))
        return files

    def prove(self, modules, extra_sources=()):
        """Build the Props modules, audit every theorem in them.
        Returns list of broken obligations (strings); counts obligations/discharged."""
        broken = []
        # forbidden constructs, in every project source the modules (transitively) import
        for p in self.import_closure(modules):
            m = FORBIDDEN.search(strip_lean_comments(open(p).read()))
            if m:
                broken.append("forbidden construct %r in %s" % (m.group(0), os.path.relpath(p, LEAN)))
        ok, log = self.lake_build(modules)
        thms = []
        for mod in modules:
            thms += self.theorem_names(os.path.join(LEAN, mod.replace(".", "/") + ".lean"))
        self.obligations += len(thms)
        self.obligation_names += thms
        if not ok:
            errs = [l for l in log.splitlines() if l.startswith("error")]
            broken.append("lake build failed: " + " | ".join(errs[:6]))
            self.cov["lake_log_tail"] = log[-3000:]
            return broken
        # axiom audit
        audit = os.path.join(BUILD, "audit_%s_%d.lean" % (self.pid, os.getpid()))
        with open(audit, "w") as f:
            for mod in modules:
                f.write("import %s\n" % mod)
            for t in thms:
                f.write("#print axioms %s\n" % t)
        r = sh(["lake", "env", "lean", audit], cwd=LEAN)
        os.unlink(audit)
        out = r.stdout
        seen = {}
        for m in re.finditer(r"'([^']+)' depends on axioms: \[([^\]]*)\]", out.replace("\n", " ")):
            seen[m.group(1)] = set(a.strip() for a in m.group(2).split(",") if a.strip())
        for m in re.finditer(r"'([^']+)' does not depend on any axioms", out):
            seen[m.group(1)] = set()
        for t in thms:
            if t not in seen:
                broken.append("audit: no axiom report for " + t)
            elif not seen[t] <= ALLOWED_AXIOMS:
                broken.append("audit: %s uses %s" % (t, sorted(seen[t] - ALLOWED_AXIOMS)))
            else:
                self.discharged += 1
        if r.returncode and not broken:
            broken.append("audit run failed: " + out[-500:])
        self.cov["checker_cmd"] = "lake build %s && lake env lean <#print axioms of %d theorems>" % (" ".join(modules), len(thms))
        return broken

    def leanchecker(self, modules):
        bad = []
        for mod in modules:
            r = sh(["lake", "env", "leanchecker", mod], cwd=LEAN)
            if r.returncode:
                bad.append("leanchecker %s: %s" % (mod, r.stdout[-300:]))
        return bad

    # ------------------------------------------------------------------ harness
    def compile_harness(self, src, out_name=None, flags=(), libs=("-lppl", "-lgmpxx", "-lgmp"), c_iface=False, opt="-O1"):
        srcp = os.path.join(VERIF, "harness", src)
        hh = os.path.join(REPO, "src", "ppl.hh")
        deps = [srcp, hh] + [os.path.join(VERIF, "harness", f) for f in os.listdir(os.path.join(VERIF, "harness")) if f.endswith(".hh")]
        key = file_hash(*deps, extra=" ".join(flags) + opt + str(c_iface) + REPO)
        name = out_name or os.path.splitext(src)[0]
        # binaries of different trees (VERIF_REPO copies) must not evict each other
        name = "%s-%s" % (name, hashlib.sha256(REPO.encode()).hexdigest()[:6])
        outp = os.path.join(BUILD, "%s-%s" % (name, key))
        if os.path.exists(outp):
            return outp
        with Lock("cc-" + name):
            if os.path.exists(outp):
                return outp
            for f in os.listdir(BUILD):   # drop stale binaries of this harness
                if f.startswith(name + "-") and os.path.isfile(os.path.join(BUILD, f)):
                    os.unlink(os.path.join(BUILD, f))
            cmd = ["g++", opt, "-w", "-std=gnu++17", "-I" + os.path.join(REPO, "src"), "-I" + os.path.join(REPO, "interfaces"),
                   "-I" + os.path.join(VERIF, "harness")] + list(flags) + [srcp, "-o", outp + ".tmp",
                   "-L" + os.path.join(REPO, "src", ".libs"), "-Wl,-rpath," + os.path.join(REPO, "src", ".libs")]
            if c_iface:
                cmd += ["-I" + os.path.join(REPO, "interfaces", "C"), "-L" + os.path.join(REPO, "interfaces", "C", ".libs"),
                        "-Wl,-rpath," + os.path.join(REPO, "interfaces", "C", ".libs"), "-lppl_c"]
            cmd += list(libs)
            r = sh(cmd)
            if r.returncode:
                self.fatal("harness %s does not compile against the current tree:\n%s" % (src, r.stdout[-4000:]))
            os.rename(outp + ".tmp", outp)
        return outp

    def run(self, cmd, stdin_path=None, stdout_path=None, timeout=None, env=None):
        e = dict(os.environ)
        e["LD_LIBRARY_PATH"] = os.path.join(REPO, "src", ".libs") + ":" + os.path.join(REPO, "interfaces", "C", ".libs")
        if env:
            e.update(env)
        fin = open(stdin_path) if stdin_path else subprocess.DEVNULL
        fout = open(stdout_path, "w") if stdout_path else subprocess.PIPE
        try:
            r = subprocess.run(cmd, stdin=fin, stdout=fout, stderr=subprocess.PIPE, text=True, timeout=timeout, env=e)
            return r.returncode, (r.stdout if not stdout_path else None), r.stderr
        except subprocess.TimeoutExpired:
            return -999, None, "timeout"
        finally:
            if stdin_path: fin.close()
            if stdout_path: fout.close()

    def workdir(self):
        d = os.path.join(BUILD, "run-%s-%d" % (self.pid, os.getpid()))
        shutil.rmtree(d, ignore_errors=True)
        os.makedirs(d)
        return d

    # ------------------------------------------------------------------ verdicts
    def write_replay(self, obj):
        blob = json.dumps(obj, indent=1, sort_keys=True)
        h = hashlib.sha256(blob.encode()).hexdigest()[:12]
        p = os.path.join(REPLAYS, "%s-%s.json" % (self.pid, h))
        with open(p, "w") as f:
            f.write(blob)
        return p

    def match_known(self, record):
        """record: dict describing a failing case (keys: site, tags, ...)."""
        for f in self.findings:
            if f.get("status") != "open" or f.get("property") != self.pid:
                continue
            if f.get("site") and f["site"] != record.get("site"):
                continue
            pred = f.get("predicate")
            if pred and pred not in record.get("tags", []):
                continue
            return f
        return None

    def violation(self, what, replay_obj, found_input=True, record=None):
        if record is not None:
            k = self.match_known(record)
            if k is not None:
                msg = "KNOWN-FINDING: property=%s %s [%s]" % (self.pid, k["what"], k["id"])
                if msg not in self.known_hits:
                    self.known_hits.append(msg)
                    print(msg, flush=True)
                return False
        replay_obj = dict(replay_obj)
        replay_obj.update({"property": self.pid, "what": what, "seed": self.seed, "tier": self.tier,
                           "failing_input_found": found_input})
        p = self.write_replay(replay_obj)
        self.violations.append((what, p, found_input))
        line = "VIOLATION property=%s replay=%s" % (self.pid, p)
        if not found_input:
            line += " no-failing-input-found"
        print("  " + what[:600], flush=True)
        print(line, flush=True)
        return True

    def fatal(self, msg):
        print("CHECK-ERROR %s: %s" % (self.pid, msg), flush=True)
        sys.exit(2)

    def finish(self, level="proof"):
        cov = dict(self.cov)
        cov.setdefault("obligations", self.obligations)
        cov.setdefault("discharged", self.discharged)
        cov.setdefault("checker_cmd", "lake build")
        cov.setdefault("trusted_base", TRUSTED_BASE)
        cov.setdefault("obligation_names", self.obligation_names)
        cov["known_findings_met"] = self.known_hits
        ev = {"property_id": self.pid, "tier": self.tier, "seed": self.seed, "level": level,
              "coverage": cov, "assumptions": self.assumptions, "wall_s": round(time.time() - self.t0, 1),
              "violations": len(self.violations)}
        with open(os.path.join(EVID, self.pid + ".json"), "w") as f:
            json.dump(ev, f, indent=1, sort_keys=True, default=str)
        print("%s tier=%s seed=%d obligations=%d/%d evaluations=%s nontrivial=%s violations=%d known=%d wall=%.0fs" % (
            self.pid, self.tier, self.seed, self.discharged, self.obligations, cov.get("evaluations"),
            cov.get("distinct_nontrivial"), len(self.violations), len(self.known_hits), time.time() - self.t0), flush=True)
        # journals and driver outputs of this run (they can be gigabytes); replays hold what is needed to re-run a case
        if not os.environ.get("VERIF_KEEP"):
            me = str(os.getpid())
            for d in os.listdir(BUILD):
                if d.startswith("run-") and d.split("-")[-1] == me:
                    shutil.rmtree(os.path.join(BUILD, d), ignore_errors=True)
        sys.exit(1 if self.violations else 0)


def load_findings():
    p = os.path.join(VERIF, "known_findings.json")
    if not os.path.exists(p):
        return []
    return json.load(open(p)).get("findings", [])


def replay_generic(ctx, path):
    """Show a recorded violation; if it carries a journal (`history`) and names a native driver,
    re-judge the journal with the driver built from the current Lean sources."""
    r = json.load(open(path))
    print("property=%s what=%s" % (r.get("property"), r.get("what")))
    for k in ("harness_args", "replay_cmd", "witness", "input"):
        if k in r:
            print("%s: %s" % (k, r[k]))
    hist = r.get("history")
    drv = r.get("driver")
    if hist and drv:
        exe = ctx.ensure_pplv(drv)
        p = subprocess.run([exe] + list(r.get("driver_args", [])), input="\n".join(hist) + "\n", text=True, capture_output=True)
        bad = [l for l in p.stdout.splitlines() if l.startswith("MISMATCH")]
        print("\n".join(hist[-12:]))
        print("\n".join(bad) if bad else "no mismatch when re-judged")
        if bad:
            print("VIOLATION property=%s replay=%s" % (ctx.pid, path))
            return 1
        return 0
    print(json.dumps(r, indent=1)[:4000])
    return 0
