"""C06 stage 3 (b)(c)(d) — the LP machinery of MIP_Problem: tableau set-up, the two simplex phases,
erase_artificials, compute_generator, second_phase, incremental re-solve (helper of checks/c06.py).

proof:  PPLV.Props.C06Tab (tableau_setup_solutions, erase_artificials_valid, reoptimize_value_eq_fresh,
        status_transitions, pricing_choice_irrelevant, lp_fresh_correct, …) and PPLV.Props.C06TabBB
        (lp_fresh_implies_LPCorrect: the model discharges BB.LPCorrect for fresh nodes), PPLV.Props.C06TabIncr
        (incremental_setup_hands_over, lp_incremental_correct: the incremental call from the state before it;
        status_sound: the full status protocol with the feasible-basis invariant),
        PPLV.Props.C06TabOracleIncr (model_oracle_incr_ok, solve_mip_end_to_end_incremental) over the code-shaped
        model lean/PPLV/Solver/Pending.lean.
tie:    harness/c06_tab.cc (`#define private public`) builds seeded LP instances (1–4 variables, 0–7
        constraints, all classes of the parse_constraints table, tautologies, degenerate ties, dependent
        equalities, infeasible / unbounded), calls is_lp_satisfiable() / second_phase() and dumps the PRIVATE
        state (tableau rows, working_cost, base, mapping, status, first pending, last_generator), then
        incremental rounds (x >= 0 on a split variable = re-merge, constraints satisfied / violated by the
        current vertex, new space dimensions, new objective / mode).  The native driver `pplv_mip --tab`
        replays the model on the journalled operations and compares every dump EXACTLY for the two
        deterministic pricing rules; with the float rule only status / dimensions / value are compared
        (C06Tab.pricing_choice_irrelevant).  Every real answer is also judged with the verified reference
        `lpAnswer` / `checkFeasible`.
verdicts: `MISMATCH … real:<obligation>` = the real answer contradicts the reference: a VIOLATION of C06 with
        the case as replay; `MISMATCH … model:<field>` = the code no longer does what the model says
        (the model is silent on the unchanged tree at seeds 1,2,3,7,42): a broken correspondence, reported as a
        VIOLATION too (found_input says whether a real answer of the same case is wrong).
"""
import collections, hashlib, os, re, shutil, time
from .common import VERIF, BUILD
from . import poly_common as pc

PROPS = ["PPLV.Props.C06Tab", "PPLV.Props.C06TabBB", "PPLV.Props.C06TabOracle", "PPLV.Props.C06TabIncr",
         "PPLV.Props.C06TabOracleIncr"]


def _site(obl):
    return "tab:" + obl


def run(ctx, prove=True):
    """returns the list of broken proof obligations (the caller reports them)."""
    t0 = time.time()
    broken = []
    if prove and os.path.exists(os.path.join(VERIF, "lean", "PPLV", "Props", "C06Tab.lean")):
        broken = ctx.prove(PROPS)
    quick = ctx.tier == "quick"
    drv = ctx.ensure_pplv("pplv_mip")
    h = ctx.compile_harness("c06_tab.cc")
    wd = os.path.join(BUILD, "run-%s-tab-%d" % (ctx.pid, os.getpid()))
    shutil.rmtree(wd, ignore_errors=True)
    os.makedirs(wd)
    n_cases = 30000 if quick else 400000
    jpath = os.path.join(wd, "journal.txt")
    cmd = [h, "--seed", str(ctx.seed), "--first", "0", "--last", str(n_cases), "--batch", "100"]
    # the harness is sequential: run 8 slices in parallel
    import concurrent.futures as cf
    nsl = 8
    per = (n_cases + nsl - 1) // nsl

    def slice_(k):
        jp = os.path.join(wd, "journal%d.txt" % k)
        c = [h, "--seed", str(ctx.seed), "--first", str(k * per), "--last", str(min(n_cases, (k + 1) * per)), "--batch", "100"]
        rc, _, err = ctx.run(c, stdout_path=jp, timeout=3000)
        if rc != 0:
            ctx.fatal("harness c06_tab failed rc=%s %s" % (rc, (err or "")[-500:]))
        return open(jp).read().splitlines()

    journal = []
    with cf.ThreadPoolExecutor(nsl) as ex:
        for lines in ex.map(slice_, range(nsl)):
            journal += lines
    t_h = time.time()
    verd, summary = pc.run_driver_parallel(ctx, drv, journal, wd, nproc=16, extra_args=("--tab",))
    t_d = time.time()
    hists = pc.split_histories(journal)

    cov = collections.Counter()
    classes, paths, pricing_c, status_c = (collections.Counter() for _ in range(4))
    piv1, piv2, arts, redund, remerges, unfeas, npend = (collections.Counter() for _ in range(7))
    flavour_c = collections.Counter()
    distinct, nontrivial, samples = set(), 0, []
    n_dump = n_dumpf = n_ans = 0
    failing = []
    for start, lines in hists:
        key = hashlib.sha256("\n".join(l for l in lines[1:] if l.startswith(("new", "op"))).encode()).hexdigest()
        first = key not in distinct
        distinct.add(key)
        ht = lines[0].split()
        flavour_c[ht[3] if len(ht) > 3 else "?"] += 1
        case_nontrivial = False
        bad = []           # (index in history, verdict text)
        for i, l in enumerate(lines):
            v = verd.get(start + i)
            if not v:
                continue
            cov[v[0]] += 1
            if v[0] == "MISMATCH":
                bad.append((i, v[1]))
                continue
            if v[0] == "skip":
                cov["skip:" + v[1].split()[0]] += 1
                continue
            t = v[1].split()
            kv = dict(x.split("=", 1) for x in t[1:] if "=" in x)
            if t[0] == "sat":
                pricing_c[kv.get("pricing", "?")] += 1
                paths[kv.get("path", "?") + (":incremental" if kv.get("inc") == "1" else ":fresh")] += 1
                for c in kv.get("cls", "-").split(","):
                    if c != "-":
                        classes[c] += 1
                npend[kv.get("npend", "0")] += 1
                remerges[kv.get("remerge", "0")] += 1
                if kv.get("path") == "phase1":
                    piv1[kv.get("piv1", "0")] += 1
                    arts[kv.get("art", "0")] += 1
                    redund[kv.get("redundant", "0")] += 1
                    unfeas[kv.get("unfeasRows", "0")] += 1
                    if int(kv.get("piv1", "0")) >= 1:
                        case_nontrivial = True
            elif t[0] == "second":
                piv2[kv.get("piv2", "0")] += 1
            elif t[0] in ("dump", "dumpf"):
                if t[0] == "dump":
                    n_dump += 1
                else:
                    n_dumpf += 1
                status_c[kv.get("status", "?")] += 1
            elif t[0] == "ans":
                n_ans += 1
        if first and case_nontrivial:
            nontrivial += 1
            if len(samples) < 2:
                samples.append(lines[:12])
        if bad:
            failing.append((start, lines, bad))

    # report: real answers first; at most 3 cases per obligation and 12 in all (the rest is counted)
    def _key(f):
        return 0 if any(d.startswith("real:") for _, d in f[2]) else 1
    failing.sort(key=_key)
    per_site, reported, n_real, n_model = collections.Counter(), 0, 0, 0
    for start, lines, bad in failing:
        # the first real:… failure of the case (if any) decides; otherwise the first model:… difference
        real = [(i, d) for i, d in bad if d.startswith("real:")]
        i, d = (real or bad)[0]
        obl = d.split()[0]
        if real:
            n_real += 1
        else:
            n_model += 1
        if per_site[obl] >= 3 or reported >= 12:
            continue
        per_site[obl] += 1
        reported += 1
        ops = [l for l in lines[: i + 1] if l.split()[0] in ("hist", "new", "op", "call")]
        replay = {"stage": "c06_tab", "history": lines[: i + 1], "ops": ops, "driver": "pplv_mip", "driver_args": ["--tab"], "verdict": d,
                  "site": _site(obl), "all_mismatches": [x[1][:300] for x in bad[:6]],
                  "replay_cmd": "bin/check C06 --replay <this file>  (= harness c06_tab --replay <file with the `ops` lines> | pplv_mip --tab)",
                  "harness_args": cmd[1:], "failing_cases_in_this_run": len(failing)}
        if real:
            what = ("MIP_Problem LP machinery: the real answer contradicts the verified reference: %s | event: %s"
                    % (d[:600], lines[i][:200]))
            ctx.violation(what, replay, found_input=True, record={"site": _site(obl), "tags": [obl]})
        else:
            what = ("MIP_Problem LP machinery: the private state after %s differs from the code-shaped model (%s); "
                    "every judged real answer of this case agrees with the reference | event: %s"
                    % (next((x for x in reversed(lines[:i]) if x.startswith("call")), "?"), d[:500], lines[i][:160]))
            ctx.violation(what, replay, found_input=False, record={"site": _site(obl), "tags": [obl]})

    def srt(c):
        return {k: c[k] for k in sorted(c, key=lambda x: (len(x), x))}

    ctx.cov["c06_tab"] = {
        "cases": len(hists), "distinct_cases": len(distinct), "distinct_nontrivial": nontrivial,
        "rule": "distinct by hash of the new/op lines; non-trivial = at least one first phase with >= 1 pivot",
        "dumps_compared_exactly": n_dump, "dumps_float_status_only": n_dumpf, "answers_judged": n_ans,
        "verdicts": {k: v for k, v in cov.items() if not k.startswith("skip:")},
        "skipped": {k[5:]: v for k, v in cov.items() if k.startswith("skip:")},
        "pricing_of_is_lp_satisfiable_calls": dict(pricing_c),
        "parse_constraints_classes": srt(classes), "paths_of_process_pending": dict(paths),
        "pending_constraints_per_call": srt(npend), "remerged_variables_per_call": srt(remerges),
        "artificials_per_first_phase": srt(arts), "rows_made_unfeasible_by_remerge": srt(unfeas),
        "redundant_rows_erased": srt(redund), "pivots_first_phase": srt(piv1), "pivots_second_phase": srt(piv2),
        "status_after_dump": dict(status_c), "flavours": srt(flavour_c), "samples": samples,
        "cases_with_wrong_real_answer": n_real, "cases_with_model_difference_only": n_model,
        "driver_summary": summary, "harness_s": round(t_h - t0, 1), "driver_s": round(t_d - t_h, 1),
        "wall_s": round(time.time() - t0, 1),
    }
    ctx.assumptions += [
        "c06_tab: the model is a transliteration of the PPL_USE_SPARSE_MATRIX variant (the configured one); the float pricing "
        "is modelled as an arbitrary choice of a candidate column (C06Tab.pricing_choice_irrelevant) and compared on status and value only",
        "c06_tab: the journal carries the constraints as stored in input_cs (after Constraint's own normalisation)",
    ]
    return broken


def replay(ctx, path):
    """re-executes the recorded case (`ops`: the new/op/call lines) on the real library of the current tree and
    re-judges the fresh journal with the current model; exit status 1 (with a VIOLATION line) iff it still fails."""
    import json
    r = json.load(open(path))
    print("property=%s what=%s" % (r.get("property"), (r.get("what") or "")[:400]))
    ctx.ensure_ppl()
    drv = ctx.ensure_pplv("pplv_mip")
    h = ctx.compile_harness("c06_tab.cc")
    wd = os.path.join(BUILD, "run-%s-tabreplay-%d" % (ctx.pid, os.getpid()))
    shutil.rmtree(wd, ignore_errors=True)
    os.makedirs(wd)
    op = os.path.join(wd, "replay.ops")
    with open(op, "w") as f:
        f.write("\n".join(r.get("ops", [])) + "\n")
    jp = os.path.join(wd, "replay.journal")
    rc, _, err = ctx.run([h, "--replay", op], stdout_path=jp, timeout=300)
    if rc != 0:
        ctx.fatal("harness c06_tab --replay failed rc=%s %s" % (rc, (err or "")[-300:]))
    rc, out, err = ctx.run([drv, "--tab"], stdin_path=jp, timeout=300)
    journal = open(jp).read().splitlines()
    bad = [l for l in (out or "").splitlines() if l.startswith("MISMATCH")]
    print("\n".join(x[:200] for x in journal[-14:]))
    print("\n".join(b[:400] for b in bad) if bad else "no mismatch when re-executed on the current tree")
    if bad:
        print("VIOLATION property=%s replay=%s" % (ctx.pid, path))
        return 1
    return 0
