"""C18 — termination analysis returns only genuine ranking functions; the methods agree.

Proof part: PPLV.Props.C18 (verified checkers isRankingB / isRankingGenB, soundness of the
Mesnard-Serebrenik and Podelski-Rybalchenko encodings as code-shaped models, the existence
decider, soundness of the generator-wise check of a returned space).
Correspondence part: harness/c18_term.cc drives every termination entry point of the real
library over generated relations (all pointset kinds, single relation and before/after pair);
lean/Driver/Term.lean judges every verdict, every returned function and every returned space
with the verified procedures.
"""
import collections, concurrent.futures as cf, hashlib, json, os, re
from . import c18_complete

LEVEL = "proof"
PROPS = ["PPLV.Props.C18"]


def split_cases(journal):
    """-> list of (start_index (0-based), [lines]) for every `case … end` block"""
    cases, cur, start = [], None, 0
    for i, l in enumerate(journal):
        if l.startswith("case "):
            cur, start = [l], i
        elif cur is not None:
            cur.append(l)
            if l == "end":
                cases.append((start, cur))
                cur = None
    return cases


def run_driver(ctx, drv, journal, wd, nproc=12):
    starts = [i for i, l in enumerate(journal) if l.startswith("case ")]
    if not starts:
        return {}, [], collections.Counter()
    per = max(1, (len(starts) + nproc - 1) // nproc)
    chunks = []
    for k in range(0, len(starts), per):
        a = starts[k]
        b = starts[k + per] if k + per < len(starts) else len(journal)
        chunks.append((a, b))

    def work(idx):
        a, b = chunks[idx]
        cp = os.path.join(wd, "chunk%d.txt" % idx)
        with open(cp, "w") as f:
            f.write("\n".join(journal[a:b]) + "\n")
        rc, out, err = ctx.run([drv], stdin_path=cp, timeout=3000)
        if rc != 0:
            ctx.fatal("driver pplv_term failed rc=%s %s" % (rc, (err or "")[-500:]))
        return a, out

    verd, infos, tot = {}, [], collections.Counter()
    with cf.ThreadPoolExecutor(nproc) as ex:
        for a, out in ex.map(work, range(len(chunks))):
            for l in out.splitlines():
                t = l.split(None, 2)
                if not t:
                    continue
                if t[0] in ("ok", "skip", "MISMATCH", "note", "MODELDIFF"):
                    verd.setdefault(int(t[1]) + a, []).append((t[0], t[2].strip() if len(t) > 2 else ""))
                elif t[0] == "caseinfo":
                    kv = dict(x.split("=", 1) for x in t[2].split() if "=" in x)
                    kv["_ln"] = int(t[1]) + a
                    infos.append(kv)
                elif t[0] == "summary":
                    for item in l.split()[1:]:
                        k, _, v = item.partition("=")
                        if v.isdigit():
                            tot[k] += int(v)
    return verd, infos, tot


def classify(info, event_line, what):
    """site + tags (structural class) of a failing event"""
    ob = what.split()[0] if what else "?"
    ev = event_line.split()
    method = ev[1] if len(ev) > 1 and ev[0] in ("t", "o", "s") else ev[0]
    form2 = info.get("form") == "2"
    entry = {"t": "termination_test", "o": "one_affine_ranking_function", "s": "all_affine_ranking_functions",
             "qd": "all_affine_quasi_ranking_functions", "qb": "all_affine_quasi_ranking_functions"}.get(ev[0], ev[0])
    # site = the method family (they share one encoding): MS, PR (PR_original), MS_2, PR_2
    site = (method if ev[0] in ("t", "o", "s") else "MS") + ("_2" if form2 else "")
    tags = [ob, "entry_" + entry, "kind_" + info.get("kind", "?"), "form" + info.get("form", "?")]
    if (ob == "verdict_false_but_ranking_exists" and form2 and method == "PR"
            and info.get("guard_entailed") == "0" and info.get("pr_model") == "0"):
        # KF-C18-1: (i) the x-constraints implied by pset_after are NOT implied by pset_before (exact: K1 subsetB on
        # the Fourier-Motzkin projection of `after` onto x), and (ii) the proved-sound model of the unchanged
        # fill_constraint_system_PR encoding is itself infeasible on this pair (verified Motzkin certificate), i.e. the
        # false verdict is the documented incompleteness of the encoding and not some other deviation of the code.
        tags.append("pr2_before_does_not_entail_guard_of_after")
    if info.get("empty") == "1":
        tags.append("empty_relation")
    return site, tags


def replay(ctx, path):
    """Re-run the REAL library on the recorded relation (rebuilt from its constraints() lines) and re-judge."""
    rp = json.load(open(path))
    if rp.get("stage") == "c18_complete":     # stage 3 replay files (completeness cross-check)
        return c18_complete.replay(ctx, path)
    case = rp.get("case", [])
    print("property=%s what=%s" % (rp.get("property"), rp.get("what")))
    ctx.ensure_ppl()
    drv = ctx.ensure_pplv("pplv_term")
    h = ctx.compile_harness("c18_term.cc")
    wd = ctx.workdir()
    inp = os.path.join(wd, "replay_case.txt")
    with open(inp, "w") as f:
        f.write("\n".join(l for l in case if l.split()[0] in ("case", "R0", "B0", "A0")) + "\n")
    rc, out, err = ctx.run([h, "--replay-file", inp], timeout=300)
    journal = (out or "").splitlines()
    print("\n".join(l[:200] for l in journal))
    verd, infos, _ = run_driver(ctx, drv, journal, wd, nproc=1)
    info = infos[0] if infos else {}
    rcode = 0
    for ln in sorted(verd):
        for kind, what in verd[ln]:
            if kind != "MISMATCH":
                continue
            site, tags = classify(info, journal[ln], what)
            print("MISMATCH %s: %s | %s" % (site, what, journal[ln][:160]))
            k = ctx.match_known({"site": site, "tags": tags})
            if k is not None:
                print("KNOWN-FINDING: property=%s %s [%s]" % (ctx.pid, k["what"], k["id"]))
            else:
                rcode = 1
    if rcode:
        print("VIOLATION property=%s replay=%s" % (ctx.pid, path))
    else:
        print("no (new) mismatch when re-executed and re-judged")
    return rcode


def run(ctx):
    ctx.ensure_ppl()
    broken = ctx.prove(PROPS)
    drv = ctx.ensure_pplv("pplv_term")
    h = ctx.compile_harness("c18_term.cc")
    wd = ctx.workdir()
    quick = ctx.tier == "quick"

    jpath = os.path.join(wd, "journal.txt")
    # quick: 30 batches x 20 relations, n <= 2;  thorough: 400 x 20, n <= 3
    nb, per, maxn = (30, 20, 2) if quick else (400, 20, 3)
    cmd = [h, "--seed", str(ctx.seed), "--first", "0", "--last", str(nb), "--per", str(per),
           "--maxn", str(maxn), "--cpu", "60"]
    rc, _, err = ctx.run(cmd, stdout_path=jpath, timeout=3000)
    if rc != 0:
        ctx.fatal("harness failed rc=%s %s" % (rc, (err or "")[-500:]))
    journal = open(jpath).read().splitlines()

    verd, infos, tot = run_driver(ctx, drv, journal, wd)
    cases = split_cases(journal)
    info_by_ln = {i["_ln"]: i for i in infos}

    stats = collections.Counter()
    hist = {k: collections.Counter() for k in ("kind", "form", "n", "tmpl", "exists", "closed", "empty")}
    notes, skips, obligations_checked = collections.Counter(), collections.Counter(), collections.Counter()
    distinct, nontrivial, samples = set(), 0, []
    crashes = collections.Counter()
    mism_classes = collections.Counter()
    for start, lines in cases:
        info = info_by_ln.get(start, {})
        for k in hist:
            hist[k][info.get(k, "?")] += 1
        key = hashlib.sha256("\n".join([" ".join(lines[0].split()[2:])] + lines[1:]).encode()).hexdigest()
        new = key not in distinct
        distinct.add(key)
        # non-trivial: the relation is non-empty, has constraints, and existence of a ranking function was decided
        if new and info.get("empty") == "0" and info.get("rows", "0") != "0" and info.get("exists") in ("0", "1"):
            nontrivial += 1
            if len(samples) < 3:
                samples.append(lines[:8])
        for i, l in enumerate(lines):
            if l.startswith("crash "):
                crashes[l.split()[1]] += 1
            for kind, what in verd.get(start + i, []):
                stats[kind] += 1
                if kind == "ok":
                    obligations_checked[l.split()[0] + ("_" + l.split()[1] if l.split()[0] in ("t", "o", "s") else "")] += 1
                elif kind == "skip":
                    skips[what.split()[0]] += 1
                elif kind == "note":
                    if what.startswith("ms_space_exact"):
                        stats["ms_space_exact"] += 1      # mu_space = the set of ALL ranking functions (doc claim)
                    else:
                        notes[" ".join(what.split()[:2])] += 1
                elif kind == "MODELDIFF":
                    notes["model_differs_from_code " + what.split()[0]] += 1
                elif kind == "MISMATCH":
                    site, tags = classify(info, l, what)
                    mism_classes[(site, what.split()[0])] += 1
                    if mism_classes[(site, what.split()[0])] > 5:
                        continue          # at most 5 replays per (site, obligation); all are counted below
                    ctx.violation("%s: %s | case: %s | event: %s" % (site, what, lines[0], l[:200]),
                                  {"case": lines, "event": l, "verdict": what, "site": site, "tags": tags,
                                   "caseinfo": {k: v for k, v in info.items() if k != "_ln"},
                                   "harness_args": cmd[1:],
                                   "replay_cmd": "bin/check C18 --replay <this file>  (re-runs the real library on the recorded relation)"},
                                  found_input=True, record={"site": site, "tags": tags})
    # stage 3: completeness of the encodings (Farkas from the FM kernel) + the cross-check it justifies
    broken += c18_complete.run(ctx, cases=cases, verd=verd, info_by_ln=info_by_ln, cmd=cmd)
    if not quick:
        broken += ctx.leanchecker(PROPS + c18_complete.PROPS)
    for b in broken:
        ctx.violation("proof obligation broken: " + b, {"obligation": b}, found_input=False)

    ctx.cov.update({
        "evaluations": len(cases), "distinct_nontrivial": nontrivial,
        "rule": "one evaluation = one generated loop relation pushed through termination_test / one_affine_ranking_function / "
                "all_affine_ranking_functions (MS and PR) and all_affine_quasi_ranking_functions_MS, in the single-relation or the "
                "before/after form (the planted family guarded_decrement - x_i' = x_i - positive combination of guard-bounded variables, "
                "n = 2,3, before = the guard exactly - is shown in BOTH forms); distinct by hash of the journalled case; non-trivial = relation non-empty, at least one "
                "constraint, and existence of an affine ranking function decided by the verified decider",
        "samples": samples, "traces_validated_against_impl": len(cases),
        "events_ok": stats["ok"], "events_mismatch": stats["MISMATCH"],
        "mismatch_classes": {"%s %s" % k: v for k, v in mism_classes.items()}, "events_skipped": dict(skips),
        "events_ok_by_entry_point": dict(obligations_checked),
        "notes": dict(notes), "crashes_or_timeouts": dict(crashes),
        "model_vs_code_disagreements": stats["MODELDIFF"],
        "ms_space_equals_set_of_all_ranking_functions": stats["ms_space_exact"],
        "existence_decided_by_verified_decider": sum(1 for i in infos if i.get("dec") in ("0", "1")),
        "histograms": {k: dict(v) for k, v in hist.items()},
        "driver_summary": dict(tot),
    })
    ctx.assumptions += [
        "the relation judged is the constraint system the library itself reads (minimized_constraints() of the pointset passed; "
        "for a Grid this is the affine hull PPL reports); constraints() is cross-checked against it",
        "existence of a ranking function is decided by a certifying procedure: `true` needs a function accepted by isRankingB, "
        "`false` a finite family of points/recession directions of the relation whose conditions on mu are unsatisfiable; "
        "when the generator hint printed by the harness does not allow either, the case is counted as undecided (skip)",
        "MS = PR = existence is required for relations without strict constraints only (closed polyhedral relations)",
        "a child killed by RLIMIT_CPU (MIP_Problem not terminating) is inconclusive, not a failure",
    ]
