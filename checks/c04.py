"""C04 — over the rationals, boxes / BD shapes / octagons are exact and best where documented.

proof:  PPLV.Props.C04 (best_least, bestU_least, difference_pieces, exact_iff, ub_if_exact_spec,
        ub_if_exact_result, predicates_exact, optimum_exact) on top of K1 and K3 (PPLV/WR/Model.lean,
        PPLV/WR/Proofs.lean): the judge's "best element of the domain" really is the least shape of the
        domain containing the exact result, for every input; the judges for exactness, predicates and
        optima are sound and complete.
tie:    harness/c04_shapes.cc runs seeded histories over pools of BD_Shape<mpq_class>,
        Octagonal_Shape<mpq_class>, Rational_Box (all mutators of the common interface, constructors
        from constraints / generators / polyhedra / grids / the other domains at every complexity
        class, copies, observers driving the closure / reduction status); every argument and result is
        journalled through constraints() and minimized_constraints() (and, for boxes, the conversion to
        a polyhedron) and `pplv_wr --mode c04` judges: predicates and queries equal to the exact answer
        in both polarities; exact operators equal to K1's exact result; upper bound / difference / fold /
        constructors at ANY_COMPLEXITY / upper_bound_assign_if_exact equal to `bestU K exact` and the
        Boolean iff the union is in the domain; every other transformer contains the exact result.
"""
from . import wr_common as w
from . import c04_reduce
LEVEL = "proof"


def run(ctx):
    ctx.ensure_ppl()
    broken = ctx.prove(["PPLV.Props.C04"])
    quick = ctx.tier == "quick"
    if not quick:
        broken += ctx.leanchecker(["PPLV.Props.C04"])
    w.run_shapes(ctx, "c04", w.C04_TYPES, n_hist=700 if quick else 20000, length=12 if quick else 25,
                 maxdim=3 if quick else 4)
    broken += c04_reduce.run(ctx)          # stage 2: reduction / exact-join algorithms (proof + exact correspondence + judges)
    for b in broken:
        ctx.violation("proof obligation broken: " + b, {"obligation": b}, found_input=False)
    ctx.assumptions += [
        "the judges (K1 deciders, K3 best abstraction) are proved sound and complete / least for every input; "
        "'all histories' of the real code is sampled by seeded histories (dimension <= 3, quick tier)",
        "the closure / reduction / sign-case code of the three domains is validated against the oracle, not transliterated",
        "which transfer relations count as 'expressible' follows DESIGN section 4 (iii); every other transformer is only required to contain the exact result, its precision is reported as information",
        "affine_dimension and is_bounded oracles are executable but not proved (Gaussian rank / recession cone)",
    ]


def replay(ctx, path):
    """bin/check C04 --replay <file>: re-execute the recorded history against the current tree and judge it again"""
    ctx.ensure_ppl()
    if c04_reduce.is_replay(path):
        return c04_reduce.replay(ctx, path)
    w.run_replay(ctx, "c04")
    return 1 if ctx.violations else 0
