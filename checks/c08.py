"""C08 — widenings are upper bounds, well defined on values, and force convergence.

Obligations (PPLV/Props/C08.lean): the certificate orders of BHRZ03 / H79 / Grid certificates are
well-founded (both `compare` overloads, as the widenings use them), `is_cert_multiset_stabilizing` is a
sub-relation of the Dershowitz-Manna order, the abstract convergence theorem, the CC76 interval widening
converges outright, the token protocol, limited / bounded extrapolation lie in between and keep the
supplied constraints.

Tie to /repo: harness/c08_widen.cc drives adversarial ascending chains through every widening of the
statement (C / NNC polyhedra, BD shapes and octagons over mpq and double, rational boxes, grids,
powersets of polyhedra and grids), re-representing the arguments through random histories; the native
driver pplv_widen judges every step with the verified deciders K1 / K2 and the certificate models:
  sup, repind (+ rehist), yconst, token, lim_lower / lim_upper / lim_keeps, cert_fields, cert_model,
  cert_value, cert_decrease, box_model, overlong, crash / exc.
"""
import collections, concurrent.futures as cf, hashlib, json, os, re

from . import c08_impl

LEVEL = "proof"
FAM = {"BQ": "BDS", "BD": "BDS", "OQ": "Oct", "OD": "Oct"}
NPROC = 14


def split_blocks(journal):
    """blocks start at `chain` lines (certificate groups stay with the preceding block; they carry their own header)"""
    starts = [i for i, l in enumerate(journal) if l.startswith("chain ")]
    if not starts or starts[0] != 0:
        starts = [0] + starts
    return [(a, b) for a, b in zip(starts, starts[1:] + [len(journal)])]


def run_driver(ctx, drv, journal, wd):
    blocks = split_blocks(journal)
    nchunk = max(1, min(NPROC, len(blocks)))
    chunks = [[] for _ in range(nchunk)]          # lists of global line indices (0-based)
    # greedy balance by block size
    sizes = [0] * nchunk
    for a, b in sorted(blocks, key=lambda ab: ab[0] - ab[1]):
        k = sizes.index(min(sizes))
        chunks[k].append((a, b)); sizes[k] += b - a
    for c in chunks:
        c.sort()

    def work(k):
        idx = []
        for a, b in chunks[k]:
            idx.extend(range(a, b))
        cp = os.path.join(wd, "chunk%d.txt" % k)
        with open(cp, "w") as f:
            f.write("\n".join(journal[i] for i in idx) + "\n")
        rc, out, err = ctx.run([drv], stdin_path=cp, timeout=3000)
        if rc != 0:
            ctx.fatal("driver failed rc=%s %s" % (rc, (err or "")[-500:]))
        return idx, out

    verd = collections.defaultdict(list)       # global line (1-based) -> [(kind, obligation, detail)]
    info = {}
    with cf.ThreadPoolExecutor(nchunk) as ex:
        for idx, out in ex.map(work, range(nchunk)):
            for l in out.splitlines():
                t = l.split(None, 3)
                if len(t) >= 3 and t[0] in ("ok", "skip", "MISMATCH"):
                    g = idx[int(t[1]) - 1] + 1
                    verd[g].append((t[0], t[2], t[3] if len(t) > 3 else ""))
                elif t and t[0] == "info":
                    g = idx[int(t[1]) - 1] + 1
                    info[g] = dict(kv.split("=") for kv in l.split()[2:])
    return verd, info


def enclosing(journal, g):
    """(chain header line index, history id, step lines) of the event at global line g (1-based)"""
    i = g - 1
    hdr = i
    while hdr > 0 and not journal[hdr].startswith("chain "):
        hdr -= 1
    j = i
    end = i
    while end + 1 < len(journal) and not journal[end].startswith(("endstep", "endcert", "endchain", "end")):
        end += 1
    return hdr, journal[i:end + 1]


def has_constant_row(run_line):
    """`run limited L lim <m> <rel k a..>* | flags` : a supplied constraint without variables"""
    m = re.search(r"L (?:lim|bnd) (\d+) (.*?) \|", run_line)
    return bool(m)


def classify(journal, g, obl, detail):
    hdr, lines = enclosing(journal, g)
    h = journal[hdr].split()
    dom, op = (h[2], h[4]) if len(h) > 4 and h[0] == "chain" else ("?", "?")
    first = journal[g - 1].split()
    if first and first[0] in ("cert", "gcert"):
        dom, op = first[2], "cert"
    n = int(h[3]) if len(h) > 3 and h[3].isdigit() else 0
    fam = FAM.get(dom, dom)
    tags = []
    m = re.search(r"tags=(\S*)", detail)
    if m:
        tags += [t for t in m.group(1).split(",") if t]
    if obl in ("crash", "exc"):
        run = ""
        for l in lines:
            if l.startswith("run "):
                run = l
        what = run.split()[1] if run else "start"
        site = "%s:%s:%s" % (obl, what, fam)
        if what in ("limited", "bounded"):
            # a supplied constraint with all-zero coefficients?
            toks = run.split()
            try:
                k = toks.index("lim" if what == "limited" else "bnd") + 1
                m_ = int(toks[k]); p = k + 1
                for _ in range(m_):
                    coeffs = toks[p + 2:p + 2 + n]
                    if all(c == "0" for c in coeffs):
                        tags.append("limit_cs_constant_row")
                    p += 2 + n
            except (ValueError, IndexError):
                pass
        if obl == "exc":
            site = "exc:%s:%s" % (dom, op)
            if any((" > " in (" " + l + " ")) for l in lines if l[:2] in ("Y ", "Z ")):
                tags.append("strict")
    elif obl.startswith("lim_"):
        kind = "limited"
        site = "%s:%s" % (obl, fam) if dom == "G" else "%s:%s:%s" % (obl, fam, op)
    else:
        site = "%s:%s:%s" % (obl, dom, op)
    return site, tags, dom, op, hdr, lines


def run(ctx):
    ctx.ensure_ppl()
    broken = ctx.prove(["PPLV.Props.C08"])
    if ctx.tier == "thorough":
        broken += ctx.leanchecker(["PPLV.Props.C08"])
    drv = ctx.ensure_pplv("pplv_widen")
    h = ctx.compile_harness("c08_widen.cc")
    wd = ctx.workdir()
    quick = ctx.tier == "quick"
    nhist = 400 if quick else 16000
    seed, first, last = ctx.seed, 0, nhist
    if ctx.replay:
        rp = json.load(open(ctx.replay))
        seed = rp.get("seed", seed)
        if "history" in rp:
            first, last = rp["history"], rp["history"] + 1
    jpath = os.path.join(wd, "journal.txt")
    cmd = [h, "--seed", str(seed), "--first", str(first), "--last", str(last), "--batch", "8", "--limit", "200"]
    rc, _, err = ctx.run(cmd, stdout_path=jpath, timeout=3000)
    if rc != 0:
        ctx.fatal("harness failed rc=%s %s" % (rc, (err or "")[-500:]))
    journal = open(jpath).read().splitlines()
    verd, info = run_driver(ctx, drv, journal, wd)

    # ---- history ids (for replays): `chain <id> …`, `cert <id*10+k> …`
    stats = collections.Counter()
    per_op = collections.defaultdict(collections.Counter)
    chain_len = collections.defaultdict(list)
    cur = ("?", "?")
    distinct, nontrivial, samples = set(), 0, []
    step_start = None
    for i, l in enumerate(journal):
        if l.startswith("chain "):
            t = l.split(); cur = (t[2], t[4]); per_op[cur]["chains"] += 1
        elif l.startswith("endchain "):
            t = l.split(); chain_len[cur].append(int(t[1])); per_op[cur]["end_" + t[2]] += 1
        elif l.startswith("step "):
            step_start = i
        elif l.startswith("endstep") and step_start is not None:
            body = journal[step_start + 1:i]
            key = hashlib.sha256(("%s %s " % cur + "\n".join(b for b in body if b[:2] in ("Y ", "Z ", "R "))).encode()).hexdigest()
            if key not in distinct:
                distinct.add(key)
                inf = info.get(step_start + 1, {})
                if inf.get("extrapolated") == "1" and inf.get("universe") != "1":
                    nontrivial += 1
                    if len(samples) < 3:
                        samples.append([journal[j][:200] for j in range(step_start, min(i, step_start + 6))])
            per_op[cur]["steps"] += 1
            step_start = None

    reported = set()
    per_key = collections.Counter()
    for g in sorted(verd):
        for kind, obl, detail in verd[g]:
            stats[kind] += 1
            stats[kind + ":" + obl] += 1
            if kind != "MISMATCH":
                continue
            site, tags, dom, op, hdr, lines = classify(journal, g, obl, detail)
            per_op[(dom, op)]["mismatch_" + obl] += 1
            hid = None
            hl = journal[hdr].split()
            if len(hl) > 1 and hl[1].isdigit():
                hid = int(hl[1])
            first_tok = journal[g - 1].split()
            if first_tok and first_tok[0] in ("cert", "gcert") and first_tok[1].isdigit():
                hid = int(first_tok[1]) // 10 if first_tok[0] == "cert" else int(first_tok[1]) // 10
            key = (site, tuple(sorted(t for t in tags if not t.startswith("op_"))))
            per_key[key] += 1
            if per_key[key] > 3:
                continue            # one structural class: three replays are enough, the rest is counted
            what = "%s: %s" % (site, detail[:400])
            ctx.violation(what, {"history": hid, "seed": seed, "chain": journal[hdr], "event": lines[:40],
                                  "obligation": obl, "verdict": detail, "site": site, "tags": tags,
                                  "replay_cmd": "bin/check C08 --replay <this file>",
                                  "harness_args": ["--seed", str(seed), "--first", str(hid), "--last", str((hid or 0) + 1)]},
                          found_input=True, record={"site": site, "tags": tags})
            reported.add(key)
    for b in broken:
        ctx.violation("proof obligation broken: " + b, {"obligation": b}, found_input=False)
    # stage 2: the widening implementations inside the Lean model (polyhedra, shapes / boxes, grids)
    if not ctx.replay:
        c08_impl.run(ctx)

    lens = {"%s %s" % k: (max(v) if v else 0) for k, v in chain_len.items()}
    levels = collections.Counter()
    for g, inf in info.items():
        if "level" in inf:
            levels["%s%s" % (("aff", "lin", "cons", "points", "rays", "equal")[int(inf["level"])], "" if inf.get("incl") == "1" else "(cert only)")] += 1
    ctx.cov.update({
        "evaluations": sum(c["steps"] for c in per_op.values()),
        "distinct_nontrivial": nontrivial,
        "rule": "one evaluation = one widening step of a chain (all side runs of the step included); distinct by hash of "
                "(domain, operator, Y, Z, R); non-trivial = the plain widening properly extrapolated (result ≠ larger argument) "
                "and the result is not the whole space",
        "samples": samples,
        "traces_validated_against_impl": sum(c["chains"] for c in per_op.values()),
        "histories": last - first,
        "obligations_decided": stats["ok"], "obligations_mismatch": stats["MISMATCH"], "obligations_skipped": stats["skip"],
        "by_obligation": {k: v for k, v in sorted(stats.items()) if ":" in k},
        "by_operator": {"%s %s" % k: dict(v) for k, v in sorted(per_op.items())},
        "max_chain_length": lens,
        "certificate_pairs_decided_at": dict(levels),
        "mismatch_classes": {"%s %s" % (k[0], ",".join(k[1])): v for k, v in per_key.items()},
        "journal_lines": len(journal),
    })
    if not ctx.violations and not ctx.replay:
        import shutil
        shutil.rmtree(wd, ignore_errors=True)
    ctx.assumptions += [
        "the judges (K1 deciders for polyhedra / shapes / boxes / powersets, K2 for grids) are proved sound and complete; "
        "'all chains, all representations' of the real code is sampled by seeded adversarial chains",
        "that each concrete PPL widening decreases its certificate is monitored per step, not proved from the code",
        "certificate fields are recomputed from the library's minimized descriptions (checked to describe the set, "
        "irredundant for closed polyhedra, affine dimension by K1/K2); minimality of generator systems is not re-derived",
        "CC76 extrapolation on BD shapes / octagons and BGP99 on powersets are extrapolations: no convergence is claimed for them; "
        "for inexact (double) shapes only soundness-type obligations are judged (sup, token, limited, certificate)",
        "affine dimension (Gaussian rank) oracles of K1/K2 are executable but not proved",
    ]


def replay(ctx, path):
    """Re-run the recorded history against the current tree and re-judge it (exit 1 iff it still fails)."""
    r = json.load(open(path))
    if c08_impl.is_impl_replay(r):
        return c08_impl.replay(ctx, path)
    print("property=%s what=%s" % (r.get("property"), r.get("what")))
    seed, hid = r.get("seed", ctx.seed), r.get("history")
    if hid is None:
        print(json.dumps(r, indent=1)[:4000])
        return 0
    ctx.ensure_ppl()
    drv = ctx.ensure_pplv("pplv_widen")
    h = ctx.compile_harness("c08_widen.cc")
    wd = ctx.workdir()
    jpath = os.path.join(wd, "journal.txt")
    ctx.run([h, "--seed", str(seed), "--first", str(hid), "--last", str(hid + 1), "--batch", "1"], stdout_path=jpath, timeout=600)
    journal = open(jpath).read().splitlines()
    verd, _ = run_driver(ctx, drv, journal, wd)
    bad = 0
    for g in sorted(verd):
        for kind, obl, detail in verd[g]:
            if kind == "MISMATCH":
                site, tags, dom, op, hdr, lines = classify(journal, g, obl, detail)
                print("MISMATCH line %d %s tags=%s: %s" % (g, site, ",".join(tags), detail[:300]))
                for l in lines[:14]:
                    print("   " + l[:240])
                if ctx.match_known({"site": site, "tags": tags}) is None:
                    bad += 1
                else:
                    print("   (matches an open known finding)")
    print("history %s at seed %s: %d chain steps re-run, %d unexplained mismatches" % (hid, seed, sum(1 for l in journal if l.startswith("step ")), bad))
    if bad:
        print("VIOLATION property=%s replay=%s" % (ctx.pid, path))
        return 1
    return 0
