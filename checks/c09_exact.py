"""C09 stage 2 — the code-shaped model IS the code: exact tie on disjunct lists and the `reduced` flag
(helper of checks/c09.py).

proof:  PPLV.Props.C09Exact over the executable model lean/PPLV/Powerset/Exact.lean (raw operations, linked
        into the driver): exact_refines_model(_poly) (it computes what the proved model of Props/C09 computes),
        omega_reduce_result_is_antichain, omega_reduce_keeps_first_representative (which of equal disjuncts
        survives), add_non_bottom_disjunct_preserve_reduction_spec, collapse_spec_exact, pairwise_reduce_spec,
        linear_partition_order_spec, difference_order_spec, transformer_flags, bgp99_heuristics_spec,
        bhz03_driver_shape, reduced_flag_sound (flag set => omega-reduced, along every operation sequence).
tie:    harness/c09_powerset.cc --exact 1 runs the same seeded histories (plus situations the sequence-level
        algorithms are sensitive to: equal disjuncts apart, more disjuncts than a collapse bound, adjacent
        disjuncts) and brackets every constructor / mutator / query with the sequence of every slot — each
        disjunct as a constraint system (+ minimized generators for polyhedra), in std::list order — and
        the `reduced` flag, read through a derived class on deep copies (no reduction triggered);
        `pplv_ps --exact` (lean/PPLV/Powerset/ExactReplay.lean) runs the model on the BEFORE state with the K1
        deciders as base domain and demands the SAME list: same dimension, flag, length, and disjunct i equal
        as a set (K1 equivB) to disjunct i — for all four slots (copies must be unaffected).
        linear_partition(p, q) is journalled completely on its own (xlp lines).
A difference on the unchanged tree was a model bug (none left at seeds 1,2,3,7,42).  Now a difference is a
broken correspondence; it is judged on the REAL output: the union changed / the flag the library set is not
sound on its own list / crash => VIOLATION with the history as failing input; same union in another order,
another representative, another length => VIOLATION ... no-failing-input-found.
"""
import collections, concurrent.futures as cf, os, re, shutil
from .common import BUILD
from . import poly_common as pc

PROPS = ["PPLV.Props.C09Exact"]
DOMS = {"C": "C_Polyhedron", "N": "NNC_Polyhedron", "D": "BD_Shape<mpq_class>", "B": "Rational_Box"}
MAX_REPORTS = 12


def _run_driver(ctx, drv, journal, wd, nproc=14):
    """chunks at `hist` boundaries; verdicts keyed by 0-based journal index"""
    starts = [i for i, l in enumerate(journal) if l.startswith("hist ")]
    if not starts:
        return {}
    per = max(1, (len(starts) + 4 * nproc - 1) // (4 * nproc))
    chunks = []
    for k in range(0, len(starts), per):
        a = starts[k]
        b = starts[k + per] if k + per < len(starts) else len(journal)
        chunks.append((a, b))

    def work(idx):
        a, b = chunks[idx]
        cp = os.path.join(wd, "xchunk%d.txt" % idx)
        with open(cp, "w") as f:
            f.write("\n".join(journal[a:b]) + "\n")
        rc, out, err = ctx.run([drv, "--exact"], stdin_path=cp, timeout=3000)
        if rc != 0:
            ctx.fatal("pplv_ps --exact failed rc=%s %s" % (rc, (err or "")[-500:]))
        os.unlink(cp)
        return a, out

    verd = {}
    with cf.ThreadPoolExecutor(nproc) as ex:
        for a, out in ex.map(work, range(len(chunks))):
            for l in out.splitlines():
                t = l.split(None, 3)
                if len(t) >= 3 and t[0].isdigit() and t[1] in ("ok", "skip", "MISMATCH"):
                    verd[int(t[0]) - 1 + a] = (t[1], t[2], t[3] if len(t) > 3 else "")
    return verd


def _judge_real_output(op, detail):
    """(failing input found?, why) — decided on what the library returned, not on the model"""
    if op == "crash":
        return True, "the library crashed"
    if "ORACLE" in detail and "widen" in detail:
        return False, "BGP99: the pairs (pi, pj) the library widened are not the pairs the model widens"
    if "ORACLE" in detail:
        return False, "the argument the library reduced is not the model's reduced argument"
    if "union_equal=false" in detail:
        return True, "the union of the library's disjuncts differs from the union the operation is documented to produce"
    if "library_flag_sound=false" in detail:
        return True, "the library set `reduced' on a sequence that is not omega-reduced (class invariant, OK())"
    if op == "linear_partition":
        return False, "the residues still make up q minus p: only their order / shape differs from the documented one"
    return False, "same union: only the order / the representative / the number of disjuncts / the flag differs"


def harness_cmd(ctx, h, first, last, length):
    return [h, "--seed", str(ctx.seed), "--first", str(first), "--last", str(last), "--len", str(length),
            "--maxdim", "3", "--batch", "20", "--exact", "1"]


def run(ctx):
    """returns the list of broken proof obligations (the caller reports them)"""
    broken = ctx.prove(PROPS)
    quick = ctx.tier == "quick"
    drv = ctx.ensure_pplv("pplv_ps")
    h = ctx.compile_harness("c09_powerset.cc")
    wd = os.path.join(BUILD, "run-%s-exact-%d" % (ctx.pid, os.getpid()))
    shutil.rmtree(wd, ignore_errors=True)
    os.makedirs(wd)
    n_hist, length = (420, 12) if quick else (9000, 16)
    jpath = os.path.join(wd, "xjournal.txt")
    cmd = harness_cmd(ctx, h, 0, n_hist, length)
    rc, _, err = ctx.run(cmd, stdout_path=jpath, timeout=3000)
    if rc != 0:
        ctx.fatal("harness (--exact) failed rc=%s %s" % (rc, (err or "")[-500:]))
    journal = open(jpath).read().splitlines()
    verd = _run_driver(ctx, drv, journal, wd)
    hists = pc.split_histories(journal)

    ops, skips, mism, doms, lens = (collections.Counter() for _ in range(5))
    n_ok = n_bad = n_skip = reported = 0
    for start, lines in hists:
        t0 = lines[0].split()
        dom = t0[3] if len(t0) > 3 else "?"
        doms[dom] += 1
        for i, l in enumerate(lines):
            v = verd.get(start - 1 + i)
            if not v:
                continue
            kind, op, detail = v
            if kind == "ok":
                n_ok += 1
                ops[op] += 1
                m = re.search(r"maxlen=(\d+)", detail)
                if m:
                    lens[min(int(m.group(1)), 8)] += 1
            elif kind == "skip":
                n_skip += 1
                skips[op + ":" + detail.split()[0] if detail else op] += 1
            else:
                n_bad += 1
                mism[op] += 1
                if reported >= MAX_REPORTS:
                    continue
                reported += 1
                found, why = _judge_real_output(op, detail)
                hid = int(t0[1])
                # the step: from its xb line to this xa line
                j = i
                while j > 0 and not lines[j].startswith("xb"):
                    j -= 1
                opl = [x[3:] for x in lines[j:i + 1] if x.startswith("xo ")]
                what = ("exact sequence tie [%s] %s: model and library differ: %s -- %s | operation: %s"
                        % (DOMS.get(dom, dom), op, detail, why, "; ".join(o[:160] for o in opl)))
                ctx.violation(what,
                              {"exact": True, "history_id": hid, "domain": dom, "verdict": "%s %s" % (op, detail),
                               "judged_on_real_output": why, "step": [x[:4000] for x in lines[j:i + 1]],
                               "operations_so_far": [x[3:300] for x in lines[:i + 1] if x.startswith("xo ")],
                               "harness": "c09_powerset.cc", "harness_args": harness_cmd(ctx, h, hid, hid + 1, length)[1:],
                               "driver": "pplv_ps --exact",
                               "replay_cmd": "bin/check C09 --replay <this file>   (re-runs the history on the current tree)"},
                              found_input=found,
                              record={"site": "exact:" + op, "tags": ["dom_" + dom, "found" if found else "order_only"]})
    shutil.rmtree(wd, ignore_errors=True)
    ctx.cov["exact_sequence_tie"] = {
        "histories": len(hists), "steps_replayed_equal": n_ok, "steps_different": n_bad, "steps_skipped": n_skip,
        "skipped_why": dict(skips.most_common(12)),
        "rule": "every step of every history: model run on the library's before-state (all 4 slots), result compared "
                "with the library's after-state: dimension, reduced flag, length, disjunct i == disjunct i as sets (K1 equivB); "
                "BD shapes / boxes: list-exact for reductions, add_disjunct, upper bound, meet, add_constraints, dimension changes; "
                "flag + length only where the base operator has no exact K1 reference (affine images, hull-based merges, fold, difference)",
        "operations_equal": dict(ops.most_common()), "operations_different": dict(mism),
        "domain_histogram": {DOMS.get(k, k): v for k, v in doms.items()},
        "max_sequence_length_histogram": {str(k): v for k, v in sorted(lens.items())},
        "mismatch_not_reported_individually": max(0, n_bad - reported),
    }
    ctx.assumptions += [
        "exact tie: the base-domain oracle of the replay is the K1 kernel (inclusion, emptiness, disjointness decided; upper bound "
        "= constraints of the union of the journalled generators after checkDD verified them; exact-upper-bound test = hull contained "
        "in the union of the two, dnfSubsetF); the order of the constraint rows linear_partition iterates over in difference_assign "
        "is journalled from the library (NNC copy of the reduced argument) and only trusted after K1 checked it denotes the model's reduced argument",
        "exact tie: simplify_using_context_assign is replayed structurally (reductions, degenerate branches, flag, number of disjuncts <= before); "
        "its base-level simplification is not modelled; aliased calls x.op(x) are replayed for meet / upper bound / difference",
    ]
    return broken


def replay(ctx, r, path):
    """re-run the recorded history with --exact on the current tree and re-judge it"""
    ctx.ensure_ppl()
    drv = ctx.ensure_pplv("pplv_ps")
    h = ctx.compile_harness(r.get("harness", "c09_powerset.cc"))
    wd = os.path.join(BUILD, "run-%s-exact-%d" % (ctx.pid, os.getpid()))
    shutil.rmtree(wd, ignore_errors=True)
    os.makedirs(wd)
    jpath = os.path.join(wd, "xjournal.txt")
    ctx.run([h] + r["harness_args"], stdout_path=jpath, timeout=600)
    rc, out, err = ctx.run([drv, "--exact"], stdin_path=jpath, timeout=600)
    journal = open(jpath).read().splitlines()
    bad = [l for l in (out or "").splitlines() if " MISMATCH " in l]
    for b in bad:
        ln = int(b.split()[0])
        j = ln - 1
        while j > 0 and not journal[j].startswith("xb"):
            j -= 1
        for x in journal[j:ln]:
            if x.startswith("xo "):
                print("  operation: " + x[3:300])
        print("  " + b)
    shutil.rmtree(wd, ignore_errors=True)
    if bad:
        print("VIOLATION property=%s replay=%s" % (ctx.pid, path))
        return 1
    print("no difference between model and library when re-run on the current tree")
    return 0
