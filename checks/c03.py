"""C03 — box, BD-shape and octagon results contain the exact result, for every type.

proof:  PPLV.Props.C03 (sound_iff, sound_pieces_iff, definite_answers): the judge `exact ⊆ γ(result)` and
        the judges of the definite answers are sound and complete (K1).  (closure kernels for every
        rounding: PPLV/WR/Closure*.lean, another check module.)
tie:    harness/c04_shapes.cc, ONE templated harness instantiated for BD_Shape / Octagonal_Shape over
        mpq, mpz, int8..int64, float, double, long double and for every Box instantiation of
        interfaces/interfaced_boxes.hh and tests/ppl_test.hh; bounds placed at max-1, max, min+2 of T, at
        values whose sums overflow, at non-representable rationals; every argument and result journalled
        through constraints() / minimized_constraints() with bounds as exact rationals;
        `pplv_wr --mode c03` computes K1's exact result from the arguments as the library reports them
        and checks that every reading of the result contains it, and that each `true` of is_empty /
        contains / is_disjoint_from holds.  For inexact T a later reading of an unchanged object (reduced
        form) may be weaker than an earlier one; every reading contains the internal set, so the tightest
        reading since the last mutation is the argument of monotone operators, the latest one is used where
        the claim is antitone (subtrahend of difference_assign, container of contains()).
"""
from . import wr_common as w
from . import c03_trans
from . import c03_box
LEVEL = "proof"


def run(ctx):
    ctx.ensure_ppl()
    broken = ctx.prove(["PPLV.Props.C03"])
    quick = ctx.tier == "quick"
    if not quick:
        broken += ctx.leanchecker(["PPLV.Props.C03"])
    w.run_shapes(ctx, "c03", w.ALL_TYPES, n_hist=150 if quick else 2500, length=12 if quick else 25,
                 maxdim=3 if quick else 4)
    broken += c03_trans.run(ctx)           # stage 3: the sign-case transformers (proof + exact correspondence + K1 judge)
    broken += c03_box.run(ctx)             # stage 4: the Box<ITV> transformers (proof + exact correspondence + sampled judge)
    for b in broken:
        ctx.violation("proof obligation broken: " + b, {"obligation": b}, found_input=False)
    ctx.assumptions += [
        "the judge (K1 subsetB, isEmptyB, disjointB) is proved sound and complete; 'all inputs' of the real code is sampled by seeded histories per instantiation",
        "the exact result is computed from the arguments as the library reports them through constraints() (numer_denom is exact for every T)",
        "precision is never judged for inexact T (DESIGN section 4 (vii))",
        "floating-point T at the range limit: only the operators listed in coverage.limit_history_policy are exercised there (skips are counted); "
        "for an inexact T the matrix of a BD shape marked reduced is read through a copy whose reduced flag has been cleared (constraints() of a reduced shape is a weaker reading)",
    ]


def replay(ctx, path):
    """bin/check C03 --replay <file>: re-execute the recorded history against the current tree and judge it again"""
    ctx.ensure_ppl()
    if c03_trans.is_replay(path):
        return c03_trans.replay(ctx, path)
    if c03_box.is_replay(path):
        return c03_box.replay(ctx, path)
    w.run_replay(ctx, "c03")
    return 1 if ctx.violations else 0
