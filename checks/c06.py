"""C06 — MIP solver: status, optimum and witness are right, incrementally or from scratch.

proof:  PPLV.Props.C06 — lp_spec (K1-backed LP answers are exact), mip_spec_partial / mip_ref_sound
        (bounded-integer enumeration is exact; every answer it gives is true), witness_check,
        no_better_sound, mip_relaxation_bound + window_sound (one-sided judges when an integer
        variable is unbounded), final_data_only + answer_of_set_only (incremental ≡ fresh, model half).
tie:    harness/c06_mip.cc drives real MIP_Problem objects through seeded histories (every mutator,
        all pricing rules, copies continuing independently, solve / is_satisfiable / feasible_point /
        optimizing_point / optimal_value in between, and after each observation the same question
        to a fresh MIP_Problem built from the same final data); the native driver pplv_mip replays the
        data (`Problem.apply`) and judges every observation with the proved reference.
A call that exceeds its CPU limit is journalled `timeout` and is inconclusive (DESIGN §4 (viii)).
"""
import collections, concurrent.futures as cf, glob, hashlib, os, re, time

from .common import VERIF
from . import c06_bb
from . import c06_tab

LEVEL = "proof"
CORPUS = os.path.join(VERIF, "corpus", "C06")

SOLVE_LIKE = ("solve", "oval", "opoint")


def split_histories(lines):
    hists, cur = [], None
    for l in lines:
        if l.startswith("hist "):
            if cur is not None:
                hists.append(cur)
            cur = [l]
        elif cur is not None:
            cur.append(l)
    if cur is not None:
        hists.append(cur)
    return hists


def run_driver(ctx, drv, lines, path, extra=()):
    with open(path, "w") as f:
        f.write("\n".join(lines) + "\n")
    rc, out, err = ctx.run([drv] + list(extra), stdin_path=path, timeout=3000)
    if rc != 0:
        ctx.fatal("driver pplv_mip failed rc=%s %s" % (rc, (err or "")[-500:]))
    verd = {}
    for l in out.splitlines():
        t = l.split(None, 2)
        if t and t[0] in ("ok", "skip", "MISMATCH"):
            verd[int(t[1]) - 1] = (t[0], t[2].strip() if len(t) > 2 else "")
    return verd


def ref_fields(detail):
    m = re.search(r"\[ref=(\S+) relax=(\S+) window=([^\s\]]+)", detail)
    return (m.group(1), m.group(2), m.group(3)) if m else ("?", "?", "?")


def klass(ans):
    return ans.split("(")[0]


def lineage(hist, idx, slot):
    """journal lines (op / obs) that shaped the object in `slot` before line idx, oldest first,
    following copy construction back to the source object"""
    out, cur = [], slot
    for l in reversed(hist[:idx]):
        t = l.split()
        if not t:
            continue
        if t[0] == "copy" and t[1] == cur:
            cur = t[2]
        elif t[0] in ("op", "obs") and len(t) > 2 and t[1] == cur:
            out.append(t)
        elif t[0] in ("new", "newc") and t[1] == cur:
            out.append(t)
            break
    out.reverse()
    return out


def parse_cons(tokens, n):
    """constraints `<rel> <k> <a_0..a_{n-1}>`* -> [(rel, k, [a])]"""
    res, i = [], 0
    while i + 2 + n <= len(tokens):
        res.append((tokens[i], int(tokens[i + 1]), [int(x) for x in tokens[i + 2: i + 2 + n]]))
        i += 2 + n
    return res


def reported_point(t, dim):
    """the point an observation line exhibits (last_generator of the object), as Fractions, or None"""
    from fractions import Fraction
    pt = None
    if t[2] == "solve" and len(t) > 3 and t[3] == "optimized" and "pt" in t:
        k = t.index("pt"); pt = t[k + 1: k + 2 + dim]
    elif t[2] == "solve" and len(t) > 3 and t[3] == "unbounded" and "fp" in t:
        k = t.index("fp"); pt = t[k + 1: k + 2 + dim]
    elif t[2] == "sat" and "fp" in t:
        k = t.index("fp"); pt = t[k + 1: k + 2 + dim]
    elif t[2] in ("fpoint", "opoint") and len(t) > 3:
        pt = t[3: 4 + dim]
    if not pt or pt[0] in ("none", "timeout") or len(pt) < dim + 1:
        return None
    try:
        d = int(pt[0])
        return [Fraction(int(v), d) for v in pt[1: 1 + dim]]
    except ValueError:
        return None


def pending_batch_profile(lin):
    """Replays the lineage of one object and describes the batch of constraints that was pending when
    the last processing call (any observer) ran, relative to the point the object exhibited before
    (its `last_generator`): returns a set of structural facts.
    Mirrors MIP_Problem::parse_constraints: a pending multi-variable inequality that the previous point
    satisfies gets no artificial variable; a pending `a*x_j >= 0` (a > 0, single variable, zero
    inhomogeneous term) on a variable that is already mapped and split re-merges the split."""
    dim, mapped_dim = 0, 0           # space dimension now / when constraints were last processed
    nonneg = set()                   # variables known nonnegative when last processed
    batch = []                       # constraints pending
    last_profile = set()
    processed_once = False
    ints_now, mip_when_processed = False, False   # integer variables declared / at the last processing call
    last_point = None                # point exhibited by the object (None: none known)
    for t in lin:
        if t[0] == "new":
            dim = int(t[2])
        elif t[0] == "newc":
            dim = int(t[2])
            m = int(t[4])
            batch += parse_cons(t[5: 5 + m * (2 + dim)], dim)
        elif t[0] == "op":
            if t[2] == "add_con":
                batch += parse_cons(t[3:], dim)
            elif t[2] == "add_cons":
                batch += parse_cons(t[4:], dim)
            elif t[2] == "add_dims":
                dim += int(t[3])
            elif t[2] == "add_ints":
                ints_now = True
        elif t[0] == "obs" and t[2] != "okinv":
            prof = set()
            remerge_negative, multi_satisfied = False, False
            pt = (last_point + [0] * dim)[:dim] if last_point is not None else None
            for rel, k, a in batch:
                nz = [j for j, v in enumerate(a) if v != 0]
                if len(nz) >= 2 and rel == ">=" and pt is not None:
                    if sum(ai * xi for ai, xi in zip(a, pt)) + k >= 0:
                        multi_satisfied = True      # parse_constraints: is_satisfied_inequality
                if len(nz) == 1 and pt is not None:
                    j, v = nz[0], a[nz[0]]
                    if rel == ">=" and k == 0 and v > 0 and j < mapped_dim and j not in nonneg and processed_once \
                            and pt[j] < 0:
                        remerge_negative = True     # merge_split_variable changes the basic solution
            if remerge_negative and multi_satisfied:
                prof.add("pending_sign_restriction_remerges_split_variable_with_multi_variable_inequality")
            # the previous processing call solved a MIP: last_generator is the branch-and-bound point,
            # not the basic solution of the tableau, yet "already satisfied" is judged against it
            if multi_satisfied and processed_once and mip_when_processed:
                prof.add("pending_multi_variable_inequality_after_mip_processing")
            if batch:
                last_profile = prof
            # bookkeeping as in parse_constraints (cases 4-7 mark the variable nonnegative)
            for rel, k, a in batch:
                nz = [j for j, v in enumerate(a) if v != 0]
                if len(nz) == 1:
                    j, v = nz[0], a[nz[0]]
                    if (rel == "=" and v * k <= 0) or (rel == ">=" and v > 0 and k <= 0):
                        nonneg.add(j)
            batch = []
            mapped_dim = dim
            processed_once = True
            mip_when_processed = ints_now
            p2 = reported_point(t, dim)
            if p2 is not None:
                last_point = p2
            elif len(t) > 3 and t[2] in ("solve", "sat", "fpoint") and t[3] in ("unfeasible", "0", "none"):
                last_point = None
    return last_profile


def classify(hist, idx, verdict):
    """site + tags (structural class) of the failing event hist[idx]"""
    toks = hist[idx].split()
    src, slot, kind = toks[0], toks[1] if len(toks) > 1 else "?", toks[2] if len(toks) > 2 else "?"
    obligation = verdict.split()[0] if verdict else "?"
    tags = []
    if src in ("exc", "crash"):
        return {"site": src + ":" + " ".join(toks[1:3]), "tags": tags}
    ref, relax, window = ref_fields(verdict)
    lib = toks[3] if len(toks) > 3 else "?"
    tags += ["reference_" + klass(ref), "relaxation_" + klass(relax), "window_" + klass(window),
             "via_" + src, "obligation_" + obligation]
    lin = lineage(hist, idx, slot)
    ops = [t[0] + ":" + t[2] for t in lin if t[0] in ("op", "obs")]
    has_ints = any(o == "op:add_ints" for o in ops)
    if has_ints:
        tags.append("mixed_integer")
    integer_point_exists = klass(ref) in ("unbounded", "optimum") or klass(window) in ("unbounded", "optimum")
    says_unsat = (kind == "solve" and lib == "unfeasible") or (kind == "sat" and lib == "0") or (kind == "fpoint" and lib == "none")
    m = re.search(r"incremental≠fresh incremental (\S+).* vs fresh (\S+)", verdict)
    if m and ({m.group(1), m.group(2)} == {"unfeasible", "unbounded"} or
              (kind in ("fpoint", "sat") and {m.group(1), m.group(2)} in ({"none", "point"}, {"0", "1"}))):
        says_unsat = True      # one of the two objects denies satisfiability, the other exhibits a verified feasible point
    solve_before = kind in SOLVE_LIKE or any(o.split(":")[1] in SOLVE_LIKE for o in ops if o.startswith("obs:"))
    site = "%s:%s" % (kind, obligation)
    # solve_mip(): relaxation unbounded, vertex fractional on an integer variable -> both children are
    # explored but an unbounded child never sets `have_incumbent_solution`, so UNFEASIBLE comes back
    if has_ints and says_unsat and klass(relax) == "unbounded" and integer_point_exists and solve_before:
        site = "MIP_Problem::solve_mip"
        tags.append("unfeasible_reported_relaxation_unbounded_integer_point_exists")
    # process_pending_constraints(): the batch pending at the last processing call of the *incremental*
    # object re-merges a split variable (new `x >= 0`) and carries an inequality judged "already
    # satisfied" against the point of the previous solve
    if src == "obs" and site != "MIP_Problem::solve_mip":
        trigger = idx if kind != "okinv" else idx     # okinv follows its observation line directly
        prof = pending_batch_profile(lineage(hist, trigger, slot) + ([toks] if kind != "okinv" else []))
        if prof:
            tags += sorted(prof)
            if (("pending_sign_restriction_remerges_split_variable_with_multi_variable_inequality" in prof) or
                    ("pending_multi_variable_inequality_after_mip_processing" in prof)) and \
                    obligation in ("witness", "invariant", "optimum", "value", "status", "satisfiable", "incremental≠fresh"):
                site = "MIP_Problem::process_pending_constraints"
    return {"site": site, "tags": tags}


def ops_of(hist):
    """the re-executable part of a journal: constructors, mutators, copies and the observer calls"""
    out = []
    for l in hist:
        t = l.split()
        if not t:
            continue
        if t[0] in ("hist", "new", "newc", "op", "copy", "drop"):
            out.append(l)
        elif t[0] == "obs" and len(t) > 2 and t[2] != "okinv":
            out.append(" ".join(t[:3]))
    return out


class Replayer:
    def __init__(self, ctx, harness, driver, wd):
        self.ctx, self.h, self.d, self.wd, self.n = ctx, harness, driver, wd, 0

    def run(self, ops):
        """re-executes `ops` on the real library -> (journal lines, {line index: verdict})"""
        self.n += 1
        p = os.path.join(self.wd, "replay.ops")
        with open(p, "w") as f:
            f.write("\n".join(ops) + "\n")
        jp = os.path.join(self.wd, "replay.journal")
        rc, _, err = self.ctx.run([self.h, "--replay", p], stdout_path=jp, timeout=300)
        if rc != 0:
            return [], {}
        lines = open(jp).read().splitlines()
        return lines, run_driver(self.ctx, self.d, lines, os.path.join(self.wd, "replay.in"))

    def obligations(self, ops):
        lines, verd = self.run(ops)
        return set(v[1].split()[0] for v in verd.values() if v[0] == "MISMATCH")

    def shrink(self, ops, obligation, budget=80):
        """ddmin over the op list, keeping a failure of the same obligation"""
        if obligation not in self.obligations(ops):
            return ops, False
        head, body = ops[:1], ops[1:]
        n, runs = 2, 0
        while len(body) >= 2 and runs < budget:
            chunk = max(1, len(body) // n)
            reduced = False
            for i in range(0, len(body), chunk):
                cand = body[:i] + body[i + chunk:]
                runs += 1
                if cand and obligation in self.obligations(head + cand):
                    body, n, reduced = cand, max(n - 1, 2), True
                    break
                if runs >= budget:
                    break
            if not reduced:
                if chunk == 1:
                    break
                n = min(len(body), n * 2)
        return head + body, True


def examine(ctx, hist, verd_of, where, stats, seen_sites, replayer=None):
    """walk one history; report the first failing event of every slot (later events on a slot whose
    object already answered wrongly, and on its copies, repeat the same defect)."""
    tainted = set()
    for i, l in enumerate(hist):
        t = l.split()
        if not t:
            continue
        if t[0] == "copy":
            if t[2] in tainted:
                tainted.add(t[1])
            else:
                tainted.discard(t[1])
        elif t[0] in ("new", "newc"):
            tainted.discard(t[1])
        v = verd_of(i)
        if not v:
            continue
        stats[v[0]] += 1
        if v[0] == "skip":
            stats["skip:" + v[1].split()[0]] += 1
            continue
        if v[0] != "MISMATCH":
            continue
        slot = t[1] if t[0] in ("obs", "fresh") else "*"
        if slot in tainted:
            stats["repeat_on_tainted_slot"] += 1
            continue
        tainted.add(slot)
        rec = classify(hist, i, v[1])
        # a broken build fails thousands of observations: report each structural class a few times only
        skey = (rec["site"], tuple(sorted(x for x in rec["tags"] if not x.startswith(("window_", "via_")))))
        stats["failing_events"] += 1
        seen_sites[skey] = seen_sites.get(skey, 0) + 1
        if seen_sites[skey] > 3 or stats["violations_reported"] >= 40:
            stats["failing_events_not_reported_again"] += 1
            continue
        ops_only = ops_of(hist[: i + 1])
        shrunk, reproduced = ops_only, None
        if replayer is not None and ctx.match_known(rec) is None:
            shrunk, reproduced = replayer.shrink(ops_only, v[1].split()[0])
        what = "C06 %s | event: %s | after %d journal lines (%d operations after shrinking)" % (
            v[1][:400], l[:200], i, len(shrunk))
        if ctx.violation(what, {
            "history": hist[: i + 1], "ops": shrunk, "ops_before_shrinking": len(ops_only), "reproduced_by_replay": reproduced,
            "verdict": v[1], "site": rec["site"], "tags": rec["tags"], "found_at": where,
            "how_to_replay": "bin/check C06 --replay <this file>   (or: printf '%s\\n' <ops> > f.ops ; build/c06_mip-* --replay f.ops | lean/.lake/build/bin/pplv_mip)",
        }, found_input=True, record=rec):
            stats["violations_reported"] += 1


def replay(ctx, path):
    """bin/check C06 --replay replays/C06-….json : re-execute the recorded operation list on the real
    library of the current tree and re-judge it with the driver; 1 = the property is still violated."""
    import json
    obj = json.load(open(path))
    if obj.get("stage") == "c06_bb":          # stage 3 replay files (branch-and-bound tree)
        return c06_bb.replay(ctx, path)
    if obj.get("stage") == "c06_tab":         # stage 3 (b)(c)(d) replay files (tableau / simplex phases)
        return c06_tab.replay(ctx, path)
    ctx.ensure_ppl()
    drv = ctx.ensure_pplv("pplv_mip")
    h = ctx.compile_harness("c06_mip.cc")
    R = Replayer(ctx, h, drv, ctx.workdir())
    ops = obj.get("ops") or ops_of(obj.get("history", []))
    print("property=C06 what=%s" % str(obj.get("what", "-"))[:300])
    lines, verd = R.run(ops)
    for i, l in enumerate(lines):
        v = verd.get(i)
        print("  %-78s %s" % (l[:78], (v[0] + " " + v[1][:200]) if v else ""), flush=True)
    failing = [(i, v) for i, v in sorted(verd.items()) if v[0] == "MISMATCH"]
    if not failing:
        print("replay of %d operations: every observation is right" % len(ops))
        return 0
    i, v = failing[0]
    hist = split_histories(lines)
    hist = hist[0] if hist else lines
    rec = classify(hist, hist.index(lines[i]) if lines[i] in hist else i, v[1])
    k = ctx.match_known(rec)
    if k is not None:
        print("KNOWN-FINDING: property=C06 %s [%s]" % (k["what"][:200], k["id"]))
        return 0
    print("VIOLATION property=C06 replay=%s" % path)
    return 1


def run(ctx):
    t0 = time.time()
    ctx.ensure_ppl()
    t1 = time.time()
    broken = ctx.prove(["PPLV.Props.C06"])
    if ctx.tier == "thorough":
        broken += ctx.leanchecker(["PPLV.Props.C06"])
    drv = ctx.ensure_pplv("pplv_mip")
    h = ctx.compile_harness("c06_mip.cc")
    wd = ctx.workdir()
    t2 = time.time()
    quick = ctx.tier == "quick"
    stats = collections.Counter()
    seen_sites = {}
    R = Replayer(ctx, h, drv, wd)

    # ---- 1. regression inputs first -------------------------------------------------------------
    corpus = sorted(glob.glob(os.path.join(CORPUS, "*.ops")))
    for k, p in enumerate(corpus):
        jp = os.path.join(wd, "corpus%d.journal" % k)
        rc, _, err = ctx.run([h, "--replay", p], stdout_path=jp, timeout=300)
        if rc != 0:
            ctx.fatal("harness --replay failed rc=%s %s" % (rc, (err or "")[-300:]))
        lines = open(jp).read().splitlines()
        verd = run_driver(ctx, drv, lines, os.path.join(wd, "corpus%d.in" % k))
        for hist in split_histories(lines):
            base = lines.index(hist[0])
            examine(ctx, hist, lambda i, b=base: verd.get(b + i), "corpus/" + os.path.basename(p), stats, seen_sites, R)
    stats_corpus = dict(stats)

    # ---- 2. seeded histories, in parallel ---------------------------------------------------------
    n_hist = int(os.environ.get("VERIF_C06_HISTS", "0")) or (1200 if quick else 30000)
    nproc = 12
    per = (n_hist + nproc - 1) // nproc
    maxdim = 4
    call_ms = 300

    def work(k):
        a, b = k * per, min(n_hist, (k + 1) * per)
        if a >= b:
            return []
        jp = os.path.join(wd, "j%d.txt" % k)
        cmd = [h, "--seed", str(ctx.seed), "--first", str(a), "--last", str(b), "--maxdim", str(maxdim),
               "--batch", "10", "--call-ms", str(call_ms)]
        rc, _, err = ctx.run(cmd, stdout_path=jp, timeout=3000)
        if rc != 0:
            ctx.fatal("harness failed rc=%s %s" % (rc, (err or "")[-500:]))
        lines = open(jp).read().splitlines()
        verd = run_driver(ctx, drv, lines, os.path.join(wd, "d%d.in" % k))
        return [(lines, verd)]

    results = []
    with cf.ThreadPoolExecutor(nproc) as ex:
        for r in ex.map(work, range(nproc)):
            results += r

    t3 = time.time()
    distinct, nontrivial, samples = set(), 0, []
    opc, obsc, statusc = collections.Counter(), collections.Counter(), collections.Counter()
    n_hists = 0
    timeouts = 0
    for lines, verd in results:
        pos = 0
        for hist in split_histories(lines):
            base = lines.index(hist[0], pos)
            pos = base + 1
            n_hists += 1
            key = hashlib.sha256("\n".join(hist[1:]).encode()).hexdigest()
            kinds, sts, muts_after_solve, has_ints = set(), set(), False, False
            solved = False
            for l in hist:
                t = l.split()
                if t[0] == "op":
                    opc[t[2]] += 1
                    if t[2] == "add_ints":
                        has_ints = True
                    if solved and t[2] not in ("set_pricing",):
                        muts_after_solve = True
                elif t[0] == "obs":
                    obsc[t[2]] += 1
                    if len(t) > 3 and t[3] == "timeout":
                        timeouts += 1
                    if t[2] == "solve" and len(t) > 3:
                        sts.add(t[3]); statusc[t[3]] += 1
                        solved = True
            if key not in distinct:
                distinct.add(key)
                if muts_after_solve and sts:
                    nontrivial += 1
                    if len(samples) < 2:
                        samples.append(hist[:16])
            examine(ctx, hist, lambda i, b=base, v=verd: v.get(b + i), "seed %d" % ctx.seed, stats, seen_sites, R)

    broken += c06_bb.run(ctx)          # stage 3: branch-and-bound recursion (proof + node-for-node correspondence)
    broken += c06_tab.run(ctx)         # stage 3 (b)(c)(d): tableau set-up, the two simplex phases, pricing independence

    for b in broken:
        ctx.violation("proof obligation of C06 does not check: " + b,
                      {"obligation": b, "theorems": "lean/PPLV/Props/C06.lean"}, found_input=False)

    decided = stats["ok"]
    ctx.cov.update({
        "evaluations": n_hists, "distinct_nontrivial": nontrivial,
        "rule": "seeded histories over up to 3 MIP_Problem objects (1-%d variables, 0-9 constraints, staged / constructor / random-walk "
                "templates); distinct by hash of the journal text; non-trivial = at least one solve() status observed and at least one "
                "mutator applied after a solve()" % maxdim,
        "samples": samples, "traces_validated_against_impl": n_hists,
        "corpus_inputs": [os.path.basename(p) for p in corpus], "corpus_stats": stats_corpus,
        "observations_decided": decided, "observations_mismatch": stats["MISMATCH"],
        "observations_one_sided_or_inconclusive": {k[5:]: v for k, v in stats.items() if k.startswith("skip:")},
        "repeat_on_tainted_slot": stats["repeat_on_tainted_slot"],
        "failing_events": stats["failing_events"], "failing_events_not_reported_again": stats["failing_events_not_reported_again"],
        "op_histogram": dict(opc), "observer_histogram": dict(obsc), "solve_status_histogram": dict(statusc),
        "timeouts_inconclusive": timeouts, "call_cpu_limit_ms": call_ms,
        "phase_seconds": {"ppl_build_and_lock": round(t1 - t0, 1), "lean_prove_audit_driver_harness_build": round(t2 - t1, 1),
                          "corpus_and_histories": round(t3 - t2, 1), "examine": round(time.time() - t3, 1)},
    })
    ctx.assumptions += [
        "the judge is proved: LP answers exact (K1), MIP reference exact when every integer variable is bounded in the relaxation; "
        "otherwise only the one-sided judges (relaxation bound, window witness) and incremental-vs-fresh apply (counted as skip:unbounded-int-var)",
        "'all problems / all histories' of the real code is sampled by seeded histories; pivoting order and float pricing are not modelled",
        "a solver call exceeding its CPU limit (%d ms of process CPU time) is inconclusive, not a violation" % call_ms,
    ]
