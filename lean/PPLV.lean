import PPLV.Lin.Model
import PPLV.Lin.Proofs
import PPLV.Lin.Decide
