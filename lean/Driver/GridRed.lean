import PPLV.Lattice.RedSem
import PPLV.Lattice.ProofsConvGCDef
/-!
# `pplv_gridred` — replays the journal of `harness/c05_reduce.cc` on the code-shaped model of
# `Grid::simplify` / `Grid::conversion` / `Grid::normalize_divisors`

One call per journal line (grammar: see the harness).  For every line
* `rows`: the model, run on the journalled input, must return exactly the journalled rows / dim_kinds / flag;
* `tri`: the REAL output must be in the triangular form the theorems state (`upperTriangular` / `lowerTriangular`);
* `cert`: the certificate checkers `gcCertB` / `cgCertB` (sound by `C05.gcCert_sound` / `C05.cgCert_sound`) accept the real conversion output;
* `sem`: the REAL output, handed to the verified K2 deciders (`consToGens`, `equivB`), must denote the input grid
  (`C05.simplify_*_preserves`, `C05.conversion_*_correct` checked on the real data).
stdout: `ok <line> <kind> <id> k=v…` | `MISMATCH <line> <kind> <id> <obligation> <detail>` | `skip <line> why`.
-/
open PPLV.Lattice PPLV.Lattice.Red

abbrev P := StateT (List String) Option

def tok : P String := do
  match (← get) with
  | [] => failure
  | t :: ts => set ts; pure t

def pInt : P Int := do
  let t ← tok
  match t.toInt? with
  | some i => pure i
  | none => failure

def pNat : P Nat := do
  let i ← pInt
  if i < 0 then failure else pure i.toNat

def expect (s : String) : P Unit := do
  let t ← tok
  if t = s then pure () else failure

def pMany {α} (n : Nat) (p : P α) : P (List α) := do
  let mut out := []
  for _ in [0:n] do
    out := (← p) :: out
  pure out.reverse

def pDK : P (List Nat) := do expect "DK"; let k ← pNat; pMany k pNat
def pRow : P Row := do let k ← pNat; pMany k pInt
def pGRow : P GRow := do let l ← pNat; let e ← pRow; pure { line := l = 1, e := e }
def pCRow : P CRow := do let e ← pRow; let m ← pInt; pure { e := e, m := m }
def pRows : P (List GRow) := do expect "ROWS"; let r ← pNat; pMany r pGRow
def pCRows : P (List CRow) := do expect "CROWS"; let r ← pNat; pMany r pCRow

def showRow (e : Row) : String := "(" ++ ",".intercalate (e.map toString) ++ ")"
def showG (rows : List GRow) : String :=
  "[" ++ " ".intercalate (rows.map fun r => (if r.line then "L" else "P") ++ showRow r.e) ++ "]"
def showC (rows : List CRow) : String :=
  "[" ++ " ".intercalate (rows.map fun r => showRow r.e ++ "%" ++ toString r.m) ++ "]"
def showDK (dk : List Nat) : String := "<" ++ ",".intercalate (dk.map toString) ++ ">"

def cgsGrid (n : Nat) (rows : List CRow) : GridGens := consToGens n (cgsOf rows)

/-! ### which branches a call runs through (the state evolves with the model's own step functions) -/

def bump (t : List (String × Nat)) (k : String) : List (String × Nat) :=
  if t.any (·.1 == k) then t.map (fun p => if p.1 == k then (p.1, p.2 + 1) else p) else t ++ [(k, 1)]

def showTags (t : List (String × Nat)) : String := " ".intercalate (t.map fun p => s!"{p.1}={p.2}")

def traceGens (n : Nat) (rows : List GRow) (dk : List Nat) : List (String × Nat) := Id.run do
  let numColumns := n + 1
  let dk0 := if dk.length ≠ numColumns then resizeKinds dk numColumns else dk
  let numRows := rows.length
  let mut st : GSt := { rows := rows, dk := dk0, pivotIndex := 0 }
  let mut t : List (String × Nat) := []
  for dim in [0:numColumns] do
    let rowIndex := findNonZero st.rows dim numRows (numRows - st.pivotIndex) st.pivotIndex
    if rowIndex = numRows then
      t := bump t "g_virtual"
    else
      if rowIndex ≠ st.pivotIndex then t := bump t "g_swap_to_pivot"
      let rows0 := if rowIndex ≠ st.pivotIndex then swapRows st.rows rowIndex st.pivotIndex else st.rows
      let mut cur : List GRow × Bool := (rows0, (rowAt rows0 st.pivotIndex).isLine)
      for ri in [rowIndex + 1 : numRows] do
        let row := rowAt cur.1 ri
        let pivot := rowAt cur.1 st.pivotIndex
        if get row.e dim = 0 then t := bump t "g_skip_zero"
        else if row.isLine then
          if cur.2 then t := bump t "reduce_line_with_line" else t := bump t "g_swap_param_pivot_with_line"
        else if cur.2 then
          t := bump t (if get row.e dim = get pivot.e dim then "reduce_parameter_with_line_equal" else "reduce_parameter_with_line")
        else t := bump t "reduce_pc_with_pc_gen"
        cur := simplifyGenInner dim st.pivotIndex numColumns cur ri
      t := bump t (if cur.2 then "g_kind_line" else "g_kind_parameter")
      let pivot := rowAt cur.1 st.pivotIndex
      if get pivot.e dim < 0 then t := bump t "g_negate_pivot"
      -- did reduce_reduced change a row?
      let rows2 := if get pivot.e dim < 0 then cur.1.set st.pivotIndex { pivot with e := negate pivot.e dim numColumns } else cur.1
      let dk1 := st.dk.set dim (if cur.2 then LINE else PARAMETER)
      if reduceReduced rows2 dim st.pivotIndex dim (numColumns - 1) dk1 != rows2 then t := bump t "reduce_reduced_gen_changed"
    st := simplifyGenDim numColumns numRows st dim
  if numRows > st.pivotIndex then t := bump t "g_zero_rows_clipped"
  return t

def traceCgs (n : Nat) (rows : List CRow) (dk : List Nat) : List (String × Nat) := Id.run do
  let rowsN := normalizeModuli rows
  let numColumns := n + 1
  let dk0 := if dk.length ≠ numColumns then resizeKinds dk numColumns else dk
  let numRows := rowsN.length
  let mut st : CSt := { rows := rowsN, dk := dk0, pivotIndex := 0 }
  let mut t : List (String × Nat) := []
  if rowsN != rows then t := bump t "c_moduli_normalized"
  for dim in (List.range numColumns).reverse do
    let rowIndex := findNonZero st.rows dim numRows (numRows - st.pivotIndex) st.pivotIndex
    if rowIndex = numRows then
      t := bump t "c_virtual"
    else
      if rowIndex ≠ st.pivotIndex then t := bump t "c_swap_to_pivot"
      let rows0 := if rowIndex ≠ st.pivotIndex then swapRows st.rows rowIndex st.pivotIndex else st.rows
      let mut cur : List CRow × Bool := (rows0, (rowAt rows0 st.pivotIndex).isEquality)
      for ri in [rowIndex + 1 : numRows] do
        let row := rowAt cur.1 ri
        let pivot := rowAt cur.1 st.pivotIndex
        if get row.e dim = 0 then t := bump t "c_skip_zero"
        else if row.isEquality then
          if cur.2 then t := bump t "reduce_equality_with_equality" else t := bump t "c_swap_pc_pivot_with_equality"
        else if cur.2 then
          t := bump t (if get row.e dim = get pivot.e dim then "reduce_congruence_with_equality_equal" else "reduce_congruence_with_equality")
        else t := bump t "reduce_pc_with_pc_cg"
        cur := simplifyCgInner dim st.pivotIndex cur ri
      t := bump t (if cur.2 then "c_kind_equality" else "c_kind_proper")
      let pivot := rowAt cur.1 st.pivotIndex
      if get pivot.e dim < 0 then t := bump t "c_negate_pivot"
      let rows2 := if get pivot.e dim < 0 then cur.1.set st.pivotIndex { pivot with e := negate pivot.e 0 (dim + 1) } else cur.1
      let dk1 := st.dk.set dim (if cur.2 then EQUALITY else PROPER_CONGRUENCE)
      if reduceReduced rows2 dim st.pivotIndex 0 dim dk1 false != rows2 then t := bump t "reduce_reduced_cg_changed"
    st := simplifyCgDim numRows st dim
  if st.pivotIndex = 0 then t := bump t (if numRows = 0 then "c_no_rows" else "c_all_zero_rows")
  else if numRows > st.pivotIndex then t := bump t "c_zero_rows_clipped"
  if st.pivotIndex > 0 ∧ kind st.dk 0 = CON_VIRTUAL then t := bump t "c_integrality_row_appended"
  return t

/-! ### one journal line -/

inductive Verdict where
  | ok (info : String)
  | bad (obl : String) (detail : String)
  | skip (why : String)

def countKind (dk : List Nat) (k : Nat) : Nat := (dk.filter (· == k)).length

def judgeND : P (String × Verdict) := do
  let id ← tok; let n ← pNat; let d ← pInt; let rows ← pRows
  expect "=>"
  let d' ← pInt; let rows' ← pRows
  let m := normalizeDivisors n rows d
  if m.1 != rows' || m.2 != d' then
    return (id, .bad "rows" s!"normalize_divisors n={n} d={d} in={showG rows} lib={d'} {showG rows'} model={m.2} {showG m.1}")
  match gensOf n rows, gensOf n rows' with
  | some a, some b =>
    if equivB a b then return (id, .ok s!"n={n} rows={rows.length} changed={if rows' != rows then 1 else 0}")
    else return (id, .bad "sem" s!"normalize_divisors changes the grid: n={n} d={d} in={showG rows} out={showG rows'}")
  | _, _ => return (id, .skip "no point")

def judgeSG : P (String × Verdict) := do
  let id ← tok; let n ← pNat; let norm ← pNat; let dk ← pDK; let rows ← pRows
  expect "=>"
  let dk' ← pDK; let rows' ← pRows
  let m := simplifyGens n rows dk
  let input := s!"n={n} dk={showDK dk} in={showG rows}"
  if m.1 != rows' || m.2 != dk' then
    -- still judge the real output
    let semBad := norm = 1 && (match gensOf n rows, gensOf n rows' with
      | some a, some b => !equivB a b
      | _, _ => true)
    return (id, .bad (if semBad then "rows+sem" else "rows")
      s!"simplify(gens) {input} lib={showDK dk'} {showG rows'} model={showDK m.2} {showG m.1}")
  if !upperTriangular n rows' dk' then
    return (id, .bad "tri" s!"simplify(gens) output not upper triangular: {input} out={showDK dk'} {showG rows'}")
  if norm = 1 && !gnormB n rows' then
    return (id, .bad "tri" s!"simplify(gens): the divisors of the output are not those of its point (gnormB): {input} out={showG rows'}")
  if norm = 1 then
    match gensOf n rows, gensOf n rows' with
    | some a, some b =>
      if !equivB a b then
        return (id, .bad "sem" s!"simplify(gens) changes the grid: {input} out={showDK dk'} {showG rows'}")
    | _, _ => return (id, .bad "sem" s!"simplify(gens): a system without a point or with a zero divisor: {input} out={showG rows'}")
  let tags := traceGens n rows dk
  return (id, .ok s!"n={n} rows={rows.length} out={rows'.length} lines={countKind dk' LINE} params={countKind dk' PARAMETER} virtual={countKind dk' GEN_VIRTUAL} norm={norm} {showTags tags}")

def judgeGC : P (String × Verdict) := do
  let id ← tok; let n ← pNat; let dk ← pDK; let rows ← pRows
  expect "=>"
  let dk' ← pDK; let crows ← pCRows
  let m := conversionGensToCgs n rows dk
  let input := s!"n={n} dk={showDK dk} in={showG rows}"
  let semOk := match gensOf n rows with
    | some a => equivB a (cgsGrid n crows)
    | none => false
  if m != crows || dk' != dk then
    return (id, .bad (if semOk then "rows" else "rows+sem") s!"conversion(gens->cgs) {input} lib={showDK dk'} {showC crows} model={showC m}")
  if !lowerTriangular n crows dk' then
    return (id, .bad "tri" s!"conversion(gens->cgs) output not lower triangular: {input} out={showC crows}")
  if !gcCertB n rows crows then
    return (id, .bad "cert" s!"conversion(gens->cgs): a generator of the source violates a produced congruence (gcCertB): {input} out={showC crows}")
  if !semOk then
    return (id, .bad "sem" s!"conversion(gens->cgs): the congruences do not denote the grid of the generators: {input} out={showC crows}")
  let modulus := (crows.map (·.m)).foldl max 0
  return (id, .ok s!"n={n} rows={rows.length} out={crows.length} modulus_gt_1={if modulus > 1 then 1 else 0} divisor_gt_1={if get (rowAt rows 0).e 0 > 1 then 1 else 0}")

def judgeSC : P (String × Verdict) := do
  let id ← tok; let n ← pNat; let dk ← pDK; let crows ← pCRows
  expect "=>"
  let dk' ← pDK; let crows' ← pCRows
  expect "FLAG"; let flag ← pNat
  let m := simplifyCgs n crows dk
  let input := s!"n={n} dk={showDK dk} in={showC crows}"
  let gin := cgsGrid n crows
  let semOk := if flag = 1 then gin.isEmpty else equivB gin (cgsGrid n crows')
  if m.1 != crows' || m.2.1 != dk' || m.2.2 != (flag = 1) then
    return (id, .bad (if semOk then "rows" else "rows+sem")
      s!"simplify(cgs) {input} lib={showDK dk'} {showC crows'} flag={flag} model={showDK m.2.1} {showC m.1} flag={m.2.2}")
  if flag = 0 && !lowerTriangular n crows' dk' then
    return (id, .bad "tri" s!"simplify(cgs) output not lower triangular: {input} out={showDK dk'} {showC crows'}")
  if !semOk then
    return (id, .bad "sem" (if flag = 1 then s!"simplify(cgs) reports an inconsistent system that has solutions: {input}"
      else s!"simplify(cgs) changes the grid: {input} out={showDK dk'} {showC crows'}"))
  let tags := traceCgs n crows dk
  return (id, .ok s!"n={n} rows={crows.length} out={crows'.length} flag={flag} equalities={countKind dk' EQUALITY} proper={countKind dk' PROPER_CONGRUENCE} virtual={countKind dk' CON_VIRTUAL} {showTags tags}")

def judgeCG : P (String × Verdict) := do
  let id ← tok; let n ← pNat; let dk ← pDK; let crows ← pCRows
  expect "=>"
  let dk' ← pDK; let rows ← pRows
  let m := conversionCgsToGens n crows dk
  let input := s!"n={n} dk={showDK dk} in={showC crows}"
  let semOk := match gensOf n rows with
    | some a => equivB a (cgsGrid n crows)
    | none => false
  if m != rows || dk' != dk then
    return (id, .bad (if semOk then "rows" else "rows+sem") s!"conversion(cgs->gens) {input} lib={showDK dk'} {showG rows} model={showG m}")
  if !upperTriangular n rows dk' then
    return (id, .bad "tri" s!"conversion(cgs->gens) output not upper triangular: {input} out={showG rows}")
  if !gnormB n rows then
    return (id, .bad "tri" s!"conversion(cgs->gens): the divisors of the output are not those of its point (gnormB): {input} out={showG rows}")
  if !cgCertB n crows rows then
    return (id, .bad "cert" s!"conversion(cgs->gens): a produced generator violates a congruence of the source (cgCertB): {input} out={showG rows}")
  if !semOk then
    return (id, .bad "sem" s!"conversion(cgs->gens): the generators do not denote the grid of the congruences: {input} out={showG rows}")
  return (id, .ok s!"n={n} rows={crows.length} out={rows.length} divisor_gt_1={if get (rowAt rows 0).e 0 > 1 then 1 else 0}")

def judgeGX : P (String × Verdict) := do
  let a ← pInt; let b ← pInt; let g ← pInt; let s ← pInt; let t ← pInt
  let m := gcdext a b
  if m == (g, s, t) then return ("-", .ok s!"big={if a.natAbs > 4294967296 || b.natAbs > 4294967296 then 1 else 0}")
  else return ("-", .bad "rows" s!"gcdext_assign a={a} b={b} lib=({g},{s},{t}) model=({m.1},{m.2.1},{m.2.2})")

def step (ln : Nat) (line : String) : Option String :=
  let toks := (line.trimAscii.toString.splitOn " ").filter (· ≠ "")
  match toks with
  | [] => none
  | kind :: rest =>
    let j : Option (P (String × Verdict)) := match kind with
      | "ND" => some judgeND | "SG" => some judgeSG | "GC" => some judgeGC
      | "SC" => some judgeSC | "CG" => some judgeCG | "GX" => some judgeGX
      | _ => none
    match j with
    | none =>
      if kind = "crash" || kind = "exc" then some s!"CRASH {ln} {" ".intercalate toks}" else none
    | some p =>
      match p.run rest with
      | none => some s!"skip {ln} {kind} unparsable"
      | some ((id, .ok info), _) => some s!"ok {ln} {kind} {id} {info}"
      | some ((id, .bad obl d), _) => some s!"MISMATCH {ln} {kind} {id} {obl} {d}"
      | some ((id, .skip why), _) => some s!"skip {ln} {kind} {id} {why}"

partial def loop (h : IO.FS.Stream) (out : IO.FS.Stream) (ln : Nat) : IO Unit := do
  let line ← h.getLine
  if line.isEmpty then return ()
  match step ln line with
  | some v => out.putStrLn v
  | none => pure ()
  loop h out (ln + 1)

def main (_args : List String) : IO UInt32 := do
  let stdin ← IO.getStdin
  let stdout ← IO.getStdout
  loop stdin stdout 1
  stdout.flush
  return 0
