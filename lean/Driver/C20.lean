import PPLV.CIface.Model
/-! native driver `pplv_c20`: judges the `disp` events of the C20 harness journal against the model.

Input (stdin), one event per line, other lines are ignored:
  `disp <id> <entry point> <class> thrown=<0|1> ret=<r> hcalls=<n> hcode=<c> esc=<class|->`
meaning: while `<entry point>` ran, an exception of the model class `<class>` was thrown under the
wrapper (`thrown=1`); the wrapper returned `<r>`, the registered error handler had been called `<n>`
times during the call, last with code `<c>`; `esc` names an exception that crossed the boundary.

Verdict per event: `ok <id>` iff nothing escaped, the handler was called exactly once with
`documentedCode class`, and that same code was returned; `skip <id>` when nothing was thrown;
`MISMATCH <id> dispatch <detail>` otherwise. -/
open PPLV.CIface

def classOfString : String → Option ExcClass
  | "badAlloc" => some .badAlloc | "invalidArgument" => some .invalidArgument
  | "domainError" => some .domainError | "lengthError" => some .lengthError
  | "outOfRange" => some .outOfRange | "logicError" => some .logicError
  | "overflowError" => some .overflowError | "underflowError" => some .underflowError
  | "rangeError" => some .rangeError | "runtimeError" => some .runtimeError
  | "stdException" => some .stdException | "timeout" => some .timeout
  | "detTimeout" => some .detTimeout | "unknown" => some .unknown
  | _ => none

def field (ws : List String) (key : String) : Option String :=
  ws.findSome? fun w =>
    match w.splitOn "=" with
    | [k, v] => if k == key then some v else none
    | _ => none

def judge (ws : List String) : String :=
  match ws with
  | "disp" :: id :: ep :: cls :: rest =>
    match classOfString cls, field rest "thrown", (field rest "ret").bind String.toInt?,
          (field rest "hcalls").bind String.toInt?, (field rest "hcode").bind String.toInt?, field rest "esc" with
    | some e, some thrown, some ret, some hcalls, some hcode, some esc =>
      if thrown != "1" then s!"skip {id}"
      else
        let want := documentedCode e
        if esc != "-" then s!"MISMATCH {id} dispatch {ep} class={cls} escaped={esc} expected_code={want}"
        else if ret == want && hcalls == 1 && hcode == want then s!"ok {id}"
        else s!"MISMATCH {id} dispatch {ep} class={cls} expected_code={want} ret={ret} hcalls={hcalls} hcode={hcode}"
    | _, _, _, _, _, _ => s!"MISMATCH {id} parse malformed-event"
  | _ => ""

partial def loop (h : IO.FS.Stream) (out : IO.FS.Stream) : IO Unit := do
  let line ← h.getLine
  if line.isEmpty then return
  let ws := (line.trimAscii.toString.splitOn " ").filter (· ≠ "")
  let v := judge ws
  if v ≠ "" then out.putStrLn v
  loop h out

def main (_args : List String) : IO UInt32 := do
  loop (← IO.getStdin) (← IO.getStdout)
  return 0
