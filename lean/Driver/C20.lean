/-! native driver `C20` (stub; replaced by the area's real driver) -/
def main (_args : List String) : IO UInt32 := do
  IO.println "stub"
  return 0
