import PPLV.COTree.Model

/-! native driver `pplv_c16`: replays the journal of `harness/c16_rows.cc` on the models of
`PPLV/COTree/Model.lean` (`SMap`, dense lists, `HoleArray`, density arithmetic) and compares every
real observation with what the model dictates: `ok <id>` / `MISMATCH <id> <obligation> <detail>`. -/
open PPLV.COTree

namespace C16Driver

def toks (s : String) : List String := (s.splitOn " ").filter (· ≠ "")
def sections (s : String) : List (List String) := (s.splitOn "|").map toks

def nat! (s : String) : Nat := if s.length > 4000 then 0 else s.toNat?.getD 0
def int! (s : String) : Int := if s.length > 4000 then 0 else s.toInt?.getD 0

def parseKV (t : String) : Nat × Int :=
  match t.splitOn ":" with
  | [k, v] => (nat! k, int! v)
  | _ => (0, 0)

def showMap (m : SMap) : String := " ".intercalate (m.map (fun p => s!"{p.1}:{p.2}"))
def showList (l : List Int) : String := " ".intercalate (l.map toString)
def keyStr : Option Nat → String
  | none => "end"
  | some k => toString k

/-- nearest stored key below / above -/
def predKey (m : SMap) (k : Nat) : Option Nat := (m.filter (fun p => p.1 < k)).getLast?.map (·.1)
def succKey (m : SMap) (k : Nat) : Option Nat := (m.filter (fun p => k < p.1)).head?.map (·.1)

/-- `bisect*` post-condition on keys: `ret` is `k` when stored, else the nearest smaller or larger key -/
def judgeKey (m : SMap) (ret : String) (k : Nat) : Bool :=
  match ret.toNat? with
  | none => false
  | some r => if m.stored k then r == k else (m.stored r && (some r == predKey m k || some r == succKey m k))

structure St where
  kind : String := ""
  tree : SMap := []
  tsize : Nat := 0
  trs : Nat := 0
  arr : HoleArray := ⟨#[]⟩
  rows : Array SRow := #[⟨0, []⟩, ⟨0, []⟩, ⟨0, []⟩]
  exprs : Array (List Int) := #[[0], [0], [0]]
  lastId : String := "-"
  pending : String := "-"
  nOk : Nat := 0
  nBad : Nat := 0

abbrev M := StateT St IO

def bad (id ob detail : String) : M Unit := do
  IO.println s!"MISMATCH {id} {ob} {detail}"
  modify fun s => { s with nBad := s.nBad + 1 }

/-- run the checks of one event; print `ok` when none failed -/
def verdict (id : String) (checks : List (String × Bool × String)) : M Unit := do
  let failed := checks.filter (fun c => !c.2.1)
  if failed.isEmpty then
    IO.println s!"ok {id}"
    modify fun s => { s with nOk := s.nOk + 1 }
  else
    for c in failed do bad id c.1 c.2.2

/-! ### CO_Tree events -/

def treeEvent (id : String) (op : List String) (obs : List String) (cont : List String) : M Unit := do
  let st ← get
  let real : SMap := cont.map parseKV
  let (ret, size, rs, ok, sok) := match obs with
    | [r, a, b, c, d] => (r, nat! a, nat! b, c == "1", d == "1")
    | _ => ("?", 0, 0, false, false)
  let m := st.tree
  let a (i : Nat) : String := op.getD i ""
  -- model step: new map, expected return (none = not checked), new (size, rs)
  let keep := (m, (none : Option String), (st.tsize, st.trs))
  let insStep (m' : SMap) (k : Nat) := (m', some (toString k),
    if m.stored k then (st.tsize, st.trs) else afterInsert st.tsize st.trs)
  let eraStep (k : Nat) (m' : SMap) (r : Option String) := (m', r,
    if m.stored k then afterErase st.tsize st.trs else (st.tsize, st.trs))
  let (m', expRet, (size', rs')) : SMap × Option String × (Nat × Nat) := match a 0 with
    | "ins" => insStep (m.set (nat! (a 1)) (int! (a 2))) (nat! (a 1))
    | "ins0" => insStep (m.touch (nat! (a 1))) (nat! (a 1))
    | "insh" => insStep (m.set (nat! (a 2)) (int! (a 3))) (nat! (a 2))
    | "insh0" => insStep (m.touch (nat! (a 2))) (nat! (a 2))
    | "era" => let k := nat! (a 1); eraStep k (m.erase k) (some (keyStr ((m.erase k).lowerBound (k + 1))))
    | "erai" => let k := nat! (a 1); eraStep k (m.erase k) (some (keyStr ((m.erase k).lowerBound (k + 1))))
    | "esl" => let k := nat! (a 1); eraStep k (m.deleteShift k) none
    | "incr" => (m.shiftUp (nat! (a 1)) (nat! (a 2)), none, (st.tsize, st.trs))
    | "next" => (m, some (keyStr (m.next (nat! (a 1)))), (st.tsize, st.trs))
    | "prev" => (m, some (keyStr (if a 1 == "end" then (m.getLast?.map (fun (p : Nat × Int) => p.1)) else predKey m (nat! (a 1)))), (st.tsize, st.trs))
    | "clear" => ([], none, (0, 0))
    | "bulk" =>
      let rec pairs : List String → SMap
        | k :: v :: t => (nat! k, int! v) :: pairs t
        | _ => []
      let l := pairs (op.drop 1)
      (l, none, (l.length, bulkRs l.length))
    | _ => keep
  let neigh : List (String × Bool × String) := match a 0 with
    | "bis" => [("bisect", judgeKey m ret (nat! (a 1)), s!"key {a 1} returned {ret}")]
    | "bnear" => [("bisect_near", judgeKey m ret (nat! (a 2)), s!"key {a 2} hint {a 1} returned {ret}")]
    | "bin" =>
      let f := nat! (a 1); let l := nat! (a 2)
      [("bisect_in", judgeKey (m.restrict f (l + 1)) ret (nat! (a 3)), s!"range {f}..{l} key {a 3} returned {ret}")]
    | _ => []
  let checks : List (String × Bool × String) :=
    [ ("OK", ok && sok, s!"OK()={ok} structure_OK()={sok}"),
      ("sorted", real.sortedB, showMap real),
      ("contents", real == m', s!"expected [{showMap m'}] got [{showMap real}]"),
      ("size", size == real.length && size == size', s!"size_={size} elements={real.length} expected={size'}"),
      ("reserved", rs == rs', s!"reserved_size={rs} expected={rs'} (size {size})"),
      ("density", densityOK size rs, s!"size={size} reserved_size={rs}"),
      ("return", match expRet with | none => true | some r => r == ret, s!"expected {expRet.getD "-"} got {ret}") ]
    ++ neigh
  verdict id checks
  -- `copy`/`assign`/`erasewhile` show a state that equals the current one; follow the real tree otherwise
  modify fun s => { s with tree := m', tsize := size', trs := rs' }

/-! ### raw arrays and position-level bisection -/

def arrayEvent (id : String) (t : List String) : M Unit := do
  match t with
  | rsS :: s0 :: s1 :: cells =>
    let arr : HoleArray := ⟨(cells.map (fun c => if c == "_" then none else some (nat! c))).toArray⟩
    let keys := arr.usedKeys
    let sortedKeys := (keys.zip (keys.drop 1)).all (fun p => p.1 < p.2)
    let st ← get
    let mut checks : List (String × Bool × String) :=
      [ ("sentinels", s0 == "0" && s1 == "0", s!"{s0} {s1}"),
        ("array-size", arr.rs == nat! rsS, s!"{arr.rs} vs {rsS}"),
        ("array-sorted", sortedKeys, toString keys) ]
    if st.kind == "tree" then
      checks := checks ++ [("array-keys", keys == st.tree.keys, s!"array {keys} map {st.tree.keys}")]
    modify fun s => { s with arr := arr }
    verdict (id ++ ".A") checks
  | _ => bad id "parse" "array line"

def probeEvent (id : String) (t : List String) : M Unit := do
  let st ← get
  let a := st.arr
  match t with
  | ["near", h, k, r] =>
    let h := nat! h; let k := nat! k; let r := nat! r
    let p := a.bisectNear h k
    verdict s!"{id}.near.{h}.{k}"
      [ ("bisect_near-spec", a.judge r k, s!"hint {h} key {k} returned position {r}"),
        ("bisect_near-model", p == r, s!"hint {h} key {k} returned position {r}, model {p}") ]
  | ["in", f, l, k, r] =>
    let f := nat! f; let l := nat! l; let k := nat! k; let r := nat! r
    let p := a.bisectIn f l k
    verdict s!"{id}.in.{f}.{l}.{k}"
      [ ("bisect_in-spec", a.judgeIn f l r k, s!"range {f}..{l} key {k} returned position {r}"),
        ("bisect_in-model", p == r, s!"range {f}..{l} key {k} returned position {r}, model {p}") ]
  | _ => bad id "parse" "probe line"

/-! ### Sparse_Row / Dense_Row events -/

def canonRow (r : SRow) : SRow := ⟨r.size, r.m.canon⟩
def rowEq (x y : SRow) : Bool := x.size == y.size && toDense x == toDense y

/-- compare one state section with the model row `r`; `exact`: also the stored key set -/
def rowSection (r : SRow) (exact : Bool) (sec : List String) : List (String × Bool × String) :=
  match sec with
  | "S" :: _ :: size :: ok :: tok :: kv | "XS" :: _ :: size :: ok :: tok :: kv =>
    let real : SMap := kv.map parseKV
    let tag := sec.headD ""
    let rr : SRow := ⟨nat! size, real⟩
    [ (tag ++ "-OK", ok == "1" && tok == "1" && rr.wfB, s!"Sparse_Row::OK()={ok} CO_Tree::OK()={tok} entries [{showMap real}] size {size}"),
      (tag ++ "-size", nat! size == r.size, s!"size {size} expected {r.size}"),
      (tag ++ "-contents", toDense rr == toDense r, s!"expected [{showMap r.m.canon}] got [{showMap real}]") ]
    ++ (if exact && tag == "S" then [("S-stored", real.keys == r.m.keys, s!"stored keys {real.keys} expected {r.m.keys}")] else [])
  | "D" :: _ :: len :: ok :: vs | "XD" :: _ :: len :: ok :: vs =>
    let tag := sec.headD ""
    let real := vs.map int!
    [ (tag ++ "-OK", ok == "1" && real.length == nat! len, s!"Dense_Row::OK()={ok}"),
      (tag ++ "-contents", real == toDense r, s!"expected [{showList (toDense r)}] got [{showList real}]") ]
  | _ => []

def rowEvent (id : String) (op : List String) (ret : List String) (secs : List (List String)) : M Unit := do
  let st ← get
  let a (i : Nat) : String := op.getD i ""
  let slotA := nat! (a 1)
  let rows := st.rows
  let r := rows.getD slotA default
  let rb := rows.getD (nat! (a 2)) default
  let upd (x : SRow) := rows.setIfInBounds slotA x
  let apply (f : RowOp) := upd (f.sparse r)
  let retS := " ".intercalate ret
  -- (new rows, expected return, stored set exactly predictable?)
  let (rows', expRet, exact) : Array SRow × Option String × Bool := match a 0 with
    | "new" => (upd ⟨nat! (a 2), []⟩, none, true)
    | "set" => (apply (.set (nat! (a 2)) (int! (a 3))), some s!"{a 2} {a 2}", true)
    | "seth" => (apply (.set (nat! (a 3)) (int! (a 4))), some s!"{a 3} {a 3}", true)
    | "ins0" => (apply (.touch (nat! (a 2))), some s!"{a 2} {a 2}", true)
    | "ins0h" => (apply (.touch (nat! (a 3))), some s!"{a 3} {a 3}", true)
    | "idx" => let v := r.m.get (nat! (a 2)); (apply (.touch (nat! (a 2))), some s!"{v} {v}", true)
    | "get" => let v := r.m.get (nat! (a 2)); (rows, some s!"{v} {v} {v}", true)
    | "find" => let k := nat! (a 2); let e := if r.m.stored k then toString k else "end"; (rows, some s!"{e} {e}", true)
    | "findh" => let k := nat! (a 3); let e := if r.m.stored k then toString k else "end"; (rows, some s!"{e} {e}", true)
    | "lb" => let e := keyStr (r.m.lowerBound (nat! (a 2))); (rows, some s!"{e} {e}", true)
    | "lbh" => let e := keyStr (r.m.lowerBound (nat! (a 3))); (rows, some s!"{e} {e}", true)
    | "reset" => (apply (.reset (nat! (a 2))), none, true)
    | "resetit" => let k := nat! (a 2); (apply (.reset k), some (keyStr ((r.m.erase k).lowerBound (k + 1))), true)
    | "resetr" => let lo := nat! (a 2); let hi := nat! (a 3)
                  (apply (.resetRange lo hi), some (keyStr ((r.m.resetRange lo hi).lowerBound lo)), true)
    | "resetafter" => (apply (.resetFrom (nat! (a 2))), none, true)
    | "swapc" => (apply (.swap (nat! (a 2)) (nat! (a 3))), none, true)
    | "swapit" => (apply (.swap (nat! (a 2)) (nat! (a 3))), none, true)
    | "shift" => (apply (.shiftUp (nat! (a 2)) (nat! (a 3))), none, true)
    | "del" => (apply (.deleteShift (nat! (a 2))), none, true)
    | "resize" => (apply (.resize (nat! (a 2))), none, true)
    | "clear" => (upd ⟨r.size, []⟩, none, true)
    | "norm" => (apply .normalize, none, true)
    | "lc" => (apply (.linearCombine rb (int! (a 3)) (int! (a 4)) 0 r.size), none, false)
    | "lcr" => (apply (.linearCombine rb (int! (a 3)) (int! (a 4)) (nat! (a 5)) (nat! (a 6))), none, false)
    | "comb" =>
      let c1 := int! (a 4); let c2 := int! (a 5)
      (match nat! (a 3) with
       | 0 => (apply (.linearCombine rb c1 c2 0 r.size), none, false)
       | 1 => (upd ⟨r.size, r.m.filterMap (fun p => let v := p.2 * rb.m.get p.1; if v = 0 then none else some (p.1, v))⟩, none, false)
       | _ => (apply (.linearCombine rb 1 c2 0 r.size), none, false))
    | "swaprows" => ((rows.setIfInBounds slotA rb).setIfInBounds (nat! (a 2)) r, none, true)
    | "swapmix" => ((rows.setIfInBounds slotA (canonRow rb)).setIfInBounds (nat! (a 2)) (canonRow r), none, true)
    | "copy" => (upd rb, none, true)
    | "conv" => (upd (canonRow rb), none, true)
    | "convsz" => (upd ((RowOp.resize (nat! (a 3))).sparse rb), none, true)
    | "asgsd" => (upd (canonRow rb), none, true)
    | "asgds" => (upd rb, none, true)
    | "asgds_raw" => (upd rb, none, true)
    | "eq" =>
      let e := if rowEq r rb then "1" else "0"; let ne := if rowEq r rb then "0" else "1"
      (rows, some s!"{e} {e} {e} {e} {ne} {ne}", true)
    | _ => (rows, none, true)
  let mut checks : List (String × Bool × String) :=
    [("return", match expRet with | none => true | some e => e == retS, s!"expected {expRet.getD "-"} got {retS}")]
  let mut rowsFinal := rows'
  for sec in secs do
    match sec with
    | tag :: slot :: _ =>
      let k := nat! slot
      let model := rows'.getD k default
      checks := checks ++ rowSection model exact sec
      -- bulk operations: which zeroes stay stored is not part of the contract; follow the library
      if tag == "S" && !exact then
        match sec with
        | _ :: _ :: size :: _ :: _ :: kv =>
          let real : SMap := kv.map parseKV
          let rr : SRow := ⟨nat! size, real⟩
          let sup := model.m.canon.keys.all (fun key => real.keys.contains key)
          let within := real.keys.all (fun key => r.m.keys.contains key || rb.m.keys.contains key)
          checks := checks ++ [("S-stored", sup && within, s!"stored keys {real.keys}")]
          if rr.wfB && toDense rr == toDense model then rowsFinal := rowsFinal.setIfInBounds k rr
        | _ => pure ()
    | _ => pure ()
  verdict id checks
  modify fun s => { s with rows := rowsFinal }

/-! ### Linear_Expression events: the dense list (index 0 = inhomogeneous term) is the specification -/

def growTo (x : List Int) (n : Nat) : List Int := if x.length < n then Dense.resize x n else x

def lin (x y : List Int) (c1 c2 : Int) (s e : Nat) : List Int := Dense.linearCombine x y c1 c2 s e

def signNormalize (x : List Int) : List Int :=
  match (x.drop 1).find? (· ≠ 0) with
  | some v => if v < 0 then x.map (fun a => -a) else x
  | none => x

def removeDims (x : List Int) (vars : List Nat) : List Int :=
  ((List.range x.length).zip x).filterMap (fun p => if p.1 ≥ 1 ∧ vars.contains (p.1 - 1) then none else some p.2)

def permuteCycle (x : List Int) (c : List Nat) : List Int :=
  match c with
  | [] => x
  | [_] => x
  | [a, b] => Dense.swap x a b
  | c0 :: _ =>
    let tmp := x.getD (c.getLast?.getD 0) 0
    Dense.set (Dense.permute x c) c0 tmp

def lastNonzero (x : List Int) (lo hi dflt : Nat) : Nat :=
  ((List.range hi).filter (fun i => lo ≤ i ∧ x.getD i 0 ≠ 0)).getLast?.getD dflt
def firstNonzero (x : List Int) (lo hi : Nat) : Nat :=
  ((List.range hi).filter (fun i => lo ≤ i ∧ x.getD i 0 ≠ 0)).head?.getD hi

def b01 (b : Bool) : String := if b then "1" else "0"

def exprSection (x : List Int) (sec : List String) : List (String × Bool × String) :=
  match sec with
  | "ED" :: _ :: dim :: ok :: _ :: vs | "ES" :: _ :: dim :: ok :: _ :: vs =>
    let tag := sec.headD ""
    let real := vs.map int!
    [ (tag ++ "-OK", ok == "1" && nat! dim + 1 == real.length, s!"OK()={ok}"),
      (tag ++ "-contents", real == x, s!"expected [{showList x}] got [{showList real}]") ]
  | "ID" :: _ :: kv | "IS" :: _ :: kv =>
    let tag := sec.headD ""
    let exp := ((List.range x.length).zip x).filterMap
      (fun p => if p.1 ≥ 1 ∧ p.2 ≠ 0 then some s!"{p.1 - 1}:{p.2}" else none)
    [ (tag ++ "-iteration", kv == exp, s!"expected [{" ".intercalate exp}] got [{" ".intercalate kv}]") ]
  | "Q" :: _ :: fl =>
    [ ("cross-equal", fl == ["1", "1", "0", "0"], s!"is_equal_to(d,s) is_equal_to(s,d) compare(d,s) compare(s,d) = {" ".intercalate fl}") ]
  | _ => []

def exprEvent (id : String) (op : List String) (ret : List String) (secs : List (List String)) : M Unit := do
  let st ← get
  let a (i : Nat) : String := op.getD i ""
  let slotA := nat! (a 1)
  let es := st.exprs
  let x := es.getD slotA [0]
  let dim := x.length - 1
  let upd (v : List Int) := es.setIfInBounds slotA v
  let yOf (i : Nat) := es.getD (nat! (a i)) [0]
  let comb (y : List Int) (c1 c2 : Int) := lin (growTo x y.length) y c1 c2 0 y.length
  let retS := " ".intercalate ret
  let (es', expRet) : Array (List Int) × Option String := match a 0 with
    | "new" => (upd (List.replicate (nat! (a 2) + 1) 0), none)
    | "setc" => (upd (Dense.set x (nat! (a 2) + 1) (int! (a 3))), none)
    | "seti" => (upd (Dense.set x 0 (int! (a 2))), none)
    | "setdim" => (upd (Dense.resize x (nat! (a 2) + 1)), none)
    | "add" => (upd (comb (yOf 2) 1 1), none)
    | "sub" => (upd (comb (yOf 2) 1 (-1)), none)
    | "mul" => (upd (x.map (int! (a 2) * ·)), none)
    | "div" => (upd (x.map (fun v => Int.tdiv v (int! (a 2)))), none)
    | "neg" => (upd (x.map (fun v => -v)), none)
    | "addv" => let v := nat! (a 2); (upd (Dense.addAt (growTo x (v + 2)) (v + 1) 1), none)
    | "subv" => let v := nat! (a 2); (upd (Dense.addAt (growTo x (v + 2)) (v + 1) (-1)), none)
    | "addn" => (upd (Dense.addAt x 0 (int! (a 2))), none)
    | "subn" => (upd (Dense.addAt x 0 (-(int! (a 2)))), none)
    | "addmulv" => let v := nat! (a 3); (upd (Dense.addAt (growTo x (v + 2)) (v + 1) (int! (a 2))), none)
    | "submulv" => let v := nat! (a 3); (upd (Dense.addAt (growTo x (v + 2)) (v + 1) (-(int! (a 2)))), none)
    | "addmul" => let f := int! (a 2); (upd (if f = 0 then x else comb (yOf 3) 1 f), none)
    | "submul" => let f := int! (a 2); (upd (if f = 0 then x else comb (yOf 3) 1 (-f)), none)
    | "lc3" => (upd (comb (yOf 2) (int! (a 3)) (int! (a 4))), none)
    | "lclax" => (upd (comb (yOf 2) (int! (a 3)) (int! (a 4))), none)
    | "lcv" =>
      let y := yOf 2; let i := nat! (a 3) + 1
      let xi := x.getD i 0; let yi := y.getD i 0
      let g : Int := (Int.gcd xi yi : Nat)
      (upd (if g = 0 then x else lin x y (yi / g) (-(xi / g)) 0 y.length), none)
    | "lcr" => (upd (lin x (yOf 2) (int! (a 3)) (int! (a 4)) (nat! (a 5)) (nat! (a 6))), none)
    | "lclaxr" => (upd (lin x (yOf 2) (int! (a 3)) (int! (a 4)) (nat! (a 5)) (nat! (a 6))), none)
    | "swapd" => (upd (Dense.swap x (nat! (a 2) + 1) (nat! (a 3) + 1)), none)
    | "rmd" => (upd (removeDims x ((op.drop 2).map nat!)), none)
    | "shiftd" => (upd (Dense.shiftUp x (nat! (a 2) + 1) (nat! (a 3))), none)
    | "perm" => (upd (permuteCycle x ((op.drop 2).map (fun t => nat! t + 1))), none)
    | "norm" => (upd (Dense.normalize x), none)
    | "signnorm" => (upd (signNormalize x), none)
    | "mulr" => (upd (Dense.mapIn (int! (a 2) * ·) (nat! (a 3)) (nat! (a 4)) x), none)
    | "negr" => (upd (Dense.mapIn (fun v => -v) (nat! (a 2)) (nat! (a 3)) x), none)
    | "exdivg" =>
      let s := nat! (a 2); let e := nat! (a 3)
      let g : Int := (Dense.gcdBwd (Dense.slice x s e) : Nat)
      (upd (if g = 0 then x else Dense.mapIn (· / g) s e x), some s!"{g} {g}")
    | "copyrep" => (upd (yOf 2), none)
    | "ctor3" => (upd (Dense.resize (yOf 2) (nat! (a 3) + 1)), none)
    | "q" =>
      let s := nat! (a 2); let e := nat! (a 3)
      let sl := Dense.slice x s e
      let one := " ".intercalate [b01 (x.all (· == 0)), b01 ((x.drop 1).all (· == 0)), toString (Dense.gcdBwd sl),
        toString (lastNonzero x 0 x.length 0), toString (lastNonzero x s e e), toString (firstNonzero x s e),
        toString (sl.filter (· == 0)).length, b01 (sl.all (· == 0))]
      (es, some s!"{one} ; {one}")
    | "q2" =>
      let y := yOf 2; let s := nat! (a 3); let e := nat! (a 4); let c1 := int! (a 5); let c2 := int! (a 6)
      let common := (List.range e).any (fun i => s ≤ i ∧ x.getD i 0 ≠ 0 ∧ y.getD i 0 ≠ 0)
      let one := " ".intercalate [toString (Dense.compare x y), b01 (x == y), toString (Dense.dot x y s e),
        b01 (Dense.eqIn x y s e), b01 (Dense.eqScaledIn x y c1 c2 s e),
        (if s ≥ 1 ∧ e ≥ 1 then b01 common else "-"),
        (if dim + 1 ≤ y.length then toString (Dense.dot x y 0 x.length) else "-")]
      (es, some s!"{one} ; {one} ; {one} ; {one}")
    | _ => (es, none)
  let mut checks : List (String × Bool × String) :=
    [("return", match expRet with | none => true | some e => e == retS, s!"expected {expRet.getD "-"} got {retS}")]
  if a 0 == "mk" then
    -- Constraint / Generator / Congruence (+ systems): the dense and the sparse object must print alike
    let parts := retS.splitOn " ; "
    checks := checks ++ [("dense-vs-sparse", parts.length == 2 && parts.getD 0 "" == parts.getD 1 "x",
      s!"dense [{parts.getD 0 ""}] sparse [{parts.getD 1 ""}]")]
    let okFlags := (toks retS).filter (fun t => t.startsWith "sys" || t.startsWith "eqv" || t.startsWith "eq")
    checks := checks ++ [("object-OK", okFlags.all (fun t => t.endsWith "1"), " ".intercalate okFlags)]
  if secs.any (fun s => s.contains "BACKWARD-DIFFERS") then
    checks := checks ++ [("iteration-backward", false, "forward and backward iteration disagree")]
  for sec in secs do
    match sec with
    | _ :: slot :: _ => checks := checks ++ exprSection (es'.getD (nat! slot) [0]) sec
    | _ => pure ()
  verdict id checks
  modify fun s => { s with exprs := es' }

def handle (line : String) : M Unit := do
  let secs := sections line.trimAscii.toString
  match secs with
  | [] => pure ()
  | hd :: rest =>
    match hd with
    | "H" :: _ :: kind :: _ =>
      modify fun s => { ({} : St) with kind := kind, nOk := s.nOk, nBad := s.nBad }
    | "E" :: _ => pure ()
    | "end" :: _ => pure ()
    | "P" :: id :: op =>
      modify fun s => { s with pending := id ++ " " ++ " ".intercalate op }
    | "crash" :: sig =>
      let st ← get
      -- the operation that was running is the last one announced by a `P` line
      bad ((st.pending.splitOn " ").headD st.lastId) "crash" (" ".intercalate sig ++ " during: " ++ st.pending)
    | "T" :: id :: op =>
      modify fun s => { s with lastId := id }
      treeEvent id op (rest.getD 0 []) (rest.getD 1 [])
    | "A" :: id :: t => arrayEvent id t
    | "B" :: id :: t => probeEvent id t
    | "R" :: id :: op =>
      modify fun s => { s with lastId := id }
      rowEvent id op (rest.getD 0 []) (rest.drop 1)
    | "X" :: id :: op =>
      modify fun s => { s with lastId := id }
      -- the return section may itself contain " ; " separated groups, keep it as one token list
      exprEvent id op (rest.getD 0 []) (rest.drop 1)
    | _ => pure ()

partial def loop (h : IO.FS.Stream) : M Unit := do
  let line ← h.getLine
  if line.isEmpty then return
  handle line
  loop h

end C16Driver

def main (_args : List String) : IO UInt32 := do
  let stdin ← IO.getStdin
  let (_, st) ← (C16Driver.loop stdin).run {}
  IO.println s!"summary ok={st.nOk} mismatch={st.nBad}"
  return 0
