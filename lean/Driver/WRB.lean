import PPLV.WR.BoxTrans2
/-!
native driver `pplv_wrb` — C03 stage 4, the transformers of `Box<ITV>`.

stdin: the journal of `harness/c03_box.cc`, one event per line

    <id> <ty> <op> <box> <args...> => <result>

(see the header of the harness for the encodings).  Per event:

  (a) `model`  : the code-shaped model `PPLV/WR/BoxTrans*.lean`, run with the policy and the directed
                 roundings of the instantiation (`Q` exact, `Z` floor/ceil, `I` int8 boundaries with
                 `long long` temporaries, `D` binary64 simulated exactly), returns the IDENTICAL result:
                 status bits, every bound, every open flag, the thrown/not thrown outcome;
  (b) `judge`  : independent of the model, on the REAL result: sampled members of the box before
                 (end points, interior points, points moved onto the hyperplane of a constraint, points
                 of the exact image / preimage) that the exact operator keeps must be members of the box
                 after, and a box reported or marked empty has no such member.

Output: `ok <id> <op> <branch>` | `MISMATCH <id> model <op> got=… want=…` | `JUDGE-FAIL <id> <op> <point>` |
`CRASH <id> <op>` (a journal line without result).
-/
open PPLV.Interval
open PPLV.Interval.ExtRat (ninf fin pinf)
open PPLV.WR.BoxT

namespace WRBDriver

def parseRat (s : String) : Option Rat :=
  match s.splitOn "/" with
  | [n] => n.toInt?.map (fun i => (i : Rat))
  | [n, d] => do
    let n ← n.toInt?
    let d ← d.toNat?
    if d == 0 then none else some (mkRat n d)
  | _ => none

def parseExt (s : String) : Option ExtRat :=
  if s == "-inf" then some ninf
  else if s == "+inf" then some pinf
  else (parseRat s).map fin

def showRat (q : Rat) : String :=
  if q.den == 1 then toString q.num else toString q.num ++ "/" ++ toString q.den

def showExt : ExtRat → String
  | ninf => "-inf"
  | pinf => "+inf"
  | fin q => showRat q

structure Ty where
  name : String
  cfg : Cfg

def tyOf (s : String) : Option Ty :=
  if s == "Q" then some ⟨"Q", Cfg.mpq⟩
  else if s == "Z" then some ⟨"Z", Cfg.mpz⟩
  else if s == "I" then some ⟨"I", Cfg.int8⟩
  else if s == "D" then some ⟨"D", Cfg.dbl⟩
  else none

/-- an interval as the harness prints it: reported openness, `±inf` for `is_boundary_infinity` -/
def showIv (p : Policy) (x : Iv) : String :=
  (if isOpen p .lower x.lo then "(" else "[")
    ++ (if isBoundaryInfinity p .lower x.lo then "-inf" else showExt x.lo.value) ++ ","
    ++ (if isBoundaryInfinity p .upper x.hi then "+inf" else showExt x.hi.value)
    ++ (if isOpen p .upper x.hi then ")" else "]")

def parseIv (p : Policy) (s : String) : Option Iv :=
  match s.toList with
  | [] => none
  | c0 :: rest =>
    match rest.reverse with
    | [] => none
    | cl :: midr =>
      let mid := String.ofList midr.reverse
      if (c0 != '(' && c0 != '[') || (cl != ')' && cl != ']') then none
      else match mid.splitOn "," with
        | [a, b] => do
          let l ← parseExt a
          let u ← parseExt b
          -- reported openness -> stored bit
          some ⟨⟨l, p.storeOpen && c0 == '('⟩, ⟨u, p.storeOpen && cl == ')'⟩⟩
        | _ => none

def showBox (p : Policy) (b : Box) : String :=
  toString b.seq.length ++ ":" ++ (if b.utd then "1" else "0") ++ (if b.empty then "1" else "0") ++ ":"
    ++ (if b.seq.isEmpty then "-" else ";".intercalate (b.seq.map (showIv p)))

def parseBox (p : Policy) (s : String) : Option Box :=
  match s.splitOn ":" with
  | [n, st, ivs] => do
    let n ← n.toNat?
    let utd := st.toList.getD 0 '0' == '1'
    let em := st.toList.getD 1 '0' == '1'
    let seq ← if n == 0 then some [] else (ivs.splitOn ";").mapM (parseIv p)
    if seq.length != n then none else some ⟨seq, em, utd⟩
  | _ => none

def parseExpr (s : String) : Option LinExpr :=
  match s.splitOn "|" with
  | [cs, b] => do
    let b ← b.toInt?
    let cs ← if cs.isEmpty then some [] else (cs.splitOn ",").mapM (fun t => t.toInt?)
    some ⟨cs, b⟩
  | _ => none

def parseCon (s : String) : Option Con :=
  match s.splitOn ":" with
  | [ty, e] => do
    let e ← parseExpr e
    let ty ← if ty == "eq" then some CType.eq else if ty == "ge" then some CType.ge else if ty == "gt" then some CType.gt else none
    some ⟨e, ty⟩
  | _ => none

def parseRel (s : String) : Option Rel :=
  if s == "eq" then some .eq else if s == "lt" then some .lt else if s == "le" then some .le
  else if s == "gt" then some .gt else if s == "ge" then some .ge else none

/-! ## decidable membership and the exact semantics used by the judge -/

def lowerOkB (p : Policy) (b : Bound) (a : Rat) : Bool :=
  match b.value with
  | ninf => true
  | fin q => if getOpen p b then q < a else q ≤ a
  | pinf => false

def upperOkB (p : Policy) (b : Bound) (a : Rat) : Bool :=
  match b.value with
  | pinf => true
  | fin q => if getOpen p b then a < q else a ≤ q
  | ninf => false

def memIv (p : Policy) (I : Iv) (a : Rat) : Bool := lowerOkB p I.lo a && upperOkB p I.hi a

abbrev Pt := List Rat

def ptFn (x : Pt) : Nat → Rat := fun k => x.getD k 0
def ptUpd (x : Pt) (v : Nat) (y : Rat) : Pt := x.set v y

def memBox (p : Policy) (b : Box) (x : Pt) : Bool :=
  !b.markedEmpty && (List.range b.seq.length).all (fun k => memIv p (b.get k) (x.getD k 0))

def evalE (e : LinExpr) (x : Pt) : Rat := e.eval (ptFn x)

def holdsB (c : Con) (x : Pt) : Bool :=
  let v := evalE c.e x
  match c.ty with
  | .eq => v == 0
  | .ge => 0 ≤ v
  | .gt => 0 < v

def relB (r : Rel) (a b : Rat) : Bool :=
  match r with
  | .eq => a == b | .lt => a < b | .le => a ≤ b | .gt => a > b | .ge => a ≥ b | .ne => a != b

/-- a few members of an interval -/
def samplesIv (p : Policy) (I : Iv) : List Rat :=
  let cand : List Rat :=
    match I.lo.value, I.hi.value with
    | fin l, fin u => [l, u, (l + u) / 2, l + (u - l) / 8, u - (u - l) / 16]
    | fin l, _ => [l, l + 1 / 3, l + 1, l + 1000, l + 18014398509481985]
    | _, fin u => [u, u - 1 / 3, u - 1, u - 1000, u - 18014398509481985]
    | _, _ => [0, 1, -1, 5 / 2, -1000, 18014398509481985]
  (cand.filter (memIv p I)).eraseDups

def samplesBox (p : Policy) (b : Box) : List Pt :=
  if b.markedEmpty then []
  else
    let per := b.seq.map (samplesIv p)
    if per.any (fun l => l.isEmpty) then []
    else
      ((List.range 10).map fun j =>
        (List.range per.length).map fun k =>
          let l := per.getD k []
          l.getD ((j * (k + 1) + j / 3 + k) % l.length) 0).eraseDups

/-- move the point onto (and next to) the level set `e = t` along each variable of `e` -/
def onLevel (e : LinExpr) (t : Rat) (x : Pt) : List Pt :=
  e.terms.flatMap fun (k, a) =>
    let rest := evalE e x - (a : Rat) * x.getD k 0
    let s := (t - rest) / (a : Rat)
    [ptUpd x k s, ptUpd x k (s + 1 / 1024), ptUpd x k (s - 1 / 1024), ptUpd x k (s + 1), ptUpd x k (s - 1)]

def onHyperplane (c : Con) (x : Pt) : List Pt := onLevel c.e 0 x

def varsOf (e : LinExpr) : List Nat := e.terms.map (·.1)

/-- all ways of giving the listed variables values from `vals` (capped) -/
def assignments (x : Pt) (vars : List Nat) (vals : List Rat) : List Pt :=
  (vars.foldl (fun acc v => (acc.flatMap fun y => vals.map fun w => ptUpd y v w).take 64) [x])

structure Ev where
  ty : Ty
  op : String
  box : Box
  args : List String

/-- the points that the exact operator puts into the result (sampled) -/
def expected (ev : Ev) : Option (List Pt) := do
  let p := ev.ty.cfg.p
  let b := ev.box
  let xs := samplesBox p b
  let a := ev.args
  let op := ev.op
  let consOf (ts : List String) : Option (List Con) := ts.mapM parseCon
  if op == "addc" || op == "refine" || op == "prop" || op == "refs" || op == "props" then
    let cs ← consOf (if op == "refs" then a.drop 1 else if op == "props" then a.drop 2 else a)
    let cand := xs ++ xs.flatMap (fun x => cs.flatMap (fun c => onHyperplane c x))
    some (cand.filter fun x => memBox p b x && cs.all (fun c => holdsB c x))
  else if op == "aff" then
    let v ← (a.getD 0 "").toNat?
    let e ← parseExpr (a.getD 1 "")
    let d ← (a.getD 2 "").toInt?
    some (xs.map fun x => ptUpd x v (evalE e x / (d : Rat)))
  else if op == "gaff" then
    let v ← (a.getD 0 "").toNat?
    let r ← parseRel (a.getD 1 "")
    let e ← parseExpr (a.getD 2 "")
    let d ← (a.getD 3 "").toInt?
    some (xs.flatMap fun x =>
      let t := evalE e x / (d : Rat)
      ([t, t + 1, t - 1, t + 1 / 7, t - 1 / 7, t + 1000, t - 1000].filter (fun y => relB r y t)).map fun y => ptUpd x v y)
  else if op == "baff" then
    let v ← (a.getD 0 "").toNat?
    let lb ← parseExpr (a.getD 1 "")
    let ub ← parseExpr (a.getD 2 "")
    let d ← (a.getD 3 "").toInt?
    some (xs.flatMap fun x =>
      let l := evalE lb x / (d : Rat)
      let u := evalE ub x / (d : Rat)
      if l ≤ u then [ptUpd x v l, ptUpd x v u, ptUpd x v ((l + u) / 2)] else [])
  else if op == "bapre" then
    let v ← (a.getD 0 "").toNat?
    let lb ← parseExpr (a.getD 1 "")
    let ub ← parseExpr (a.getD 2 "")
    let d ← (a.getD 3 "").toInt?
    -- z = a point of the box (the image), x = a source: differs in coordinate v, lb(x)/d <= z_v <= ub(x)/d
    some (xs.flatMap fun z =>
      let y := z.getD v 0
      let sols (e : LinExpr) : List Rat :=
        let ev := e.coeff v
        if ev != 0 then
          let rest := evalE e z - (ev : Rat) * y
          let s := ((d : Rat) * y - rest) / (ev : Rat); [s, s + 1, s - 1, s + 1 / 9, s - 1 / 9] else []
      let ws : List Rat := [y, 0, 1, -3, 10] ++ sols lb ++ sols ub
      (ws.map fun w => ptUpd z v w).filter fun x =>
        evalE lb x / (d : Rat) ≤ y && y ≤ evalE ub x / (d : Rat))
  else if op == "apre" || op == "gapre" then
    let v ← (a.getD 0 "").toNat?
    let r ← if op == "apre" then some Rel.eq else parseRel (a.getD 1 "")
    let e ← parseExpr (a.getD (if op == "apre" then 1 else 2) "")
    let d ← (a.getD (if op == "apre" then 2 else 3) "").toInt?
    let ev := e.coeff v
    -- z = a point of the box (the image), x = a candidate source differing in coordinate v
    some (xs.flatMap fun z =>
      let y := z.getD v 0
      let rest := evalE e z - (ev : Rat) * y
      let sol : List Rat := if ev != 0 then
        let s := ((d : Rat) * y - rest) / (ev : Rat); [s, s + 1, s - 1, s + 1 / 9, s - 1 / 9] else []
      let ws : List Rat := [y, 0, 1, -3, 10] ++ sol
      (ws.map fun w => ptUpd z v w).filter fun x => relB r y (evalE e x / (d : Rat)))
  else if op == "gaffl" then
    let lhs ← parseExpr (a.getD 0 "")
    let r ← parseRel (a.getD 1 "")
    let rhs ← parseExpr (a.getD 2 "")
    some (xs.flatMap fun x =>
      let t := evalE rhs x
      let sol : List Rat := match lhs.terms with
        | [(_, c)] => let s := (t - (lhs.inhom : Rat)) / (c : Rat); [s, s + 1, s - 1, s + 1 / 5, s - 1 / 5]
        | _ => []
      let ys := assignments x (varsOf lhs) ([0, 4, -6, 1 / 2] ++ sol)
      (x :: ys).filter fun y => relB r (evalE lhs y) t)
  else if op == "gaprel" then
    let lhs ← parseExpr (a.getD 0 "")
    let r ← parseRel (a.getD 1 "")
    let rhs ← parseExpr (a.getD 2 "")
    some (xs.flatMap fun y =>
      let t := evalE lhs y
      let cands := y :: assignments y (varsOf lhs) [0, 4, -6, 1 / 2, 25]
      let cands := cands ++ cands.flatMap (fun x => (onLevel rhs t x).filter
        (fun x' => (List.range x'.length).all fun k => lhs.coeff k != 0 || x'.getD k 0 == y.getD k 0))
      cands.filter fun x => relB r t (evalE rhs x))
  else if op == "unc" then
    let v ← (a.getD 0 "").toNat?
    some (xs.flatMap fun x => [x, ptUpd x v 0, ptUpd x v 1000, ptUpd x v (-77 / 3)])
  else if op == "uncs" then
    let vs ← (a.drop 1).mapM (fun s => s.toNat?)
    some (xs.flatMap fun x => x :: assignments x vs [0, 1000, -77 / 3])
  else if op == "isempty" then some xs
  else if op == "meet" || op == "join" || op == "diff" then
    let y ← parseBox p (a.getD 0 "")
    let all := xs ++ samplesBox p y
    if op == "meet" then some (all.filter fun x => memBox p b x && memBox p y x)
    else if op == "join" then some (all.filter fun x => memBox p b x || memBox p y x)
    else some (all.filter fun x => memBox p b x && !memBox p y x)
  else if op == "concat" then
    let y ← parseBox p (a.getD 0 "")
    some (xs.flatMap fun x => (samplesBox p y).map fun z => x ++ z)
  else if op == "rmhi" then
    let nd ← (a.getD 0 "").toNat?
    some (xs.map fun x => x.take nd)
  else none

/-! ## the model -/

inductive Out where
  | box (b : Box)
  | boolBox (r : Bool) (b : Box)
  | throws
  | dies

def Out.show (p : Policy) : Out → String
  | .box b => showBox p b
  | .boolBox r b => (if r then "T " else "F ") ++ showBox p b
  | .throws => "X"
  | .dies => "CRASH"

def runModel (ev : Ev) : Option Out := do
  let cfg := ev.ty.cfg
  let b := ev.box
  let a := ev.args
  let op := ev.op
  if op == "addc" then
    let c ← parseCon (a.getD 0 "")
    match addConstraintNoCheck cfg b c with
    | some b' => some (.box b')
    | none => some .throws
  else if op == "refine" then
    let c ← parseCon (a.getD 0 "")
    some (.box (refineWithConstraint cfg b c))
  else if op == "refs" then
    let cs ← (a.drop 1).mapM parseCon
    some (.box (refineWithConstraints cfg b cs))
  else if op == "prop" then
    let c ← parseCon (a.getD 0 "")
    some (.box (propagateConstraint cfg b c))
  else if op == "props" then
    let mi ← (a.getD 0 "").toNat?
    let cs ← (a.drop 2).mapM parseCon
    some (.box (propagateConstraints cfg (mi + 1) b cs mi))
  else if op == "aff" || op == "apre" then
    let v ← (a.getD 0 "").toNat?
    let e ← parseExpr (a.getD 1 "")
    let d ← (a.getD 2 "").toInt?
    some (.box (if op == "aff" then affineImage cfg b v e d else affinePreimage cfg b v e d))
  else if op == "gaff" || op == "gapre" then
    let v ← (a.getD 0 "").toNat?
    let r ← parseRel (a.getD 1 "")
    let e ← parseExpr (a.getD 2 "")
    let d ← (a.getD 3 "").toInt?
    some (.box (if op == "gaff" then generalizedAffineImage cfg b v r e d else generalizedAffinePreimage cfg b v r e d))
  else if op == "gaffl" || op == "gaprel" then
    let lhs ← parseExpr (a.getD 0 "")
    let r ← parseRel (a.getD 1 "")
    let rhs ← parseExpr (a.getD 2 "")
    some (.box (if op == "gaffl" then generalizedAffineImageLhs cfg b lhs r rhs else generalizedAffinePreimageLhs cfg b lhs r rhs))
  else if op == "baff" then
    let v ← (a.getD 0 "").toNat?
    let lb ← parseExpr (a.getD 1 "")
    let ub ← parseExpr (a.getD 2 "")
    let d ← (a.getD 3 "").toInt?
    some (.box (boundedAffineImage cfg b v lb ub d))
  else if op == "bapre" then
    let v ← (a.getD 0 "").toNat?
    let lb ← parseExpr (a.getD 1 "")
    let ub ← parseExpr (a.getD 2 "")
    let d ← (a.getD 3 "").toInt?
    match boundedAffinePreimage cfg b v lb ub d with
    | some b' => some (.box b')
    | none => some .dies
  else if op == "unc" then
    let v ← (a.getD 0 "").toNat?
    some (.box (unconstrain cfg b v))
  else if op == "uncs" then
    let vs ← (a.drop 1).mapM (fun s => s.toNat?)
    some (.box (unconstrainSet cfg b vs))
  else if op == "isempty" then
    let (r, b') := b.isEmptyQ cfg.p
    some (.boolBox r b')
  else if op == "meet" || op == "join" || op == "diff" then
    let y ← parseBox cfg.p (a.getD 0 "")
    some (.box (if op == "meet" then intersectionAssign cfg b y else if op == "join" then upperBoundAssign cfg b y
      else PPLV.WR.BoxT.differenceAssign cfg b y))
  else if op == "concat" then
    let y ← parseBox cfg.p (a.getD 0 "")
    some (.box (concatenateAssign b y))
  else if op == "rmhi" then
    let nd ← (a.getD 0 "").toNat?
    some (.box (removeHigherSpaceDimensions cfg b nd))
  else none

/-- the branch of the C++ that the event takes (coverage) -/
def branchOf (ev : Ev) : String :=
  let b := ev.box
  let st := if b.markedEmpty then "marked" else if b.seq.any (fun I => isEmpty ev.ty.cfg.p I) then "undetected" else if b.utd then "nonempty" else "unknown"
  let a := ev.args
  let conKind (s : String) : String := match parseCon s with
    | some c => (match extractIntervalConstraint c with | none => "prop" ++ toString c.e.terms.length | some none => "triv" | some (some _) => "itv")
        ++ (match c.ty with | .eq => "=" | .ge => ">=" | .gt => ">")
    | none => "?"
  let extra :=
    if ev.op == "addc" || ev.op == "refine" || ev.op == "prop" then conKind (a.getD 0 "")
    else if ev.op == "apre" || ev.op == "gapre" then
      match (a.getD 0 "").toNat?, parseExpr (a.getD (if ev.op == "apre" then 1 else 2) "") with
      | some v, some e => (if e.coeff v != 0 then "inv" else "noninv") ++ (if ev.op == "gapre" then "." ++ a.getD 1 "" else "")
      | _, _ => "?"
    else if ev.op == "gaff" then a.getD 1 ""
    else if ev.op == "gaffl" || ev.op == "gaprel" then
      match parseExpr (a.getD 0 "") with
      | some l => "lhs" ++ toString (min l.terms.length 3) ++ "." ++ a.getD 1 ""
      | none => "?"
    else if ev.op == "bapre" then
      match (a.getD 0 "").toNat?, parseExpr (a.getD 1 ""), parseExpr (a.getD 2 "") with
      | some v, some l, some u => (if l.coeff v == 0 then "lb0" else "lb1") ++ (if u.coeff v == 0 then "ub0" else "ub1")
          ++ (if l.coeff v == u.coeff v then ".same" else ".diff") ++ (if isUniverseIv ev.ty.cfg.p (b.get v) then ".univ" else "")
      | _, _, _ => "?"
    else if ev.op == "baff" then
      match (a.getD 0 "").toNat?, parseExpr (a.getD 1 ""), parseExpr (a.getD 2 "") with
      | some v, some l, some u => (if l.coeff v == 0 then "lb0" else if u.coeff v == 0 then "ub0" else "both")
      | _, _, _ => "?"
    else "-"
  st ++ "/" ++ extra

def showPt (x : Pt) : String := "(" ++ ",".intercalate (x.map showRat) ++ ")"

def processLine (noJudge : Bool) (line : String) : List String :=
  let toks := (line.trimAscii.toString.splitOn " ").filter (· != "")
  match toks with
  | [] => []
  | ["end"] => []
  | "crash" :: rest => ["CRASHLINE " ++ " ".intercalate rest]
  | id :: tys :: op :: boxs :: rest =>
    let args := rest.takeWhile (· != "=>")
    let res := (rest.dropWhile (· != "=>")).drop 1
    match tyOf tys with
    | none => [s!"MISMATCH {id} parse type"]
    | some ty =>
      match parseBox ty.cfg.p boxs with
      | none => [s!"MISMATCH {id} parse box"]
      | some box =>
        let ev : Ev := ⟨ty, op, box, args⟩
        if res.isEmpty then [s!"CRASH {id} {op} {branchOf ev}"]
        else
          let want := " ".intercalate res
          let wantS := if want.startsWith "X:" then "X" else if want.startsWith "CRASH:" then "CRASH" else want
          if wantS == "CRASH" then
            let predicted := match runModel ev with | some .dies => "predicted" | _ => "unpredicted"
            [s!"CRASH {id} {op} {branchOf ev} {predicted} {want}"]
          else
          let p := ty.cfg.p
          -- (b) judge on the real output
          let jl : List String :=
            if noJudge || wantS == "X" then []
            else
              let afterS := if op == "isempty" then res.getD 1 "" else res.getD 0 ""
              match parseBox p afterS, expected ev with
              | some after, some pts =>
                let bad := pts.filter fun x => !memBox p after x
                let emptyClaim := op == "isempty" && res.getD 0 "" == "T" && !pts.isEmpty
                match bad with
                | x :: _ => [s!"JUDGE-FAIL {id} {op} {branchOf ev} point {showPt x} of the exact result is not in the result (checked {pts.length})"]
                | [] => if emptyClaim then [s!"JUDGE-FAIL {id} {op} {branchOf ev} is_empty() answered true, member {showPt (pts.getD 0 [])}"] else []
              | _, _ => [s!"MISMATCH {id} parse result-or-args {op}"]
          -- (a) the model
          match runModel ev with
          | none => s!"MISMATCH {id} parse args {op}" :: jl
          | some out =>
            let got := out.show p
            let npts := match expected ev with | some l => l.length | none => 0
            if got == wantS then s!"ok {id} {op} {branchOf ev} {npts}" :: jl
            else s!"MISMATCH {id} model {op} {branchOf ev} got={got} want={wantS}" :: jl
  | id :: _ => [s!"MISMATCH {id} parse -"]

partial def loop (noJudge : Bool) (h : IO.FS.Stream) (out : IO.FS.Stream) : IO Unit := do
  let line ← h.getLine
  if line.isEmpty then return
  for s in processLine noJudge line do
    out.putStrLn s
  loop noJudge h out

end WRBDriver

def main (args : List String) : IO UInt32 := do
  let stdin ← IO.getStdin
  let stdout ← IO.getStdout
  WRBDriver.loop (args.contains "nojudge") stdin stdout
  return 0
