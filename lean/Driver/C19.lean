import PPLV.Watchdog.Model

/-! `pplv_c19`: replays a C19 journal (written by `harness/c19_watchdog.cc`) on the model of
`PPLV/Watchdog/Model.lean`, compares the observable trace (handler firings with their times,
timer system calls with their values, exceptions) with the one of the real library, and judges
the clauses of C19 on the REAL trace.  One verdict line per case:

    ok <case>
    MISMATCH <case> trace <first difference>
    MISMATCH <case> <clause> <detail> tags=<t1,t2,…>

`--trace` also prints the model's event log of every case (`# …` lines). -/
open PPLV.Watchdog

def tokInt (s : String) : Int := s.toInt?.getD 0
def tokNat (s : String) : Nat := s.toNat?.getD 0

structure Fired where
  id : Nat
  t : Int
  crit : Int        -- time passed inside public operations so far
  defer : Nat       -- deferred signals so far
  eqT : Bool        -- the two variants of `operator==` have disagreed in the current clock epoch
  defT : Bool       -- a signal has been deferred by `reschedule()` in the current clock epoch
deriving Inhabited

structure Birth where
  id : Nat
  tCall : Int
  cs : Int
  crit : Int
  defer : Nat
  tRet : Option Int := none      -- constructor returned normally at
deriving Inhabited

structure Death where
  id : Nat
  tCall : Int
  crit : Int
  defer : Nat
  eqT : Bool
  defT : Bool
  returned : Bool := false
deriving Inhabited

structure Case where
  name : String := ""
  kind : String := ""
  active : Bool := false
  σ : St := {}
  steps : Array Step := #[]
  real : Array String := #[]
  now : Int := 0
  inCall : Option (Bool × Nat) := none      -- (isCreate, id)
  crit : Int := 0
  defer : Nat := 0
  eqT : Bool := false
  defT : Bool := false
  nEqHit : Nat := 0
  negAccepted : Bool := false               -- a constructor did not reject a negative delay
  births : Array Birth := #[]
  deaths : Array Death := #[]
  fired : Array Fired := #[]
  bad : Array String := #[]                 -- clause failures found while reading (not-after-destroy)

structure WCase where
  name : String := ""
  active : Bool := false
  σ : WSt := {}
  real : Array String := #[]
  gW : Nat := 0                              -- unbounded weight
  alive : Array (Nat × Nat) := #[]          -- id, unbounded threshold (constructed, not fired, not destroyed)
  pendingCheck : Option (Array Nat) := none -- ids that must fire at the check in progress
  firedNow : Array Nat := #[]
  lapped : Bool := false
  bad : Array String := #[]
  lastCreate : Option (Nat × Nat) := none   -- id, delta

structure D where
  eqBug : Bool := true
  trace : Bool := false
  c : Case := {}
  w : WCase := {}
  nOk : Nat := 0
  nBad : Nat := 0

abbrev M := StateT D IO

def stKey (σ : St) : List Ev × Time × Time × Int × PC × List Event × Bool :=
  (σ.pending, σ.tsf, σ.ltr, σ.remaining, σ.pc, σ.log, σ.running)

/-- one model step, recorded; notes whether the two variants of `operator==` disagree here -/
def mexec (s : Step) : M Unit := modify fun d =>
  let σt := exec true d.c.σ s
  let σf := exec false d.c.σ s
  let hit := stKey σt != stKey σf
  { d with c := { d.c with σ := if d.eqBug then σt else σf, steps := d.c.steps.push s,
                           eqT := d.c.eqT || (hit && d.eqBug), nEqHit := d.c.nEqHit + (if hit then 1 else 0) } }

def isSysPc : PC → Bool
  | .a2 .. | .b3 .. | .r3 .. | .s2 .. | .b1 .. | .r1 .. | .l2 .. | .l4 .. => true
  | _ => false

/-- advance the model to its next timer system call (or to the end of the operation) -/
def toSyscall : M Unit := do
  for _ in [0:10] do
    let d ← get
    if d.c.σ.pc == .idle || isSysPc d.c.σ.pc then return
    mexec .step

def finishOp : M Unit := do
  for _ in [0:9] do mexec .step

def pushReal (s : String) : M Unit := modify fun d => { d with c := { d.c with real := d.c.real.push s } }

def modelObs (log : List Event) : Array String := Id.run do
  let mut out : Array String := #[]
  for e in log.reverse do
    match e with
    | .rejected id _ => out := out.push s!"rejected {id}"
    | .threw id => out := out.push s!"threw {id}"
    | .constructed id _ => out := out.push s!"constructed {id}"
    | .fired id t _ _ => out := out.push s!"fired {id} {t}"
    | .destroyed id _ => out := out.push s!"destroyed {id}"
    | .setitimer us => out := out.push s!"set {us}"
    | .setfail => out := out.push "setfail"
    | .getitimer us => out := out.push s!"get {us}"
    | .hset us => out := out.push s!"hset {us}"
    | .internalError => out := out.push "herr"
    | _ => pure ()
  return out

def verdict (name clause detail : String) (tags : List String) : M Unit := do
  IO.println s!"MISMATCH {name} {clause} {detail} tags={",".intercalate tags}"

def causeTags (neg eqT defT : Bool) : List String :=
  (if neg then ["negative_csecs"] else []) ++ (if eqT then ["time_eq_ignores_microseconds"] else [])
    ++ (if defT then ["after_deferred_signal"] else [])

/-- the clauses of C19 evaluated on the real trace of one case -/
def judge : M Unit := do
  let d ← get
  let c := d.c
  let mut nbad := 0
  -- correspondence
  let mo := modelObs c.σ.log
  if mo != c.real then
    let n := min mo.size c.real.size
    let mut k := n
    for i in [0:n] do
      if k == n && mo[i]! != c.real[i]! then k := i
    let a := if k < mo.size then mo[k]! else "<end>"
    let b := if k < c.real.size then c.real[k]! else "<end>"
    IO.println s!"MISMATCH {c.name} trace at={k} model=[{a}] real=[{b}] tags="
    nbad := nbad + 1
  let neg := c.negAccepted
  for m in c.bad do
    verdict c.name "not_after_destroy" m (causeTags neg false false)
    nbad := nbad + 1
  -- at most once
  for i in [0:c.fired.size] do
    for j in [0:i] do
      if c.fired[i]!.id == c.fired[j]!.id then
        verdict c.name "at_most_once" s!"id={c.fired[i]!.id}" (causeTags neg false false)
        nbad := nbad + 1
  -- never early / only live / prompt (lateness)
  for f in c.fired do
    match c.births.find? (·.id == f.id) with
    | none =>
      verdict c.name "only_live" s!"id={f.id} never created" (causeTags neg false false); nbad := nbad + 1
    | some b =>
      let dl := b.tCall + b.cs * 10000
      if b.tRet.isNone then
        verdict c.name "only_live" s!"id={f.id} fired at {f.t} but its constructor threw" (causeTags neg false false)
        nbad := nbad + 1
      else if f.t < dl then
        verdict c.name "never_early" s!"id={f.id} fired={f.t} deadline={dl} early_by={dl - f.t}" (causeTags neg f.eqT f.defT)
        nbad := nbad + 1
      else
        let dlr := (b.tRet.getD b.tCall) + b.cs * 10000
        let slack := (f.crit - b.crit) + 10000 * ((f.defer - b.defer : Nat) : Int)
        if f.t > dlr + slack then
          verdict c.name "prompt" s!"id={f.id} fired={f.t} deadline={dlr} slack={slack} late_by={f.t - dlr}" (causeTags neg f.eqT f.defT)
          nbad := nbad + 1
  -- prompt: missed
  for b in c.births do
    if b.tRet.isSome && !(c.fired.any (·.id == b.id)) then
      let dlr := (b.tRet.getD b.tCall) + b.cs * 10000
      match c.deaths.find? (·.id == b.id) with
      | some dd =>
        let slack := (dd.crit - b.crit) + 10000 * ((dd.defer - b.defer : Nat) : Int)
        if dd.tCall > dlr + slack then
          verdict c.name "prompt" s!"id={b.id} not fired: deadline={dlr} slack={slack} destroyed_at={dd.tCall}" (causeTags neg dd.eqT dd.defT)
          nbad := nbad + 1
      | none =>
        let slack := (c.crit - b.crit) + 10000 * ((c.defer - b.defer : Nat) : Int)
        if c.now > dlr + slack then
          verdict c.name "prompt" s!"id={b.id} not fired: deadline={dlr} slack={slack} end={c.now}" (causeTags neg c.eqT c.defT)
          nbad := nbad + 1
  -- order of deadlines
  for i in [0:c.fired.size] do
    for j in [0:i] do
      let fi := c.fired[i]!
      let fj := c.fired[j]!
      match c.births.find? (·.id == fi.id), c.births.find? (·.id == fj.id) with
      | some bi, some bj =>
        let di := bi.tCall + bi.cs * 10000
        let dj := bj.tCall + bj.cs * 10000
        let slack := c.crit + 10000 * (c.defer : Int)
        -- j fired before i: its deadline must not be later
        if fj.t < fi.t && dj > di + slack then
          verdict c.name "order" s!"id={fj.id} (deadline {dj}) fired before id={fi.id} (deadline {di})" (causeTags neg (fi.eqT || fj.eqT) (fi.defT || fj.defT))
          nbad := nbad + 1
      | _, _ => pure ()
  if d.trace then
    for e in c.σ.log.reverse do IO.println s!"# {repr e}"
  if nbad == 0 then
    let mdef := (c.σ.log.filter (fun e => match e with | .deferred _ => true | _ => false)).length
    IO.println s!"ok {c.name} eqhits={c.nEqHit} defer={c.defer} crit={c.crit} fired={c.fired.size} mdefer={mdef}"
    modify fun d => { d with nOk := d.nOk + 1 }
  else modify fun d => { d with nBad := d.nBad + 1 }

def wModelObs (log : List WEvent) : Array String := Id.run do
  let mut out : Array String := #[]
  for e in log.reverse do
    match e with
    | .rejected id => out := out.push s!"rejected {id}"
    | .fired id _ _ _ => out := out.push s!"wfired {id}"
    | _ => pure ()
  return out

def wJudge : M Unit := do
  let d ← get
  let w := d.w
  let mut nbad := 0
  let mo := wModelObs w.σ.log
  if mo != w.real then
    IO.println s!"MISMATCH {w.name} trace model={mo} real={w.real}"
    nbad := nbad + 1
  for m in w.bad do
    IO.println s!"MISMATCH {w.name} {m}"
    nbad := nbad + 1
  if d.trace then
    for e in w.σ.log.reverse do IO.println s!"# {repr e}"
  if nbad == 0 then
    IO.println s!"ok {w.name}{if w.lapped then " lapped" else ""}"
    modify fun d => { d with nOk := d.nOk + 1 }
  else modify fun d => { d with nBad := d.nBad + 1 }

def wWindowed (gW : Nat) (alive : Array (Nat × Nat)) (extra : List Nat) : Bool :=
  let xs := gW :: (extra ++ alive.toList.map (·.2))
  xs.all fun x => xs.all fun y => decide (x < y + H63)

/-- close the check in progress: exactly the watchers whose threshold is reached must have fired -/
def wCloseCheck : M Unit := modify fun d =>
  let w := d.w
  match w.pendingCheck with
  | none => d
  | some must =>
    let fired := w.firedNow
    let missing := must.filter (fun i => !fired.contains i)
    let extra := fired.filter (fun i => !must.contains i)
    let alive' := w.alive.filter (fun p => !fired.contains p.1)
    let bad1 := missing.map fun i =>
      let thr := ((w.alive.find? (·.1 == i)).map (·.2)).getD 0
      let tag := if thr == w.gW then "weight_equals_threshold_exactly" else "threshold_exceeded"
      s!"fires_iff_reached id={i} threshold={thr} weight={w.gW} not fired tags={tag}"
    let bad2 := extra.map fun i =>
      s!"fires_iff_reached id={i} weight={w.gW} fired below threshold tags=fired_below_threshold"
    let bad := if w.lapped then w.bad else w.bad ++ bad1 ++ bad2
    { d with w := { w with pendingCheck := none, firedNow := #[], alive := alive', bad := bad } }

def processLine (line : String) : M Unit := do
  let ts := line.trimAscii.toString.splitOn " "
  match ts with
  | ["eqbug", v] => modify fun d => { d with eqBug := v == "1" }
  | ["case", n, kind] => modify fun d => { d with c := { name := s!"{kind}-{n}", kind := kind, active := true } }
  | ["call", "create", id, cs] =>
    let d ← get
    let b : Birth := { id := tokNat id, tCall := d.c.now, cs := tokInt cs, crit := d.c.crit, defer := d.c.defer }
    -- a creation while the clock is stopped starts a fresh epoch (time_so_far = 0, timer re-armed)
    let fresh := !d.c.σ.running && d.c.σ.pending.isEmpty
    modify fun d => { d with c := { d.c with
      births := d.c.births.push b
      inCall := some (true, tokNat id)
      eqT := if fresh then false else d.c.eqT
      defT := if fresh then false else d.c.defT } }
    mexec (.create (tokNat id) (tokInt cs))
  | ["call", "destroy", id] =>
    let d ← get
    let dd : Death := { id := tokNat id, tCall := d.c.now, crit := d.c.crit, defer := d.c.defer, eqT := d.c.eqT, defT := d.c.defT }
    modify fun d => { d with c := { d.c with deaths := d.c.deaths.push dd, inCall := some (false, tokNat id) } }
    mexec (.destroy (tokNat id))
  | ["senter", _] => toSyscall
  | ["sexit", "get", v] => do
    if isSysPc (← get).c.σ.pc then mexec .step
    pushReal s!"get {v}"
  | ["sexit", "set", v] => do
    if isSysPc (← get).c.σ.pc then mexec .step
    pushReal s!"set {v}"
  | ["sexit", "setfail"] => do
    if isSysPc (← get).c.σ.pc then mexec .step
    pushReal "setfail"
  | ["tick", v] =>
    let dt := tokInt v
    let d ← get
    let inCall := d.c.inCall.isSome
    modify fun d => { d with c := { d.c with
      now := d.c.now + dt,
      crit := if inCall then d.c.crit + dt else d.c.crit } }
    mexec (.tick dt)
  | ["obs", "fired", id, t] =>
    let d ← get
    let c := d.c
    let i := tokNat id
    let f : Fired := { id := i, t := tokInt t, crit := c.crit, defer := c.defer, eqT := c.eqT, defT := c.defT }
    let late := c.deaths.any (fun dd => dd.id == i && dd.returned)
    let msg := s!"id={i} fired at {t} after its destructor returned"
    modify fun d => { d with c := { d.c with
      fired := d.c.fired.push f
      bad := if late then d.c.bad.push msg else d.c.bad } }
    pushReal s!"fired {id} {t}"
  | ["obs", "hset", v] =>
    -- a timer call of the handler while a public operation is in progress: the signal was deferred
    let d ← get
    if d.c.inCall.isSome then
      modify fun d => { d with c := { d.c with
        defer := d.c.defer + 1
        defT := true } }
    pushReal s!"hset {v}"
  | ["obs", "hsetfail"] => pushReal "herr"
  | ["ret"] =>
    let d ← get
    if d.c.active then
      match d.c.inCall with
      | some (true, id) =>
        finishOp
        let wasNeg := d.c.births.any (fun b => b.id == id && b.cs < 0)
        modify fun d => { d with c := { d.c with
          inCall := none
          negAccepted := d.c.negAccepted || wasNeg
          births := d.c.births.map (fun b => if b.id == id then { b with tRet := some d.c.now } else b) } }
        pushReal s!"constructed {id}"
      | some (false, id) =>
        finishOp
        modify fun d => { d with c := { d.c with
          inCall := none
          deaths := d.c.deaths.map (fun x => if x.id == id then { x with returned := true } else x) } }
        pushReal s!"destroyed {id}"
      | none => pure ()
    else if d.w.active then
      match d.w.lastCreate with
      | some (id, delta) =>
        let w := d.w
        -- a zero delta is a threshold already reached: the constructor must reject it
        let bad := if !w.lapped && delta == 0
          then w.bad.push s!"fires_iff_reached id={id} delta=0 accepted although the threshold is already reached tags=weight_equals_threshold_exactly" else w.bad
        modify fun d => { d with w := { w with alive := w.alive.push (id, w.gW + delta), lastCreate := none, bad := bad } }
      | none => wCloseCheck
  | ["exc", cls] =>
    let d ← get
    if d.c.active then
      match d.c.inCall with
      | some (_, id) =>
        finishOp
        let wasNeg := cls != "invalid_argument" && d.c.births.any (fun b => b.id == id && b.cs < 0)
        modify fun d => { d with c := { d.c with
          inCall := none
          negAccepted := d.c.negAccepted || wasNeg } }
        pushReal (if cls == "invalid_argument" then s!"rejected {id}" else if cls == "runtime_error" then s!"threw {id}" else s!"exc {cls} {id}")
      | none => pure ()
    else if d.w.active then
      match d.w.lastCreate with
      | some (id, delta) =>
        let w := d.w
        -- inside the comparison window a delta below 2^63 must be accepted
        let bad := if !w.lapped && cls == "invalid_argument" && 0 < delta && delta < H63
          then w.bad.push s!"fires_iff_reached id={id} delta={delta} rejected as already reached tags=rejected_inside_window" else w.bad
        modify fun d => { d with w := { w with lastCreate := none, bad := bad, real := w.real.push s!"rejected {id}" } }
      | none =>
        modify fun d => { d with w := { d.w with bad := d.w.bad.push s!"exception {cls}" } }
        wCloseCheck
  | ["end"] =>
    let d ← get
    if d.c.active then
      judge
      modify fun d => { d with c := {} }
    else if d.w.active then
      wJudge
      modify fun d => { d with w := {} }
  | "crash" :: rest =>
    let d ← get
    let nm := if d.c.active then d.c.name else if d.w.active then d.w.name else "?"
    let tags := if d.c.active then causeTags d.c.negAccepted false false else []
    IO.println s!"MISMATCH {nm} crash {" ".intercalate rest} tags={",".intercalate tags}"
    modify fun d => { d with c := {}, w := {}, nBad := d.nBad + 1 }
  -- weight watcher
  | ["wcase", n, w0] =>
    let w := tokNat w0
    modify fun d => { d with w := { name := s!"weight-{n}", active := true, σ := wInit w, gW := w } }
  | ["wcall", "add", v] =>
    modify fun d => { d with w := { d.w with σ := wExec d.w.σ (.add (tokNat v)), gW := d.w.gW + tokNat v } }
  | ["wcall", "create", id, delta] =>
    modify fun d =>
      let w := d.w
      let dl := tokNat delta
      let lapped := w.lapped || !(wWindowed w.gW w.alive [w.gW + dl])
      { d with w := { w with σ := wExec w.σ (.create (tokNat id) dl), lastCreate := some (tokNat id, dl), lapped := lapped } }
  | ["wcall", "destroy", id] =>
    modify fun d =>
      let w := d.w
      { d with w := { w with σ := wExec w.σ (.destroy (tokNat id)), alive := w.alive.filter (·.1 != tokNat id) } }
  | ["wcall", "check"] =>
    modify fun d =>
      let w := d.w
      let lapped := w.lapped || !(wWindowed w.gW w.alive [])
      -- "reaches": unbounded weight ≥ unbounded threshold
      let must := (w.alive.filter (fun p => p.2 ≤ w.gW)).map (·.1)
      { d with w := { w with σ := wExec w.σ .check, pendingCheck := some must, firedNow := #[], lapped := lapped } }
  | ["obs", "wfired", id] =>
    modify fun d => { d with w := { d.w with firedNow := d.w.firedNow.push (tokNat id), real := d.w.real.push s!"wfired {id}" } }
  | _ => pure ()

partial def loop (h : IO.FS.Stream) : M Unit := do
  let line ← h.getLine
  if line.isEmpty then return ()
  processLine line
  loop h

def main (args : List String) : IO UInt32 := do
  let stdin ← IO.getStdin
  let ((), st) ← (loop stdin).run { trace := args.contains "--trace" }
  IO.println s!"summary ok={st.nOk} mismatch={st.nBad} eqbug={if st.eqBug then 1 else 0}"
  return 0
