import PPLV.Solver.MIP
import PPLV.Solver.BBDriver
import PPLV.Solver.PendingDriver

/-! `pplv_mip`: replays a `MIP_Problem` journal (harness/c06_mip.cc) on the data model
(`Problem.apply`) and judges every observation with the verified reference
(`mipRef`, `lpAnswer`, `checkWitness`, `checkFeasible`, `withWindow`).

Journal (one event per line; `<con>`, `<cs>`, `<expr>` as in `PPLV/Lin/Parse.lean`):
```
hist <id> <seed>
new <slot> <dim>                                   MIP_Problem(dim)
newc <slot> <dim> <max|min> <cs> <expr>            MIP_Problem(dim, cs, obj, mode)
op <slot> add_con <con> | add_cons <cs> | add_dims <m> | add_ints <k> <v>* | set_obj <expr>
          | set_mode <max|min> | set_pricing <0|1|2>
copy <dst> <src>                                   copy construction / assignment
drop <slot>                                        slot abandoned (after a timeout)
obs|fresh <slot> solve unfeasible
obs|fresh <slot> solve unbounded fp <pt|none>
obs|fresh <slot> solve optimized val <num> <den> pt <pt> ev <num> <den>
obs|fresh <slot> sat <0|1>
obs|fresh <slot> fpoint <pt|none>
obs|fresh <slot> opoint <pt|none>
obs|fresh <slot> oval <num> <den> | none
obs|fresh <slot> okinv <0|1>
obs|fresh <slot> <kind> timeout                    CPU limit of the call exceeded: inconclusive
exc <class> <where>                                undocumented exception
crash <signal>
```
`<pt>` = `<div> <a_0> … <a_{n-1}>`.  `fresh` lines carry the answers of a new `MIP_Problem`
built from the same final data; they are judged like `obs` lines and compared with the
preceding `obs` line of the same slot and kind (incremental ≡ fresh).

Verdicts: `ok <ln>` fully decided by the reference; `skip <ln> <reason>` only the one-sided
judges applied (all passed) or inconclusive; `MISMATCH <ln> <obligation> <detail>`. -/
open PPLV.Lin PPLV.Solver

/-- everything the reference knows about one state of the data -/
structure Ref where
  wf : Bool
  lp : Answer
  mip : Answer                 -- `unknownUnboundedIntVar` also when the enumeration is too large
  tooLarge : Bool
  win : Option Answer          -- answer of the problem with the integer variables confined to a window
  ray : Bool := false          -- the relaxation has an improving recession direction (`rayExists`)
deriving Inhabited

structure Slot where
  p : Problem
  ref : Option Ref := none
  lastObs : List (String × List String) := []     -- kind ↦ payload of the last `obs` line
deriving Inhabited

structure St where
  slots : Array (Option Slot) := Array.replicate 8 none
  budget : Nat := 400
  window : Int := 3
  nOk : Nat := 0
  nBad : Nat := 0
  nSkip : Nat := 0

abbrev M := StateT St IO

def ok (ln : Nat) : M Unit := do
  modify fun s => { s with nOk := s.nOk + 1 }
  IO.println s!"ok {ln}"
def bad (ln : Nat) (what : String) : M Unit := do
  modify fun s => { s with nBad := s.nBad + 1 }
  IO.println s!"MISMATCH {ln} {what}"
def skip (ln : Nat) (why : String) : M Unit := do
  modify fun s => { s with nSkip := s.nSkip + 1 }
  IO.println s!"skip {ln} {why}"

def getSlot (i : Nat) : M (Option Slot) := do return (← get).slots.getD i none
def setSlot (i : Nat) (s : Option Slot) : M Unit :=
  modify fun st => { st with slots := st.slots.setIfInBounds i s }

def ratStr (q : Rat) : String := if q.den == 1 then s!"{q.num}" else s!"{q.num}/{q.den}"

def ansStr : Answer → String
  | .unfeasible => "unfeasible"
  | .unbounded => "unbounded"
  | .optimum v => s!"optimum({ratStr v})"
  | .unknownUnboundedIntVar => "unknown"

def ansClass : Answer → String
  | .unfeasible => "unfeasible"
  | .unbounded => "unbounded"
  | .optimum _ => "optimized"
  | .unknownUnboundedIntVar => "unknown"

def computeRef0 (budget : Nat) (B : Int) (P : Problem) : Ref :=
  if !P.wfB then { wf := false, lp := .unknownUnboundedIntVar, mip := .unknownUnboundedIntVar, tooLarge := false, win := none }
  else
    let lp := lpAnswer P
    if P.ints.isEmpty then { wf := true, lp := lp, mip := lp, tooLarge := false, win := none }
    else if lp == .unfeasible then { wf := true, lp := lp, mip := .unfeasible, tooLarge := false, win := none }
    else
      match mipSize P with
      | some sz =>
        if sz ≤ budget then { wf := true, lp := lp, mip := mipRef P, tooLarge := false, win := none }
        else
          -- bounded but large: the window problem is a sound one-sided judge
          let W := P.withWindow B
          let win := match mipSize W with
            | some s => if s ≤ budget then some (mipRef W) else none
            | none => none
          { wf := true, lp := lp, mip := .unknownUnboundedIntVar, tooLarge := true, win := win }
      | none =>
        let W := P.withWindow B
        let win := match mipSize W with
          | some s => if s ≤ budget then some (mipRef W) else
              (let W1 := P.withWindow 1
               match mipSize W1 with
               | some s1 => if s1 ≤ budget then some (mipRef W1) else none
               | none => none)
          | none => none
        { wf := true, lp := lp, mip := .unknownUnboundedIntVar, tooLarge := false, win := win }

/-- with a feasible point of the MIP in hand (here: found inside the window) an improving recession
    direction of the relaxation settles the answer: unbounded (`C06.unbounded_of_point_and_ray`) -/
def computeRef (budget : Nat) (B : Int) (P : Problem) : Ref :=
  let r := computeRef0 budget B P
  if r.wf && !r.mip.isKnown && r.lp == .unbounded then
    let ray := rayExists P
    let pointKnown := match r.win with
      | some (.optimum _) => true
      | some .unbounded => true
      | _ => false
    if ray && pointKnown then { r with ray := ray, mip := .unbounded } else { r with ray := ray }
  else r

/-- the reference of a slot, cached until the next mutator -/
def refOf (i : Nat) (sl : Slot) : M Ref := do
  match sl.ref with
  | some r => return r
  | none =>
    let st ← get
    let r := computeRef st.budget st.window sl.p
    setSlot i (some { sl with ref := some r })
    return r

def refStr (r : Ref) : String :=
  let w := match r.win with | some a => ansStr a | none => "-"
  s!"ref={ansStr r.mip} relax={ansStr r.lp} window={w}" ++ (if r.tooLarge then " large" else "") ++ (if r.ray then " ray" else "")

def parsePt (n : Nat) (ts : List String) : Option Pt × List String :=
  match ts with
  | "none" :: rest => (none, rest)
  | d :: rest => let (cf, rest') := takeInts n rest; (some ⟨cf, tokInt d⟩, rest')
  | [] => (none, [])

def mkRatS (num den : String) : Rat := (tokInt num : Rat) / (tokInt den : Rat)

inductive V | good | partialOk (why : String) | wrong (obl : String) (detail : String)

/-- is the reported status right? -/
def judgeStatus (r : Ref) (status : String) : V :=
  if r.mip.isKnown then
    if ansClass r.mip == status then .good
    else .wrong "status" s!"library {status}, reference {ansStr r.mip}"
  else
    -- one-sided judges (C06.mip_relaxation_bound, C06.window_sound)
    if r.lp == .unfeasible && status != "unfeasible" then
      .wrong "status" s!"library {status}, but the relaxation is unfeasible"
    else if (match r.lp with | .optimum _ => true | _ => false) && status == "unbounded" then
      .wrong "status" s!"library unbounded, but the relaxation has optimum {ansStr r.lp}"
    else match r.win with
      | some (.optimum w) =>
        if status == "unfeasible" then
          .wrong "status" s!"library unfeasible, but a feasible point with objective {ratStr w} exists"
        else .partialOk (if r.tooLarge then "size" else "unbounded-int-var")
      | some .unbounded =>
        if status != "unbounded" then
          .wrong "status" s!"library {status}, but the problem confined to a window is already unbounded"
        else .partialOk "unbounded-int-var"
      | _ => .partialOk (if r.tooLarge then "size" else "unbounded-int-var")

/-- is the reported optimal value right (status optimized already judged)? -/
def judgeValue (P : Problem) (r : Ref) (v : Rat) : V :=
  match r.mip with
  | .optimum w =>
    if w == v then .good
    else if P.notBetter v w then .wrong "optimum" s!"library value {ratStr v}, a better feasible point exists: reference optimum {ratStr w}"
    else .wrong "optimum" s!"library value {ratStr v} is better than the reference optimum {ratStr w}"
  | .unknownUnboundedIntVar =>
    let c1 := match r.lp with
      | .optimum b => if P.notBetter v b then none else some s!"library value {ratStr v} beats the optimum {ratStr b} of the relaxation"
      | _ => none
    let c2 := match r.win with
      | some (.optimum w) => if P.notBetter w v then none else some s!"library value {ratStr v}, a better feasible point exists: value {ratStr w}"
      | _ => none
    match c1, c2 with
    | some d, _ => .wrong "optimum" d
    | _, some d => .wrong "optimum" d
    | _, _ => .partialOk (if r.tooLarge then "size" else "unbounded-int-var")
  | _ => .good      -- status mismatch is reported by judgeStatus

def V.and : V → V → V
  | .wrong o d, _ => .wrong o d
  | _, .wrong o d => .wrong o d
  | .partialOk w, _ => .partialOk w
  | _, .partialOk w => .partialOk w
  | .good, .good => .good

def emit (ln : Nat) (r : Ref) (v : V) : M Unit :=
  match v with
  | .good => ok ln
  | .partialOk w => skip ln w
  | .wrong o d => bad ln s!"{o} {d} [{refStr r}]"

/-- `is_satisfiable()` / a throwing `feasible_point()` -/
def judgeSat (r : Ref) (sat : Bool) : V :=
  let say (truth : Bool) (why : String) : V :=
    if truth == sat then .good
    else .wrong "satisfiable" s!"library says {if sat then "satisfiable" else "not satisfiable"}, {why}"
  if r.mip.isKnown then say (r.mip != .unfeasible) s!"reference {ansStr r.mip}"
  else if r.lp == .unfeasible then say false "the relaxation is unfeasible"
  else match r.win with
    | some (.optimum w) =>
      (match say true s!"a feasible point with objective {ratStr w} exists" with
       | .good => .partialOk "unbounded-int-var" | v => v)
    | some .unbounded =>
      (match say true "the problem confined to a window is feasible" with
       | .good => .partialOk "unbounded-int-var" | v => v)
    | _ => .partialOk (if r.tooLarge then "size" else "unbounded-int-var")

def processObs (ln : Nat) (fresh : Bool) (si : Nat) (kind : String) (rest : List String) : M Unit := do
  match ← getSlot si with
  | none => skip ln "unknown-slot"
  | some sl0 =>
    if rest == ["timeout"] then
      skip ln "timeout"
    else
    let r0 ← refOf si sl0
    let P := sl0.p
    -- a verified feasible point reported by the library + an improving ray: the truth is `unbounded`
    let reported : Option Pt :=
      match kind, rest with
      | "solve", "unbounded" :: "fp" :: pt => (parsePt P.n pt).1
      | "solve", "optimized" :: "val" :: _ :: _ :: "pt" :: pt => (parsePt P.n pt).1
      | "fpoint", pt => (parsePt P.n pt).1
      | "sat", "1" :: "fp" :: pt => (parsePt P.n pt).1
      | "opoint", pt => (parsePt P.n pt).1
      | _, _ => none
    let upgrade := r0.wf && !r0.mip.isKnown && r0.ray &&
      (match reported with | some x => checkFeasible P x | none => false)
    let r : Ref := if upgrade then { r0 with mip := .unbounded } else r0
    if upgrade then
      match ← getSlot si with
      | some sl => setSlot si (some { sl with ref := some r })
      | none => pure ()
    if !r.wf then bad ln s!"model ill-formed problem data (rows outside the space or strict)" else
    -- incremental ≡ fresh
    let mut freshBad : Option String := none
    if fresh then
      match sl0.lastObs.lookup kind with
      | some prev =>
        let key (l : List String) : List String :=
          if kind == "solve" then
            match l with
            | "optimized" :: "val" :: a :: b :: _ => ["optimized", ratStr (mkRatS a b)]
            | s :: _ => [s]
            | [] => []
          else if kind == "oval" then
            match l with
            | [a, b] => [ratStr (mkRatS a b)]
            | l => l
          else if kind == "sat" then l.take 1
          else if kind == "fpoint" || kind == "opoint" then
            [if l == ["none"] then "none" else "point"]
          else l
        if key prev != key rest && prev != ["timeout"] then
          freshBad := some s!"incremental {" ".intercalate (key prev)} vs fresh {" ".intercalate (key rest)}"
      | none => pure ()
    else
      match ← getSlot si with
      | some sl => setSlot si (some { sl with lastObs := (kind, rest) :: sl.lastObs.filter (·.1 != kind) })
      | none => pure ()
    let verdict : V :=
      if kind == "solve" then
        match rest with
        | ["unfeasible"] => judgeStatus r "unfeasible"
        | "unbounded" :: "fp" :: pt =>
          let s := judgeStatus r "unbounded"
          match (parsePt P.n pt).1 with
          | some x =>
            if checkFeasible P x then s
            else V.and (.wrong "witness" "feasible_point() of an unbounded problem is not feasible") s
          | none => V.and (.wrong "witness" "feasible_point() throws although solve() said unbounded") s
        | "optimized" :: "val" :: a :: b :: "pt" :: more =>
          let s := judgeStatus r "optimized"
          let v := mkRatS a b
          let (x?, more') := parsePt P.n more
          let wit : V := match x? with
            | some x =>
              if !checkFeasible P x then .wrong "witness" "optimizing_point() violates a constraint or an integrality requirement"
              else if !checkWitness P x v then
                .wrong "value" s!"optimal_value {ratStr v} is not the objective at optimizing_point() ({ratStr (P.objVal x.val)})"
              else .good
            | none => .wrong "witness" "optimizing_point() throws although solve() said optimized"
          let ev : V := match more' with
            | ["ev", c, d] => if mkRatS c d == v then .good else
                .wrong "value" s!"evaluate_objective_function at the optimizing point gives {ratStr (mkRatS c d)}, optimal_value {ratStr v}"
            | _ => .good
          let val : V := match s with
            | .wrong .. => .good
            | _ => judgeValue P r v
          V.and s (V.and wit (V.and ev val))
        | _ => .partialOk "parse"
      else if kind == "sat" then
        match rest with
        | "1" :: "fp" :: pt =>
          (match (parsePt P.n pt).1 with
           | some x =>
             -- a valid witness settles satisfiability whatever the reference knows
             if checkFeasible P x then .good
             else V.and (.wrong "witness" "feasible_point() after is_satisfiable() violates a constraint or an integrality requirement") (judgeSat r true)
           | none => V.and (.wrong "witness" "feasible_point() throws although is_satisfiable() said true") (judgeSat r true))
        | _ => judgeSat r (rest.head? == some "1")
      else if kind == "fpoint" then
        match (parsePt P.n rest).1 with
        | some x =>
          -- a valid witness settles satisfiability whatever the reference knows
          if checkFeasible P x then .good
          else .wrong "witness" "feasible_point() violates a constraint or an integrality requirement"
        | none => judgeSat r false
      else if kind == "opoint" then
        match (parsePt P.n rest).1 with
        | some x =>
          let s := judgeStatus r "optimized"
          if !checkFeasible P x then .wrong "witness" "optimizing_point() violates a constraint or an integrality requirement"
          else match s with
            | .wrong .. => s
            | _ => V.and s (judgeValue P r (P.objVal x.val))
        | none =>
          -- no optimizing point: the problem must be unfeasible or unbounded
          if r.mip.isKnown then
            (match r.mip with
             | .optimum w => .wrong "status" s!"optimizing_point() throws, reference optimum {ratStr w}"
             | _ => .good)
          else .partialOk "unbounded-int-var"
      else if kind == "oval" then
        match rest with
        | [a, b] =>
          let s := judgeStatus r "optimized"
          (match s with
           | .wrong .. => s
           | _ => V.and s (judgeValue P r (mkRatS a b)))
        | _ =>
          if r.mip.isKnown then
            (match r.mip with
             | .optimum w => .wrong "status" s!"optimal_value() throws, reference optimum {ratStr w}"
             | _ => .good)
          else .partialOk "unbounded-int-var"
      else if kind == "okinv" then
        if rest == ["1"] then .good else .wrong "invariant" "OK() returned false"
      else .partialOk s!"unknown-kind-{kind}"
    match freshBad, verdict with
    | some d, .wrong o d' => bad ln s!"{o} {d'} ; incremental≠fresh {d} [{refStr r}]"
    | some d, _ => bad ln s!"incremental≠fresh {d} [{refStr r}]"
    | none, v => emit ln r v

def parseMode (s : String) : Bool := s == "max"

def processLine (ln : Nat) (line : String) : M Unit := do
  let ts := (line.trimAscii.toString.splitOn " ").filter (· ≠ "")
  match ts with
  | "hist" :: _ => modify fun s => { s with slots := Array.replicate 8 none }
  | ["new", s, d] => setSlot (tokNat s) (some { p := Problem.new (tokNat d) })
  | "newc" :: s :: d :: mode :: rest =>
    let n := tokNat d
    let (cs, rest') := parseCS n rest
    let (e, _) := parseExpr n rest'
    setSlot (tokNat s) (some { p := { n := n, cs := cs, ints := [], obj := e, maximize := parseMode mode } })
  | "op" :: s :: name :: args => do
    let si := tokNat s
    match ← getSlot si with
    | none => pure ()
    | some sl =>
      let P := sl.p
      let op? : Option Op :=
        match name, args with
        | "add_con", a => some (.addCons (parseCon P.n a).1)
        | "add_cons", a => some (.addCons (parseCS P.n a).1)
        | "add_dims", [m] => some (.addDims (tokNat m))
        | "add_ints", _ :: vs => some (.addInts (vs.map tokNat))
        | "set_obj", a => some (.setObj (parseExpr P.n a).1)
        | "set_mode", [m] => some (.setMode (parseMode m))
        | "set_pricing", [k] => some (.setPricing (tokNat k))
        | _, _ => none
      match op? with
      | some op =>
        let keep := !op.isMutator
        setSlot si (some { sl with p := P.apply op, ref := if keep then sl.ref else none,
                                   lastObs := if keep then sl.lastObs else [] })
      | none => bad ln s!"model unknown operation {name}"
  | ["copy", d, s] => do
    let src ← getSlot (tokNat s)
    setSlot (tokNat d) (src.map fun sl => { sl with lastObs := [] })
  | ["drop", s] => setSlot (tokNat s) none
  | "obs" :: s :: kind :: rest => processObs ln false (tokNat s) kind rest
  | "fresh" :: s :: kind :: rest => processObs ln true (tokNat s) kind rest
  | "exc" :: rest => bad ln s!"exception {" ".intercalate rest}"
  | "crash" :: sig =>
    if sig == ["SIGXCPU"] then skip ln "timeout" else bad ln s!"crash {" ".intercalate sig}"
  | _ => pure ()

partial def loop (h : IO.FS.Stream) (ln : Nat) : M Unit := do
  let line ← h.getLine
  if line.isEmpty then return ()
  let t0 ← IO.monoMsNow
  processLine ln line
  let t1 ← IO.monoMsNow
  if t1 - t0 > 500 then IO.eprintln s!"slow {ln} {t1 - t0}ms {line.take 80}"
  loop h (ln + 1)

def main (args : List String) : IO UInt32 := do
  -- stage 3: `--bb` branch-and-bound tree replay, `--tab` tableau set-up / simplex replay
  if args.head? == some "--bb" then return ← PPLV.Solver.BBDriver.run args.tail
  if args.head? == some "--tab" then return ← PPLV.Solver.PendingDriver.run args.tail
  let rec opts (a : List String) (st : St) : St :=
    match a with
    | "--budget" :: k :: r => opts r { st with budget := k.toNat?.getD 400 }
    | "--window" :: k :: r => opts r { st with window := (k.toNat?.getD 3 : Nat) }
    | _ :: r => opts r st
    | [] => st
  let stdin ← IO.getStdin
  let ((), st) ← (loop stdin 1).run (opts args {})
  IO.println s!"summary ok={st.nOk} mismatch={st.nBad} skipped={st.nSkip}"
  return 0
