import PPLV.PolyOps.GenImage
import PPLV.Lin.Parse

/-!
# `pplv_polyops` — replay of the row-level operator models (C02 stage 2)

Reads the journal of `harness/c02_rows.cc` (one case per line: operator, arguments, the RAW pair
(con_sys, gen_sys) with status before the call, of the argument, and after the call) and for every case
1. replays the code-shaped model `PPLV.PolyOps.Poly.<operator>` on the observed pre-state and demands
   * the same space dimension and the same status word (9 flags),
   * for every description the post-status declares up to date: the same number of pending rows and the
     same rows — compared as MULTISETS of raw rows (kind bit, inhomogeneous term, epsilon column,
     coefficients; NO re-normalisation: the model applies exactly the normalisation the code applies),
     i.e. both row lists sorted by one fixed total order; only on the paths where the code itself
     sorts and removes duplicates (`merge_rows_assign`, `sort_rows`: intersection / hull /
     time-elapse on a receiver that cannot have pending rows; the general case of
     `map_space_dimensions`, whose const_iterator skips matched closure points) as SETS;
   a path on which the code calls the Chernikova conversion is not replayed (`conv`);
2. checks the conclusion of the operator theorem (Props/C02Rows.lean) on the REAL rows with K1:
   every description the real post-status declares valid denotes the reference operator
   (PPLV/Lin/Ops.lean, Ops2.lean) applied to the set denoted by the pre-state (`equivB` for
   constraints, `checkDD` for generators, `isEmptyB` for marked-empty results).
Verdicts: `ok <id> …`, `MISMATCH <id> rows|sem <detail>`, `skip <id> <why>`.
-/
open PPLV.Lin PPLV.PolyOps

namespace PolyOpsDriver

def parseRow (sd : Nat) (ts : List String) : Row × List String :=
  match ts with
  | k :: b :: eps :: rest =>
    let (cf, rest') := takeInts sd rest
    (⟨k == "e", tokInt b, cf, tokInt eps⟩, rest')
  | _ => (default, [])

def parseSys (ts : List String) : Sys × Nat × List String :=
  match ts with
  | sd :: nr :: fp :: srt :: rest =>
    let sdn := tokNat sd
    let rec go (k : Nat) (ts : List String) (acc : List Row) : List Row × List String :=
      match k with
      | 0 => (acc.reverse, ts)
      | k+1 => let (r, ts') := parseRow sdn ts; go k ts' (r :: acc)
    let (rows, rest') := go (tokNat nr) rest []
    (⟨rows, tokNat fp, srt == "1"⟩, sdn, rest')
  | _ => (default, 0, [])

def parseStatus (s : String) : Status :=
  let b := fun (i : Nat) => (s.toList.getD i '0') == '1'
  ⟨b 0, b 1, b 2, b 3, b 4, b 5, b 6, b 7, b 8⟩

def parsePoly (nnc : Bool) (ts : List String) : Poly × List String :=
  match ts with
  | dim :: st :: rest =>
    let (cs, _, r1) := parseSys rest
    let (gs, _, r2) := parseSys r1
    (⟨nnc, tokNat dim, parseStatus st, cs, gs⟩, r2)
  | _ => (default, [])

/-! ### canonical comparison of row lists -/

def cmpList : List Int → List Int → Ordering
  | [], [] => .eq
  | [], _ => .lt
  | _, [] => .gt
  | a :: as, b :: bs => if a < b then .lt else if a > b then .gt else cmpList as bs

def rowKey (r : Row) : List Int := (if r.eq then 1 else 0) :: r.b :: r.eps :: r.cf
def rowLe (a b : Row) : Bool := cmpList (rowKey a) (rowKey b) != .gt

def sortRows (rows : List Row) : List Row := (rows.toArray.qsort (fun a b => cmpList (rowKey a) (rowKey b) == .lt)).toList
def dedupSorted : List Row → List Row
  | a :: b :: t => if a == b then dedupSorted (b :: t) else a :: dedupSorted (b :: t)
  | l => l

def rowStr (r : Row) : String :=
  s!"{if r.eq then "e" else "i"}:{r.b}:{r.eps}:{r.cf}"

/-- (multiset-equal, set-equal, ordered-equal) -/
def cmpRows (a b : List Row) : Bool × Bool × Bool :=
  let sa := sortRows a; let sb := sortRows b
  (sa == sb, dedupSorted sa == dedupSorted sb, a == b)

/-! ### the set denoted by a pair, as a reference polyhedron -/

/-- the description `Denotes` speaks about, as a constraint system; `none`: nothing usable -/
def refOf (p : Poly) : Option RefPoly :=
  if p.st.empty then some (emptyP p.nnc p.dim)
  else if p.st.cUp && !p.st.gPend then some ⟨p.nnc, p.dim, consOf p.nnc p.cs.rows⟩
  else if p.st.gUp && !p.st.cPend then some ⟨p.nnc, p.dim, gensToCons p.dim (gensOf p.nnc p.gs.rows)⟩
  else if !p.st.cUp && !p.st.gUp then some (univ p.nnc p.dim)
  else none

/-- generators of the denoted set when the pair holds them without conversion (`[]` for empty) -/
def gensOfPoly (p : Poly) : Option (List Gen) :=
  if p.st.empty then some []
  else if p.st.gUp && !p.st.cPend then some (gensOf p.nnc p.gs.rows)
  else none

/-- check the real post-state `r` against the expected set `ex` -/
def semCheck (r : Poly) (ex : RefPoly) : Option String :=
  if r.st.empty then
    if isEmptyB ex.n ex.cs then none else some "marked empty but the reference result is not empty"
  else if !r.st.cUp && !r.st.gUp then
    if subsetB ex.n [] ex.cs then none else some "no description held (universe) but the reference result is not the universe"
  else
    let c1 := if r.st.cUp && !r.st.gPend then
        (if equivB ex.n (consOf r.nnc r.cs.rows) ex.cs then none else some "constraints of the result ≠ reference operator")
      else none
    let c2 := if r.st.gUp && !r.st.cPend then
        (if gensWF ex.n (gensOf r.nnc r.gs.rows) && checkDD ex.n ex.cs (gensOf r.nnc r.gs.rows) then none
         else some "generators of the result ≠ reference operator")
      else none
    match c1, c2 with
    | some a, some b => some (a ++ "; " ++ b)
    | some a, none => some a
    | none, b => b

/-- executable `Poly.WF` (PPLV/PolyOps/Sem.lean): the hypotheses of the operator theorems on a real state -/
def genWFB (nnc : Bool) (n : Nat) (r : Row) : Bool :=
  r.cf.length == n && decide (0 ≤ r.b) && decide (0 ≤ r.eps) && (!r.eq || r.b == 0) && (!(r.b == 0) || r.eps == 0) &&
    (nnc || r.eps == 0)
def isPointB (nnc : Bool) (r : Row) : Bool := !r.eq && decide (0 < r.b) && (!nnc || decide (0 < r.eps))
def wfB (p : Poly) : Bool :=
  (p.st.empty || !p.st.cUp || p.cs.rows.all fun r => r.cf.length == p.dim) &&
  (p.st.empty || !p.st.gUp || p.gs.rows.all (genWFB p.nnc p.dim)) &&
  (p.st.empty || !p.st.gUp || p.gs.rows.any (isPointB p.nnc)) &&
  (!p.st.cPend || (p.st.cUp && p.st.gUp)) && (!p.st.gPend || (p.st.cUp && p.st.gUp)) &&
  !(p.st.cPend && p.st.gPend) &&
  (p.st.empty || p.dim == 0 || p.st.cUp || p.st.gUp) && (p.dim != 0 || (!p.st.cUp && !p.st.gUp))

/-- the extra invariants some theorems assume beyond `Poly.WF` (all guaranteed by `Polyhedron::OK()`):
    marked empty ⇒ no description flagged; a pair that can have pending rows holds both descriptions;
    pending rows only on such a pair -/
def wfExtraB (p : Poly) : Bool :=
  (!p.st.empty || (!p.st.cUp && !p.st.gUp)) &&
  (!p.st.canPend || (p.st.cUp && p.st.gUp)) && (!p.st.gPend || p.st.canPend) && (!p.st.cPend || p.st.canPend)

/-- `NNCInvW` (ProofsLattice15.lean): every point row belongs to the set generated by the closure part of
    the system — lines and rays as they are, closure points read as points (decided with K1:
    `gensToCons` of the closure part, then the point is tested against every row) -/
def closurePartB (rows : List Row) : List Gen :=
  rows.filterMap fun r => if !r.eq && r.b != 0 && r.eps != 0 then none else some (r.toGen false)
def nncInvB (n : Nat) (rows : List Row) : Bool :=
  let cs := gensToCons n (closurePartB rows)
  rows.all fun r => !(!r.eq && r.b != 0 && r.eps != 0) || cs.all fun c => c.holdsAt r.cf r.b

structure Case where
  id : String
  op : String
  nnc : Bool
  args : List String
  x : Poly
  y : Option Poly
  r : Option Poly          -- none: exception
  exc : String

def splitAt (tok : String) (ts : List String) : List String × List String :=
  (ts.takeWhile (· != tok), (ts.dropWhile (· != tok)).drop 1)

def parseCase (ts : List String) : Option Case :=
  match ts with
  | "case" :: id :: op :: nnc :: rest =>
    let nncB := nnc == "1"
    let (args, r1) := splitAt "X" rest
    let (x, r2) := parsePoly nncB r1
    let (y, r3) := match r2 with
      | "Y" :: t => let (y, t') := parsePoly nncB t; (some y, t')
      | t => (none, t)
    match r3 with
    | "R" :: t => let (r, _) := parsePoly nncB t; some ⟨id, op, nncB, args, x, y, some r, ""⟩
    | "EXC" :: t => some ⟨id, op, nncB, args, x, y, none, " ".intercalate t⟩
    | _ => none
  | _ => none

def natArgs (ts : List String) : List Nat := ts.map tokNat

/-- pairs `(j, k)` of a partial map given as the list of images (`-1` = undefined) -/
def mapPairs (f : List (Option Nat)) : List (Nat × Nat) :=
  (f.zipIdx.filterMap fun (o, j) => o.map fun k => (j, k))

/-- the model result and the reference result (`none` = reference not computable from the pair) -/
def runModel (c : Case) : Option Poly × Option RefPoly × Bool :=
  let x := c.x
  let rx := refOf x
  match c.op with
  | "affine_image" | "affine_preimage" =>
    match c.args with
    | v :: d :: rest =>
      let (e, _) := parseExpr x.dim rest
      let vn := tokNat v; let dn := tokInt d
      if c.op == "affine_image" then (x.affine_image vn e dn, rx.map (·.affineImage vn e dn), false)
      else (x.affine_preimage vn e dn, rx.map (·.affinePreimage vn e dn), false)
    | _ => (none, none, false)
  | "gen_affine_image" =>
    match c.args with
    | v :: rel :: d :: rest =>
      let (e, _) := parseExpr x.dim rest
      let vn := tokNat v; let dn := tokInt d; let r := parseRel rel
      (x.generalized_affine_image vn r e dn, rx.map (·.genAffineImage vn r e dn), false)
    | _ => (none, none, false)
  | "embed" => let m := tokNat (c.args.getD 0 "0")
    (some (x.add_space_dimensions_and_embed m), rx.map (·.addDimsEmbed m), false)
  | "project" => let m := tokNat (c.args.getD 0 "0")
    (some (x.add_space_dimensions_and_project m), rx.map (·.addDimsProject m), false)
  | "remove" => let vs := natArgs (c.args.drop 1)
    (x.remove_space_dimensions vs, rx.map (·.removeDims vs), false)
  | "remove_higher" => let nd := tokNat (c.args.getD 0 "0")
    (x.remove_higher_space_dimensions nd, rx.map (·.removeHigherDims nd), false)
  | "map" =>
    let f : List (Option Nat) := (c.args.drop 1).map fun s => if s.startsWith "-" then none else some (tokNat s)
    let newDim := f.foldl (fun m o => match o with | some k => max m (k + 1) | none => m) 0
    (x.map_space_dimensions f, if x.dim == 0 then rx else rx.map (·.mapDims newDim (mapPairs f)),
      newDim != x.dim)
  | "expand" => let v := tokNat (c.args.getD 0 "0"); let m := tokNat (c.args.getD 1 "0")
    (x.expand_space_dimension v m, rx.map (·.expandDim v m), false)
  | "fold" =>
    let dest := tokNat (c.args.getD 0 "0"); let vs := natArgs (c.args.drop 2)
    let ref := if vs.isEmpty then rx else
      match rx, gensOfPoly x with
      | some r, some gs =>
        if gs.isEmpty then some (emptyP x.nnc (x.dim - vs.length)) else some (r.foldGens vs dest gs)
      | _, _ => none
    (x.fold_space_dimensions vs dest, ref, true)
  | "concat" =>
    match c.y with
    | some y => (x.concatenate_assign y, match rx, refOf y with | some a, some b => some (a.concat b) | _, _ => none, false)
    | none => (none, none, false)
  | "intersection" =>
    match c.y with
    | some y => (x.intersection_assign y, match rx, refOf y with | some a, some b => some (a.meet b) | _, _ => none,
                 !x.st.canPend)
    | none => (none, none, false)
  | "hull" =>
    match c.y with
    | some y =>
      let ref := match gensOfPoly x, gensOfPoly y with
        | some gx, some gy => some (RefPoly.ofGens x.nnc x.dim (hullGens [gx, gy]))
        | _, _ => none
      (x.poly_hull_assign y, if x.dim == 0 then (if y.st.empty then rx else refOf y) else ref, !x.st.canPend)
    | none => (none, none, false)
  | "time_elapse" =>
    match c.y with
    | some y =>
      let ref := match gensOfPoly x, gensOfPoly y with
        | some gx, some gy =>
          if gx.isEmpty || gy.isEmpty then some (emptyP x.nnc x.dim)
          else some (RefPoly.ofGens x.nnc x.dim (timeElapseGens gx gy))
        | _, _ => none
      (x.time_elapse_assign y,
        if x.dim == 0 then (if y.st.empty then some (emptyP x.nnc 0) else rx) else ref, !x.st.canPend)
    | none => (none, none, false)
  | "closure" => (x.topological_closure_assign, rx.map (·.closure), false)
  | "unconstrain" => let vs := natArgs (c.args.drop 1)
    (x.unconstrain vs, rx.map (·.unconstrain vs), false)
  | _ => (none, none, false)

def stStr (s : Status) : String :=
  String.ofList ([s.empty, s.cUp, s.gUp, s.cMin, s.gMin, s.satC, s.satG, s.cPend, s.gPend].map fun b => if b then '1' else '0')

/-- row-level comparison of the model result `q` with the real result `r` -/
def rowCheck (q r : Poly) (setOK : Bool) : Option String × String :=
  if q.dim != r.dim then (some s!"dim model={q.dim} real={r.dim}", "")
  else if q.st != r.st then (some s!"status model={stStr q.st} real={stStr r.st}", "")
  else if r.st.empty then (none, "empty")
  else
    let chk (name : String) (a b : Sys) : Option String × String :=
      let (ms, ss, os) := cmpRows a.rows b.rows
      -- the non-pending part and the pending part separately
      let (m1, _, _) := cmpRows (a.rows.take a.firstPending) (b.rows.take b.firstPending)
      let (m2, _, _) := cmpRows (a.rows.drop a.firstPending) (b.rows.drop b.firstPending)
      if a.rows.length - a.firstPending != b.rows.length - b.firstPending then
        (some s!"{name} pending rows model={a.rows.length - a.firstPending} real={b.rows.length - b.firstPending}", "")
      else if ms && m1 && m2 then (none, if os then "ord" else "mset")
      else if ss && setOK then (none, "set")
      else (some s!"{name} rows model={(sortRows a.rows).map rowStr} real={(sortRows b.rows).map rowStr} fp model={a.firstPending} real={b.firstPending}", "")
    let (e1, k1) := if r.st.cUp then chk "con_sys" q.cs r.cs else (none, "-")
    let (e2, k2) := if r.st.gUp then chk "gen_sys" q.gs r.gs else (none, "-")
    match e1, e2 with
    | some a, _ => (some a, "")
    | none, some b => (some b, "")
    | none, none => (none, s!"c={k1},g={k2}")

def sizeOK (ex : RefPoly) (r : Poly) (maxRows : Nat) : Bool :=
  ex.n ≤ 5 && r.gs.rows.length ≤ maxRows && r.cs.rows.length ≤ 14

def processLine (line : String) (maxRows : Nat) : IO Unit := do
  let ts := (line.trimAscii.toString.splitOn " ").filter (· != "")
  match ts with
  | "crash" :: sig => IO.println s!"MISMATCH ? crash {" ".intercalate sig}"
  | "end" :: _ => pure ()
  | _ =>
  match parseCase ts with
  | none => if ts.isEmpty then pure () else IO.println s!"skip ? parse"
  | some c =>
    match c.r with
    | none => IO.println s!"MISMATCH {c.id} exc {c.op} threw {c.exc} on valid arguments"
    | some r =>
      if !(wfB c.x && (match c.y with | some y => wfB y | none => true) && wfB r) then
        IO.println s!"MISMATCH {c.id} hyp {c.op} a real state violates Poly.WF (x={wfB c.x} r={wfB r})"
      else if !(wfExtraB c.x && (match c.y with | some y => wfExtraB y | none => true) && wfExtraB r) then
        IO.println s!"MISMATCH {c.id} hyp {c.op} a real state violates the status invariants (x={wfExtraB c.x} r={wfExtraB r})"
      else if c.nnc && c.op == "time_elapse" &&
          (match c.y with | some y => !y.st.empty && y.st.gUp && !y.st.cPend && y.gs.rows.length ≤ 12 && !nncInvB y.dim y.gs.rows | none => false) then
        IO.println s!"MISMATCH {c.id} hyp {c.op} the generators of the NNC argument violate the matching-closure-point invariant"
      else
      let (q, ex, setOK) := runModel c
      let pre := s!"pre={stStr c.x.st} post={stStr r.st} dim={c.x.dim} nnc={if c.nnc then 1 else 0}"
      -- 1. rows
      let (rowErr, rowInfo) := match q with
        | none => (none, "conv")
        | some q => rowCheck q r setOK
      -- 2. the theorem's conclusion on the real rows (also when the rows differ: the caller must know
      --    whether the PROPERTY fails on this input or only the correspondence)
      let semRes : String × Bool := match ex with
        | none => ("sem=noref", true)
        | some ex =>
          if !sizeOK ex r maxRows then ("sem=toolarge", true)
          else match semCheck r ex with
            | none => ("sem=ok", true)
            | some e => (s!"sem=BAD {e}", false)
      match rowErr with
      | some e => IO.println s!"MISMATCH {c.id} rows {c.op} {pre} {semRes.1} | {e}"
      | none =>
        if semRes.2 then IO.println s!"ok {c.id} {c.op} {pre} rows={rowInfo} {semRes.1}"
        else IO.println s!"MISMATCH {c.id} sem {c.op} {pre} rows={rowInfo} {semRes.1}"

partial def loop (h : IO.FS.Stream) (maxRows : Nat) : IO Unit := do
  let line ← h.getLine
  if line.isEmpty then return ()
  let t0 ← IO.monoMsNow
  processLine line maxRows
  let t1 ← IO.monoMsNow
  if t1 - t0 > 2000 then IO.eprintln s!"slow {t1 - t0}ms {line.take 60}"
  loop h maxRows

end PolyOpsDriver

def main (args : List String) : IO UInt32 := do
  let maxRows := match args with
    | ["--max-gens", k] => k.toNat?.getD 10
    | _ => 10
  let stdin ← IO.getStdin
  PolyOpsDriver.loop stdin maxRows
  return 0
