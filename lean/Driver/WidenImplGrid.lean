import PPLV.Widen.ImplGrid
/-!
# `pplv_widenimpl_grid` — replays the journal of `harness/c08_impl_grid.cc` on the code-shaped model of
# /repo/src/Grid_widenings.cc (`PPLV/Widen/ImplGrid.lean`)

One call per `W` line (grammar: see the harness).  For every call
* `state`: the model, run on the journalled members of `x` and `y`, must return exactly the journalled members of
  `x` and `y` after the call (status flags, `con_sys`, `gen_sys`, `dim_kinds`) — obligations `xstate`, `ystate`;
* `tp`: the same token count;
* `mirror`: the model's minimised inputs equal the library's (`xmin`, `ymin`), the model's `select_wider_*` returns the
  rows of the library's private function, row for row in the same order (`select`), the guards of the unchecked row
  accesses hold (`guard`), and the model takes the select path exactly when the library does (`exit`);
* `relation`: the K2 decider agrees with `relation_with(cg) == is_included()` on every supplied congruence;
* the theorems' conclusions on the REAL output, with the verified K2 deciders (`consToGens`, `subsetB`, `equivB`,
  `satCgB`): `sup` (result ⊇ x), `token` (with a token the object is unchanged), `lim_upper` (limited ⊆ plain),
  `lim_keeps` (supplied congruences that x satisfies hold of the result), `cert` (the Grid certificate recomputed from
  the real minimised result is strictly below y's unless the result is y), `certval` (the library's
  `Grid_Certificate` members are the counts of the minimised congruences; the model's `certificate` agrees).
stdout: `ok <id> k=v…` | `MISMATCH <id> <obligation> <detail>` | `skip <id> why`.
-/
open PPLV.Lattice PPLV.Lattice.Red PPLV.Widen PPLV.Widen.ImplGrid

abbrev P := StateT (List String) Option

def tok : P String := do
  match (← get) with
  | [] => failure
  | t :: ts => set ts; pure t

def pInt : P Int := do
  let t ← tok
  match t.toInt? with
  | some i => pure i
  | none => failure

def pNat : P Nat := do
  let i ← pInt
  if i < 0 then failure else pure i.toNat

def pBool : P Bool := do let i ← pNat; pure (i = 1)

def expect (s : String) : P Unit := do
  let t ← tok
  if t = s then pure () else failure

def pMany {α} (n : Nat) (p : P α) : P (List α) := do
  let mut out := []
  for _ in [0:n] do
    out := (← p) :: out
  pure out.reverse

def pDK : P (List Nat) := do expect "DK"; let k ← pNat; pMany k pNat
def pRow : P Row := do let k ← pNat; pMany k pInt
def pGRow : P GRow := do let l ← pNat; let e ← pRow; pure { line := l = 1, e := e }
def pCRow : P CRow := do let e ← pRow; let m ← pInt; pure { e := e, m := m }
def pRows : P (List GRow) := do expect "ROWS"; let r ← pNat; pMany r pGRow
def pCRows : P (List CRow) := do expect "CROWS"; let r ← pNat; pMany r pCRow

/-- `<n> <empty> <cgUp> <cgMin> <genUp> <genMin> <sorted> DK .. CROWS .. ROWS ..` -/
def pState : P (GridM × Bool) := do
  let n ← pNat; let e ← pBool; let cu ← pBool; let cm ← pBool; let gu ← pBool; let gm ← pBool; let sorted ← pBool
  let dk ← pDK; let con ← pCRows; let gen ← pRows
  pure ({ n := n, empty := e, cgUp := cu, cgMin := cm, genUp := gu, genMin := gm, con := con, gen := gen, dk := dk }, sorted)

def showRow (e : Row) : String := "(" ++ ",".intercalate (e.map toString) ++ ")"
def showG (rows : List GRow) : String :=
  "[" ++ " ".intercalate (rows.map fun r => (if r.line then "L" else "P") ++ showRow r.e) ++ "]"
def showC (rows : List CRow) : String :=
  "[" ++ " ".intercalate (rows.map fun r => showRow r.e ++ "%" ++ toString r.m) ++ "]"
def showDK (dk : List Nat) : String := "<" ++ ",".intercalate (dk.map toString) ++ ">"
def b01 (b : Bool) : String := if b then "1" else "0"
def flagsOf (g : GridM) : String := b01 g.empty ++ b01 g.cgUp ++ b01 g.cgMin ++ b01 g.genUp ++ b01 g.genMin
def showM (g : GridM) : String := s!"flags={flagsOf g} dk={showDK g.dk} con={showC g.con} gen={showG g.gen}"

def cgsGrid (n : Nat) (rows : List CRow) : GridGens := consToGens n (cgsOf rows)

/-- the point set of an object, from whichever description is up to date -/
def gridOfM (g : GridM) : Option GridGens :=
  if g.empty then some .empty
  else if g.cgUp then some (cgsGrid g.n g.con)
  else if g.genUp then gensOf g.n g.gen
  else none

/-- `a.contains(b)` with the K2 decider -/
def containsK2 (a b : GridM) : Bool :=
  match gridOfM a, gridOfM b with
  | some A, some B => subsetB B A
  | _, _ => false

/-- `x ⊆ {cg}` with the K2 decider (x is not empty) -/
def satK2 (x : GridM) (cg : CRow) : Bool :=
  match gridOfM x with
  | some X => !X.isEmpty && satCgB X cg.toCg
  | none => false

/-- compare what is meaningful of two objects: flags, `dim_kinds`, and each description that is up to date
    (or the false congruence of an empty grid) -/
def sameState (m r : GridM) : Bool :=
  m.n == r.n && m.empty == r.empty && m.cgUp == r.cgUp && m.cgMin == r.cgMin && m.genUp == r.genUp && m.genMin == r.genMin
    && m.dk == r.dk && m.con == r.con && m.gen == r.gen

def certOfRows (rows : List CRow) : GridCert :=
  { numEqualities := numEqualities rows, numProperCongruences := numProperCongruences rows }

def runOp (op : String) (x y : GridM) (cgs : List CRow) (tp : Option Nat) : Option (GridM × GridM × Option Nat × String) :=
  match op with
  | "congruence_widening" => some (congruenceWideningAssign containsK2 x y tp)
  | "generator_widening" => some (generatorWideningAssign containsK2 x y tp)
  | "widening" => some (wideningAssign containsK2 x y tp)
  | "limited_congruence" => some (limitedCongruenceExtrapolationAssign containsK2 satK2 x y cgs tp)
  | "limited_generator" => some (limitedGeneratorExtrapolationAssign containsK2 satK2 x y cgs tp)
  | "limited" => some (limitedExtrapolationAssign containsK2 satK2 x y cgs tp)
  | _ => none

inductive Mir where
  | none
  | cg (xm ym : GridM) (sel : List CRow)
  | gen (xm ym : GridM) (sel : List GRow)

def pMir : P Mir := do
  expect "MIR"
  let f ← pNat
  if f = 0 then return .none
  let k ← tok
  expect "XM"; let xm ← pState; expect "YM"; let ym ← pState; expect "SEL"
  if k = "C" then return .cg xm.1 ym.1 (← pCRows) else return .gen xm.1 ym.1 (← pRows)

def selectExits : List String := ["all_selected", "token_used", "token_kept", "widened"]

def judge : P (String × List (String × String) × String) := do
  let id ← tok; let op ← tok; let n ← pNat
  expect "TP"; let tp0 ← pInt
  expect "X"; let (x, xsorted) ← pState
  expect "Y"; let (y, ysorted) ← pState
  expect "XMC"; let xmc ← pCRows
  expect "YMC"; let ymc ← pCRows
  expect "LC"; let k ← pNat
  let lcs ← pMany k (do let f ← pBool; let c ← pCRow; pure (f, c))
  expect "PW"; let pwf ← pNat
  let pw ← if pwf = 1 then pCRows else pure []
  let mir ← pMir
  expect "=>"
  expect "TP"; let tp1 ← pInt
  expect "XA"; let (xa, xasorted) ← pState
  expect "YA"; let (ya, _) ← pState
  expect "XAMC"; let xamc ← pCRows
  expect "CERT"; let cyE ← pInt; let cyP ← pInt; let crE ← pInt; let crP ← pInt; let _cmp ← pInt
  let tp : Option Nat := if tp0 < 0 then none else some tp0.toNat
  let cgs := lcs.map (·.2)
  let input := s!"op={op} n={n} tp={tp0} X: {showM x} Y: {showM y}" ++ (if k > 0 then s!" cgs={showC cgs}" else "")
  let mut bad : List (String × String) := []
  if (xsorted && x.genUp) || (ysorted && y.genUp) || (xasorted && xa.genUp) then
    bad := bad ++ [("sorted", s!"a grid's gen_sys carries the sortedness flag (num_lines / num_parameters then take the sorted branch, not modelled): {input}")]
  -- the model
  let some r := runOp op x y cgs tp | failure
  let (mx, my, mtp, exit) := r
  if !sameState mx xa then
    bad := bad ++ [("xstate", s!"{input} exit={exit} lib: {showM xa} model: {showM mx}")]
  if !sameState my ya then
    bad := bad ++ [("ystate", s!"{input} exit={exit} lib: {showM ya} model: {showM my}")]
  let mtpI : Int := match mtp with | none => -1 | some t => (t : Int)
  if mtpI != tp1 then
    bad := bad ++ [("tp", s!"{input} exit={exit} lib tp={tp1} model tp={mtpI}")]
  -- the mirror: minimised inputs and the selection
  let limitedOp := op.startsWith "limited"
  let mut selInfo := ""
  match mir with
  | .none =>
    if !limitedOp && selectExits.contains exit then
      bad := bad ++ [("exit", s!"{input}: the model reaches select_wider_* (exit={exit}), the library returns before")]
  | .cg xm ym sel =>
    let a := x.minimizeCongruences.1
    let b := y.minimizeCongruences.1
    if !sameState a xm then bad := bad ++ [("xmin", s!"{input} lib: {showM xm} model: {showM a}")]
    if !sameState b ym then bad := bad ++ [("ymin", s!"{input} lib: {showM ym} model: {showM b}")]
    let msel := selectWiderCongruences xm.n xm.con xm.dk ym.con ym.dk
    if msel != sel then
      bad := bad ++ [("select", s!"select_wider_congruences x={showDK xm.dk} {showC xm.con} y={showDK ym.dk} {showC ym.con} lib={showC sel} model={showC msel}")]
    if !selectGuardCgs xm.n xm.con xm.dk ym.con ym.dk then
      bad := bad ++ [("guard", s!"select_wider_congruences reads outside a system or the dim_kinds assertion fails: x={showDK xm.dk} {showC xm.con} y={showDK ym.dk} {showC ym.con}")]
    if !(selectExits.contains exit) then
      bad := bad ++ [("exit", s!"{input}: the library reaches select_wider_congruences, the model returns before (exit={exit})")]
    selInfo := s!" path=cg sel={sel.length} of={xm.con.length}"
  | .gen xm ym sel =>
    let a := x.minimizeGenerators
    let b := y.minimizeGenerators
    if !sameState a xm then bad := bad ++ [("xmin", s!"{input} lib: {showM xm} model: {showM a}")]
    if !sameState b ym then bad := bad ++ [("ymin", s!"{input} lib: {showM ym} model: {showM b}")]
    let msel := selectWiderGenerators xm.n xm.gen xm.dk ym.gen ym.dk
    if msel != sel then
      bad := bad ++ [("select", s!"select_wider_generators x={showDK xm.dk} {showG xm.gen} y={showDK ym.dk} {showG ym.gen} lib={showG sel} model={showG msel}")]
    if !selectGuardGens xm.n xm.gen xm.dk ym.gen ym.dk then
      bad := bad ++ [("guard", s!"select_wider_generators reads outside a system or the dim_kinds assertion fails: x={showDK xm.dk} {showG xm.gen} y={showDK ym.dk} {showG ym.gen}")]
    if !(selectExits.contains exit) then
      bad := bad ++ [("exit", s!"{input}: the library reaches select_wider_generators, the model returns before (exit={exit})")]
    selInfo := s!" path=gen sel={numParameters sel} of={numParameters xm.gen}"
  -- relation_with
  for (f, c) in lcs do
    if relationIsIncluded satK2 x c != f then
      bad := bad ++ [("relation", s!"relation_with(cg)==is_included() is {f} but the model (K2 inclusion, proper congruences only) says {relationIsIncluded satK2 x c}: {input} cg={showC [c]}")]
  -- the theorems' conclusions on the real output
  let X := cgsGrid n xmc
  let Y := cgsGrid n ymc
  let R := cgsGrid n xamc
  if !subsetB Y X then
    return (id, bad, "PRECOND")
  if !subsetB X R then
    bad := bad ++ [("sup", s!"the result does not contain the larger argument: {input} result={showC xamc}")]
  if tp0 > 0 then
    if !equivB R X then
      bad := bad ++ [("token", s!"a token was available but the object changed: {input} result={showC xamc}")]
    if !(tp1 == tp0 || tp1 + 1 == tp0) then
      bad := bad ++ [("token", s!"token count {tp0} -> {tp1}: {input}")]
  if pwf = 1 then
    let PWg := cgsGrid n pw
    if tp0 ≤ 0 then
      if !subsetB R PWg then
        bad := bad ++ [("lim_upper", s!"the limited result is not inside the plain widening: {input} result={showC xamc} plain={showC pw}")]
      for (_, c) in lcs do
        if satCgB X c.toCg && !satCgB R c.toCg then
          bad := bad ++ [("lim_keeps", s!"a supplied congruence satisfied by x does not hold of the result: {input} cg={showC [c]} result={showC xamc}")]
  -- certificates
  let cY := certOfRows ymc
  let cR := certOfRows xamc
  if cyE ≥ 0 then
    if cyE != (cY.numEqualities : Int) || cyP != (cY.numProperCongruences : Int) || crE != (cR.numEqualities : Int) || crP != (cR.numProperCongruences : Int) then
      bad := bad ++ [("certval", s!"Grid_Certificate members are not the counts of the minimised congruences: lib y=({cyE},{cyP}) r=({crE},{crP}) counted y=({cY.numEqualities},{cY.numProperCongruences}) r=({cR.numEqualities},{cR.numProperCongruences}): {input}")]
    let mc := certificate xa
    if !xa.empty && mc != cR then
      bad := bad ++ [("certval", s!"the model's certificate of the result object ({mc.numEqualities},{mc.numProperCongruences}) is not ({cR.numEqualities},{cR.numProperCongruences}): {input} XA: {showM xa}")]
  let stationary := equivB R Y
  if !limitedOp && tp0 ≤ 0 && !stationary && cR.compare cY != .lt then
    bad := bad ++ [("cert", s!"the result differs from y but its certificate ({cR.numEqualities},{cR.numProperCongruences}) is not below y's ({cY.numEqualities},{cY.numProperCongruences}): {input} result={showC xamc}")]
  let nsat := (lcs.filter (·.1)).length
  return (id, bad, s!"op={op} n={n} exit={exit} tp={if tp0 < 0 then "null" else if tp0 == 0 then "zero" else "pos"} xflags={flagsOf x} yflags={flagsOf y} stationary={b01 stationary} lossy={b01 (!subsetB R X)} lim={k} limsat={nsat}{selInfo}")

def step (line : String) : List String :=
  let toks := (line.trimAscii.toString.splitOn " ").filter (· ≠ "")
  match toks with
  | "W" :: rest =>
    let id := rest.headD "?"
    match judge.run rest with
    | none => [s!"skip {id} unparsable"]
    | some ((id, bad, info), _) =>
      if info == "PRECOND" then [s!"skip {id} precondition"] ++ bad.map fun (o, d) => s!"MISMATCH {id} {o} {d}"
      else if bad.isEmpty then [s!"ok {id} {info}"]
      else bad.map fun (o, d) => s!"MISMATCH {id} {o} {d}"
  | _ => []

partial def loop (h : IO.FS.Stream) (out : IO.FS.Stream) : IO Unit := do
  let line ← h.getLine
  if line.isEmpty then return ()
  for v in step line do out.putStrLn v
  loop h out

def main (_args : List String) : IO UInt32 := do
  let stdin ← IO.getStdin
  let stdout ← IO.getStdout
  loop stdin stdout
  stdout.flush
  return 0
