import PPLV.COTree.RowOnTree

/-! native driver `pplv_c16reb`: replays the layout journal of `harness/c16_rows.cc --reb 1` on the
code-shaped model `PPLV/COTree/Rebalance.lean`.  For every operation the model runs from the
previous REAL layout (`indexes[]`, `data[]`, `reserved_size`, `max_depth`, `size_`) and must
produce the IDENTICAL next layout and returned iterator (`layout`, `ret`); independently the real
output is judged against the ordered-map contract (`contents`, `invariant`, `retmap`).
`ok <id> <class…>` / `MISMATCH <id> <obligation> <detail>`. -/
open PPLV.COTree

namespace C16RebDriver

def toks (s : String) : List String := (s.splitOn " ").filter (· ≠ "")
def nat! (s : String) : Nat := s.toNat?.getD 0
def int! (s : String) : Int := s.toInt?.getD 0

def parseKV (t : String) : Nat × Int :=
  match t.splitOn ":" with
  | [k, v] => (nat! k, int! v)
  | _ => (0, 0)

/-- the slots `1..rs` from the tokens `key:value` / `_n` -/
def parseCells (ts : List String) : Array Cell := Id.run do
  let mut a : Array Cell := #[]
  for t in ts do
    if t.startsWith "_" then
      let n := nat! (t.drop 1).toString
      for _ in [0:n] do a := a.push none
    else a := a.push (some (parseKV t))
  return a

def showCell : Cell → String
  | none => "_"
  | some (k, v) => s!"{k}:{v}"

def showTree (t : Tree) : String :=
  s!"rs={t.rs} md={t.maxDepth} size={t.size} [" ++ " ".intercalate (t.cells.toList.map showCell) ++ "]"

def showMap (m : SMap) : String := " ".intercalate (m.map (fun p => s!"{p.1}:{p.2}"))

/-- first slot where two layouts differ -/
def firstDiff (a b : Tree) : String := Id.run do
  if a.rs != b.rs then return s!"reserved_size model={a.rs} real={b.rs}"
  if a.maxDepth != b.maxDepth then return s!"max_depth model={a.maxDepth} real={b.maxDepth}"
  if a.size != b.size then return s!"size_ model={a.size} real={b.size}"
  for p in [0:a.cells.size + 1] do
    if a.cell p != b.cell p then
      return s!"slot {p} model={showCell (a.cell p)} real={showCell (b.cell p)}"
  return "cells.size"

def keyStr : Option Nat → String
  | none => "end"
  | some k => toString k

/-- which subtree `rebalance` picks (offset of its root, number of elements): the prefix of `rebalance` -/
def rebalanceInfo (t : Tree) (itr : TIt) : String :=
  if t.rs = 3 then "rs3"
  else
    let d := t.depth itr - 1
    let deleting := t.isUnused itr.i
    match rebalanceLoop t d itr (if deleting then 0 else 2) (2 ^ (t.maxDepth - d) - 1) with
    | none => "walk-above-root"
    | some (it, n) => s!"h={integerLog2 (2 * it.offset) (2 * it.offset)} n={n}"

def classifyIns (t : Tree) (key : Nat) : String :=
  if t.size = 0 then "ins:empty"
  else
    let itr := t.goDownSearchingKey key t.getRoot
    if t.keyAt itr.i = key then "ins:replace"
    else
      let grown := isGreaterThanRatio (t.size + 1) t.rs maxDensityPercent
      let t := if grown then rebuildBiggerTree t else t
      let itr := if grown then t.goDownSearchingKey key t.getRoot else itr
      let g := if grown then "grow+" else ""
      if !itr.isLeaf then s!"ins:{g}child"
      else s!"ins:{g}rebalance {rebalanceInfo { t with size := t.size + 1 } itr}"

/-- how the hint relates to the key: `end`, on the key, adjacent used slot, or `far` (stale) with
    the candidate `insert_precise` is called on (c1 = bisect_near's slot or c2 = the other neighbour) -/
def classifyHint (t : Tree) (hint : Hint) (key : Nat) : String :=
  if t.size = 0 then "hint:empty"
  else match hint with
  | none => "hint:end"
  | some h =>
    let c1 := t.toHoleArray.bisectNear h key
    let rel := if h = c1 then "at-candidate" else if t.keyAt h < key then "stale-below" else "stale-above"
    if t.keyAt c1 = key then s!"hint:{rel}:found"
    else
      let n := hintNode t c1 key
      s!"hint:{rel}:{if n.i = c1 then "c1" else "c2"}"

def classifyEra (t : Tree) (key : Nat) : String :=
  if t.size = 0 then "era:empty"
  else
    let itr := t.goDownSearchingKey key t.getRoot
    if t.keyAt itr.i ≠ key then "era:absent"
    else if t.size = 1 then "era:last"
    else
      let shrink := eraseRebuilds t.size t.rs
      match (if shrink then rebuildSmallerTree t else some t) with
      | none => "era:smaller-fuel"
      | some t =>
        let itr := if shrink then t.goDownSearchingKey key t.getRoot else itr
        let g := if shrink then "shrink+" else ""
        match eraseSink t t.maxDepth itr with
        | none => "era:sink-fuel"
        | some (t1, e) =>
          let sunk := if e.i = itr.i then "" else "sink+"
          s!"era:{g}{sunk}rebalance {rebalanceInfo { t1.setCell e.i none with size := t1.size - 1 } e}"

structure St where
  prev : Tree := init 0
  prevRow : TRow := ⟨0, init 0⟩
  nOk : Nat := 0
  nBad : Nat := 0

abbrev M := StateT St IO

def bad (id obligation detail : String) : M Unit := do
  modify fun s => { s with nBad := s.nBad + 1 }
  IO.println s!"MISMATCH {id} {obligation} {detail}"

/-- key the iterator at slot `p` points to -/
def slotKeyStr (t : Tree) : Option Nat → String
  | none => "end"
  | some p => toString (t.keyAt p)

def parseHint (h : String) : Hint := if h == "end" then none else some (nat! h)

/-- one `W` line: a `Sparse_Row` operation replayed on `TRow` (layout) and judged against `RowOp.sparse` (map) -/
def handleRow (line : String) : M Unit := do
  let secs := (line.splitOn "|").map toks
  match secs with
  | [head, ret, szS, st, sent, cellsT] =>
    match head with
    | "W" :: id :: op :: args =>
      let retS := ret.headD "-"
      let rowSize := nat! (szS.headD "0")
      let (rs, md, sz, okFlag) := match st with
        | [a, b, c, d] => (nat! a, nat! b, nat! c, d)
        | _ => (0, 0, 0, "?")
      let realT : Tree :=
        if rs = 0 then ⟨0, md, sz, #[]⟩
        else
          let (s0, sN) := match sent with | [a, b] => (nat! a, nat! b) | _ => (1, 1)
          ⟨rs, md, sz, (#[(some (s0, 0) : Cell)] ++ parseCells cellsT).push (some (sN, 0))⟩
      let real : TRow := ⟨rowSize, realT⟩
      let s ← get
      let prev := s.prevRow
      let pt := prev.tree
      let keep : Option TRow := some prev
      -- model result, model's returned value, the abstract operation (none = observation only), expected returned value
      let (model, modelRet, absOp, wantRet) : Option TRow × String × Option RowOp × String :=
        match op, args with
        | "new", [n] => (some ⟨nat! n, init 0⟩, "-", none, "-")
        | "set", [i, x] =>
          let r := prev.insert (nat! i) (int! x)
          (r.map (·.1), (match r with | some (q, it) => toString (q.tree.keyAt it.i) | none => "?"), some (.set (nat! i) (int! x)), i)
        | "seth", [h, i, x] =>
          let r := prev.insertHint (parseHint h) (nat! i) (int! x)
          (r.map (·.1), (match r with | some (q, it) => toString (q.tree.keyAt it.i) | none => "?"), some (.set (nat! i) (int! x)), i)
        | "ins0", [i] =>
          let r := prev.insert0 (nat! i)
          (r.map (·.1), (match r with | some (q, it) => toString (q.tree.keyAt it.i) | none => "?"), some (.touch (nat! i)), i)
        | "ins0h", [h, i] =>
          let r := prev.insert0Hint (parseHint h) (nat! i)
          (r.map (·.1), (match r with | some (q, it) => toString (q.tree.keyAt it.i) | none => "?"), some (.touch (nat! i)), i)
        | "reset", [i] => (prev.reset (nat! i), "-", some (.reset (nat! i)), "-")
        | "resetit", [p] =>
          let k := pt.keyAt (nat! p)
          let r := prev.resetAt (nat! p)
          (r.map (·.1), (match r with | some (q, nx) => slotKeyStr q.tree nx | none => "?"), some (.reset k),
            keyStr (SMap.next pt.toList k))
        | "resetafter", [i] => (prev.resetAfter (nat! i), "-", some (.resetFrom (nat! i)), "-")
        | "del", [i] => (prev.deleteElementAndShift (nat! i), "-", some (.deleteShift (nat! i)), "-")
        | "addz", [n, i] => (prev.addZeroesAndShift (nat! n) (nat! i), "-", some (.shiftUp (nat! n) (nat! i)), "-")
        | "swapc", [i, j] => (prev.swapCoefficients (nat! i) (nat! j), "-", some (.swap (nat! i) (nat! j)), "-")
        | "find", [h, i] =>
          (keep, slotKeyStr pt (prev.find (parseHint h) (nat! i)), none,
            if SMap.stored pt.toList (nat! i) then i else "end")
        | "lb", [h, i] =>
          (keep, slotKeyStr pt (prev.lowerBound (parseHint h) (nat! i)), none, keyStr (SMap.lowerBound pt.toList (nat! i)))
        | _, _ => (none, "?", none, "?")
      let mut good := true
      let opS := s!"{op} {" ".intercalate args}"
      -- 1. the property on the real output
      if okFlag != "1" then good := false; bad id "invariant" s!"CO_Tree::OK() is false after {opS} | {showTree realT}"
      if !realT.okB then good := false; bad id "invariant" s!"real tree breaks the invariant after {opS} | {showTree realT}"
      let wantRow : SRow := match op, absOp with
        | "new", _ => ⟨rowSize, []⟩
        | _, some f => f.sparse prev.toSRow
        | _, none => prev.toSRow
      if real.toSRow != wantRow then
        good := false; bad id "contents" s!"{opS}: real row size={rowSize} [{showMap realT.toList}] expected size={wantRow.size} [{showMap wantRow.m}]"
      if retS != wantRet then good := false; bad id "retmap" s!"{opS}: returned {retS}, the map says {wantRet}"
      -- 2. identical layout
      match model with
      | none => good := false; bad id "layout" s!"model loop ran out of fuel on {opS} from {showTree pt}"
      | some m =>
        if m.size != real.size || m.tree != real.tree then
          good := false
          bad id "layout" s!"{opS}: row size model={m.size} real={real.size}; {firstDiff m.tree realT} | model {showTree m.tree} | real {showTree realT}"
        if modelRet != retS then good := false; bad id "ret" s!"{opS}: model returns {modelRet}, library {retS}"
      if good then
        modify fun s => { s with nOk := s.nOk + 1 }
        IO.println s!"ok {id} row:{op} rs={pt.rs}>{rs}"
      modify fun s => { s with prevRow := real }
    | _ => pure ()
  | _ => pure ()

def handle (line : String) : M Unit := do
  if line.startsWith "W " then handleRow line; return
  let secs := (line.splitOn "|").map toks
  match secs with
  | [head, ret, st, sent, cellsT] =>
    match head with
    | "L" :: id :: op :: args =>
      let retS := ret.headD "-"
      let (rs, md, sz, okFlag) := match st with
        | [a, b, c, d] => (nat! a, nat! b, nat! c, d)
        | _ => (0, 0, 0, "?")
      let real : Tree :=
        if rs = 0 then ⟨0, md, sz, #[]⟩
        else
          let (s0, sN) := match sent with | [a, b] => (nat! a, nat! b) | _ => (1, 1)
          ⟨rs, md, sz, (#[(some (s0, 0) : Cell)] ++ parseCells cellsT).push (some (sN, 0))⟩
      let s ← get
      let prev := s.prev
      let prevList := prev.toList
      -- the model's step from the previous real layout
      let (model, modelRet, wantList, wantRet, cls) : Option Tree × String × SMap × String × String :=
        match op, args with
        | "ins", [k, v] =>
          let k := nat! k; let v := int! v
          let r := insert prev k v
          (r.map (·.1), (match r with | some (t, it) => toString (t.keyAt it.i) | none => "?"),
            SMap.set prevList k v, toString k, classifyIns prev k)
        | "insh", [h, k, v] =>
          let k := nat! k; let v := int! v
          let hint : Hint := if h == "end" then none else some (nat! h)
          let r := insertHinted prev hint k v
          (r.map (·.1), (match r with | some (t, it) => toString (t.keyAt it.i) | none => "?"),
            SMap.set prevList k v, toString k, classifyHint prev hint k ++ " " ++ classifyIns prev k)
        | "insh0", [h, k] =>
          let k := nat! k
          let hint : Hint := if h == "end" then none else some (nat! h)
          let r := insertHinted0 prev hint k
          (r.map (·.1), (match r with | some (t, it) => toString (t.keyAt it.i) | none => "?"),
            SMap.touch prevList k, toString k, classifyHint prev hint k ++ "0 " ++ classifyIns prev k)
        | "era", [k] =>
          let k := nat! k
          let r := erase prev k
          (r.map (·.1), (match r with | some (_, x) => keyStr x | none => "?"),
            SMap.erase prevList k, keyStr (SMap.next prevList k), classifyEra prev k)
        | "bulk", kvs =>
          let l := kvs.map parseKV
          (bulk l, "-", l, "-", s!"bulk n={l.length}")
        | _, _ => (none, "?", [], "?", "unknown-op")
      let mut good := true
      -- 1. the property on the real output
      if okFlag != "1" then good := false; bad id "invariant" s!"OK() of the library is false after {op} | {showTree real}"
      if !(rs = 0 && sz = 0) && !real.okB then
        good := false; bad id "invariant" s!"real layout breaks the invariant (shape/count/order/density) after {op} {" ".intercalate args} | {showTree real}"
      if real.toList != wantList then
        good := false; bad id "contents" s!"{op} {" ".intercalate args}: real contents [{showMap real.toList}] expected [{showMap wantList}]"
      if retS != wantRet then
        good := false; bad id "retmap" s!"{op} {" ".intercalate args}: returned iterator {retS}, the map says {wantRet}"
      -- 2. the identical layout
      match model with
      | none => good := false; bad id "layout" s!"model loop ran out of fuel / walked above the root on {op} {" ".intercalate args} from {showTree prev}"
      | some m =>
        if m != real then
          good := false
          bad id "layout" s!"{op} {" ".intercalate args} [{cls}]: {firstDiff m real} | model {showTree m} | real {showTree real}"
        if modelRet != retS then
          good := false; bad id "ret" s!"{op} {" ".intercalate args}: model returns {modelRet}, library {retS}"
      if good then
        modify fun s => { s with nOk := s.nOk + 1 }
        IO.println s!"ok {id} {cls} rs={prev.rs}>{rs}"
      modify fun s => { s with prev := real }
    | _ => pure ()
  | _ =>
    let t := toks line
    match t with
    | "H" :: _ => modify fun s => { s with prev := init 0, prevRow := ⟨0, init 0⟩ }
    | "crash" :: rest => bad "crash" "crash" (" ".intercalate rest)
    | _ => pure ()

partial def loop (h : IO.FS.Stream) : M Unit := do
  let line ← h.getLine
  if line.isEmpty then return
  handle (line.trimAscii.toString)
  loop h

end C16RebDriver

def main (_args : List String) : IO UInt32 := do
  let stdin ← IO.getStdin
  let (_, st) ← (C16RebDriver.loop stdin).run {}
  IO.println s!"summary ok={st.nOk} mismatch={st.nBad}"
  return 0
