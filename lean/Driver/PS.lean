import PPLV.Lin.Parse
import PPLV.Powerset.DNF

/-! `pplv_ps`: judges the journals of `harness/c09_powerset.cc` (pointset powersets) and
`harness/c10_product.cc` (partially reduced products) with the verified K1 procedures.

A powerset is a DNF (`List (List Con)`); its model is advanced by the *specification* of every
operation (union / intersection / difference of unions, disjunct-wise images computed with the K1
reference operators), never by the library's answer; every printed state (`ps`) is compared with
the model by `dnfEquivF` (sound and complete: `C09.dnfSubset_iff`), after which the model is
re-based on the printed disjuncts (same set, so that one defect gives one report and the hull /
entailment diagnostics see the actual sequence).
Verdicts: `ok n`, `skip n why`, `MISMATCH n obligation detail`, `note n text` (model/sequence-level
divergence that does not contradict the property). -/
open PPLV.Lin PPLV.Powerset

inductive Pending
  | eq                                          -- observed union = model
  | sup                                         -- observed union ⊇ model (sound-only base operator)
  | between (hi : DNF)                          -- model ⊆ observed ⊆ hi
  | any                                         -- not modelled: re-base
  | atMost (m : Nat) (exact : Bool)             -- collapse: ≤ m disjuncts; exact: union = model, else ⊇
  | simplify (ctx before : DNF) (sizeBefore : Nat) (baseBroken : Bool)

structure Slot where
  n : Nat
  dj : DNF

structure St where
  dom : String := "C"
  slots : Array (Option Slot) := Array.replicate 8 none
  pend : Array (Option Pending) := Array.replicate 8 none
  hints : Option (Nat × List (List Gen)) := none
  baseBroken : Bool := false
  baseNote : String := ""
  lastRet : Option Bool := none
  maxGens : Nat := 10
  nOk : Nat := 0
  nBad : Nat := 0
  nSkip : Nat := 0
  nNote : Nat := 0
  -- products
  prod : Array (Option (Nat × List Con × List Con)) := Array.replicate 8 none

abbrev M := StateT St IO

def ok (ln : Nat) : M Unit := do
  modify fun s => { s with nOk := s.nOk + 1 }
  IO.println s!"ok {ln}"
def bad (ln : Nat) (what : String) : M Unit := do
  modify fun s => { s with nBad := s.nBad + 1 }
  IO.println s!"MISMATCH {ln} {what}"
def skip (ln : Nat) (why : String) : M Unit := do
  modify fun s => { s with nSkip := s.nSkip + 1 }
  IO.println s!"skip {ln} {why}"
def note (ln : Nat) (what : String) : M Unit := do
  modify fun s => { s with nNote := s.nNote + 1 }
  IO.println s!"note {ln} {what}"

def b2s (b : Bool) : String := if b then "1" else "0"

def getSlot (i : Nat) : M (Option Slot) := do return (← get).slots.getD i none
def setSlot (i : Nat) (p : Option Slot) : M Unit :=
  modify fun s => { s with slots := s.slots.setIfInBounds i p }
def setPend (i : Nat) (p : Option Pending) : M Unit :=
  modify fun s => { s with pend := s.pend.setIfInBounds i p }

/-- parse `k` constraint systems -/
def parseDNF (n : Nat) (k : Nat) (ts : List String) : DNF × List String :=
  let rec go : Nat → List String → DNF → DNF × List String
    | 0, ts, acc => (acc, ts)
    | k+1, ts, acc => let (cs, ts') := parseCS n ts; go k ts' (acc ++ [cs])
  go k ts []

def parseGSs (n : Nat) (k : Nat) (ts : List String) : List (List Gen) × List String :=
  let rec go : Nat → List String → List (List Gen) → List (List Gen) × List String
    | 0, ts, acc => (acc, ts)
    | k+1, ts, acc => let (gs, ts') := parseGS n ts; go k ts' (acc ++ [gs])
  go k ts []

/-- size guard for the exponential splitting -/
def tooBig (A B : DNF) : Bool :=
  let rows (X : DNF) := X.foldl (fun m P => m + P.length) 0
  A.length > 40 || B.length > 40 || rows A > 400 || rows B > 400 || (B.length > 8 && rows B > 90)

def tidyDNF (n : Nat) (A : DNF) : DNF :=
  A.map fun P => if P.length ≤ 10 then P else dropRedundant n [] (tidy P)

/-- disjunct-wise reference operator -/
def mapRef (nnc : Bool) (s : Slot) (f : RefPoly → RefPoly) : Slot :=
  match s.dj with
  | [] => let r := f ⟨nnc, s.n, [falseRow]⟩; ⟨r.n, []⟩
  | _ =>
    let rs := s.dj.map fun P => f ⟨nnc, s.n, P⟩
    ⟨(rs.headD ⟨nnc, s.n, []⟩).n, rs.map (·.cs)⟩

def pairsOf : List String → List (Nat × Nat)
  | a :: b :: r => (tokNat a, tokNat b) :: pairsOf r
  | _ => []

def supStr : Sup → String
  | .empty => "empty"
  | .unbounded => "unbounded"
  | .val p q a => s!"{p}/{q} att={b2s a}"

/-- sup over a union: `none` = empty union -/
def supUnion (n : Nat) (A : DNF) (e : LinExpr) : Sup :=
  A.foldl (fun acc P =>
    match acc, supB n e.coeffs e.k P with
    | a, .empty => a
    | .empty, b => b
    | .unbounded, _ => .unbounded
    | _, .unbounded => .unbounded
    | .val p q a, .val p' q' a' =>
      if p * q' < p' * q then .val p' q' a'
      else if p * q' = p' * q then .val p q (a || a')
      else .val p q a) .empty

def negExpr (e : LinExpr) : LinExpr := ⟨e.coeffs.map (- ·), -e.k⟩

def judgePS (ln : Nat) (si : Nat) (obs : Slot) : M Unit := do
  let st ← get
  let pend := (st.pend.getD si none).getD .eq
  match st.slots.getD si none with
  | none => skip ln "unknown-slot"
  | some m =>
    if (match pend with | .any => true | _ => false) then skip ln "not-modelled"
    else if m.n != obs.n then bad ln s!"space dimension: library {obs.n}, specification {m.n}"
    else
      let n := m.n
      let model := tidyDNF n m.dj
      match pend with
      | .any => skip ln "not-modelled"
      | .eq =>
        if model == obs.dj then ok ln
        else if tooBig model obs.dj then skip ln "size-skipped"
        else if dnfEquivF n model obs.dj then ok ln
        else
          let lost := !dnfSubsetF n model obs.dj
          bad ln s!"union {if lost then "lost points of" else "exceeds"} the specified set (slot {si}: model {model.length} disjuncts, library {obs.dj.length})"
      | .sup =>
        if tooBig model obs.dj then skip ln "size-skipped"
        else if dnfSubsetF n model obs.dj then ok ln
        else bad ln s!"union lost points of the specified set (slot {si}, sound-only operator)"
      | .between hi =>
        if tooBig model obs.dj || tooBig obs.dj hi then skip ln "size-skipped"
        else if !dnfSubsetF n model obs.dj then bad ln s!"union lost points of the specified set (slot {si})"
        else if !dnfSubsetF n obs.dj hi then bad ln s!"union exceeds the closure of the specified set (slot {si})"
        else ok ln
      | .atMost k exact =>
        if obs.dj.length > k then bad ln s!"collapse left {obs.dj.length} disjuncts, at most {k} allowed"
        else if tooBig model obs.dj then skip ln "size-skipped"
        else if !dnfSubsetF n model obs.dj then bad ln s!"collapse lost points of the union (slot {si})"
        else if exact && !dnfSubsetF n obs.dj model then
          bad ln s!"collapse result exceeds the base-level upper bound (slot {si})"
        else ok ln
      | .simplify ctx before sizeBefore baseBroken =>
        let tag := if baseBroken then "base=broken" else "base=ok"
        let lhs := dnfMeet obs.dj ctx
        let rhs := dnfMeet before ctx
        if obs.dj.length > sizeBefore then
          bad ln s!"simplify_size: {obs.dj.length} disjuncts after, {sizeBefore} before {tag}"
        else if tooBig lhs rhs then skip ln "size-skipped"
        else if !dnfEquivF n lhs rhs then
          let lost := !dnfSubsetF n rhs lhs
          bad ln s!"simplify_meet: meet with the context {if lost then "lost points" else "gained points"} {tag} {st.baseNote}"
        else match st.lastRet with
          | some false =>
            if dnfEmpty n rhs then ok ln else bad ln s!"simplify_ret: returned false but the meet is not empty {tag}"
          | _ => ok ln
  setSlot si (some obs)
  setPend si none

/-- the specification of an operator on the model; returns the new model and what to expect -/
def applyOp (st : St) (s : Slot) (name : String) (args : List String) : Slot × Pending :=
  let nnc := st.dom == "N"
  let poly := st.dom == "C" || st.dom == "N"
  let n := s.n
  let other (t : String) : Option Slot := st.slots.getD (tokNat t) none
  let inexact : Pending := if poly then .eq else .sup
  match name, args with
  | "omega_reduce", _ => (s, .eq)
  | "pairwise_reduce", _ => (s, .eq)
  | "add_disjunct", a => ({ s with dj := s.dj ++ [(parseCS n a).1] }, .eq)
  | "meet", [t] => match other t with
    | some q => ({ s with dj := dnfMeet s.dj q.dj }, .eq)
    | none => (s, .any)
  | "ub", [t] => match other t with
    | some q => ({ s with dj := s.dj ++ q.dj }, .eq)
    | none => (s, .any)
  | "diff", [t] => match other t with
    | some q =>
      let d := dnfMinus n s.dj q.dj
      if st.dom == "N" then ({ s with dj := d }, .eq)
      else if st.dom == "C" then ({ s with dj := d }, .between (dnfRelax n d))
      else ({ s with dj := d }, .sup)
    | none => (s, .any)
  | "add_cons", a => ({ s with dj := dnfAddCons s.dj (parseCS n a).1 }, .eq)
  | "aff_img", v :: d :: a =>
    (mapRef nnc s fun p => p.affineImage (tokNat v) (parseExpr n a).1 (tokInt d), inexact)
  | "aff_pre", v :: d :: a =>
    (mapRef nnc s fun p => p.affinePreimage (tokNat v) (parseExpr n a).1 (tokInt d), inexact)
  | "add_dims_embed", [m] => (mapRef nnc s fun p => p.addDimsEmbed (tokNat m), .eq)
  | "add_dims_project", [m] => (mapRef nnc s fun p => p.addDimsProject (tokNat m), .eq)
  | "remove_dims", _ :: vs => (mapRef nnc s fun p => p.removeDims (vs.map tokNat), .eq)
  | "remove_higher", [m] => (mapRef nnc s fun p => p.removeHigherDims (tokNat m), .eq)
  | "map_dims", nOut :: _ :: prs => (mapRef nnc s fun p => p.mapDims (tokNat nOut) (pairsOf prs), .eq)
  | "expand", [v, m] => (mapRef nnc s fun p => p.expandDim (tokNat v) (tokNat m), .eq)
  | "closure", _ => (mapRef nnc s fun p => p.closure, .eq)
  | "concat", [t] => match other t with
    | some q =>
      let dj := s.dj.flatMap fun P => q.dj.map fun Q =>
        (RefPoly.concat ⟨nnc, n, P⟩ ⟨nnc, q.n, Q⟩).cs
      (⟨n + q.n, dj⟩, .eq)
    | none => (s, .any)
  | "simplify", [t, sz] => match other t with
    | some q => (s, .simplify q.dj s.dj (tokNat sz) st.baseBroken)
    | none => (s, .any)
  | "collapse", _ | "collapse_max", _ =>
    let m := if name == "collapse" then 1 else tokNat (args.headD "1")
    if s.dj.length ≤ m then (s, .atMost (max m s.dj.length) true)
    else
      let keep := s.dj.take (m - 1)
      match st.hints with
      | some (k, gss) =>
        let tail := (gss.drop (m - 1)).flatten
        if k == s.dj.length && gss.length == s.dj.length && tail.length ≤ st.maxGens then
          ({ s with dj := keep ++ [gensToCons n tail] }, .atMost m poly)
        else (s, .atMost m false)
      | none => (s, .atMost m false)
  | _, _ => (s, .any)

def processLine (ln : Nat) (line : String) : M Unit := do
  let ts := (line.trimAscii.toString.splitOn " ").filter (· ≠ "")
  match ts with
  | "hist" :: _ :: _ :: dom :: _ =>
    modify fun s => { s with dom := dom, slots := Array.replicate 8 none, pend := Array.replicate 8 none,
                             hints := none, baseBroken := false, baseNote := "", lastRet := none,
                             prod := Array.replicate 8 none }
  | "new" :: s :: n :: k :: rest =>
    let nn := tokNat n
    setSlot (tokNat s) (some ⟨nn, (parseDNF nn (tokNat k) rest).1⟩); setPend (tokNat s) none
  | ["newu", s, n] => setSlot (tokNat s) (some ⟨tokNat n, [[]]⟩); setPend (tokNat s) none
  | ["newe", s, n] => setSlot (tokNat s) (some ⟨tokNat n, []⟩); setPend (tokNat s) none
  | ["copy", d, s] => do
    let st ← get
    setSlot (tokNat d) (st.slots.getD (tokNat s) none)
    setPend (tokNat d) (st.pend.getD (tokNat s) none)
  | ["swap", a, b] => do
    let st ← get
    let (ia, ib) := (tokNat a, tokNat b)
    modify fun st' => { st' with
      slots := (st.slots.setIfInBounds ia (st.slots.getD ib none)).setIfInBounds ib (st.slots.getD ia none),
      pend := (st.pend.setIfInBounds ia (st.pend.getD ib none)).setIfInBounds ib (st.pend.getD ia none) }
  | "hintg" :: s :: k :: rest => do
    match ← getSlot (tokNat s) with
    | none => skip ln "unknown-slot"
    | some m =>
      let (gss, _) := parseGSs m.n (tokNat k) rest
      let mg := (← get).maxGens
      if gss.length != m.dj.length then
        modify fun st => { st with hints := none }; skip ln "hint-shape"
      else if gss.any (fun gs => gs.length > mg) then
        modify fun st => { st with hints := none }; skip ln "hint-too-large"
      else if (gss.zip m.dj).all fun (gs, cs) => gensWF m.n gs && checkDD m.n cs gs then
        modify fun st => { st with hints := some (tokNat k, gss) }; ok ln
      else
        modify fun st => { st with hints := none }
        bad ln s!"hint: generators of a copy of slot {s} do not denote its disjuncts"
  | "basesimp" :: n :: rest => do
    let nn := tokNat n
    let (x, r1) := parseCS nn rest
    let (y, r2) := parseCS nn r1
    let (r, r3) := parseCS nn r2
    let b := r3.headD "1" == "1"
    let meetOk := equivB nn (r ++ y) (x ++ y)
    let enlOk := subsetB nn x r
    let retOk := b || !feasible nn (x ++ y)
    if meetOk && enlOk && retOk then ok ln
    else
      let what := (if meetOk then "" else "not-meet-preserving ") ++ (if enlOk then "" else "not-an-enlargement ")
        ++ (if retOk then "" else "false-on-nonempty-meet")
      modify fun st => { st with baseBroken := true, baseNote := s!"[base-level simplify_using_context_assign: {what}]" }
      note ln s!"base-level simplify_using_context_assign breaks its contract: {what}"
  | ["ret", b] => modify fun st => { st with lastRet := some (b == "1") }
  | "op" :: s :: name :: args => do
    let si := tokNat s
    let st ← get
    match st.slots.getD si none with
    | some m =>
      let (m', p) := applyOp st m name args
      setSlot si (some m'); setPend si (some p)
    | none => pure ()
    modify fun st => { st with hints := none, lastRet := none }
    if name != "simplify" then modify fun st => { st with baseBroken := false, baseNote := "" }
  | "exc" :: cls :: _ => bad ln s!"unexpected exception {cls}"
  | ["notok", s] => bad ln s!"OK() returned false for slot {s}"
  | "ps" :: s :: n :: k :: rest => do
    let nn := tokNat n
    judgePS ln (tokNat s) ⟨nn, (parseDNF nn (tokNat k) rest).1⟩
    modify fun st => { st with baseBroken := false, baseNote := "" }
  | "q" :: s :: qn :: rest => do
    let st ← get
    match st.slots.getD (tokNat s) none with
    | none => skip ln "unknown-slot"
    | some p =>
      if (st.pend.getD (tokNat s) none).isSome then skip ln "stale-model"
      else
      let n := p.n
      let nnc := st.dom == "N"
      let other (t : String) : Option Slot :=
        match st.slots.getD (tokNat t) none, st.pend.getD (tokNat t) none with
        | some q, none => if q.n == n then some q else none
        | _, _ => none
      let exact (model : Bool) (ans : String) (what : String) : M Unit :=
        if b2s model == ans then ok ln else bad ln s!"{what}: library {ans}, the union dictates {b2s model}"
      let definite (ans : String) (geometric : Bool) (seqLevel : Bool) (what : String) : M Unit :=
        if ans == "1" && !geometric then bad ln s!"{what}: library answers true, the unions dictate false"
        else if b2s seqLevel != ans then note ln s!"{what}: library {ans}, the disjunct-level definition gives {b2s seqLevel}"
        else ok ln
      let withOther (t : String) (f : Slot → M Unit) : M Unit :=
        match other t with
        | some q => if tooBig p.dj q.dj then skip ln "size-skipped" else f q
        | none => skip ln "unknown-slot"
      let a0 := rest.getD 0 ""
      let a1 := rest.getD 1 ""
      if qn == "is_empty" then exact (dnfEmpty n p.dj) a0 "is_empty"
      else if qn == "is_universe" then
        let geo := dnfSubsetF n [[]] p.dj
        definite a0 geo (p.dj.any fun P => subsetB n [] P) "is_universe"
      else if qn == "is_bounded" then
        exact (p.dj.all fun P => (RefPoly.mk nnc n P).isBounded) a0 "is_bounded"
      else if qn == "contains" then
        withOther a0 fun q => definite a1 (dnfSubsetF n q.dj p.dj) (q.dj.all fun Q => p.dj.any fun P => subsetB n Q P) "contains"
      else if qn == "strictly_contains" then
        withOther a0 fun q => (if a1 == "1" && !dnfSubsetF n q.dj p.dj then bad ln "strictly_contains: library answers true, the unions dictate false" else ok ln)
      else if qn == "disjoint" then withOther a0 fun q => exact (dnfDisjoint n p.dj q.dj) a1 "is_disjoint_from"
      else if qn == "geom_covers" then withOther a0 fun q => exact (dnfSubsetF n q.dj p.dj) a1 "geometrically_covers"
      else if qn == "geom_equals" then withOther a0 fun q => exact (dnfEquivF n q.dj p.dj) a1 "geometrically_equals"
      else if qn == "entails" then
        withOther a0 fun q => definite a1 (dnfSubsetF n p.dj q.dj) (p.dj.all fun P => q.dj.any fun Q => subsetB n P Q) "definitely_entails"
      else if qn == "equals" then
        withOther a0 fun q => (if a1 == "1" && !dnfEquivF n p.dj q.dj then bad ln "operator==: library answers true, the unions differ" else ok ln)
      else if qn == "bounds_above" || qn == "bounds_below" then
        let (e, r) := parseExpr n rest
        let e' := if qn == "bounds_above" then e else negExpr e
        exact (match supUnion n p.dj e' with | .unbounded => false | _ => true) (r.getD 0 "") qn
      else if qn == "max" || qn == "min" then
        let (e, r) := parseExpr n rest
        let s := if qn == "max" then supUnion n p.dj e
                 else match supUnion n p.dj (negExpr e) with
                   | .val a b c => .val (-a) b c
                   | o => o
        match r with
        | ["none"] =>
          (match s with
           | .val .. => bad ln s!"{qn}: library reports no optimum, the union dictates {supStr s}"
           | _ => ok ln)
        | [num, den, incl] =>
          (match s with
           | .val a b c =>
             if decide (a * tokInt den = tokInt num * b) && (c == (incl == "1")) then ok ln
             else bad ln s!"{qn}: library {num}/{den} incl={incl}, the union dictates {supStr s}"
           | _ => bad ln s!"{qn}: library {num}/{den}, the union dictates {supStr s}")
        | _ => skip ln "parse"
      else if qn == "relcon" then
        let (rows, r') := parseCon n rest
        match r' with
        | [fd, fs, fi, fsat] =>
          let rel := rest.getD 0 ""
          let k := rest.getD 1 ""
          let cf := (takeInts n (rest.drop 2)).1
          let hyper := eqRows cf (tokInt k)
          let rows' := if rel == "=" then hyper else rows
          let dj := p.dj.all fun P => disjointB n P rows'
          let inc := p.dj.all fun P => subsetB n P rows'
          let sat := p.dj.all fun P => subsetB n P hyper
          let si := !dj && !inc
          if (fd == b2s dj) && (fi == b2s inc) && (fs == b2s si) && (fsat == b2s sat) then ok ln
          else
            let onlyS := (fd == b2s dj) && (fi == b2s inc) && (fsat == b2s sat)
            let emp := p.dj.any fun P => isEmptyB n P
            bad ln s!"relation_with(constraint): library D{fd} S{fs} I{fi} T{fsat}, the union dictates D{b2s dj} S{b2s si} I{b2s inc} T{b2s sat} onlyS={b2s onlyS} emptyDisjunct={b2s emp}"
        | _ => skip ln "parse"
      else if qn == "size" then pure ()
      else skip ln s!"unknown-query {qn}"
  | "crash" :: sig => bad ln s!"crash {" ".intercalate sig}"
  | _ => pure ()

partial def loop (h : IO.FS.Stream) (ln : Nat) : M Unit := do
  let line ← h.getLine
  if line.isEmpty then return ()
  let t0 ← IO.monoMsNow
  processLine ln line
  let t1 ← IO.monoMsNow
  if t1 - t0 > 500 then IO.eprintln s!"slow {ln} {t1 - t0}ms {line.take 80}"
  loop h (ln + 1)

def main (_args : List String) : IO UInt32 := do
  let stdin ← IO.getStdin
  let ((), st) ← (loop stdin 1).run {}
  IO.println s!"summary ok={st.nOk} mismatch={st.nBad} skipped={st.nSkip} notes={st.nNote}"
  return 0
