import PPLV.Lin.Parse
import PPLV.Powerset.DNF
import PPLV.Product.Judge

/-! `pplv_ps`: judges the journals of `harness/c09_powerset.cc` (pointset powersets) and
`harness/c10_product.cc` (partially reduced products) with the verified K1 procedures.

A powerset is a DNF (`List (List Con)`); its model is advanced by the *specification* of every
operation (union / intersection / difference of unions, disjunct-wise images computed with the K1
reference operators), never by the library's answer; every printed state (`ps`) is compared with
the model by `dnfEquivF` (sound and complete: `C09.dnfSubset_iff`), after which the model is
re-based on the printed disjuncts (same set, so that one defect gives one report and the hull /
entailment diagnostics see the actual sequence).
Verdicts: `ok n`, `skip n why`, `MISMATCH n obligation detail`, `note n text` (model/sequence-level
divergence that does not contradict the property). -/
open PPLV.Lin PPLV.Powerset PPLV.Product

inductive Pending
  | eq                                          -- observed union = model
  | sup                                         -- observed union ⊇ model (sound-only base operator)
  | between (hi : DNF)                          -- model ⊆ observed ⊆ hi
  | any                                         -- not modelled: re-base
  | atMost (m : Nat) (exact : Bool)             -- collapse: ≤ m disjuncts; exact: union = model, else ⊇
  | simplify (ctx before : DNF) (sizeBefore : Nat) (baseBroken : Bool)

structure Slot where
  n : Nat
  dj : DNF

/-- one component of a product as printed by the harness -/
inductive Comp
  | poly (cs : List Con)
  | grid (empty : Bool) (cgs : List Cgr) (gens : List GGen)
deriving Inhabited

structure PState where
  n : Nat
  c1 : Comp
  c2 : Comp
deriving Inhabited

structure St where
  dom : String := "C"
  slots : Array (Option Slot) := Array.replicate 8 none
  pend : Array (Option Pending) := Array.replicate 8 none
  hints : Option (Nat × List (List Gen)) := none
  baseBroken : Bool := false
  baseNote : String := ""
  lastRet : Option Bool := none
  maxGens : Nat := 10
  nOk : Nat := 0
  nBad : Nat := 0
  nSkip : Nat := 0
  nNote : Nat := 0
  -- products: last claimed raw components, last observed ones, component-wise result of a `pimp`
  praw : Array (Option PState) := Array.replicate 8 none
  pcur : Array (Option PState) := Array.replicate 8 none
  pcw : Option PState := none
  pimp : Option (Nat × String × List String) := none
  policy : String := ""
  nSampled : Nat := 0
  nChanged : Nat := 0

abbrev M := StateT St IO

def ok (ln : Nat) : M Unit := do
  modify fun s => { s with nOk := s.nOk + 1 }
  IO.println s!"ok {ln}"
def bad (ln : Nat) (what : String) : M Unit := do
  modify fun s => { s with nBad := s.nBad + 1 }
  IO.println s!"MISMATCH {ln} {what}"
def skip (ln : Nat) (why : String) : M Unit := do
  modify fun s => { s with nSkip := s.nSkip + 1 }
  IO.println s!"skip {ln} {why}"
def note (ln : Nat) (what : String) : M Unit := do
  modify fun s => { s with nNote := s.nNote + 1 }
  IO.println s!"note {ln} {what}"

def b2s (b : Bool) : String := if b then "1" else "0"

def getSlot (i : Nat) : M (Option Slot) := do return (← get).slots.getD i none
def setSlot (i : Nat) (p : Option Slot) : M Unit :=
  modify fun s => { s with slots := s.slots.setIfInBounds i p }
def setPend (i : Nat) (p : Option Pending) : M Unit :=
  modify fun s => { s with pend := s.pend.setIfInBounds i p }

/-- parse `k` constraint systems -/
def parseDNF (n : Nat) (k : Nat) (ts : List String) : DNF × List String :=
  let rec go : Nat → List String → DNF → DNF × List String
    | 0, ts, acc => (acc, ts)
    | k+1, ts, acc => let (cs, ts') := parseCS n ts; go k ts' (acc ++ [cs])
  go k ts []

def parseGSs (n : Nat) (k : Nat) (ts : List String) : List (List Gen) × List String :=
  let rec go : Nat → List String → List (List Gen) → List (List Gen) × List String
    | 0, ts, acc => (acc, ts)
    | k+1, ts, acc => let (gs, ts') := parseGS n ts; go k ts' (acc ++ [gs])
  go k ts []

/-- size guard for the exponential splitting -/
def tooBig (A B : DNF) : Bool :=
  let rows (X : DNF) := X.foldl (fun m P => m + P.length) 0
  A.length > 40 || B.length > 40 || rows A > 400 || rows B > 400 || (B.length > 8 && rows B > 90)

def tidyDNF (n : Nat) (A : DNF) : DNF :=
  A.map fun P => if P.length ≤ 10 then P else dropRedundant n [] (tidy P)

/-- disjunct-wise reference operator -/
def mapRef (nnc : Bool) (s : Slot) (f : RefPoly → RefPoly) : Slot :=
  match s.dj with
  | [] => let r := f ⟨nnc, s.n, [falseRow]⟩; ⟨r.n, []⟩
  | _ =>
    let rs := s.dj.map fun P => f ⟨nnc, s.n, P⟩
    ⟨(rs.headD ⟨nnc, s.n, []⟩).n, rs.map (·.cs)⟩

def pairsOf : List String → List (Nat × Nat)
  | a :: b :: r => (tokNat a, tokNat b) :: pairsOf r
  | _ => []

def supStr : Sup → String
  | .empty => "empty"
  | .unbounded => "unbounded"
  | .val p q a => s!"{p}/{q} att={b2s a}"

/-- sup over a union: `none` = empty union -/
def supUnion (n : Nat) (A : DNF) (e : LinExpr) : Sup :=
  A.foldl (fun acc P =>
    match acc, supB n e.coeffs e.k P with
    | a, .empty => a
    | .empty, b => b
    | .unbounded, _ => .unbounded
    | _, .unbounded => .unbounded
    | .val p q a, .val p' q' a' =>
      if p * q' < p' * q then .val p' q' a'
      else if p * q' = p' * q then .val p q (a || a')
      else .val p q a) .empty

def negExpr (e : LinExpr) : LinExpr := ⟨e.coeffs.map (- ·), -e.k⟩

def judgePS (ln : Nat) (si : Nat) (obs : Slot) : M Unit := do
  let st ← get
  let pend := (st.pend.getD si none).getD .eq
  match st.slots.getD si none with
  | none => skip ln "unknown-slot"
  | some m =>
    if (match pend with | .any => true | _ => false) then skip ln "not-modelled"
    else if m.n != obs.n then bad ln s!"space dimension: library {obs.n}, specification {m.n}"
    else
      let n := m.n
      let model := tidyDNF n m.dj
      match pend with
      | .any => skip ln "not-modelled"
      | .eq =>
        if model == obs.dj then ok ln
        else if tooBig model obs.dj then skip ln "size-skipped"
        else if dnfEquivF n model obs.dj then ok ln
        else
          let lost := !dnfSubsetF n model obs.dj
          bad ln s!"union {if lost then "lost points of" else "exceeds"} the specified set (slot {si}: model {model.length} disjuncts, library {obs.dj.length})"
      | .sup =>
        if tooBig model obs.dj then skip ln "size-skipped"
        else if dnfSubsetF n model obs.dj then ok ln
        else bad ln s!"union lost points of the specified set (slot {si}, sound-only operator)"
      | .between hi =>
        if tooBig model obs.dj || tooBig obs.dj hi then skip ln "size-skipped"
        else if !dnfSubsetF n model obs.dj then bad ln s!"union lost points of the specified set (slot {si})"
        else if !dnfSubsetF n obs.dj hi then bad ln s!"union exceeds the closure of the specified set (slot {si})"
        else ok ln
      | .atMost k exact =>
        if obs.dj.length > k then bad ln s!"collapse left {obs.dj.length} disjuncts, at most {k} allowed"
        else if tooBig model obs.dj then skip ln "size-skipped"
        else if !dnfSubsetF n model obs.dj then bad ln s!"collapse lost points of the union (slot {si})"
        else if exact && !dnfSubsetF n obs.dj model then
          bad ln s!"collapse result exceeds the base-level upper bound (slot {si})"
        else ok ln
      | .simplify ctx before sizeBefore baseBroken =>
        let tag := if baseBroken then "base=broken" else "base=ok"
        let lhs := dnfMeet obs.dj ctx
        let rhs := dnfMeet before ctx
        if obs.dj.length > sizeBefore then
          bad ln s!"simplify_size: {obs.dj.length} disjuncts after, {sizeBefore} before {tag}"
        else if tooBig lhs rhs then skip ln "size-skipped"
        else if !dnfEquivF n lhs rhs then
          let lost := !dnfSubsetF n rhs lhs
          bad ln s!"simplify_meet: meet with the context {if lost then "lost points" else "gained points"} {tag} {st.baseNote}"
        else match st.lastRet with
          | some false =>
            if dnfEmpty n rhs then ok ln else bad ln s!"simplify_ret: returned false but the meet is not empty {tag}"
          | _ => ok ln
  setSlot si (some obs)
  setPend si none

/-- the specification of an operator on the model; returns the new model and what to expect -/
def applyOp (st : St) (s : Slot) (name : String) (args : List String) : Slot × Pending :=
  let nnc := st.dom == "N"
  let poly := st.dom == "C" || st.dom == "N"
  let n := s.n
  let other (t : String) : Option Slot := st.slots.getD (tokNat t) none
  let inexact : Pending := if poly then .eq else .sup
  match name, args with
  | "omega_reduce", _ => (s, .eq)
  | "pairwise_reduce", _ => (s, .eq)
  | "add_disjunct", a => ({ s with dj := s.dj ++ [(parseCS n a).1] }, .eq)
  | "meet", [t] => match other t with
    | some q => ({ s with dj := dnfMeet s.dj q.dj }, .eq)
    | none => (s, .any)
  | "ub", [t] => match other t with
    | some q => ({ s with dj := s.dj ++ q.dj }, .eq)
    | none => (s, .any)
  | "diff", [t] => match other t with
    | some q =>
      let d := dnfMinus n s.dj q.dj
      if st.dom == "N" then ({ s with dj := d }, .eq)
      else if st.dom == "C" then ({ s with dj := d }, .between (dnfRelax n d))
      else ({ s with dj := d }, .sup)
    | none => (s, .any)
  | "add_cons", a => ({ s with dj := dnfAddCons s.dj (parseCS n a).1 }, .eq)
  | "aff_img", v :: d :: a =>
    (mapRef nnc s fun p => p.affineImage (tokNat v) (parseExpr n a).1 (tokInt d), inexact)
  | "aff_pre", v :: d :: a =>
    (mapRef nnc s fun p => p.affinePreimage (tokNat v) (parseExpr n a).1 (tokInt d), inexact)
  | "add_dims_embed", [m] => (mapRef nnc s fun p => p.addDimsEmbed (tokNat m), .eq)
  | "add_dims_project", [m] => (mapRef nnc s fun p => p.addDimsProject (tokNat m), .eq)
  | "remove_dims", _ :: vs => (mapRef nnc s fun p => p.removeDims (vs.map tokNat), .eq)
  | "remove_higher", [m] => (mapRef nnc s fun p => p.removeHigherDims (tokNat m), .eq)
  | "map_dims", nOut :: _ :: prs => (mapRef nnc s fun p => p.mapDims (tokNat nOut) (pairsOf prs), .eq)
  | "expand", [v, m] => (mapRef nnc s fun p => p.expandDim (tokNat v) (tokNat m), .eq)
  | "closure", _ => (mapRef nnc s fun p => p.closure, .eq)
  | "concat", [t] => match other t with
    | some q =>
      let dj := s.dj.flatMap fun P => q.dj.map fun Q =>
        (RefPoly.concat ⟨nnc, n, P⟩ ⟨nnc, q.n, Q⟩).cs
      (⟨n + q.n, dj⟩, .eq)
    | none => (s, .any)
  | "simplify", [t, sz] => match other t with
    | some q => (s, .simplify q.dj s.dj (tokNat sz) st.baseBroken)
    | none => (s, .any)
  | "collapse", _ | "collapse_max", _ =>
    let m := if name == "collapse" then 1 else tokNat (args.headD "1")
    if s.dj.length ≤ m then (s, .atMost (max m s.dj.length) true)
    else
      let keep := s.dj.take (m - 1)
      match st.hints with
      | some (k, gss) =>
        let tail := (gss.drop (m - 1)).flatten
        if k == s.dj.length && gss.length == s.dj.length && tail.length ≤ st.maxGens then
          ({ s with dj := keep ++ [gensToCons n tail] }, .atMost m poly)
        else (s, .atMost m false)
      | none => (s, .atMost m false)
  | _, _ => (s, .any)

/-! ### products -/

def parseCgrs (n : Nat) (ts : List String) : List Cgr × List String :=
  match ts with
  | m :: rest =>
    let rec go : Nat → List String → List Cgr → List Cgr × List String
      | 0, ts, acc => (acc, ts)
      | k+1, ts, acc =>
        match ts with
        | md :: kk :: r =>
          let (cf, r') := takeInts n r
          go k r' (acc ++ [⟨tokInt md, tokInt kk, cf⟩])
        | _ => (acc, [])
    go (tokNat m) rest []
  | [] => ([], [])

def parseGGens (n : Nat) (ts : List String) : List GGen × List String :=
  match ts with
  | m :: rest =>
    let rec go : Nat → List String → List GGen → List GGen × List String
      | 0, ts, acc => (acc, ts)
      | k+1, ts, acc =>
        match ts with
        | kd :: d :: r =>
          let (cf, r') := takeInts n r
          let kind := if kd == "l" then GK.line else if kd == "q" then GK.param else GK.point
          go k r' (acc ++ [⟨kind, tokInt d, cf⟩])
        | _ => (acc, [])
    go (tokNat m) rest []
  | [] => ([], [])

def parseComp (n : Nat) (ts : List String) : Comp × List String :=
  match ts with
  | "P" :: rest => let (cs, r) := parseCS n rest; (.poly cs, r)
  | "G" :: "1" :: _ :: _ :: rest => (.grid true [] [], rest)
  | "G" :: "0" :: rest =>
    let (cgs, r1) := parseCgrs n rest
    let (gs, r2) := parseGGens n r1
    (.grid false cgs gs, r2)
  | _ => (.poly [], [])

def parsePState (ts : List String) : Option PState :=
  match ts with
  | n :: rest =>
    let nn := tokNat n
    let (c1, r1) := parseComp nn rest
    let (c2, _) := parseComp nn r1
    some ⟨nn, c1, c2⟩
  | _ => none

/-- a component that K1 can express: polyhedra, empty grids, grids given by equalities only -/
def Comp.asPoly? : Comp → Option (List Con)
  | .poly cs => some cs
  | .grid true _ _ => some [falseRow]
  | .grid false cgs _ =>
    if cgs.all (fun c => c.m == 0) then some (cgs.flatMap fun c => eqRows c.coeffs c.k) else none

def Comp.isGrid : Comp → Bool
  | .grid .. => true
  | _ => false

def Comp.mem (c : Comp) (x : List Rat) : Bool :=
  match c with
  | .poly cs => allHold cs x
  | .grid true _ _ => false
  | .grid false cgs _ => cgs.all (cgrHolds · x)

/-- `a ⊆ b` for two printings of the same kind of component; `none` = cannot decide -/
def compSubset (n : Nat) (a b : Comp) : Option Bool :=
  match a, b with
  | .poly x, .poly y => some (subsetB n x y)
  | .grid true _ _, .grid .. => some true
  | .grid false _ ga, .grid true _ _ => some ga.isEmpty
  | .grid false _ ga, .grid false cb _ =>
    some (ga.all fun g =>
      match g.kind with
      | .point => cb.all (cgrHolds · g.vec)
      | .param => cb.all (cgrHoldsDir · g.vec false)
      | .line => cb.all (cgrHoldsDir · g.vec true))
  | _, _ => none

/-- the intersection of the two components as one constraint system, when K1 can express it -/
def PState.meet? (p : PState) : Option (List Con) :=
  match p.c1.asPoly?, p.c2.asPoly? with
  | some a, some b => some (a ++ b)
  | _, _ => none

def PState.mem (p : PState) (x : List Rat) : Bool := p.c1.mem x && p.c2.mem x

/-- sample points of the intersection: lattice points of the grid component inside the other one -/
def PState.samples (p : PState) : List (List Rat) :=
  let pts := match p.c1, p.c2 with
    | .grid false _ g, _ => gridSamples p.n g
    | _, .grid false _ g => gridSamples p.n g
    | _, _ => []
  pts.filter p.mem

inductive Incl | yes | no (why : String) | sampledOk (k : Nat)

/-- is `meet a ⊆ meet b`?  exact through K1 when both are expressible, else by sampling `a` -/
def meetSubset (a b : PState) : Incl :=
  match a.meet?, b.meet? with
  | some x, some y => if subsetB a.n x y then .yes else .no "K1"
  | _, _ =>
    let ss := a.samples
    match ss.find? (fun x => !b.mem x) with
    | some x => .no s!"sample point {x}"
    | none => .sampledOk ss.length

def verdictIncl (ln : Nat) (what : String) (r : Incl) : M Bool := do
  match r with
  | .yes => return true
  | .sampledOk k => modify (fun st => { st with nSampled := st.nSampled + k }); return true
  | .no why => bad ln s!"{what} ({why})"; return false

def Comp.isEmptyC (n : Nat) : Comp → Bool
  | .poly cs => !feasible n cs
  | .grid e _ _ => e

/-- `pobs` after `praw`: components shrink, intersection unchanged -/
def judgeReduce (ln : Nat) (what : String) (raw obs : PState) : M Unit := do
  let pol := (← get).policy
  if raw.n != obs.n then bad ln s!"{what}: space dimension {obs.n}, expected {raw.n}"
  else
    match compSubset raw.n obs.c1 raw.c1, compSubset raw.n obs.c2 raw.c2 with
    | some true, some true =>
      if ← verdictIncl ln s!"{what}: the reduction lost a common point of the components" (meetSubset raw obs) then
        if (pol == "smash" || pol == "constraints") && (obs.c1.isEmptyC obs.n != obs.c2.isEmptyC obs.n) then
          bad ln s!"smash_propagation: after the {pol} reduction exactly one component is empty (Smash_Reduction propagates emptiness)"
        else match raw.meet?, obs.meet? with
        | some _, some _ => ok ln
        | _, _ => IO.println s!"ok {ln} sampled"; modify fun st => { st with nOk := st.nOk + 1 }
    | some false, _ => bad ln s!"{what}: component 1 is not contained in the component it was reduced from"
    | _, some false => bad ln s!"{what}: component 2 is not contained in the component it was reduced from"
    | _, _ => skip ln "component-kind"

/-- the lower bound `image(meet of the raw operands) ⊆ meet(obs)` of an operator that reduces first -/
def judgeImplicit (ln : Nat) (name : String) (args : List String) (x : PState) (y : Option PState)
    (cw obs : PState) : M Unit := do
  let n := x.n
  -- upper bound (monotone operators): components within the component-wise result on the raw operands
  let monotone := name != "diff"
  let up1 := if monotone then compSubset obs.n obs.c1 cw.c1 else some true
  let up2 := if monotone then compSubset obs.n obs.c2 cw.c2 else some true
  if up1 == some false || up2 == some false then
    bad ln s!"{name}: a component exceeds the component-wise result on the unreduced operands"
  else
    let exactPair := x.meet?.isSome && obs.meet?.isSome && (y.map (·.meet?.isSome)).getD true
    if exactPair then
      let mx := x.meet?.getD []
      let mo := obs.meet?.getD []
      let my := (y.bind (·.meet?)).getD []
      let lower : DNF :=
        if name == "unconstrain" then [(RefPoly.unconstrain ⟨true, n, mx⟩ [tokNat (args.headD "0")]).cs]
        else if name == "ub" then [mx, my]
        else if name == "diff" then dnfMinus n [mx] [my]
        else if name == "time_elapse" then (if feasible n my then [mx] else [])
        else []
      if dnfSubsetF n lower [mo] then ok ln
      else bad ln s!"{name}: the result does not contain the exact image of the operands' intersections"
    else
      -- sampling
      let sx := x.samples
      let sy := (y.map (·.samples)).getD []
      let cand : List (List Rat) :=
        if name == "unconstrain" then
          let v := tokNat (args.headD "0")
          sx.flatMap fun p => [(-2 : Rat), -1, 0, 1, 3].map fun d => p.set v (p.getD v 0 + d)
        else if name == "ub" then sx ++ sy
        else if name == "diff" then sx.filter fun p => !((y.map (·.mem p)).getD false)
        else if name == "time_elapse" then (if sy.isEmpty then [] else sx)
        else []
      -- `unconstrain` leaves the lattice: only the non-grid component can be sampled soundly
      let cand := if name == "unconstrain" then [] else cand
      match cand.find? (fun p => !obs.mem p) with
      | some p => bad ln s!"{name}: the result lost the point {p} of the exact image"
      | none =>
        modify fun st => { st with nSampled := st.nSampled + cand.length, nOk := st.nOk + 1 }
        IO.println s!"ok {ln} sampled"

def judgePQ (ln : Nat) (st : St) (s : String) (qn : String) (rest : List String) : M Unit := do
  match st.pcur.getD (tokNat s) none with
  | none => skip ln "unknown-slot"
  | some p =>
    let n := p.n
    let a0 := rest.getD 0 ""
    let a1 := rest.getD 1 ""
    let other (t : String) : Option PState := st.pcur.getD (tokNat t) none
    match p.meet? with
    | some m =>
      -- exact judgement of the definite answers on the intersection
      let definite (ans : String) (truth : Bool) (what : String) : M Unit :=
        if ans == "1" && !truth then bad ln s!"{what}: library answers true, the intersection dictates false" else ok ln
      if qn == "is_empty" then definite a0 (!feasible n m) "is_empty"
      else if qn == "is_universe" then definite a0 (subsetB n [] m) "is_universe"
      else if qn == "is_bounded" then definite a0 ((RefPoly.mk true n m).isBounded || !feasible n m) "is_bounded"
      else if qn == "contains" || qn == "strictly_contains" then
        match (other a0).bind (·.meet?) with
        | some mt => definite a1 (subsetB n mt m) qn
        | none => skip ln "other-not-expressible"
      else if qn == "disjoint" then
        match (other a0).bind (·.meet?) with
        | some mt => definite a1 (disjointB n m mt) "is_disjoint_from"
        | none => skip ln "other-not-expressible"
      else if qn == "bounds_above" || qn == "bounds_below" then
        let (e, r) := parseExpr n rest
        let e' := if qn == "bounds_above" then e else negExpr e
        definite (r.getD 0 "") (match supB n e'.coeffs e'.k m with | .unbounded => false | _ => true) qn
      else if qn == "max" || qn == "min" then
        let (e, r) := parseExpr n rest
        match r with
        | [num, den, _] =>
          let e' := if qn == "max" then e else negExpr e
          let (nu, de) := if qn == "max" then (tokInt num, tokInt den) else (- tokInt num, tokInt den)
          (match supB n e'.coeffs e'.k m with
           | .val a b _ => if decide (a * de ≤ nu * b) then ok ln
                           else bad ln s!"{qn}: library bound {num}/{den} is not a bound of the intersection (optimum {a}/{b})"
           | .unbounded => bad ln s!"{qn}: library bound {num}/{den}, the intersection is unbounded"
           | .empty => ok ln)
        | _ => ok ln
      else if qn == "relcon" then
        let (rows, r') := parseCon n rest
        match r' with
        | [fd, _, fi, fsat] =>
          let rel := rest.getD 0 ""
          let k := rest.getD 1 ""
          let cf := (takeInts n (rest.drop 2)).1
          let hyper := eqRows cf (tokInt k)
          let rows' := if rel == "=" then hyper else rows
          if fd == "1" && !disjointB n m rows' then bad ln "relation_with(constraint): is_disjoint reported, the intersection meets the constraint"
          else if fi == "1" && !subsetB n m rows' then bad ln "relation_with(constraint): is_included reported, the intersection is not included"
          else if fsat == "1" && !subsetB n m hyper then bad ln "relation_with(constraint): saturates reported, the intersection does not saturate"
          else ok ln
        | _ => skip ln "parse"
      else skip ln s!"unknown-query {qn}"
    | none =>
      -- grid pair: refutation by sampled common points
      let ss := p.samples
      let refute (ans : String) (cex : Option (List Rat)) (what : String) : M Unit :=
        match ans, cex with
        | "1", some x => bad ln s!"{what}: library answers true, refuted by the common point {x}"
        | _, _ => do
          modify fun st => { st with nSampled := st.nSampled + ss.length, nOk := st.nOk + 1 }
          IO.println s!"ok {ln} sampled"
      if qn == "is_empty" then refute a0 ss.head? "is_empty"
      else if qn == "contains" || qn == "strictly_contains" then
        match other a0 with
        | some t => refute a1 (t.samples.find? fun x => !p.mem x) qn
        | none => skip ln "unknown-slot"
      else if qn == "disjoint" then
        match other a0 with
        | some t => refute a1 (ss.find? fun x => t.mem x) "is_disjoint_from"
        | none => skip ln "unknown-slot"
      else if qn == "relcon" then
        let (rows, r') := parseCon n rest
        match r' with
        | [fd, _, fi, fsat] =>
          let rel := rest.getD 0 ""
          let k := rest.getD 1 ""
          let cf := (takeInts n (rest.drop 2)).1
          let hyper := eqRows cf (tokInt k)
          let rows' := if rel == "=" then hyper else rows
          if fd == "1" && ss.any (allHold rows') then bad ln "relation_with(constraint): is_disjoint reported, refuted by a sampled common point"
          else if fi == "1" && ss.any (fun x => !allHold rows' x) then bad ln "relation_with(constraint): is_included reported, refuted by a sampled common point"
          else if fsat == "1" && ss.any (fun x => !allHold hyper x) then bad ln "relation_with(constraint): saturates reported, refuted by a sampled common point"
          else refute "0" none "relcon"
        | _ => skip ln "parse"
      else if qn == "max" || qn == "min" then
        let (e, r) := parseExpr n rest
        match r with
        | [num, den, _] =>
          let v : Rat := (tokInt num : Rat) / (tokInt den : Rat)
          let val (x : List Rat) : Rat := dotQ e.coeffs x + (e.k : Rat)
          let cex := ss.find? fun x => if qn == "max" then decide (v < val x) else decide (val x < v)
          refute "1" cex qn
        | _ => refute "0" none qn
      else skip ln "grid-pair-not-judged"

def processLine (ln : Nat) (line : String) : M Unit := do
  let ts := (line.trimAscii.toString.splitOn " ").filter (· ≠ "")
  match ts with
  | "hist" :: _ :: _ :: dom :: more =>
    modify fun s => { s with dom := dom, policy := more.getD 1 "", slots := Array.replicate 8 none, pend := Array.replicate 8 none,
                             hints := none, baseBroken := false, baseNote := "", lastRet := none,
                             praw := Array.replicate 8 none, pcur := Array.replicate 8 none, pcw := none, pimp := none }
  | "new" :: s :: n :: k :: rest =>
    let nn := tokNat n
    setSlot (tokNat s) (some ⟨nn, (parseDNF nn (tokNat k) rest).1⟩); setPend (tokNat s) none
  | ["newu", s, n] => setSlot (tokNat s) (some ⟨tokNat n, [[]]⟩); setPend (tokNat s) none
  | ["newe", s, n] => setSlot (tokNat s) (some ⟨tokNat n, []⟩); setPend (tokNat s) none
  | ["copy", d, s] => do
    let st ← get
    setSlot (tokNat d) (st.slots.getD (tokNat s) none)
    setPend (tokNat d) (st.pend.getD (tokNat s) none)
  | ["swap", a, b] => do
    let st ← get
    let (ia, ib) := (tokNat a, tokNat b)
    modify fun st' => { st' with
      slots := (st.slots.setIfInBounds ia (st.slots.getD ib none)).setIfInBounds ib (st.slots.getD ia none),
      pend := (st.pend.setIfInBounds ia (st.pend.getD ib none)).setIfInBounds ib (st.pend.getD ia none) }
  | "hintg" :: s :: k :: rest => do
    match ← getSlot (tokNat s) with
    | none => skip ln "unknown-slot"
    | some m =>
      let (gss, _) := parseGSs m.n (tokNat k) rest
      let mg := (← get).maxGens
      if gss.length != m.dj.length then
        modify fun st => { st with hints := none }; skip ln "hint-shape"
      else if gss.any (fun gs => gs.length > mg) then
        modify fun st => { st with hints := none }; skip ln "hint-too-large"
      else if (gss.zip m.dj).all fun (gs, cs) => gensWF m.n gs && checkDD m.n cs gs then
        modify fun st => { st with hints := some (tokNat k, gss) }; ok ln
      else
        modify fun st => { st with hints := none }
        bad ln s!"hint: generators of a copy of slot {s} do not denote its disjuncts"
  | "basesimp" :: n :: rest => do
    let nn := tokNat n
    let (x, r1) := parseCS nn rest
    let (y, r2) := parseCS nn r1
    let (r, r3) := parseCS nn r2
    let b := r3.headD "1" == "1"
    let meetOk := equivB nn (r ++ y) (x ++ y)
    let enlOk := subsetB nn x r
    let retOk := b || !feasible nn (x ++ y)
    if meetOk && enlOk && retOk then ok ln
    else
      let what := (if meetOk then "" else "not-meet-preserving ") ++ (if enlOk then "" else "not-an-enlargement ")
        ++ (if retOk then "" else "false-on-nonempty-meet")
      modify fun st => { st with baseBroken := true, baseNote := s!"[base-level simplify_using_context_assign: {what}]" }
      note ln s!"base-level simplify_using_context_assign breaks its contract: {what}"
  | ["ret", b] => modify fun st => { st with lastRet := some (b == "1") }
  | "op" :: s :: name :: args => do
    let si := tokNat s
    let st ← get
    match st.slots.getD si none with
    | some m =>
      let (m', p) := applyOp st m name args
      setSlot si (some m'); setPend si (some p)
    | none => pure ()
    modify fun st => { st with hints := none, lastRet := none }
    if name != "simplify" then modify fun st => { st with baseBroken := false, baseNote := "" }
  | "exc" :: cls :: _ => bad ln s!"unexpected exception {cls}"
  | ["notok", s] => bad ln s!"OK() returned false for slot {s}"
  | "ps" :: s :: n :: k :: rest => do
    let nn := tokNat n
    judgePS ln (tokNat s) ⟨nn, (parseDNF nn (tokNat k) rest).1⟩
    modify fun st => { st with baseBroken := false, baseNote := "" }
  | "q" :: s :: qn :: rest => do
    let st ← get
    match st.slots.getD (tokNat s) none with
    | none => skip ln "unknown-slot"
    | some p =>
      if (st.pend.getD (tokNat s) none).isSome then skip ln "stale-model"
      else
      let n := p.n
      let nnc := st.dom == "N"
      let other (t : String) : Option Slot :=
        match st.slots.getD (tokNat t) none, st.pend.getD (tokNat t) none with
        | some q, none => if q.n == n then some q else none
        | _, _ => none
      let exact (model : Bool) (ans : String) (what : String) : M Unit :=
        if b2s model == ans then ok ln else bad ln s!"{what}: library {ans}, the union dictates {b2s model}"
      let definite (ans : String) (geometric : Bool) (seqLevel : Bool) (what : String) : M Unit :=
        if ans == "1" && !geometric then bad ln s!"{what}: library answers true, the unions dictate false"
        else if b2s seqLevel != ans then note ln s!"{what}: library {ans}, the disjunct-level definition gives {b2s seqLevel}"
        else ok ln
      let withOther (t : String) (f : Slot → M Unit) : M Unit :=
        match other t with
        | some q => if tooBig p.dj q.dj then skip ln "size-skipped" else f q
        | none => skip ln "unknown-slot"
      let a0 := rest.getD 0 ""
      let a1 := rest.getD 1 ""
      if qn == "is_empty" then exact (dnfEmpty n p.dj) a0 "is_empty"
      else if qn == "is_universe" then
        let geo := dnfSubsetF n [[]] p.dj
        definite a0 geo (p.dj.any fun P => subsetB n [] P) "is_universe"
      else if qn == "is_bounded" then
        exact (p.dj.all fun P => (RefPoly.mk nnc n P).isBounded) a0 "is_bounded"
      else if qn == "contains" then
        withOther a0 fun q => definite a1 (dnfSubsetF n q.dj p.dj) (q.dj.all fun Q => p.dj.any fun P => subsetB n Q P) "contains"
      else if qn == "strictly_contains" then
        withOther a0 fun q => (if a1 == "1" && !dnfSubsetF n q.dj p.dj then bad ln "strictly_contains: library answers true, the unions dictate false" else ok ln)
      else if qn == "disjoint" then withOther a0 fun q => exact (dnfDisjoint n p.dj q.dj) a1 "is_disjoint_from"
      else if qn == "geom_covers" then withOther a0 fun q => exact (dnfSubsetF n q.dj p.dj) a1 "geometrically_covers"
      else if qn == "geom_equals" then withOther a0 fun q => exact (dnfEquivF n q.dj p.dj) a1 "geometrically_equals"
      else if qn == "entails" then
        withOther a0 fun q => definite a1 (dnfSubsetF n p.dj q.dj) (p.dj.all fun P => q.dj.any fun Q => subsetB n P Q) "definitely_entails"
      else if qn == "equals" then
        withOther a0 fun q => (if a1 == "1" && !dnfEquivF n p.dj q.dj then bad ln "operator==: library answers true, the unions differ" else ok ln)
      else if qn == "bounds_above" || qn == "bounds_below" then
        let (e, r) := parseExpr n rest
        let e' := if qn == "bounds_above" then e else negExpr e
        exact (match supUnion n p.dj e' with | .unbounded => false | _ => true) (r.getD 0 "") qn
      else if qn == "max" || qn == "min" then
        let (e, r) := parseExpr n rest
        let s := if qn == "max" then supUnion n p.dj e
                 else match supUnion n p.dj (negExpr e) with
                   | .val a b c => .val (-a) b c
                   | o => o
        match r with
        | ["none"] =>
          (match s with
           | .val .. => bad ln s!"{qn}: library reports no optimum, the union dictates {supStr s}"
           | _ => ok ln)
        | [num, den, incl] =>
          (match s with
           | .val a b c =>
             if decide (a * tokInt den = tokInt num * b) && (c == (incl == "1")) then ok ln
             else bad ln s!"{qn}: library {num}/{den} incl={incl}, the union dictates {supStr s}"
           | _ => bad ln s!"{qn}: library {num}/{den}, the union dictates {supStr s}")
        | _ => skip ln "parse"
      else if qn == "relcon" then
        let (rows, r') := parseCon n rest
        match r' with
        | [fd, fs, fi, fsat] =>
          let rel := rest.getD 0 ""
          let k := rest.getD 1 ""
          let cf := (takeInts n (rest.drop 2)).1
          let hyper := eqRows cf (tokInt k)
          let rows' := if rel == "=" then hyper else rows
          let dj := p.dj.all fun P => disjointB n P rows'
          let inc := p.dj.all fun P => subsetB n P rows'
          let sat := p.dj.all fun P => subsetB n P hyper
          let si := !dj && !inc
          if (fd == b2s dj) && (fi == b2s inc) && (fs == b2s si) && (fsat == b2s sat) then ok ln
          else
            let onlyS := (fd == b2s dj) && (fi == b2s inc) && (fsat == b2s sat)
            let emp := p.dj.any fun P => isEmptyB n P
            bad ln s!"relation_with(constraint): library D{fd} S{fs} I{fi} T{fsat}, the union dictates D{b2s dj} S{b2s si} I{b2s inc} T{b2s sat} onlyS={b2s onlyS} emptyDisjunct={b2s emp}"
        | _ => skip ln "parse"
      else if qn == "size" then pure ()
      else skip ln s!"unknown-query {qn}"
  | "praw" :: s :: rest =>
    modify fun st => { st with praw := st.praw.setIfInBounds (tokNat s) (parsePState rest),
                               pcur := st.pcur.setIfInBounds (tokNat s) (parsePState rest) }
  | "pnew" :: s :: _ =>
    modify fun st => { st with praw := st.praw.setIfInBounds (tokNat s) none, pcur := st.pcur.setIfInBounds (tokNat s) none }
  | ["pcopy", d, s] =>
    modify fun st => { st with praw := st.praw.setIfInBounds (tokNat d) (st.praw.getD (tokNat s) none),
                               pcur := st.pcur.setIfInBounds (tokNat d) (st.pcur.getD (tokNat s) none) }
  | "pop" :: s :: _ =>
    -- component-wise operator: the raw state will be printed before the next observation
    modify fun st => { st with praw := st.praw.setIfInBounds (tokNat s) none, pcur := st.pcur.setIfInBounds (tokNat s) none }
  | "pimp" :: s :: name :: args =>
    modify fun st => { st with pimp := some (tokNat s, name, args), pcw := none }
  | "pcw" :: _ :: rest => modify fun st => { st with pcw := parsePState rest }
  | "pexp" :: _ => pure ()
  | "pobs" :: s :: rest => do
    let st ← get
    let si := tokNat s
    match parsePState rest with
    | none => skip ln "parse"
    | some obs =>
      match st.pimp, st.pcw with
      | some (sj, name, args), some cw =>
        if sj == si then
          match st.praw.getD si none with
          | some x =>
            let y := match args with
              | [t] => if name == "unconstrain" then none else st.praw.getD (tokNat t) none
              | _ => none
            if name != "unconstrain" && y.isNone then skip ln "operand-unknown"
            else judgeImplicit ln name args x y cw obs
          | none => skip ln "operand-unknown"
        else skip ln "pimp-slot"
      | _, _ =>
        match st.praw.getD si none with
        | some raw => judgeReduce ln "reduce" raw obs
        | none => skip ln "raw-unknown"
      modify fun st => { st with praw := st.praw.setIfInBounds si (some obs), pcur := st.pcur.setIfInBounds si (some obs),
                                 pimp := none, pcw := none }
  | "pq" :: s :: qn :: rest => do
    let st ← get
    judgePQ ln st s qn rest
    -- the predicate may have reduced the product: the next `pobs` is judged against the same raw state
  | "crash" :: sig => bad ln s!"crash {" ".intercalate sig}"
  | _ => pure ()

partial def loop (h : IO.FS.Stream) (ln : Nat) : M Unit := do
  let line ← h.getLine
  if line.isEmpty then return ()
  let t0 ← IO.monoMsNow
  processLine ln line
  let t1 ← IO.monoMsNow
  if t1 - t0 > 500 then IO.eprintln s!"slow {ln} {t1 - t0}ms {line.take 80}"
  loop h (ln + 1)

def main (_args : List String) : IO UInt32 := do
  let stdin ← IO.getStdin
  let ((), st) ← (loop stdin 1).run {}
  IO.println s!"summary ok={st.nOk} mismatch={st.nBad} skipped={st.nSkip} notes={st.nNote} sampled={st.nSampled}"
  return 0
