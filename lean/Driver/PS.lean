import PPLV.Lin.Parse
import PPLV.Powerset.DNF
import PPLV.Product.Judge
import PPLV.Powerset.ExactReplay

/-! `pplv_ps`: judges the journals of `harness/c09_powerset.cc` (pointset powersets) and
`harness/c10_product.cc` (partially reduced products) with the verified K1 procedures.

A powerset is a DNF (`List (List Con)`); its model is advanced by the *specification* of every
operation (union / intersection / difference of unions, disjunct-wise images computed with the K1
reference operators), never by the library's answer; every printed state (`ps`) is compared with
the model by `dnfEquivF` (sound and complete: `C09.dnfSubset_iff`), after which the model is
re-based on the printed disjuncts (same set, so that one defect gives one report and the hull /
entailment diagnostics see the actual sequence).
Verdicts: `ok n`, `skip n why`, `MISMATCH n obligation detail`, `note n text` (model/sequence-level
divergence that does not contradict the property). -/
open PPLV.Lin PPLV.Powerset PPLV.Product

inductive Pending
  | eq                                          -- observed union = model
  | sup                                         -- observed union ⊇ model (sound-only base operator)
  | between (hi : DNF)                          -- model ⊆ observed ⊆ hi
  | any                                         -- not modelled: re-base
  | atMost (m : Nat) (exact : Bool)             -- collapse: ≤ m disjuncts; exact: union = model, else ⊇
  | simplify (ctx before : DNF) (sizeBefore : Nat) (baseBroken : Bool)

structure Slot where
  n : Nat
  dj : DNF

/-- one component of a product as printed by the harness -/
inductive Comp
  | poly (cs : List Con)
  | grid (empty : Bool) (cgs : List Cgr) (gens : List GGen)
deriving Inhabited

structure PState where
  n : Nat
  c1 : Comp
  c2 : Comp
deriving Inhabited

/-- what the driver knows about one product -/
structure PSlot where
  cur : Option PState := none          -- last printed components (raw or observed): same intersection
  raw : Option PState := none          -- components the next observation is a reduction of
  low : Option (Nat × DNF) := none     -- exact image of the intersection through the operators applied since
  pts : List (List Rat) := []          -- witness points of that image
  exact : Bool := false                -- `cur` was observed and no operator has been applied since
deriving Inhabited

structure St where
  dom : String := "C"
  slots : Array (Option Slot) := Array.replicate 8 none
  pend : Array (Option Pending) := Array.replicate 8 none
  hints : Option (Nat × List (List Gen)) := none
  baseBroken : Bool := false
  baseNote : String := ""
  lastRet : Option Bool := none
  maxGens : Nat := 10
  nOk : Nat := 0
  nBad : Nat := 0
  nSkip : Nat := 0
  nNote : Nat := 0
  -- products
  pslots : Array PSlot := Array.replicate 4 {}
  policy : String := ""
  nSampled : Nat := 0
  nExactEnum : Nat := 0

abbrev M := StateT St IO

def ok (ln : Nat) : M Unit := do
  modify fun s => { s with nOk := s.nOk + 1 }
  IO.println s!"ok {ln}"
def bad (ln : Nat) (what : String) : M Unit := do
  modify fun s => { s with nBad := s.nBad + 1 }
  IO.println s!"MISMATCH {ln} {what}"
def skip (ln : Nat) (why : String) : M Unit := do
  modify fun s => { s with nSkip := s.nSkip + 1 }
  IO.println s!"skip {ln} {why}"
def note (ln : Nat) (what : String) : M Unit := do
  modify fun s => { s with nNote := s.nNote + 1 }
  IO.println s!"note {ln} {what}"

def b2s (b : Bool) : String := if b then "1" else "0"

def getSlot (i : Nat) : M (Option Slot) := do return (← get).slots.getD i none
def setSlot (i : Nat) (p : Option Slot) : M Unit :=
  modify fun s => { s with slots := s.slots.setIfInBounds i p }
def setPend (i : Nat) (p : Option Pending) : M Unit :=
  modify fun s => { s with pend := s.pend.setIfInBounds i p }

/-- parse `k` constraint systems -/
def parseDNF (n : Nat) (k : Nat) (ts : List String) : DNF × List String :=
  let rec go : Nat → List String → DNF → DNF × List String
    | 0, ts, acc => (acc, ts)
    | k+1, ts, acc => let (cs, ts') := parseCS n ts; go k ts' (acc ++ [cs])
  go k ts []

def parseGSs (n : Nat) (k : Nat) (ts : List String) : List (List Gen) × List String :=
  let rec go : Nat → List String → List (List Gen) → List (List Gen) × List String
    | 0, ts, acc => (acc, ts)
    | k+1, ts, acc => let (gs, ts') := parseGS n ts; go k ts' (acc ++ [gs])
  go k ts []

/-- size guard for the exponential splitting -/
def tooBig (A B : DNF) : Bool :=
  let rows (X : DNF) := X.foldl (fun m P => m + P.length) 0
  A.length > 40 || B.length > 40 || rows A > 400 || rows B > 400 || (B.length > 8 && rows B > 90)

def tidyDNF (n : Nat) (A : DNF) : DNF :=
  A.map fun P => if P.length ≤ 10 then P else dropRedundant n [] (tidy P)

/-- disjunct-wise reference operator -/
def mapRef (nnc : Bool) (s : Slot) (f : RefPoly → RefPoly) : Slot :=
  match s.dj with
  | [] => let r := f ⟨nnc, s.n, [falseRow]⟩; ⟨r.n, []⟩
  | _ =>
    let rs := s.dj.map fun P => f ⟨nnc, s.n, P⟩
    ⟨(rs.headD ⟨nnc, s.n, []⟩).n, rs.map (·.cs)⟩

def pairsOf : List String → List (Nat × Nat)
  | a :: b :: r => (tokNat a, tokNat b) :: pairsOf r
  | _ => []

def supStr : Sup → String
  | .empty => "empty"
  | .unbounded => "unbounded"
  | .val p q a => s!"{p}/{q} att={b2s a}"

/-- sup over a union: `none` = empty union -/
def supUnion (n : Nat) (A : DNF) (e : LinExpr) : Sup :=
  A.foldl (fun acc P =>
    match acc, supB n e.coeffs e.k P with
    | a, .empty => a
    | .empty, b => b
    | .unbounded, _ => .unbounded
    | _, .unbounded => .unbounded
    | .val p q a, .val p' q' a' =>
      if p * q' < p' * q then .val p' q' a'
      else if p * q' = p' * q then .val p q (a || a')
      else .val p q a) .empty

def negExpr (e : LinExpr) : LinExpr := ⟨e.coeffs.map (- ·), -e.k⟩

def judgePS (ln : Nat) (si : Nat) (obs : Slot) : M Unit := do
  let st ← get
  let pend := (st.pend.getD si none).getD .eq
  match st.slots.getD si none with
  | none => skip ln "unknown-slot"
  | some m =>
    if (match pend with | .any => true | _ => false) then skip ln "not-modelled"
    else if m.n != obs.n then bad ln s!"space dimension: library {obs.n}, specification {m.n}"
    else
      let n := m.n
      let model := tidyDNF n m.dj
      match pend with
      | .any => skip ln "not-modelled"
      | .eq =>
        if model == obs.dj then ok ln
        else if tooBig model obs.dj then skip ln "size-skipped"
        else if dnfEquivF n model obs.dj then ok ln
        else
          let lost := !dnfSubsetF n model obs.dj
          bad ln s!"union {if lost then "lost points of" else "exceeds"} the specified set (slot {si}: model {model.length} disjuncts, library {obs.dj.length})"
      | .sup =>
        if tooBig model obs.dj then skip ln "size-skipped"
        else if dnfSubsetF n model obs.dj then ok ln
        else bad ln s!"union lost points of the specified set (slot {si}, sound-only operator)"
      | .between hi =>
        if tooBig model obs.dj || tooBig obs.dj hi then skip ln "size-skipped"
        else if !dnfSubsetF n model obs.dj then bad ln s!"union lost points of the specified set (slot {si})"
        else if !dnfSubsetF n obs.dj hi then bad ln s!"union exceeds the closure of the specified set (slot {si})"
        else ok ln
      | .atMost k exact =>
        if obs.dj.length > k then bad ln s!"collapse left {obs.dj.length} disjuncts, at most {k} allowed"
        else if tooBig model obs.dj then skip ln "size-skipped"
        else if !dnfSubsetF n model obs.dj then bad ln s!"collapse lost points of the union (slot {si})"
        else if exact && !dnfSubsetF n obs.dj model then
          bad ln s!"collapse result exceeds the base-level upper bound (slot {si})"
        else ok ln
      | .simplify ctx before sizeBefore baseBroken =>
        let tag := if baseBroken then "base=broken" else "base=ok"
        let lhs := dnfMeet obs.dj ctx
        let rhs := dnfMeet before ctx
        if obs.dj.length > sizeBefore then
          bad ln s!"simplify_size: {obs.dj.length} disjuncts after, {sizeBefore} before {tag}"
        else if tooBig lhs rhs then skip ln "size-skipped"
        else if !dnfEquivF n lhs rhs then
          let lost := !dnfSubsetF n rhs lhs
          bad ln s!"simplify_meet: meet with the context {if lost then "lost points" else "gained points"} {tag} {st.baseNote}"
        else match st.lastRet with
          | some false =>
            if dnfEmpty n rhs then ok ln else bad ln s!"simplify_ret: returned false but the meet is not empty {tag}"
          | _ => ok ln
  setSlot si (some obs)
  setPend si none

/-- the specification of an operator on the model; returns the new model and what to expect -/
def applyOp (st : St) (s : Slot) (name : String) (args : List String) : Slot × Pending :=
  let nnc := st.dom == "N"
  let poly := st.dom == "C" || st.dom == "N"
  let n := s.n
  let other (t : String) : Option Slot := st.slots.getD (tokNat t) none
  let inexact : Pending := if poly then .eq else .sup
  match name, args with
  | "omega_reduce", _ => (s, .eq)
  | "pairwise_reduce", _ => (s, .eq)
  | "add_disjunct", a => ({ s with dj := s.dj ++ [(parseCS n a).1] }, .eq)
  | "meet", [t] => match other t with
    | some q => ({ s with dj := dnfMeet s.dj q.dj }, .eq)
    | none => (s, .any)
  | "ub", [t] => match other t with
    | some q => ({ s with dj := s.dj ++ q.dj }, .eq)
    | none => (s, .any)
  | "diff", [t] => match other t with
    | some q =>
      let d := dnfMinus n s.dj q.dj
      if st.dom == "N" then ({ s with dj := d }, .eq)
      else if st.dom == "C" then ({ s with dj := d }, .between (dnfRelax n d))
      else ({ s with dj := d }, .sup)
    | none => (s, .any)
  | "add_cons", a => ({ s with dj := dnfAddCons s.dj (parseCS n a).1 }, .eq)
  | "aff_img", v :: d :: a =>
    (mapRef nnc s fun p => p.affineImage (tokNat v) (parseExpr n a).1 (tokInt d), inexact)
  | "aff_pre", v :: d :: a =>
    (mapRef nnc s fun p => p.affinePreimage (tokNat v) (parseExpr n a).1 (tokInt d), inexact)
  | "add_dims_embed", [m] => (mapRef nnc s fun p => p.addDimsEmbed (tokNat m), .eq)
  | "add_dims_project", [m] => (mapRef nnc s fun p => p.addDimsProject (tokNat m), .eq)
  | "remove_dims", _ :: vs => (mapRef nnc s fun p => p.removeDims (vs.map tokNat), .eq)
  | "remove_higher", [m] => (mapRef nnc s fun p => p.removeHigherDims (tokNat m), .eq)
  | "map_dims", nOut :: _ :: prs => (mapRef nnc s fun p => p.mapDims (tokNat nOut) (pairsOf prs), .eq)
  | "expand", [v, m] => (mapRef nnc s fun p => p.expandDim (tokNat v) (tokNat m), .eq)
  | "closure", _ => (mapRef nnc s fun p => p.closure, .eq)
  | "concat", [t] => match other t with
    | some q =>
      let dj := s.dj.flatMap fun P => q.dj.map fun Q =>
        (RefPoly.concat ⟨nnc, n, P⟩ ⟨nnc, q.n, Q⟩).cs
      (⟨n + q.n, dj⟩, .eq)
    | none => (s, .any)
  | "simplify", [t, sz] => match other t with
    | some q => (s, .simplify q.dj s.dj (tokNat sz) st.baseBroken)
    | none => (s, .any)
  | "collapse", _ | "collapse_max", _ =>
    let m := if name == "collapse" then 1 else tokNat (args.headD "1")
    if s.dj.length ≤ m then (s, .atMost (max m s.dj.length) true)
    else
      let keep := s.dj.take (m - 1)
      match st.hints with
      | some (k, gss) =>
        let tail := (gss.drop (m - 1)).flatten
        if k == s.dj.length && gss.length == s.dj.length && tail.length ≤ st.maxGens then
          ({ s with dj := keep ++ [gensToCons n tail] }, .atMost m poly)
        else (s, .atMost m false)
      | none => (s, .atMost m false)
  | _, _ => (s, .any)

/-! ### products -/

def parseCgrs (n : Nat) (ts : List String) : List Cgr × List String :=
  match ts with
  | m :: rest =>
    let rec go : Nat → List String → List Cgr → List Cgr × List String
      | 0, ts, acc => (acc, ts)
      | k+1, ts, acc =>
        match ts with
        | md :: kk :: r =>
          let (cf, r') := takeInts n r
          go k r' (acc ++ [⟨tokInt md, tokInt kk, cf⟩])
        | _ => (acc, [])
    go (tokNat m) rest []
  | [] => ([], [])

def parseGGens (n : Nat) (ts : List String) : List GGen × List String :=
  match ts with
  | m :: rest =>
    let rec go : Nat → List String → List GGen → List GGen × List String
      | 0, ts, acc => (acc, ts)
      | k+1, ts, acc =>
        match ts with
        | kd :: d :: r =>
          let (cf, r') := takeInts n r
          let kind := if kd == "l" then GK.line else if kd == "q" then GK.param else GK.point
          go k r' (acc ++ [⟨kind, tokInt d, cf⟩])
        | _ => (acc, [])
    go (tokNat m) rest []
  | [] => ([], [])

def parseComp (n : Nat) (ts : List String) : Comp × List String :=
  match ts with
  | "P" :: rest => let (cs, r) := parseCS n rest; (.poly cs, r)
  | "G" :: "1" :: _ :: _ :: rest => (.grid true [] [], rest)
  | "G" :: "0" :: rest =>
    let (cgs, r1) := parseCgrs n rest
    let (gs, r2) := parseGGens n r1
    (.grid false cgs gs, r2)
  | _ => (.poly [], [])

def parsePState (ts : List String) : Option PState :=
  match ts with
  | n :: rest =>
    let nn := tokNat n
    let (c1, r1) := parseComp nn rest
    let (c2, _) := parseComp nn r1
    some ⟨nn, c1, c2⟩
  | _ => none

/-- a component that K1 can express: polyhedra, empty grids, grids given by equalities only -/
def Comp.asPoly? : Comp → Option (List Con)
  | .poly cs => some cs
  | .grid true _ _ => some [falseRow]
  | .grid false cgs _ =>
    if cgs.all (fun c => c.m == 0) then some (cgs.flatMap fun c => eqRows c.coeffs c.k) else none

def Comp.mem (c : Comp) (x : List Rat) : Bool :=
  match c with
  | .poly cs => allHold cs x
  | .grid true _ _ => false
  | .grid false cgs _ => cgs.all (cgrHolds · x)

def Comp.isEmptyC (n : Nat) : Comp → Bool
  | .poly cs => !feasible n cs
  | .grid e _ _ => e

/-- `a ⊆ b` for two printings of the same kind of component; `none` = cannot decide -/
def compSubset (n : Nat) (a b : Comp) : Option Bool :=
  match a, b with
  | .poly x, .poly y => some (subsetB n x y)
  | .grid true _ _, .grid .. => some true
  | .grid false _ ga, .grid true _ _ => some ga.isEmpty
  | .grid false _ ga, .grid false cb _ =>
    some (ga.all fun g =>
      match g.kind with
      | .point => cb.all (cgrHolds · g.vec)
      | .param => cb.all (cgrHoldsDir · g.vec false)
      | .line => cb.all (cgrHoldsDir · g.vec true))
  | _, _ => none

/-- the intersection of the two components as one constraint system, when K1 can express it -/
def PState.meet? (p : PState) : Option (List Con) :=
  match p.c1.asPoly?, p.c2.asPoly? with
  | some a, some b => some (a ++ b)
  | _, _ => none

def PState.mem (p : PState) (x : List Rat) : Bool := p.c1.mem x && p.c2.mem x

/-- bounds of every coordinate over a constraint system (K1 `supB`): `none` = unbounded -/
def coordBounds (n : Nat) (cs : List Con) : List (Option Rat) × List (Option Rat) :=
  let one (i : Nat) (sgn : Int) : Option Rat :=
    match supB n (unitRow i sgn) 0 cs with
    | .val p q _ => some ((p : Rat) / (q : Rat) * (sgn : Rat))
    | _ => none
  ((List.range n).map fun i => one i (-1), (List.range n).map fun i => one i 1)

/-- common points of the two components: every lattice point of the grid component inside the
    bounding box of the other one (`exhaustive = true`: these are *all* the common points), or
    half-integer window points for two polyhedral components -/
def PState.witnesses (p : PState) : List (List Rat) × Bool :=
  let n := p.n
  let go (gens : List GGen) (other : Comp) : List (List Rat) × Bool :=
    match other.asPoly? with
    | some cs =>
      if !feasible n cs then ([], true)
      else
        let (lo, hi) := coordBounds n cs
        let (pts, ex) := enumGrid n gens lo hi
        (pts.filter p.mem, ex)
    | none => ((gridSamples n gens).filter p.mem, false)
  match p.c1, p.c2 with
  | .grid true _ _, _ => ([], true)
  | _, .grid true _ _ => ([], true)
  | .grid false _ g, o => go g o
  | o, .grid false _ g => go g o
  | .poly a, .poly b =>
    let cs := a ++ b
    if !feasible n cs then ([], true)
    else
      let (lo, hi) := coordBounds n cs
      ((windowPoints n lo hi).filter p.mem, false)

def thin (k : Nat) (xs : List (List Rat)) : List (List Rat) :=
  if xs.length ≤ k then xs
  else
    let step := xs.length / k + 1
    (xs.zipIdx.filter fun (_, i) => i % step == 0).map (·.1)

/-! #### the exact image of an operator on a constraint system (K1 reference operators) -/

def pairsOf' : List String → List (Nat × Nat)
  | a :: b :: r => (tokNat a, tokNat b) :: pairsOf' r
  | _ => []

def mapD (n : Nat) (L : DNF) (f : RefPoly → RefPoly) : Nat × DNF :=
  let rs := L.map fun P => f ⟨true, n, P⟩
  ((f ⟨true, n, [falseRow]⟩).n, (rs.map (·.cs)).filter fun P => P.length ≤ 60)

/-- `{x + y | x ∈ P, y ∈ T}` -/
def minkowski (n : Nat) (P T : List Con) : List Con :=
  let rel := T.map fun c => { c with coeffs := lowHigh n c.coeffs ((padTo n c.coeffs).map (- ·)) }
  (relImage n ⟨true, n, P⟩ rel).cs

def parseCgr1 (n : Nat) (ts : List String) : Cgr × List String :=
  match ts with
  | m :: k :: r => let (cf, r') := takeInts n r; (⟨tokInt m, tokInt k, cf⟩, r')
  | _ => (⟨0, 0, []⟩, [])

/-- image of the lower bound `L` (dimension `n`); `Lt` = lower bound of the argument, `Mt` = its exact
    intersection when known.  `none`: operator not modelled on constraint systems. -/
def imageDNF (n : Nat) (L : DNF) (name : String) (args : List String)
    (Lt : Option (Nat × DNF)) (Mt : Option (List Con)) : Option (Nat × DNF) :=
  let keep (x : Nat × DNF) : Option (Nat × DNF) := some (x.1, x.2.filter (feasible x.1))
  match name, args with
  | "refine_con", a | "add_con", a => keep (n, dnfAddCons L (parseCon n a).1)
  | "refine_cons", a | "add_cons", a => keep (n, dnfAddCons L (parseCS n a).1)
  | "refine_cg", a | "add_cg", a =>
    let (c, _) := parseCgr1 n a
    if c.m == 0 then keep (n, dnfAddCons L (eqRows c.coeffs c.k))
    else keep (n, ([-3, -2, -1, 0, 1, 2, 3] : List Int).flatMap fun j => dnfAddCons L (eqRows c.coeffs (c.k - j * c.m)))
  | "meet", _ => Lt.bind fun (_, T) => keep (n, dnfMeet L T)
  | "ub", _ => Lt.map fun (_, T) => (n, L ++ T)
  | "widen", _ => some (n, L)
  | "diff", _ => match Mt with
    | some mt => keep (n, dnfMinus n L [mt])
    | none => some (n, [])
  | "concat", _ => Lt.map fun (nt, T) =>
    (n + nt, L.flatMap fun P => T.map fun Q => (RefPoly.concat ⟨true, n, P⟩ ⟨true, nt, Q⟩).cs)
  | "time_elapse", _ => Lt.map fun (_, T) =>
    let T' := T.filter (feasible n)
    if T'.isEmpty then (n, []) else (n, L ++ (L.flatMap fun P => (T'.take 2).map fun Q => minkowski n P Q))
  | "aff_img", v :: d :: a => some (mapD n L fun p => p.affineImage (tokNat v) (parseExpr n a).1 (tokInt d))
  | "aff_pre", v :: d :: a => some (mapD n L fun p => p.affinePreimage (tokNat v) (parseExpr n a).1 (tokInt d))
  | "gen_img", v :: r :: d :: a =>
    some (mapD n L fun p => p.genAffineImage (tokNat v) (parseRel r) (parseExpr n a).1 (tokInt d))
  | "gen_pre", v :: r :: d :: a =>
    some (mapD n L fun p => p.genAffinePreimage (tokNat v) (parseRel r) (parseExpr n a).1 (tokInt d))
  | "gen_img2", r :: a =>
    let (lhs, a') := parseExpr n a
    let (rhs, _) := parseExpr n a'
    some (mapD n L fun p => p.genAffineImage2 lhs (parseRel r) rhs)
  | "gen_pre2", r :: a =>
    let (lhs, a') := parseExpr n a
    let (rhs, _) := parseExpr n a'
    some (mapD n L fun p => p.genAffinePreimage2 lhs (parseRel r) rhs)
  | "bnd_img", v :: d :: a =>
    let (lb, a') := parseExpr n a
    let (ub, _) := parseExpr n a'
    some (mapD n L fun p => p.boundedAffineImage (tokNat v) lb ub (tokInt d))
  | "bnd_pre", v :: d :: a =>
    let (lb, a') := parseExpr n a
    let (ub, _) := parseExpr n a'
    some (mapD n L fun p => p.boundedAffinePreimage (tokNat v) lb ub (tokInt d))
  | "unconstrain", vs => some (mapD n L fun p => p.unconstrain (vs.map tokNat))
  | "closure", _ => some (mapD n L fun p => p.closure)
  | "add_dims_embed", [m] => some (mapD n L fun p => p.addDimsEmbed (tokNat m))
  | "add_dims_project", [m] => some (mapD n L fun p => p.addDimsProject (tokNat m))
  | "remove_dims", _ :: vs => some (mapD n L fun p => p.removeDims (vs.map tokNat))
  | "remove_higher", [m] => some (mapD n L fun p => p.removeHigherDims (tokNat m))
  | "map_dims", nOut :: _ :: prs => some (mapD n L fun p => p.mapDims (tokNat nOut) (pairsOf' prs))
  | "expand", [v, m] => some (mapD n L fun p => p.expandDim (tokNat v) (tokNat m))
  | _, _ => none

/-! #### pointwise witnesses of the exact image -/

def imagePts (n : Nat) (pts : List (List Rat)) (name : String) (args : List String)
    (ptsT : List (List Rat)) (memT : Option (List Rat → Bool)) : List (List Rat) :=
  let ex (a : List String) := parseExpr n a
  let ev (e : LinExpr) (x : List Rat) : Rat := evalE e.coeffs e.k x
  match name, args with
  | "refine_con", a | "add_con", a => let rows := (parseCon n a).1; pts.filter (allHold rows)
  | "refine_cons", a | "add_cons", a => let rows := (parseCS n a).1; pts.filter (allHold rows)
  | "refine_cg", a | "add_cg", a => let c := (parseCgr1 n a).1; pts.filter (cgrHolds c)
  | "meet", _ => match memT with
    | some f => pts.filter f
    | none => []
  | "ub", _ => pts ++ ptsT
  | "widen", _ => pts
  | "diff", _ => match memT with
    | some f => pts.filter fun p => !f p
    | none => []
  | "concat", _ => (pts.take 20).flatMap fun p => (ptsT.take 20).map fun q => p ++ q
  | "time_elapse", _ =>
    if ptsT.isEmpty then []
    else pts ++ ((pts.take 30).flatMap fun p => (ptsT.take 6).flatMap fun q =>
      ([1, 2, 3] : List Rat).map fun l => vadd p (vsmul l q))
  | "aff_img", v :: d :: a =>
    let e := (ex a).1
    pts.map fun p => setAt p (tokNat v) (ev e p / (tokInt d : Rat))
  | "aff_pre", v :: d :: a =>
    let e := (ex a).1; let vi := tokNat v; let dd : Rat := (tokInt d : Rat)
    let av : Rat := ((e.coeffs.getD vi 0 : Int) : Rat)
    pts.flatMap fun p =>
      let pv := p.getD vi 0
      if av != 0 then
        -- q_v with (e(q))/d = p_v
        let rest := ev e (setAt p vi 0)
        [setAt p vi ((dd * pv - rest) / av)]
      else if ev e p / dd == pv then (around pv).map (setAt p vi) else []
  | "gen_img", v :: r :: d :: a =>
    let e := (ex a).1; let vi := tokNat v; let dd : Rat := (tokInt d : Rat)
    pts.flatMap fun p => (relOffsets r).map fun o => setAt p vi (ev e p / dd + o)
  | "gen_pre", v :: r :: d :: a =>
    let e := (ex a).1; let vi := tokNat v; let dd : Rat := (tokInt d : Rat)
    pts.flatMap fun p =>
      let pv := p.getD vi 0
      ((around pv).map (setAt p vi)).filter fun q => relHolds r pv (ev e q / dd)
  | "gen_img2", r :: a =>
    let (lhs, a') := ex a
    let (rhs, _) := ex a'
    pts.flatMap fun p =>
      match lhs.vars.head? with
      | none => if relHolds r (ev lhs p) (ev rhs p) then [p] else []
      | some w =>
        let cw : Rat := ((lhs.coeffs.getD w 0 : Int) : Rat)
        let rest := ev lhs (setAt p w 0)
        (relOffsets r).map fun o => setAt p w ((ev rhs p + o - rest) / cw)
  | "gen_pre2", r :: a =>
    let (lhs, a') := ex a
    let (rhs, _) := ex a'
    pts.flatMap fun p =>
      match lhs.vars.head? with
      | none => if relHolds r (ev lhs p) (ev rhs p) then [p] else []
      | some w =>
        ((around (p.getD w 0)).map (setAt p w)).filter fun q => relHolds r (ev lhs p) (ev rhs q)
  | "bnd_img", v :: d :: a =>
    let (lb, a') := ex a
    let (ub, _) := ex a'
    let vi := tokNat v; let dd : Rat := (tokInt d : Rat)
    pts.flatMap fun p =>
      let l := ev lb p / dd; let u := ev ub p / dd
      if l ≤ u then [setAt p vi l, setAt p vi u, setAt p vi ((l + u) / 2)] else []
  | "bnd_pre", v :: d :: a =>
    let (lb, a') := ex a
    let (ub, _) := ex a'
    let vi := tokNat v; let dd : Rat := (tokInt d : Rat)
    pts.flatMap fun p =>
      let pv := p.getD vi 0
      ((around pv).map (setAt p vi)).filter fun q => decide (ev lb q / dd ≤ pv) && decide (pv ≤ ev ub q / dd)
  | "unconstrain", vs =>
    pts.flatMap fun p => (vs.map tokNat).flatMap fun vi => (around (p.getD vi 0)).map (setAt p vi)
  | "closure", _ => pts
  | "add_dims_embed", [m] => pts.flatMap fun p => ([0, 1, -(1 : Rat) / 2] : List Rat).map fun t => p ++ List.replicate (tokNat m) t
  | "add_dims_project", [m] => pts.map fun p => p ++ List.replicate (tokNat m) 0
  | "remove_dims", _ :: vs =>
    let rm := vs.map tokNat
    pts.map fun p => (p.zipIdx.filter fun (_, i) => !rm.contains i).map (·.1)
  | "remove_higher", [m] => pts.map fun p => p.take (tokNat m)
  | "map_dims", nOut :: _ :: prs =>
    let pr := pairsOf' prs
    pts.map fun p => (List.range (tokNat nOut)).map fun j =>
      match pr.find? (fun (_, t) => t == j) with
      | some (i, _) => p.getD i 0
      | none => 0
  | "expand", [v, m] => pts.map fun p => p ++ List.replicate (tokNat m) (p.getD (tokNat v) 0)
  | "fold", k :: rest =>
    let vs := (rest.take (tokNat k)).map tokNat
    let dest := tokNat (rest.getD (tokNat k) "0")
    pts.flatMap fun p =>
      let drop (q : List Rat) := (q.zipIdx.filter fun (_, i) => !vs.contains i).map (·.1)
      let destNew := dest - (vs.filter (· < dest)).length
      drop p :: vs.map fun w => (drop p).set destNew (p.getD w 0)
  | _, _ => []

/-! #### judgements -/

inductive Incl | yes | no (why : String) | enumOk (k : Nat) (exact : Bool)

/-- is `meet a ⊆ meet b`?  exactly through K1 when both are expressible, else on the enumerated
    common points of `a` -/
def meetSubset (a b : PState) : Incl :=
  match a.meet?, b.meet? with
  | some x, some y => if subsetB a.n x y then .yes else .no "K1"
  | _, _ =>
    let (ss, ex) := a.witnesses
    match ss.find? (fun x => !b.mem x) with
    | some x => .no s!"common point {x}"
    | none => .enumOk ss.length ex

def okEnum (ln : Nat) (k : Nat) (exact : Bool) : M Unit := do
  modify fun st => { st with nSampled := st.nSampled + k, nOk := st.nOk + 1,
                             nExactEnum := st.nExactEnum + (if exact then 1 else 0) }
  IO.println s!"ok {ln} {if exact then "exhaustive" else "sampled"} {k}"

/-- `pobs` after `praw`: components shrink, intersection unchanged; returns `false` after a report -/
def judgeReduce (ln : Nat) (raw obs : PState) : M Bool := do
  let pol := (← get).policy
  if raw.n != obs.n then bad ln s!"reduce: space dimension {obs.n}, expected {raw.n}"; return false
  match compSubset raw.n obs.c1 raw.c1, compSubset raw.n obs.c2 raw.c2 with
  | some false, _ => bad ln "reduce: component 1 is not contained in the component it was reduced from"; return false
  | _, some false => bad ln "reduce: component 2 is not contained in the component it was reduced from"; return false
  | some true, some true =>
    match meetSubset raw obs with
    | .no why => bad ln s!"reduce: the reduction lost a common point of the components ({why})"; return false
    | r =>
      if (pol == "smash" || pol == "constraints") && (obs.c1.isEmptyC obs.n != obs.c2.isEmptyC obs.n) then
        bad ln s!"smash_propagation: after the {pol} reduction exactly one component is empty (Smash_Reduction propagates emptiness)"
        return false
      match r with
      | .enumOk k ex => okEnum ln k ex
      | _ => ok ln
      return true
  | _, _ => skip ln "component-kind"; return true

def getP (s : String) : M PSlot := do return (← get).pslots.getD (tokNat s) {}
def setP (s : String) (p : PSlot) : M Unit :=
  modify fun st => { st with pslots := st.pslots.setIfInBounds (tokNat s) p }

/-- an observation: (A) it is a reduction of the claimed raw components, (B) it contains the exact
    image (K1) of the last observed intersection through the operators applied since, (C) it contains
    the pointwise witnesses of that image -/
def judgeObs (ln : Nat) (s : String) (obs : PState) : M Unit := do
  let P ← getP s
  let mut fine := true
  match P.raw with
  | some raw => fine ← judgeReduce ln raw obs
  | none => pure ()
  if fine then
    match P.low, obs.meet? with
    | some (nl, L), some mo =>
      if nl != obs.n then bad ln s!"transformer: space dimension {obs.n}, the specification gives {nl}"; fine := false
      else if !(tooBig L [mo]) && !dnfSubsetF obs.n L [mo] then
        -- which component cut the image: judged on the unreduced (shadow) components when they are known
        let ref := P.raw.getD obs
        let cOk (c : Comp) : Bool := match c.asPoly? with | some cs => dnfSubsetF obs.n L [cs] | none => true
        let which := if !cOk ref.c1 && cOk ref.c2 then "1" else if cOk ref.c1 && !cOk ref.c2 then "2"
                     else if !cOk ref.c1 then "1+2" else "?"
        bad ln s!"transformer: the result's intersection does not contain the exact image of the argument's intersection (K1) (component {which})"
        fine := false
      else if P.raw.isNone then ok ln
    | _, _ => pure ()
  if fine then
    let ptsOk := P.pts.filter fun p => p.length == obs.n
    match ptsOk.find? fun p => !obs.mem p with
    | some p =>
      let ref := P.raw.getD obs
      let which := if !ref.c1.mem p && ref.c2.mem p then "1" else if ref.c1.mem p && !ref.c2.mem p then "2"
                   else if !ref.c1.mem p then "1+2" else "?"
      bad ln s!"transformer: the result lost the point {p} of the exact image (component {which})"
    | none =>
      if P.raw.isNone && (P.low.isNone || obs.meet?.isNone) then okEnum ln ptsOk.length false
      else modify fun st => { st with nSampled := st.nSampled + ptsOk.length }
  let (w, _) := obs.witnesses
  setP s { cur := some obs, raw := some obs, low := obs.meet?.map fun m => (obs.n, [m]),
           pts := thin 250 w, exact := true }

def applyPop (s : String) (name : String) (args : List String) : M Unit := do
  let P ← getP s
  let st ← get
  -- the argument of a binary operator is the last token
  let binary := ["meet", "ub", "diff", "concat", "time_elapse", "widen"].contains name
  let T : PSlot := if binary then st.pslots.getD (tokNat (args.getLastD "0")) {} else {}
  let n := match P.low, P.cur with
    | some (n, _), _ => n
    | _, some c => c.n
    | _, _ => (P.pts.headD []).length
  let Mt := if T.exact then T.cur.bind (·.meet?) else none
  let memT : Option (List Rat → Bool) := if name == "diff" && !T.exact then none else T.cur.map fun c => c.mem
  let low' := P.low.bind fun (nl, L) => imageDNF nl L name args T.low Mt
  let pts' := thin 400 (imagePts n P.pts name args T.pts memT)
  setP s { cur := none, raw := none, low := low', pts := pts', exact := false }

def supOfMeet (n : Nat) (m : List Con) (e : LinExpr) : Sup := supB n e.coeffs e.k m

/-- the values of `e` over a convex set: does the interval contain a multiple of `md` (`md > 0`)? -/
def intervalHitsClass (lo hi : Sup) (md : Int) : Bool :=
  -- lo is the supremum of -e
  match lo, hi with
  | .empty, _ => false
  | _, .empty => false
  | .unbounded, _ => true
  | _, .unbounded => true
  | .val nl ql al, .val nh qh ah =>
    -- inf = -nl/ql (attained al), sup = nh/qh (attained ah)
    let inf : Rat := -((nl : Rat) / (ql : Rat))
    let sup : Rat := (nh : Rat) / (qh : Rat)
    let m : Rat := (md : Rat)
    let jlo := ratCeil (inf / m)
    let jlo := if !al && ((jlo : Rat) * m == inf) then jlo + 1 else jlo
    let jhi := ratFloor (sup / m)
    let jhi := if !ah && ((jhi : Rat) * m == sup) then jhi - 1 else jhi
    decide (jlo ≤ jhi)

def judgePQ (ln : Nat) (s : String) (qn : String) (rest : List String) : M Unit := do
  let st ← get
  let P ← getP s
  match P.cur with
  | none => skip ln "state-unknown"
  | some p =>
    let n := p.n
    let a0 := rest.getD 0 ""
    let a1 := rest.getD 1 ""
    let other (t : String) : Option PState := (st.pslots.getD (tokNat t) {}).cur
    let (ss, exh) := match p.meet? with
      | some _ => (([] : List (List Rat)), false)
      | none => p.witnesses
    let definite (ans : String) (truth : Bool) (what : String) : M Unit :=
      if ans == "1" && !truth then bad ln s!"{what}: library answers true, the intersection dictates false" else ok ln
    let refute (ans : String) (cex : Option (List Rat)) (what : String) : M Unit :=
      match ans, cex with
      | "1", some x => bad ln s!"{what}: library answers true, refuted by the common point {x}"
      | _, _ => okEnum ln ss.length exh
    let relFlags (rows hyper : List Con) (fd fs fi fsat : String) (what : String) : M Unit :=
      match p.meet? with
      | some m =>
        let dj := disjointB n m rows
        let inc := subsetB n m rows
        if fd == "1" && !dj then bad ln s!"{what}: is_disjoint reported, the intersection meets it"
        else if fi == "1" && !inc then bad ln s!"{what}: is_included reported, the intersection is not included"
        else if fsat == "1" && !subsetB n m hyper then bad ln s!"{what}: saturates reported, the intersection does not saturate"
        else if fs == "1" && (dj || inc) then bad ln s!"{what}: strictly_intersects reported, the intersection is {if dj then "disjoint" else "included"}"
        else ok ln
      | none =>
        if fd == "1" && ss.any (allHold rows) then bad ln s!"{what}: is_disjoint reported, refuted by a common point"
        else match (if fi == "1" then ss.find? (fun x => !allHold rows x) else none) with
          | some x => bad ln s!"{what}: is_included reported, refuted by the common point {x}"
          | none =>
            if fsat == "1" && ss.any (fun x => !allHold hyper x) then bad ln s!"{what}: saturates reported, refuted by a common point"
            else okEnum ln ss.length exh
    if qn == "is_empty" then
      match p.meet? with
      | some m => definite a0 (!feasible n m) "is_empty"
      | none => refute a0 ss.head? "is_empty"
    else if qn == "is_universe" then
      match p.meet? with
      | some m => definite a0 (subsetB n [] m) "is_universe"
      | none => definite a0 false "is_universe"
    else if qn == "is_bounded" then
      match p.meet? with
      | some m => definite a0 ((RefPoly.mk true n m).isBounded || !feasible n m) "is_bounded"
      | none => skip ln "grid-pair-not-judged"
    else if qn == "is_discrete" then
      match p.meet? with
      | some m => definite a0 (!feasible n m || (RefPoly.mk true n m).affineDim == 0) "is_discrete"
      | none => skip ln "grid-pair-not-judged"
    else if qn == "is_closed" then
      match p.meet? with
      | some m => definite a0 ((RefPoly.mk true n m).isClosed) "is_topologically_closed"
      | none => skip ln "grid-pair-not-judged"
    else if qn == "constrains" then
      match p.meet? with
      | some m => definite a1 (!feasible n m || (RefPoly.mk true n m).constrains (tokNat a0)) "constrains"
      | none => skip ln "grid-pair-not-judged"
    else if qn == "contains" || qn == "strictly_contains" then
      match other a0 with
      | none => skip ln "unknown-slot"
      | some t =>
        match p.meet?, t.meet? with
        | some m, some mt => definite a1 (subsetB n mt m) qn
        | _, _ => let (ts, _) := t.witnesses; refute a1 (ts.find? fun x => !p.mem x) qn
    else if qn == "disjoint" then
      match other a0 with
      | none => skip ln "unknown-slot"
      | some t =>
        match p.meet?, t.meet? with
        | some m, some mt => definite a1 (disjointB n m mt) "is_disjoint_from"
        | _, _ =>
          let (ts, _) := t.witnesses
          let pts := if p.meet?.isSome then (p.witnesses).1 else ss
          refute a1 ((pts.find? fun x => t.mem x).orElse fun _ => ts.find? fun x => p.mem x) "is_disjoint_from"
    else if qn == "bounds_above" || qn == "bounds_below" then
      let (e, r) := parseExpr n rest
      let e' := if qn == "bounds_above" then e else negExpr e
      match p.meet? with
      | some m => definite (r.getD 0 "") (match supOfMeet n m e' with | .unbounded => false | _ => true) qn
      | none => skip ln "grid-pair-not-judged"
    else if qn == "max" || qn == "min" then
      let (e, r) := parseExpr n rest
      match r with
      | num :: den :: _ =>
        match p.meet? with
        | some m =>
          let e' := if qn == "max" then e else negExpr e
          let (nu, de) := if qn == "max" then (tokInt num, tokInt den) else (- tokInt num, tokInt den)
          (match supOfMeet n m e' with
           | .val a b _ => if decide (a * de ≤ nu * b) then ok ln
                           else bad ln s!"{qn}: the reported bound {num}/{den} is not a bound of the intersection (optimum {if qn == "max" then a else -a}/{b})"
           | .unbounded => bad ln s!"{qn}: reported bound {num}/{den}, the intersection is unbounded"
           | .empty => ok ln)
        | none =>
          let v : Rat := (tokInt num : Rat) / (tokInt den : Rat)
          let val (x : List Rat) : Rat := dotQ e.coeffs x + (e.k : Rat)
          refute "1" (ss.find? fun x => if qn == "max" then decide (v < val x) else decide (val x < v)) qn
      | _ => ok ln
    else if qn == "relcon" then
      let (rows, r') := parseCon n rest
      match r' with
      | [fd, fs, fi, fsat] =>
        let rel := rest.getD 0 ""
        let cf := (takeInts n (rest.drop 2)).1
        let hyper := eqRows cf (tokInt (rest.getD 1 ""))
        relFlags (if rel == "=" then hyper else rows) hyper fd fs fi fsat "relation_with(constraint)"
      | _ => skip ln "parse"
    else if qn == "relcg" then
      let (c, r') := parseCgr1 n rest
      match r' with
      | [fd, _, fi, _] =>
        if c.m == 0 then
          let hyper := eqRows c.coeffs c.k
          relFlags hyper hyper fd "0" fi "0" "relation_with(congruence)"
        else match p.meet? with
          | some m =>
            let e : LinExpr := ⟨c.coeffs, c.k⟩
            let hi := supOfMeet n m e
            let lo := supOfMeet n m (negExpr e)
            let emptyM := !feasible n m
            let single := match lo, hi with
              | .val nl ql _, .val nh qh _ => decide (-(nl * qh) = nh * ql)
              | _, _ => false
            let inc := emptyM || (single && intervalHitsClass lo hi c.m)
            let dj := emptyM || !intervalHitsClass lo hi c.m
            if fd == "1" && !dj then bad ln "relation_with(congruence): is_disjoint reported, the intersection meets it"
            else if fi == "1" && !inc then bad ln "relation_with(congruence): is_included reported, the intersection is not included"
            else ok ln
          | none =>
            if fd == "1" && ss.any (cgrHolds c) then bad ln "relation_with(congruence): is_disjoint reported, refuted by a common point"
            else match (if fi == "1" then ss.find? (fun x => !cgrHolds c x) else none) with
              | some x => bad ln s!"relation_with(congruence): is_included reported, refuted by the common point {x}"
              | none => okEnum ln ss.length exh
      | _ => skip ln "parse"
    else if qn == "relgen" then
      match rest with
      | kd :: d :: r =>
        let (cf, r') := takeInts n r
        let sub := r'.getD 0 "0"
        if kd == "p" then
          let x : List Rat := cf.map fun (a : Int) => (a : Rat) / (tokInt d : Rat)
          if sub == "1" && !p.mem x then bad ln s!"relation_with(generator): subsumes reported for the point {x}, which is not in the intersection"
          else ok ln
        else match p.meet? with
          | some m =>
            let rp : RefPoly := ⟨true, n, m⟩
            let okRay := !feasible n m || (rp.hasRay cf && (kd != "l" || rp.hasRay (cf.map (- ·))))
            if sub == "1" && !okRay then bad ln "relation_with(generator): subsumes reported for a ray/line that leaves the intersection"
            else ok ln
          | none => skip ln "grid-pair-not-judged"
      | _ => skip ln "parse"
    else skip ln s!"unknown-query {qn}"

def processLine (ln : Nat) (line : String) : M Unit := do
  let ts := (line.trimAscii.toString.splitOn " ").filter (· ≠ "")
  match ts with
  | "hist" :: _ :: _ :: dom :: more =>
    modify fun s => { s with dom := dom, policy := more.getD 1 "", slots := Array.replicate 8 none, pend := Array.replicate 8 none,
                             hints := none, baseBroken := false, baseNote := "", lastRet := none,
                             pslots := Array.replicate 4 {} }
  | "new" :: s :: n :: k :: rest =>
    let nn := tokNat n
    setSlot (tokNat s) (some ⟨nn, (parseDNF nn (tokNat k) rest).1⟩); setPend (tokNat s) none
  | ["newu", s, n] => setSlot (tokNat s) (some ⟨tokNat n, [[]]⟩); setPend (tokNat s) none
  | ["newe", s, n] => setSlot (tokNat s) (some ⟨tokNat n, []⟩); setPend (tokNat s) none
  | ["copy", d, s] => do
    let st ← get
    setSlot (tokNat d) (st.slots.getD (tokNat s) none)
    setPend (tokNat d) (st.pend.getD (tokNat s) none)
  | ["swap", a, b] => do
    let st ← get
    let (ia, ib) := (tokNat a, tokNat b)
    modify fun st' => { st' with
      slots := (st.slots.setIfInBounds ia (st.slots.getD ib none)).setIfInBounds ib (st.slots.getD ia none),
      pend := (st.pend.setIfInBounds ia (st.pend.getD ib none)).setIfInBounds ib (st.pend.getD ia none) }
  | "hintg" :: s :: k :: rest => do
    match ← getSlot (tokNat s) with
    | none => skip ln "unknown-slot"
    | some m =>
      let (gss, _) := parseGSs m.n (tokNat k) rest
      let mg := (← get).maxGens
      if gss.length != m.dj.length then
        modify fun st => { st with hints := none }; skip ln "hint-shape"
      else if gss.any (fun gs => gs.length > mg) then
        modify fun st => { st with hints := none }; skip ln "hint-too-large"
      else if (gss.zip m.dj).all fun (gs, cs) => gensWF m.n gs && checkDD m.n cs gs then
        modify fun st => { st with hints := some (tokNat k, gss) }; ok ln
      else
        modify fun st => { st with hints := none }
        bad ln s!"hint: generators of a copy of slot {s} do not denote its disjuncts"
  | "basesimp" :: n :: rest => do
    let nn := tokNat n
    let (x, r1) := parseCS nn rest
    let (y, r2) := parseCS nn r1
    let (r, r3) := parseCS nn r2
    let b := r3.headD "1" == "1"
    let meetOk := equivB nn (r ++ y) (x ++ y)
    let enlOk := subsetB nn x r
    let retOk := b || !feasible nn (x ++ y)
    if meetOk && enlOk && retOk then ok ln
    else
      let what := (if meetOk then "" else "not-meet-preserving ") ++ (if enlOk then "" else "not-an-enlargement ")
        ++ (if retOk then "" else "false-on-nonempty-meet")
      modify fun st => { st with baseBroken := true, baseNote := s!"[base-level simplify_using_context_assign: {what}]" }
      note ln s!"base-level simplify_using_context_assign breaks its contract: {what}"
  | ["ret", b] => modify fun st => { st with lastRet := some (b == "1") }
  | "op" :: s :: name :: args => do
    let si := tokNat s
    let st ← get
    match st.slots.getD si none with
    | some m =>
      let (m', p) := applyOp st m name args
      setSlot si (some m'); setPend si (some p)
    | none => pure ()
    modify fun st => { st with hints := none, lastRet := none }
    if name != "simplify" then modify fun st => { st with baseBroken := false, baseNote := "" }
  | "exc" :: cls :: _ => bad ln s!"unexpected exception {cls}"
  | ["notok", s] => bad ln s!"OK() returned false for slot {s}"
  | "ps" :: s :: n :: k :: rest => do
    let nn := tokNat n
    judgePS ln (tokNat s) ⟨nn, (parseDNF nn (tokNat k) rest).1⟩
    modify fun st => { st with baseBroken := false, baseNote := "" }
  | "q" :: s :: qn :: rest => do
    let st ← get
    match st.slots.getD (tokNat s) none with
    | none => skip ln "unknown-slot"
    | some p =>
      if (st.pend.getD (tokNat s) none).isSome then skip ln "stale-model"
      else
      let n := p.n
      let nnc := st.dom == "N"
      let other (t : String) : Option Slot :=
        match st.slots.getD (tokNat t) none, st.pend.getD (tokNat t) none with
        | some q, none => if q.n == n then some q else none
        | _, _ => none
      let exact (model : Bool) (ans : String) (what : String) : M Unit :=
        if b2s model == ans then ok ln else bad ln s!"{what}: library {ans}, the union dictates {b2s model}"
      let definite (ans : String) (geometric : Bool) (seqLevel : Bool) (what : String) : M Unit :=
        if ans == "1" && !geometric then bad ln s!"{what}: library answers true, the unions dictate false"
        else if b2s seqLevel != ans then note ln s!"{what}: library {ans}, the disjunct-level definition gives {b2s seqLevel}"
        else ok ln
      let withOther (t : String) (f : Slot → M Unit) : M Unit :=
        match other t with
        | some q => if tooBig p.dj q.dj then skip ln "size-skipped" else f q
        | none => skip ln "unknown-slot"
      let a0 := rest.getD 0 ""
      let a1 := rest.getD 1 ""
      if qn == "is_empty" then exact (dnfEmpty n p.dj) a0 "is_empty"
      else if qn == "is_universe" then
        let geo := dnfSubsetF n [[]] p.dj
        definite a0 geo (p.dj.any fun P => subsetB n [] P) "is_universe"
      else if qn == "is_bounded" then
        exact (p.dj.all fun P => (RefPoly.mk nnc n P).isBounded) a0 "is_bounded"
      else if qn == "contains" then
        withOther a0 fun q => definite a1 (dnfSubsetF n q.dj p.dj) (q.dj.all fun Q => p.dj.any fun P => subsetB n Q P) "contains"
      else if qn == "strictly_contains" then
        withOther a0 fun q => (if a1 == "1" && !dnfSubsetF n q.dj p.dj then bad ln "strictly_contains: library answers true, the unions dictate false" else ok ln)
      else if qn == "disjoint" then withOther a0 fun q => exact (dnfDisjoint n p.dj q.dj) a1 "is_disjoint_from"
      else if qn == "geom_covers" then withOther a0 fun q => exact (dnfSubsetF n q.dj p.dj) a1 "geometrically_covers"
      else if qn == "geom_equals" then withOther a0 fun q => exact (dnfEquivF n q.dj p.dj) a1 "geometrically_equals"
      else if qn == "entails" then
        withOther a0 fun q => definite a1 (dnfSubsetF n p.dj q.dj) (p.dj.all fun P => q.dj.any fun Q => subsetB n P Q) "definitely_entails"
      else if qn == "equals" then
        withOther a0 fun q => (if a1 == "1" && !dnfEquivF n p.dj q.dj then bad ln "operator==: library answers true, the unions differ" else ok ln)
      else if qn == "bounds_above" || qn == "bounds_below" then
        let (e, r) := parseExpr n rest
        let e' := if qn == "bounds_above" then e else negExpr e
        exact (match supUnion n p.dj e' with | .unbounded => false | _ => true) (r.getD 0 "") qn
      else if qn == "max" || qn == "min" then
        let (e, r) := parseExpr n rest
        let s := if qn == "max" then supUnion n p.dj e
                 else match supUnion n p.dj (negExpr e) with
                   | .val a b c => .val (-a) b c
                   | o => o
        match r with
        | ["none"] =>
          (match s with
           | .val .. => bad ln s!"{qn}: library reports no optimum, the union dictates {supStr s}"
           | _ => ok ln)
        | [num, den, incl] =>
          (match s with
           | .val a b c =>
             if decide (a * tokInt den = tokInt num * b) && (c == (incl == "1")) then ok ln
             else bad ln s!"{qn}: library {num}/{den} incl={incl}, the union dictates {supStr s}"
           | _ => bad ln s!"{qn}: library {num}/{den}, the union dictates {supStr s}")
        | _ => skip ln "parse"
      else if qn == "relcon" then
        let (rows, r') := parseCon n rest
        match r' with
        | [fd, fs, fi, fsat] =>
          let rel := rest.getD 0 ""
          let k := rest.getD 1 ""
          let cf := (takeInts n (rest.drop 2)).1
          let hyper := eqRows cf (tokInt k)
          let rows' := if rel == "=" then hyper else rows
          let dj := p.dj.all fun P => disjointB n P rows'
          let inc := p.dj.all fun P => subsetB n P rows'
          let sat := p.dj.all fun P => subsetB n P hyper
          let si := !dj && !inc
          if (fd == b2s dj) && (fi == b2s inc) && (fs == b2s si) && (fsat == b2s sat) then ok ln
          else
            let onlyS := (fd == b2s dj) && (fi == b2s inc) && (fsat == b2s sat)
            let emp := p.dj.any fun P => isEmptyB n P
            bad ln s!"relation_with(constraint): library D{fd} S{fs} I{fi} T{fsat}, the union dictates D{b2s dj} S{b2s si} I{b2s inc} T{b2s sat} onlyS={b2s onlyS} emptyDisjunct={b2s emp}"
        | _ => skip ln "parse"
      else if qn == "size" then pure ()
      else skip ln s!"unknown-query {qn}"
  | "pnew" :: s :: n :: _ =>
    let nn := tokNat n
    setP s { cur := none, raw := none, low := some (nn, [[]]),
             pts := thin 200 (windowPoints nn (List.replicate nn (some (-2))) (List.replicate nn (some 2))), exact := false }
  | "pgrid" :: s :: n :: rest =>
    let nn := tokNat n
    let (gs, _) := parseGGens nn rest
    let (pts, _) := enumGrid nn gs (List.replicate nn (some (-4))) (List.replicate nn (some 4))
    setP s { cur := none, raw := none, low := none, pts := thin 300 pts, exact := false }
  | ["pcopy", d, s] => do
    let P ← getP s
    setP d P
  | "praw" :: s :: rest => do
    let P ← getP s
    setP s { P with raw := parsePState rest, cur := parsePState rest }
  | "pop" :: s :: name :: args => applyPop s name args
  | "pexp" :: _ => pure ()
  | "pobs" :: s :: rest =>
    match parsePState rest with
    | none => skip ln "parse"
    | some obs => judgeObs ln s obs
  | "pq" :: s :: qn :: rest => judgePQ ln s qn rest
  | "crash" :: sig => bad ln s!"crash {" ".intercalate sig}"
  | _ => pure ()

partial def loop (h : IO.FS.Stream) (ln : Nat) : M Unit := do
  let line ← h.getLine
  if line.isEmpty then return ()
  let t0 ← IO.monoMsNow
  processLine ln line
  let t1 ← IO.monoMsNow
  if t1 - t0 > 500 then IO.eprintln s!"slow {ln} {t1 - t0}ms {line.take 80}"
  loop h (ln + 1)

def main (args : List String) : IO UInt32 := do
  -- `--exact`: stage-2 tie of C09 (replay of the code-shaped model on the journalled disjunct lists)
  if args.contains "--exact" then return (← PPLV.Powerset.Replay.main)
  let stdin ← IO.getStdin
  let ((), st) ← (loop stdin 1).run {}
  IO.println s!"summary ok={st.nOk} mismatch={st.nBad} skipped={st.nSkip} notes={st.nNote} sampled={st.nSampled} exhaustive={st.nExactEnum}"
  return 0
