import PPLV.Alloc.Model
import PPLV.Alloc.Precond
/-! Driver of C14 (run with `lake env lean --run Driver/C14.lean < journal`): for every journalled
event it evaluates the Lean model and prints `ok <line>` or `MISMATCH <line> <obligation> <detail>`.

* `rej poly <op> … got=<class> … | key=value …` — the documented exception class is `precond`'s;
* `mk <machine> <n> k=<k> of=<events> result=<completed|class> leak=<blocks> bad=<n> invalid=<0|1>` — one faulted
  run of a protocol whose allocation events map 1:1 to the events of the allocation machine.  The run is compared with
  the machine of the repaired protocol; `ok-as-written` = it agrees with the historical machine instead (the
  repair of /verif/fixes is not in the tree: the defect itself is reported from the fault journal). -/
open PPLV.Alloc

def kvGet (toks : List String) (k : String) : String :=
  let kv := toks.filterMap fun t => match t.splitOn "=" with
    | [a, b] => some (a, b)
    | _ => none
  (kv.lookup k).getD ""

/-- (machine following the repaired code, historical as-written machine if it differs) -/
def machineRun (name : String) (n k : Nat) : Option (Outcome × Option Outcome) :=
  match name with
  | "cotree_iter" | "cotree_iter_from_dense" => some (Run.cotreeIter n 0 k, some (Run.cotreeIterAsWritten n 0 k))
  | "cotree_copy" => some (Run.cotreeCopy (List.replicate n true) 0 k, none)
  | "cotree_assign" => some (Run.cotreeAssign 3 (List.replicate n true) 0 k, some (Run.cotreeAssignAsWritten 3 (List.replicate n true) 0 k))
  | "dense_copy" => some (Run.denseCopy n (n + 2) 0 k, none)
  | "dense_assign_sparse_realloc" => some (Run.denseAssignSparse 3 3 4 0 k, some (Run.denseAssignSparseAsWritten 3 3 4 0 k))
  | _ => none

def main (_args : List String) : IO UInt32 := do
  let stdin ← IO.getStdin
  let mut lineNo : Nat := 0
  let mut nOk : Nat := 0
  let mut nBad : Nat := 0
  let mut nHist : Nat := 0
  repeat
    let line ← stdin.getLine
    if line.isEmpty then break
    lineNo := lineNo + 1
    let toks := (line.trimAscii.toString.splitOn " ").filter (· ≠ "")
    match toks with
    | "rej" :: dom :: opName :: rest =>
      let got := kvGet rest "got"
      if kvGet rest "exp" == "sysmodel" then
        -- system overloads of every domain
        match expectedSystem rest with
        | none => IO.println s!"MISMATCH {lineNo} precond-system unparsable"; nBad := nBad + 1
        | some exp =>
          -- the model's verdict for a rejected call: the receiver and the system are unchanged (dump text and value)
          -- the model's verdict for a rejected call: the VALUE of the receiver and of the system is unchanged; a
          -- change of the dump text alone (a cache flag cleared before the check) is reported apart
          let valueSame := kvGet rest "sem_same" == "1"
          let dumpSame := kvGet rest "dump_same" == "1"
          if exp != got then IO.println s!"MISMATCH {lineNo} precond-system model={exp} library={got}"; nBad := nBad + 1
          else if exp != "none" && !valueSame then
            IO.println s!"MISMATCH {lineNo} precond-system-unchanged model=unchanged library=changed"; nBad := nBad + 1
          else if exp != "none" && !dumpSame then IO.println s!"ok-representation-only {lineNo}"; nOk := nOk + 1
          else IO.println s!"ok {lineNo}"; nOk := nOk + 1
      else if dom == "poly" then
        match Op.ofString? opName with
        | none => IO.println s!"MISMATCH {lineNo} precond unknown-op {opName}"; nBad := nBad + 1
        | some op =>
          let exp := expected op rest
          if exp == got then IO.println s!"ok {lineNo}"; nOk := nOk + 1
          else IO.println s!"MISMATCH {lineNo} precond op={opName} model={exp} library={got}"; nBad := nBad + 1
      else pure ()
    | "mk" :: name :: nStr :: rest =>
      let n := nStr.toNat?.getD 0
      let k := (kvGet rest "k").toNat?.getD 0
      match machineRun name n k with
      | none => pure ()
      | some (o, hist) =>
        let leak := (kvGet rest "leak").toNat?.getD 0
        let bad := (kvGet rest "bad").toNat?.getD 0
        let thrown := kvGet rest "result" != "completed"
        let invalid := kvGet rest "invalid" == "1"
        let events := (kvGet rest "of").toNat?.getD 0
        let mEvents := (machineRun name n 1000000).map (·.1.events) |>.getD 0
        let agrees (m : Outcome) : Bool :=
          m.live.length == leak && m.bad == bad && m.thrown == thrown && (!m.valid) == invalid && events == mEvents
        if agrees o then IO.println s!"ok {lineNo}"; nOk := nOk + 1
        else if (hist.map agrees).getD false then
          IO.println s!"ok-as-written {lineNo} {name}"; nHist := nHist + 1
        else
          IO.println s!"MISMATCH {lineNo} machine {name} n={n} k={k} model(leak={o.live.length},bad={o.bad},thrown={o.thrown},valid={o.valid},events={mEvents}) library(leak={leak},bad={bad},thrown={thrown},invalid={invalid},events={events})"
          nBad := nBad + 1
    | _ => pure ()
  IO.println s!"summary ok={nOk} as_written={nHist} mismatch={nBad}"
  return 0
