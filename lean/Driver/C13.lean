import PPLV.Value.Model
import PPLV.Value.Judge
import Driver.C13Move

/-!
# `pplv_c13` — replays a pool journal of `harness/c13_values.cc` on the value specification

stdin, one event per line:
```
hist <id> <family> <dim>
step <kind> <name> <ndst> d… <nargs> a… [# info]     kind: new copy assign swap op query recycle
exc <real|-> <copies|->
res <value>                 result of the operation run on distinct copies (oracle of the uninterpreted f)
carg <slot> <value>         copy of a const argument after the run on copies
qres <k> r1…rk s1…sk        query answer of the real run and of the run on copies
obs <slot> <value>          every pool member after the step
crash <signal> | end
```
Histories of the class template `Determinate<PSET>` itself (families `det_cpoly`, `det_grid`) are
replayed, operation by operation, on the heap machine `PPLV.Value.Cow` that the theorems
`C13.refcount_exact`, `cow_independent`, `self_assign_harmless`, `refines_value_spec` are about:
```
dstep construct h | copy h y | assign h y | destroy h | swap h y | mutate h name | binop h y name
res <value>                 the point set given to construct / the result of f, g on deep copies
dq <name> h y <0|1>         definitely_entails, is_definitely_equivalent_to, ==, !=, is_top, is_bottom
dobs h dead | dobs h <address of the const pointset()> <value>
dalloc <double or foreign deletes seen by the executable's operator delete>
dfinal <Rep-sized live blocks> 0 <live blocks> <live blocks before the history>
```
Obligations: `det_value` (value seen through a handle = `Cow.value`), `det_liveness`, `det_sharing`
(the handles are partitioned by representation exactly as in the machine, and a handle changes its
block exactly when the machine allocates: freed blocks are never reused during a history),
`det_fault` (no double delete; the machine's fault flag is off), `det_leak` (every block is gone
when every handle is), `det_query`.

The step is turned into a `PPLV.Value.Spec.Step` (`Spec.init / copy / swap / op / query / recycle`),
the specification pool is advanced with `Spec.step`, and every observation is compared with the
pool by the exact judge `valEq` (K1 / K2).  stdout: `ok n` | `skip n why` | `MISMATCH n obligation detail`,
`n` the line number.  Obligations: `frame` (a member that is neither destination nor argument),
`const_arg` (an argument that is not a destination), `copy`, `assign`, `self_assign`, `swap`,
`self_swap`, `alias` (`x.op(x)`, one object in two positions: result = result on equal copies),
`op_on_copies` (no aliasing: the originals and their copies behave alike), `const_arg_copy`,
`alias_query` / `copy_query`, `exc_consistency`, `recycle`, `new`, `crash`.
-/
open PPLV PPLV.Value

structure Obs where
  raw : List String
  v : Value
deriving Inhabited

def Obs.unknown : Obs := ⟨[], .unknown⟩

/-- exact judge, with a syntactic fast path -/
def obsEq (a b : Obs) : Bool := (a.raw == b.raw && !a.raw.isEmpty) || valEq a.v b.v

/-! ### value parser -/
def parseCg (n : Nat) (ts : List String) : Lattice.Cg × List String :=
  match ts with
  | k :: rest =>
    let (cf, rest') := Lin.takeInts n rest
    match rest' with
    | m :: rest'' => ({ a := cf.map (fun (i : Int) => (i : Rat)), b := (Lin.tokInt k : Rat), f := (Lin.tokInt m : Rat) }, rest'')
    | [] => ({ a := [], b := 0, f := 0 }, [])
  | [] => ({ a := [], b := 0, f := 0 }, [])

def parseCgs (n : Nat) : Nat → List String → List Lattice.Cg → List Lattice.Cg × List String
  | 0, ts, acc => (acc.reverse, ts)
  | k+1, ts, acc => let (c, ts') := parseCg n ts; parseCgs n k ts' (c :: acc)

/-- `P n <cs>` | `G n E` | `G n m <cg>*` | `T k tok*` -/
def parseAtom (ts : List String) : Value × List String :=
  match ts with
  | "P" :: n :: rest =>
    let nn := Lin.tokNat n
    let (cs, rest') := Lin.parseCS nn rest
    (.poly nn cs, rest')
  | "G" :: n :: "E" :: rest => (.grid (Lin.tokNat n) none, rest)
  | "G" :: n :: m :: rest =>
    let nn := Lin.tokNat n
    let (cgs, rest') := parseCgs nn (Lin.tokNat m) rest []
    (.grid nn (some cgs), rest')
  | "T" :: k :: rest => let kk := Lin.tokNat k; (.text (rest.take kk), rest.drop kk)
  | _ => (.unknown, [])

def parseDisjuncts : Nat → List String → List (List Lin.Con) → Option (List (List Lin.Con)) × List String
  | 0, ts, acc => (some acc.reverse, ts)
  | k+1, ts, acc =>
    match parseAtom ts with
    | (.poly _ cs, ts') => parseDisjuncts k ts' (cs :: acc)
    | (_, ts') => (none, ts')

def parseVal1 (ts : List String) : Value × List String :=
  match ts with
  | "S" :: n :: k :: rest =>
    match parseDisjuncts (Lin.tokNat k) rest [] with
    | (some ds, rest') => (.pset (Lin.tokNat n) ds, rest')
    | (none, rest') => (.unknown, rest')
  | _ => parseAtom ts

def parseValRaw (ts : List String) : Value :=
  match ts with
  | "X" :: rest =>
    let (a, rest') := parseVal1 rest
    let (b, _) := parseVal1 rest'
    .prod a b
  | _ => (parseVal1 ts).1

/-- a corrupted object may print a nonsensical space dimension (e.g. the poison pattern of a freed
    block): such a description is no value at all -/
def saneDims : Value → Bool
  | .poly n _ => n ≤ 64
  | .grid n _ => n ≤ 64
  | .pset n _ => n ≤ 64
  | .prod a b => saneDims a && saneDims b
  | _ => true

def parseVal (ts : List String) : Value :=
  let v := parseValRaw ts
  if saneDims v then v else .unknown

def parseObs (ts : List String) : Obs := ⟨ts, parseVal ts⟩

/-! ### state -/
structure Pending where
  ln : Nat
  kind : String
  name : String
  dsts : List Nat
  args : List Nat
  res : Option Obs := none
  excR : String := "-"
  excC : String := "-"
  finalized : Bool := false
  havoc : List Nat := []

/-- number of pool slots a history may use -/
def nSlots : Nat := 32

/-- the pool is kept as a table and handed to `Spec.step` as the function it denotes -/
def asPool (a : Array Obs) : Spec.Pool Obs := fun i => a.getD i Obs.unknown
def tabulate (p : Spec.Pool Obs) : Array Obs := (Array.range nSlots).map p

/-- an operation of the `Determinate` histories waiting for its oracle value -/
structure DetPending where
  ln : Nat
  toks : List String
  res : Option Obs := none
  done : Bool := false

/-- number of handle slots of the `Determinate` histories -/
def nHandles : Nat := 8

structure St where
  tab : Array Obs := Array.replicate nSlots Obs.unknown
  cow : Cow.State Obs := Cow.State.init Obs nHandles
  amap : List (Nat × Nat) := []          -- model Rep address ↦ observed address of the point set
  dpend : Option DetPending := none
  detName : String := ""
  pend : Option Pending := none
  nOk : Nat := 0
  nBad : Nat := 0
  nSkip : Nat := 0
  maxSize : Nat := 400

abbrev M := StateT St IO

def ok (ln : Nat) : M Unit := do
  modify fun s => { s with nOk := s.nOk + 1 }
  IO.println s!"ok {ln}"
def bad (ln : Nat) (obl what : String) : M Unit := do
  modify fun s => { s with nBad := s.nBad + 1 }
  IO.println s!"MISMATCH {ln} {obl} {what}"
def skip (ln : Nat) (why : String) : M Unit := do
  modify fun s => { s with nSkip := s.nSkip + 1 }
  IO.println s!"skip {ln} {why}"

def hasDup : List Nat → Bool
  | [] => false
  | a :: as => as.contains a || hasDup as

/-- the step of the value specification that a journal step denotes; second component: slots whose
    new value the specification leaves open (exceptional exits, donors of recycling entry points) -/
def specStep (p : Pending) : Spec.Step Obs × List Nat :=
  let threw := p.excR != "-" || p.excC != "-"
  if threw then (Spec.query p.args, p.dsts)
  else
    match p.kind, p.dsts, p.args, p.res with
    | "new", [d], _, some r => (Spec.init d r, [])
    | "copy", [d], [s], _ => (Spec.copy d s, [])
    | "assign", [d], [s], _ => (Spec.copy d s, [])
    | "swap", [a, b], _, _ => (Spec.swap a b, [])
    | "op", [d], args, some r => (Spec.op d args (fun _ => r), [])
    | "query", _, args, _ => (Spec.query args, [])
    | "recycle", [d, e], args, some r => (Spec.recycle d e args (fun _ => r) (fun _ => Obs.unknown), [e])
    | _, dsts, args, _ => (Spec.query args, dsts)

def finalize : M Unit := do
  let st ← get
  match st.pend with
  | some p =>
    if !p.finalized then
      let (s, hv) := specStep p
      set { st with tab := tabulate (Spec.step (asPool st.tab) s), pend := some { p with finalized := true, havoc := hv } }
  | none => pure ()

def obligation (p : Pending) (slot : Nat) : String :=
  if p.dsts.contains slot then
    match p.kind with
    | "copy" => "copy"
    | "assign" => if p.name == "self_assign" then "self_assign" else "assign"
    | "swap" => if p.name.startsWith "self_" then "self_swap" else "swap"
    | "op" => if hasDup p.args then "alias" else "op_on_copies"
    | "recycle" => "recycle"
    | k => k
  else if p.args.contains slot then "const_arg" else "frame"

def short (ts : List String) : String := " ".intercalate (ts.take 60)

/-! ### `Determinate` histories: the journal is replayed on `PPLV.Value.Cow` -/

/-- the machine operation a `dstep` line denotes; the uninterpreted `f`, `g` are the oracle value -/
def detOp (toks : List String) (res : Option Obs) : Option (Cow.Op Obs) :=
  match toks, res with
  | ["construct", h], some r => some (.construct (Lin.tokNat h) r)
  | ["copy", h, y], _ => some (.copyCtor (Lin.tokNat h) (Lin.tokNat y))
  | ["assign", h, y], _ => some (.assign (Lin.tokNat h) (Lin.tokNat y))
  | ["destroy", h], _ => some (.destroy (Lin.tokNat h))
  | ["swap", h, y], _ => some (.swap (Lin.tokNat h) (Lin.tokNat y))
  | "mutate" :: h :: _, some r => some (.mutate (Lin.tokNat h) (fun _ => r))
  | "binop" :: h :: y :: _, some r => some (.binop (Lin.tokNat h) (Lin.tokNat y) (fun _ _ => r))
  | _, _ => none

def detFinalize : M Unit := do
  let st ← get
  match st.dpend with
  | some p =>
    if !p.done then
      match detOp p.toks p.res with
      | some op => set { st with cow := Cow.step st.cow op, dpend := some { p with done := true }, detName := " ".intercalate p.toks }
      | none =>
        set { st with dpend := some { p with done := true } }
        skip p.ln "parse"
  | none => pure ()

def b2s (b : Bool) : String := if b then "1" else "0"

def processDet (ln : Nat) (ts : List String) : M Bool := do
  match ts with
  | "dstep" :: toks => do
    detFinalize
    modify fun s => { s with dpend := some { ln := ln, toks := toks } }
    return true
  | "dobs" :: h :: rest => do
    detFinalize
    let st ← get
    let hh := Lin.tokNat h
    let mv := Cow.value st.cow hh
    match rest with
    | ["dead"] =>
      match mv with
      | none => ok ln
      | some _ => bad ln "det_liveness" s!"after {st.detName}: handle {h} is destroyed, the machine still holds a value"
    | a :: v =>
      let o := parseObs v
      let oa := Lin.tokNat a
      match mv, st.cow.prep hh with
      | some m, some ma =>
        if !(obsEq m o) then
          bad ln "det_value" s!"after {st.detName}: handle {h}: machine {short m.raw} | observed {short v}"
        else
          match st.amap.find? (·.1 == ma) with
          | some (_, oa') =>
            if oa' == oa then ok ln
            else bad ln "det_sharing" s!"after {st.detName}: handle {h}: the machine keeps the representation it had (or shares it with another handle), the object moved to another block"
          | none =>
            if st.amap.any (·.2 == oa) then
              bad ln "det_sharing" s!"after {st.detName}: handle {h}: the machine has a fresh / distinct representation, the object shares a block that belongs to another representation"
            else
              set { st with amap := (ma, oa) :: st.amap }
              ok ln
      | _, _ => bad ln "det_liveness" s!"after {st.detName}: handle {h} is alive, the machine has no object there"
    | [] => skip ln "parse"
    return true
  | ["dalloc", f] => do
    detFinalize
    let st ← get
    if Lin.tokNat f == 0 && !st.cow.fault then ok ln
    else bad ln "det_fault" s!"after {st.detName}: operator delete saw {f} double/foreign delete(s); machine fault flag {st.cow.fault}"
    return true
  | ["dfinal", rl, rb, al, ab] => do
    detFinalize
    let st ← get
    let liveModel := (List.range st.cow.next).filter (fun a => (st.cow.heap a).isSome)
    if rl != rb then bad ln "det_leak" s!"{rl} Rep-sized blocks alive after every handle was destroyed ({rb} at the start)"
    else if al != ab then bad ln "det_leak" s!"{al} blocks alive after every handle was destroyed ({ab} at the start)"
    else if !liveModel.isEmpty then bad ln "det_leak" "the machine still has live representations"
    else ok ln
    return true
  | ["dq", name, h, y, r] => do
    detFinalize
    let st ← get
    let vh := (Cow.value st.cow (Lin.tokNat h)).map (·.v)
    let vy := (Cow.value st.cow (Lin.tokNat y)).map (·.v)
    let expect : Option Bool :=
      match name, vh, vy with
      | "definitely_entails", some a, some b => valSubset a b
      | "is_definitely_equivalent_to", some a, some b => some (valEq a b)
      | "operator==", some a, some b => some (valEq a b)
      | "operator!=", some a, some b => some (!(valEq a b))
      | "is_top", some a, _ => valIsUniv a
      | "is_bottom", some a, _ => valIsEmpty a
      | _, _, _ => none
    match expect with
    | some e => if b2s e == r then ok ln else bad ln "det_query" s!"{name}({h}, {y}) answered {r}, the values dictate {b2s e}"
    | none => skip ln "query"
    return true
  | _ => return false

def processLine (ln : Nat) (line : String) : M Unit := do
  let ts := (line.trimAscii.toString.splitOn " ").filter (· ≠ "")
  if ← processDet ln ts then return
  match ts with
  | "hist" :: _ => set { (← get) with tab := Array.replicate nSlots Obs.unknown, pend := none,
                                      cow := Cow.State.init Obs nHandles, amap := [], dpend := none, detName := "" }
  | "step" :: kind :: name :: rest => do
    finalize
    let nm := [name]
    let nums0 := rest
    let nums := nums0.takeWhile (· ≠ "#")
    match nums with
    | nd :: r1 =>
      let k := Lin.tokNat nd
      let dsts := (r1.take k).map Lin.tokNat
      match r1.drop k with
      | na :: r2 =>
        let args := (r2.take (Lin.tokNat na)).map Lin.tokNat
        modify fun s => { s with pend := some { ln := ln, kind := kind, name := "_".intercalate nm, dsts := dsts, args := args } }
      | [] => skip ln "parse"
    | [] => skip ln "parse"
  | ["exc", r, c] => do
    match (← get).pend with
    | some p =>
      modify fun s => { s with pend := some { p with excR := r, excC := c } }
      if r == c then ok ln else bad ln "exc_consistency" s!"step {p.name}: real run {r}, run on copies {c}"
    | none => skip ln "no-step"
  | "res" :: v => do
    match (← get).dpend with
    | some dp =>
      if !dp.done then
        modify fun s => { s with dpend := some { dp with res := some (parseObs v) } }
        return
    | none => pure ()
    match (← get).pend with
    | some p => modify fun s => { s with pend := some { p with res := some (parseObs v) } }
    | none => skip ln "no-step"
  | "carg" :: slot :: v => do
    let st ← get
    match st.pend with
    | some p =>
      let o := parseObs v
      let cur := asPool st.tab (Lin.tokNat slot)
      if cur.v.size + o.v.size > st.maxSize && cur.raw != o.raw then skip ln "size"
      else if obsEq cur o then ok ln
      else bad ln "const_arg_copy" s!"step {p.name}: the copy of argument {slot} changed: was {short cur.raw} now {short v}"
    | none => skip ln "no-step"
  | "qres" :: k :: rest => do
    let kk := Lin.tokNat k
    let a := rest.take kk
    let b := (rest.drop kk).take kk
    match (← get).pend with
    | some p =>
      if a == b then ok ln
      else bad ln (if hasDup p.args then "alias_query" else "copy_query") s!"{p.name}: real run {short a}, run on copies {short b}"
    | none => skip ln "no-step"
  | "obs" :: slot :: v => do
    finalize
    let st ← get
    match st.pend with
    | some p =>
      let sl := Lin.tokNat slot
      let o := parseObs v
      let cur := asPool st.tab sl
      if p.havoc.contains sl then
        set { st with tab := tabulate (Spec.upd (asPool st.tab) sl o) }
        skip ln "unspecified"
      else
        match o.v with
        | .unknown => bad ln "parse" s!"slot {slot}: {short v}"
        | _ =>
          if cur.v.size + o.v.size > st.maxSize && cur.raw != o.raw then
            set { st with tab := tabulate (Spec.upd (asPool st.tab) sl o) }
            skip ln "size"
          else if obsEq cur o then ok ln
          else
            set { st with tab := tabulate (Spec.upd (asPool st.tab) sl o) }
            bad ln (obligation p sl) s!"step {p.kind} {p.name} dsts={p.dsts} args={p.args} slot {slot}: specification {short cur.raw} | observed {short v}"
    | none => skip ln "no-step"
  | "crash" :: sig => do
    let st ← get
    let nm := match st.pend, st.dpend with
      | some p, _ => p.name
      | none, some dp => "Determinate " ++ " ".intercalate dp.toks
      | none, none => "?"
    bad ln "crash" s!"{" ".intercalate sig} in step {nm}"
  | "end" :: _ => finalize
  | _ => pure ()

partial def loop (h : IO.FS.Stream) (ln : Nat) : M Unit := do
  let line ← h.getLine
  if line.isEmpty then return
  processLine ln line
  loop h (ln + 1)

def main (args : List String) : IO UInt32 := do
  if args.contains "--move" then return (← C13Move.main)
  let maxSize := match args with
    | ["--max-size", k] => k.toNat?.getD 400
    | _ => 400
  let stdin ← IO.getStdin
  let ((), st) ← (loop stdin 1).run { maxSize := maxSize }
  IO.println s!"summary ok={st.nOk} mismatch={st.nBad} skipped={st.nSkip}"
  return 0
