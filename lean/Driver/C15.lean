import PPLV.Dump.ProofsLex

/-! native driver `pplv_c15`: reads the journal of `harness/c15_dumpload.cc` on stdin and checks, for every
harvested piece of real `ascii_dump` text, that the Lean loader of `PPLV/Dump/Model.lean` accepts it, that the
Lean printer reproduces it byte for byte, and — for status lines — that the status loader over the table
regenerated from the sources predicts the flags the real `ascii_load` left in a receiver with prior flags.
Verdicts: `ok <line>` / `MISMATCH <line> <obligation> <detail>`; first an `info` line about the tables. -/
open PPLV.Dump

namespace C15Driver

def unesc : List Char → List Char
  | '\\' :: 'n' :: r => '\n' :: unesc r
  | '\\' :: 'p' :: r => '|' :: unesc r
  | '\\' :: '\\' :: r => '\\' :: unesc r
  | c :: r => c :: unesc r
  | [] => []

def raw (s : String) : List Char := unesc s.toList
def show' (l : List Char) : String := (String.ofList l).replace "\n" "\\n"

/-- flags of a real status text: what the loader makes of it starting from no flags; the text must be what
the printer writes for these flags -/
def parseStatus (t : Table) (txt : List Char) : Except String Nat :=
  match loadStatus t 0 (words txt) with
  | some (f, []) =>
    if dumpStatus t f = txt then .ok f
    else .error s!"print_exact printer gives [{show' (dumpStatus t f)}] for [{show' txt}]"
  | some (_, _ :: _) => .error s!"parse trailing words in [{show' txt}]"
  | none => .error s!"parse loader rejects [{show' txt}]"

def checkSt (cls : String) (prior text result : String) : Except String Unit := do
  let some c := StatusClass.ofName cls | .error s!"class unknown {cls}"
  let t := c.table
  let pf ← parseStatus t (raw prior)
  let _ ← parseStatus t (raw text)
  let rf ← parseStatus t (raw result)
  match loadStatus t pf (words (raw text)) with
  | some (f, []) =>
    if f = rf then .ok () else .error s!"load_model model leaves flags {f}, real ascii_load left {rf} (receiver {pf})"
  | _ => .error "load_model model loader rejects the text"

def checkHdr (text : String) : Except String Unit :=
  match LinSysHeader.load (raw text) with
  | some h => if h.dump = raw text then .ok () else .error s!"print_exact [{show' h.dump}] vs [{text}]"
  | none => .error s!"parse header rejected [{text}]"

def checkBm (text : String) : Except String Unit :=
  match BitMatrix.load (raw text) with
  | some m =>
    if !m.valid then .error "parse invalid shape"
    else if m.dump = raw text then .ok () else .error s!"print_exact [{show' m.dump}] vs [{text}]"
  | none => .error s!"parse bit matrix rejected [{text}]"

def checkShaped (C : Codec) (sh : Shape) (text : String) : Except String Unit :=
  match ShapedMatrix.load C sh (raw text) with
  | some m =>
    if !m.valid sh then .error "parse invalid shape"
    else if m.dump = raw text then .ok () else .error s!"print_exact [{show' m.dump}] vs [{text}]"
  | none => .error s!"parse matrix rejected [{text}]"

def checkMatrix (sh : Shape) (ty text : String) : Except String Unit := do
  checkShaped wordCodec sh text
  if ty = "mpz" then checkShaped extIntCodec sh text

def checkBox (prior dumpTxt result : String) : Except String Unit := do
  let t := StatusClass.table .box
  let pf ← parseStatus t (raw prior)
  let rf ← parseStatus t (raw result)
  let d := raw dumpTxt
  -- the text itself: accepted, and reproduced by the printer
  match loadBox wordCodec t ⟨0, []⟩ d with
  | none => .error s!"parse box rejected [{dumpTxt}]"
  | some b0 =>
    if dumpBox wordCodec t b0 ≠ d then .error s!"print_exact [{show' (dumpBox wordCodec t b0)}] vs [{dumpTxt}]"
    else
      -- the loader as written, into the receiver's flags
      match loadBox wordCodec t ⟨pf, []⟩ d with
      | none => .error "load_model box rejected"
      | some b =>
        if b.flags = rf then .ok ()
        else .error s!"load_model model leaves flags {b.flags}, real Box::ascii_load left {rf} (receiver {pf})"

def enumKw (kind : String) : Option (List Word) :=
  match kind with
  | "mip_status" => some mipStatusKw
  | "mip_pricing" => some mipPricingKw
  | "opt_mode" => some optModeKw
  | "yes_no" => some yesNoKw
  | "pip_status" => some pipStatusKw
  | "pip_control" => some pipControlKw
  | _ => none

def checkEnum (kind word : String) : Except String Unit :=
  match enumKw kind with
  | none => .error s!"class unknown enumeration {kind}"
  | some ks =>
    match enumLoad ks word.toList with
    | some v => if enumDump ks v = word.toList then .ok () else .error "print_exact keyword"
    | none => .error s!"parse keyword {word} not in the table of {kind}"

def switchStr (c : StatusClass) : String :=
  match c.switch with
  | some true => "as_written_round0"
  | some false => "repaired"
  | none => "other"

def checkLine (line : String) : Option (Except String Unit) :=
  match line.splitOn "|" with
  | ["st", cls, _, prior, text, result] => some (checkSt cls prior text result)
  | ["hdr", text] => some (checkHdr text)
  | ["bm", text] => some (checkBm text)
  | ["dbm", ty, text] => some (checkMatrix dbShape ty text)
  | ["orm", ty, text] => some (checkMatrix orShape ty text)
  | ["box", _, prior, d, result] => some (checkBox prior d result)
  | ["enum", kind, word] => some (checkEnum kind word)
  | _ => none

partial def loop (h : IO.FS.Stream) (n ok bad : Nat) : IO (Nat × Nat) := do
  let line ← h.getLine
  if line.isEmpty then return (ok, bad)
  let l := if line.endsWith "\n" then (line.dropEnd 1).toString else line
  match checkLine l with
  | none => loop h (n + 1) ok bad
  | some (.ok ()) => IO.println s!"ok {n}"; loop h (n + 1) (ok + 1) bad
  | some (.error e) => IO.println s!"MISMATCH {n} {e}"; loop h (n + 1) ok (bad + 1)

end C15Driver

def main (_args : List String) : IO UInt32 := do
  let tabs := StatusClass.all.map fun c =>
    s!"{c.name}={C15Driver.switchStr c},wf={WF c.table},noclear={(noClearBits c.table).length}"
  IO.println ("info tables " ++ " ".intercalate tabs)
  let stdin ← IO.getStdin
  let (ok, bad) ← C15Driver.loop stdin 1 0 0
  IO.println s!"summary ok={ok} mismatch={bad}"
  return 0
