import PPLV.Wrap.GridWrap

/-!
# `pplv_gridwrap` — the model of `Grid::wrap_assign` against the real function (harness/c17_wrap.cc `--gridwrap`)

Journal lines judged (everything else is ignored):
```
gwrap <id> <description> | P <n> <nv> <v>* <w> <u|s> <w|u|i> <gdim|-1> <thr> <ind> <variant>
      | G <E | m (<l|q|p> <d> <a>*n)*>                minimized generators of a copy of the argument
      | R <E | …> | C <cgs>                            minimized generators (and congruences) of the real result
      | X <class> <method> | L <E | …>                 exception thrown by the real call, receiver as left
```
For every line
* the model `PPLV.Wrap.GW.gridWrapAssign` is run on the journalled argument; its outcome must be the real one:
  the same kind (normal return / dimension exception / `add_grid_generator` exception) and the SAME GRID, decided by
  K2's verified equality decider `equivB` (`C05.equiv_iff`) — not the same rows.  A difference: `DIVERGE`.
* independently of the model, the REAL result is judged against the property on sample points: the points of the
  argument with integer coordinates on `vars` are `intersectCons G [x ≡ 0 (mod 1) | x ∈ vars]` (K2, verified);
  points `p0 + Σ k q` of that grid are wrapped by the specification (`wrapR`, `inRangeB`) and every image must be a
  member of the real result (`memB`, `C05.memB_iff`).  A lost image: `MISMATCH` (with the point and the image).
* a real `add_grid_generator` exception on a legal call is reported as `THROWS`.
* `variants=`: which of the four variants of the model (`Repairs`: the repairs of KF-C17-12 / KF-C17-13 present or not;
  `kf12+kf13` = `gridWrapAssign`, the function as it is now; `beforefix` = before both repairs) have exactly the real
  outcome; `DIVERGE` = none of them.  The check requires `kf12+kf13` on every run.
Verdicts: `ok <id> k=v…`, `DIVERGE <id> …`, `MISMATCH <id> …`, `THROWS <id> …`, `skip <id> <reason>`.
-/
open PPLV.Lattice PPLV.Wrap PPLV.Wrap.GW

namespace GridWrapDriver

def toks (s : String) : List String := (s.trimAscii.toString.splitOn " ").filter (· ≠ "")
def tInt (s : String) : Int := s.toInt?.getD 0
def tNat (s : String) : Nat := s.toNat?.getD 0

def splitBar (ts : List String) : List (List String) :=
  let (cur, acc) := ts.foldl (fun (st : List String × List (List String)) t =>
    if t == "|" then ([], st.2 ++ [st.1]) else (st.1 ++ [t], st.2)) ([], [])
  acc ++ [cur]

def q (n d : Int) : Rat := (n : Rat) / (d : Rat)

/-- `<E | m (<kind> <d> <a>*n)*>` → K2 generator form (extra points become parameters) -/
def parseGens (n : Nat) (ts : List String) : Option GridGens :=
  match ts with
  | "E" :: _ => some .empty
  | m :: rest =>
    let rec go (k : Nat) (ts : List String) (pts params lines : List Vec) : Option (List Vec × List Vec × List Vec) :=
      match k with
      | 0 => some (pts, params, lines)
      | k + 1 =>
        match ts with
        | kind :: d :: more =>
          if more.length < n then none else
          let dv := tInt d
          let v : Vec := (more.take n).map fun s => q (tInt s) dv
          if kind == "l" then go k (more.drop n) pts params (lines ++ [v])
          else if kind == "q" then go k (more.drop n) pts (params ++ [v]) lines
          else go k (more.drop n) (pts ++ [v]) params lines
        | _ => none
    match go (tNat m) rest [] [] [] with
    | some (p :: ps, params, lines) => some (.gens { pt := p, params := ps.map (fun x => vsub x p) ++ params, lines := lines })
    | _ => none
  | _ => none

def showVec (v : Vec) : String := "(" ++ ", ".intercalate (v.map fun r => if r.den == 1 then toString r.num else s!"{r.num}/{r.den}") ++ ")"

def showGrid : GridGens → String
  | .empty => "E"
  | .gens g => s!"pt{showVec g.pt};params[{" ".intercalate (g.params.map showVec)}];lines[{" ".intercalate (g.lines.map showVec)}]"

def showOutcome : Outcome → String
  | .ok G => "ok:" ++ showGrid G
  | .dimensionIncompatible => "dimension_incompatible"
  | .invalidGenerator l => "invalid_generator:left=" ++ showGrid l

/-! ### statistics: the branch each variable goes through (mirrors `stepWI` / `stepU`, not part of the judgement) -/

def branchWI (w : Nat) (o : Ovf) (minV maxV : Int) (gr : Gens) (x : Nat) : String :=
  match frequencyNoCheck gr (unit x) with
  | none => "nofreq"
  | some (f_n, f_d, v_n, v_d) =>
    if f_n = 0 then
      if v_d ≠ 1 then "const_nonint" else if v_n > maxV ∨ v_n < minV then "const_out" else "const_in"
    else if Int.tmod f_d v_d ≠ 0 then "noint"
    else
      let fr := if f_d ≠ 1 then "+intcg" else ""
      let cls := if f_n < wrapFrequency w then "flt" else if f_n = wrapFrequency w then "feq"
                 else if f_n % wrapFrequency w = 0 then "fmul" else "fgt"
      if o = .wraps ∧ f_n ≠ wrapFrequency w then s!"param_{cls}{fr}"
      else if v_d = 1 then
        let v := leastNotBelow minV f_n v_n
        if f_n = wrapFrequency w ∨ v + f_n > maxV then s!"pin_{cls}{fr}" else s!"keep_{cls}{fr}"
      else s!"keepnonint_{cls}{fr}"

def branchU (minV maxV : Int) (gr : Gens) (x : Nat) : String :=
  let px : Rat := gr.pt.getD x 0
  if !boundsExpr (.gens gr) (unit x) then (if px.den ≠ 1 then "u_nc_nonint" else "u_nc_param")
  else if px.den ≠ 1 then "u_c_nonint" else if px > (maxV : Rat) ∨ px < (minV : Rat) then "u_c_out" else "u_c_in"

/-! ### the judge on sample points of the real result -/

def rangeInts (k : Nat) : List Int := ([0, 1, -1, 2, -2, 3, -3] : List Int).take k

/-- all `Σ kⱼ qⱼ` with `kⱼ` in the first `per` multipliers -/
def combos (per : Nat) : List Vec → List Vec
  | [] => [[]]
  | v :: vs =>
    let rest := combos per vs
    (rangeInts per).flatMap fun (k : Int) => rest.map fun r => vaxpy r (k : Rat) v

def samplePoints (g : Gens) : List Vec :=
  let np := g.params.length
  let per := if np ≤ 2 then 5 else if np = 3 then 3 else if np ≤ 5 then 2 else 1
  let base := (combos per g.params).map fun d => vadd g.pt d
  match g.lines with
  | [] => base
  | l :: _ => base ++ (base.take 6).map fun p => vaxpy p (-7 / 2) l

def candU (cfg : WrapCfg) (z : Int) : List Int :=
  if inRangeB cfg.r cfg.w z then [z]
  else [minValue cfg.r cfg.w, maxValue cfg.r cfg.w, wrapR cfg.r cfg.w z]

/-- the specification images of `p` (integer on `vars`): `none` = some wrapped coordinate is not an integer -/
def images (cfg : WrapCfg) (vars : List Nat) (p : Vec) : Option (List Vec) :=
  if vars.any (fun x => (p.getD x 0).den ≠ 1) then none else
  match cfg.o with
  | .wraps => some [vars.foldl (fun v x => setCoord v x (wrapR cfg.r cfg.w (p.getD x 0).num : Int)) p]
  | .impossible => if vars.all (fun x => inRangeB cfg.r cfg.w (p.getD x 0).num) then some [p] else some []
  | .undefined =>
    some ((vars.foldl (fun (acc : List Vec) x =>
      (acc.flatMap fun v => (candU cfg (p.getD x 0).num).map fun (z : Int) => setCoord v x (z : Rat)).take 27) [p]))

structure JStat where
  pts : Nat := 0
  imgs : Nat := 0
  lost : Option (Vec × Vec) := none

def judgeReal (cfg : WrapCfg) (vars : List Nat) (G R : GridGens) : JStat :=
  let GI := intersectCons G (vars.map fun x => { a := unit x, b := 0, f := 1 })
  match GI with
  | .empty => {}
  | .gens g =>
    (samplePoints g).foldl (fun (st : JStat) p =>
      if st.lost.isSome then st else
      match images cfg vars p with
      | none => st
      | some is =>
        is.foldl (fun (st : JStat) i =>
          if st.lost.isSome then st
          else if memB R i then { st with imgs := st.imgs + 1 } else { st with lost := some (p, i) })
          { st with pts := st.pts + 1 }) {}

/-! ### one line -/

def judgeLine (line : String) : Option String :=
  let ts := toks line
  match ts with
  | "gwrap" :: id :: rest =>
    let parts := splitBar rest
    let part (tag : String) : Option (List String) := (parts.find? fun p => p.head? == some tag).map (·.drop 1)
    match part "P" with
    | none => some s!"skip {id} no-parameters"
    | some (ns :: nvs :: p1) =>
      let n := tNat ns
      let nv := tNat nvs
      let vars := (p1.take nv).map tNat
      match p1.drop nv with
      | w :: rr :: oo :: gd :: thr :: ind :: _ =>
        let gdim := tInt gd
        let guard : Option (List PPLV.Lin.Con) :=
          if gdim < 0 then none
          else if gdim = 0 then some []
          else some [PPLV.Lin.geRow (PPLV.Lin.unitRow (gdim.toNat - 1) 1) 0]
        let cfg : WrapCfg := ⟨vars, tNat w, if rr == "u" then .unsigned else .signed,
          if oo == "w" then .wraps else if oo == "u" then .undefined else .impossible, guard, tNat thr, ind == "1"⟩
        match part "G" with
        | none =>
          -- the argument could not even be built / journalled
          some s!"skip {id} no-argument"
        | some gt =>
          match parseGens n gt with
          | none => some s!"skip {id} bad-argument-generators"
          | some G =>
            let model := gridWrapAssign n cfg G
            -- the four variants of the function (repairs of KF-C17-12 / KF-C17-13): which of them explain the real outcome
            let variants : List (String × Outcome) :=
              [("beforefix", gridWrapAssignV ⟨false, false⟩ n cfg G), ("kf12", gridWrapAssignV ⟨true, false⟩ n cfg G),
               ("kf13", gridWrapAssignV ⟨false, true⟩ n cfg G), ("kf12+kf13", model)]
            let explain (same : Outcome → Bool) : String :=
              ",".intercalate ((variants.filter fun v => same v.2).map (·.1))
            let nvars := normVars vars
            let mm := rangeOf cfg.r cfg.w
            let tags : String :=
              match G with
              | .empty => "emptyarg"
              | .gens gr =>
                if (vars.any fun x => x ≥ n) then "vars_beyond_dim" else
                ",".intercalate (nvars.map fun x =>
                  if cfg.o = .undefined then branchU mm.1 mm.2 gr x else branchWI cfg.w cfg.o mm.1 mm.2 gr x)
            let fl := if flawed cfg G then 1 else 0
            match part "X" with
            | some (cls :: meth :: _) =>
              if meth == "wrap_assign" then
                if model == .dimensionIncompatible then some s!"ok {id} out=dim variants=beforefix,kf12,kf13,kf12+kf13 flawed=0 pts=0 imgs=0 tags={tags}"
                else some s!"DIVERGE {id} real=dimension_incompatible model={showOutcome model}"
              else if meth == "add_grid_generator" then
                match (part "L").bind (parseGens n) with
                | some L =>
                  let ex := explain fun o => match o with | .invalidGenerator l => equivB l L | _ => false
                  if ex != "" then
                    let GI := intersectCons G (vars.map fun x => { a := unit x, b := 0, f := 1 })
                    some s!"THROWS {id} method=add_grid_generator left={showGrid L} integerpoints={if GI.isEmpty then 0 else 1} variants={ex} tags={tags}"
                  else some s!"DIVERGE {id} real=invalid_generator:left={showGrid L} model={showOutcome model}"
                | none => some s!"DIVERGE {id} real=invalid_generator model={showOutcome model}"
              else some s!"DIVERGE {id} real=exception:{cls}:{meth} model={showOutcome model}"
            | some _ => some s!"skip {id} bad-exception-part"
            | none =>
              match (part "R").bind (parseGens n) with
              | none => some s!"skip {id} no-result"
              | some R =>
                let st := judgeReal cfg nvars G R
                let ex := explain fun o => match o with | .ok M => equivB M R | _ => false
                match st.lost with
                | some (p, i) =>
                  some s!"MISMATCH {id} lost-image point={showVec p} image={showVec i} result={showGrid R} modeleq={if ex != "" then 1 else 0} variants={ex} flawed={fl} tags={tags}"
                | none =>
                  if ex == "" then some s!"DIVERGE {id} real=ok:{showGrid R} model={showOutcome model} tags={tags}"
                  else some s!"ok {id} out=ok variants={ex} flawed={fl} pts={st.pts} imgs={st.imgs} resempty={if R.isEmpty then 1 else 0} tags={tags}"
      | _ => some s!"skip {id} parse"
    | some _ => some s!"skip {id} parse"
  | _ => none

end GridWrapDriver

partial def loop (h : IO.FS.Stream) (out : IO.FS.Stream) : IO Unit := do
  let line ← h.getLine
  if line.isEmpty then return
  match GridWrapDriver.judgeLine line with
  | some v => out.putStrLn v
  | none => pure ()
  loop h out

def main (_args : List String) : IO UInt32 := do
  let stdin ← IO.getStdin
  let stdout ← IO.getStdout
  loop stdin stdout
  return 0
