import PPLV.WR.Closure
/-!
native driver `pplv_wrc` — correspondence of the closure / deduction models of `PPLV/WR/Closure.lean`
with the real `BD_Shape<T>` / `Octagonal_Shape<T>` kernels.

stdin: the journal of `harness/c03_closure.cc`, one event per line

    <id> <kind> <mode> <n> <before> <after>

* `kind`  : `bds` (`shortest_path_closure_assign`), `binc:<v>` (`incremental_shortest_path_closure_assign`,
            `v` = dbm index), `oct` (`strong_closure_assign`), `ocoh` (`strong_coherence_assign`),
            `oinc:<vid>` (`incremental_strong_closure_assign`), `otight` (`tight_closure_assign`),
            `dvmu:<v>:<last>:<d>:<ub_v>:<e0,e1,…>` (`deduce_v_minus_u_bounds`), `dumv:…`
            (`deduce_u_minus_v_bounds`), `dvpm:<v_id>:<last_id>:<d>:<ub_v>:<e…>` (`deduce_v_pm_u_bounds`),
            `dmvpm:…` (`deduce_minus_v_pm_u_bounds`)
* `mode`  : the rounding of `T`: `id` (`mpq_class`), `ceil` (`mpz_class`), `range:<lo>:<hi>` (bounded
            integers, e.g. `range:-126:126` for `int8_t`)
* `n`     : space dimension
* `before`, `after` : matrices as in `ascii_dump` — rows separated by `;`, entries by `,`, an entry is
            an integer, `p/q` or `+inf`; `after` is `E` when the kernel marked the shape empty.

Per event: `ok <id>` when the model computes exactly `after` (resp. reports emptiness exactly when the
code does), otherwise `MISMATCH <id> model <kind> got=<model's matrix or E> want=<after>`.
With the argument `print` the driver only prints `<id> <model's matrix or E>` per event.
-/
open PPLV.WR
open PPLV.WR.ExtRat (fin pinf)

namespace WRCDriver

def parseRat (s : String) : Option Rat :=
  match s.splitOn "/" with
  | [n] => n.toInt?.map (fun i => (i : Rat))
  | [n, d] => do
    let n ← n.toInt?
    let d ← d.toNat?
    if d == 0 then none else some (mkRat n d)
  | _ => none

def parseExt (s : String) : Option ExtRat :=
  if s == "+inf" then some pinf else (parseRat s).map fin

def parseMat (s : String) : Option (List (List ExtRat)) :=
  (s.splitOn ";").mapM fun row => (row.splitOn ",").mapM parseExt

def showRat (q : Rat) : String :=
  if q.den == 1 then toString q.num else s!"{q.num}/{q.den}"

def showExt : ExtRat → String
  | fin q => showRat q
  | pinf => "+inf"

def showMat (rows : List (List ExtRat)) : String :=
  ";".intercalate (rows.map fun r => ",".intercalate (r.map showExt))

def parseMode (s : String) : Option (Rat → ExtRat) :=
  match s.splitOn ":" with
  | ["id"] => some upId
  | ["ceil"] => some upCeil
  | ["range", lo, hi] => do
    let lo ← lo.toInt?
    let hi ← hi.toInt?
    some (upCeilRange lo hi)
  | _ => none

def parseCoeffs (s : String) : Option (Nat → Int) := do
  let l ← (s.splitOn ",").mapM String.toInt?
  some fun i => l.getD i 0

/-- the model's answer: `none` = marked empty -/
def runKind (kind : List String) (up : Rat → ExtRat) (n : Nat) (before : List (List ExtRat)) :
    Option (Option (List (List ExtRat))) :=
  let bdsOut (m : Mat) := Mat.toLists (n+1) (fun _ => n+1) m
  let octOut (m : Mat) := Mat.toLists (2*n) rowSize m
  match kind with
  | ["bds"] =>
    let m := DBM.ofLists n before
    some (if DBM.closureEmpty up m then none else some (bdsOut (DBM.closure up m).e))
  | ["binc", v] => do
    let v ← v.toNat?
    let m := DBM.ofLists n before
    some (if DBM.incClosureEmpty up v m then none else some (bdsOut (DBM.incClosure up v m).e))
  | ["oct"] =>
    let m := OctM.ofLists n before
    some (if OctM.strongClosureEmpty up m then none else some (octOut (OctM.strongClosure up m).e))
  | ["ocoh"] =>
    let m := OctM.ofLists n before
    some (some (octOut (OctM.strongCoherence up m).e))
  | ["oinc", v] => do
    let v ← v.toNat?
    let m := OctM.ofLists n before
    some (if OctM.incStrongClosureEmpty up v m then none
          else some (octOut (OctM.incStrongClosure up v m).e))
  | ["otight"] =>
    let m := OctM.ofLists n before
    some (if OctM.tightClosureEmpty up m then none else some (octOut (OctM.tightClosure up m).e))
  | [k, v, last, d, ub, es] => do
    let v ← v.toNat?
    let last ← last.toNat?
    let d ← d.toInt?
    let ub ← parseExt ub
    let e ← parseCoeffs es
    let m := Mat.ofLists before
    match k with
    | "dvmu" => some (some (bdsOut (deduceVMinusU up v last e d ub m)))
    | "dumv" => some (some (bdsOut (deduceUMinusV up v last e d ub m)))
    | "dvpm" => some (some (octOut (deduceVPmU up v last e d ub m)))
    | "dmvpm" => some (some (octOut (deduceMinusVPmU up v last e d ub m)))
    | _ => none
  | _ => none

def showRes : Option (List (List ExtRat)) → String
  | none => "E"
  | some m => showMat m

def processLine (printOnly : Bool) (line : String) : Option String :=
  let ws := (line.trimAscii.toString.splitOn " ").filter (· ≠ "")
  match ws with
  | [id, kind, mode, n, before, after] =>
    let r : Option String := do
      let up ← parseMode mode
      let n ← n.toNat?
      let b ← parseMat before
      let want ← if after == "E" then some none else (parseMat after).map some
      let got ← runKind (kind.splitOn ":") up n b
      if printOnly then some s!"{id} {showRes got}"
      else if showRes got == showRes want then some s!"ok {id}"
      else some s!"MISMATCH {id} model {kind} got={showRes got} want={showRes want}"
    some (r.getD s!"MISMATCH {id} parse {kind}")
  | [] => none
  | id :: _ => some s!"MISMATCH {id} parse -"

partial def loop (printOnly : Bool) (h : IO.FS.Stream) (out : IO.FS.Stream) : IO Unit := do
  let line ← h.getLine
  if line.isEmpty then return
  match processLine printOnly line with
  | some s => out.putStrLn s
  | none => pure ()
  loop printOnly h out

end WRCDriver

def main (args : List String) : IO UInt32 := do
  let stdin ← IO.getStdin
  let stdout ← IO.getStdout
  WRCDriver.loop (args.contains "print") stdin stdout
  return 0
