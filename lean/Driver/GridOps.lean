import PPLV.Lattice.GridOpsInv
/-!
# `pplv_gridops` — replays the code-shaped model of the `Grid` object on journalled raw states

stdin: the journal of `harness/c05_ops.cc` (blocks `ev … / pre x … / pre y … / post x … / post y … / ret … / exc … / end`).
stdout, one line per event:
  `ok <id> <opname> <tags…>` | `skip <id> <opname> <why…>` | `MISMATCH <id> <obligation> <opname> <detail…>`
obligations
  `state`    the model's raw post-state (space_dim, flags, up-to-date rows in order, dim_kinds) differs from the real one
  `modelret` the model's answer / exception differs from the real one
  `inv`      the REAL post-state breaks the invariant `invB` (flags not truthful)
  `sem`      the REAL post-state does not denote the K2 reference operator applied to the denotation of the REAL pre-state(s)
  `ret`      the REAL answer differs from the K2 reference's answer
(several obligations of one event are printed on several lines).
-/
open PPLV.Lattice PPLV.Lattice.Red PPLV.Lattice.GO

/-! ### token reader -/
abbrev P := StateT (List String) Option

def tok : P String := do
  match (← get) with
  | [] => failure
  | t :: ts => set ts; pure t
def pInt : P Int := do
  let t ← tok
  match t.toInt? with
  | some i => pure i
  | none => failure
def pNat : P Nat := do
  let i ← pInt
  if i < 0 then failure else pure i.toNat
def pMany {α} (n : Nat) (p : P α) : P (List α) := do
  let mut out := []
  for _ in [0:n] do
    out := (← p) :: out
  pure out.reverse
def expect (s : String) : P Unit := do
  let t ← tok
  if t = s then pure () else failure
def pRow : P Row := do let n ← pNat; pMany n pInt

def pCRow : P CRow := do let m ← pInt; let e ← pRow; pure { e := e, m := m }
def pGRow : P GRow := do let l ← pNat; let e ← pRow; pure { line := l = 1, e := e }
def pCSys : P CSys := do let d ← pNat; let n ← pNat; let rows ← pMany n pCRow; pure { dim := d, rows := rows }
def pGSys : P GSys := do let d ← pNat; let n ← pNat; let rows ← pMany n pGRow; pure { dim := d, rows := rows }
/-- `<sd> <b> a_0 … a_{sd-1}` -/
def pExpr : P LinExpr := do let sd ← pNat; let b ← pInt; let a ← pMany sd pInt; pure (b :: a)
def pCon : P Con := do
  let k ← pNat; let i ← pNat; let t ← pNat; let e ← pExpr
  pure { kind := k, inconsistent := i = 1, tautological := t = 1, e := e }
def pCS : P (Nat × List Con) := do let sd ← pNat; let n ← pNat; let cs ← pMany n pCon; pure (sd, cs)
def pVars : P (List Nat) := do let n ← pNat; pMany n pNat
def pPF : P PFunc := do
  let n ← pNat; let is ← pMany n pInt
  pure (is.map fun i => if i < 0 then none else some i.toNat)

def pState : P Grid := do
  let sd ← pNat; let fl ← pNat
  expect "C"; let cs ← pCSys
  expect "G"; let gs ← pGSys
  expect "K"; let k ← pNat; let dk ← pMany k pNat
  pure { spaceDim := sd, st := Status.ofNat fl, conDim := cs.dim, con := cs.rows, genDim := gs.dim, gen := gs.rows, dk := dk }

/-! ### printing -/
def b2s (b : Bool) : String := if b then "1" else "0"
def showRow (e : Row) : String := "[" ++ ",".intercalate (e.map toString) ++ "]"
def showC (r : CRow) : String := showRow r.e ++ "m" ++ toString r.m
def showG (r : GRow) : String := (if r.line then "L" else "P") ++ showRow r.e
def showGrid (g : Grid) : String :=
  s!"sd={g.spaceDim} fl={g.st.toNat} C{g.conDim}[{" ".intercalate (g.con.map showC)}] G{g.genDim}[{" ".intercalate (g.gen.map showG)}] K{showRow (g.dk.map Int.ofNat)}"
def showRat (r : Rat) : String := if r.den = 1 then toString r.num else s!"{r.num}/{r.den}"
def showVec (v : Vec) : String := "(" ++ ",".intercalate (v.map showRat) ++ ")"
def showGG : GridGens → String
  | .empty => "EMPTY"
  | .gens g => s!"pt{showVec g.pt};Q[{",".intercalate (g.params.map showVec)}];L[{",".intercalate (g.lines.map showVec)}]"
def relStr (r : Rel) : String := b2s r.disjoint ++ b2s r.strictlyIntersects ++ b2s r.included ++ b2s r.saturates
def bits4 (r : Bool × Bool × Bool × Bool) : String := b2s r.1 ++ b2s r.2.1 ++ b2s r.2.2.1 ++ b2s r.2.2.2

/-! ### comparing raw states -/

/-- the parts of the state that the flags declare meaningful -/
def stateDiff (model real : Grid) : Option String :=
  if model.spaceDim ≠ real.spaceDim then some "space_dim"
  else if model.st ≠ real.st then some s!"flags model={model.st.toNat} real={real.st.toNat}"
  else
    let conLive := real.st.cUp || real.st.empty || real.spaceDim == 0
    let genLive := real.st.gUp || real.st.empty || real.spaceDim == 0
    let dkLive := !real.st.empty && real.spaceDim != 0 && (real.st.cMin || real.st.gMin)
    if conLive && (model.conDim ≠ real.conDim || model.con ≠ real.con) then some "con_sys"
    else if genLive && (model.genDim ≠ real.genDim || model.gen ≠ real.gen) then some "gen_sys"
    else if dkLive && model.dk ≠ real.dk then some "dim_kinds"
    else none

/-- the stale parts differ (information only) -/
def staleDiff (model real : Grid) : Bool :=
  model.conDim ≠ real.conDim || model.con ≠ real.con || model.genDim ≠ real.genDim || model.gen ≠ real.gen || model.dk ≠ real.dk

/-! ### K2 reference -/

def ratVec (coeffs : List Int) : Vec := coeffs.map fun (z : Int) => (z : Rat)
/-- the homogeneous part of an expression argument as a K2 vector, and its inhomogeneous term -/
def exprVec (e : LinExpr) : Vec := ratVec (e.drop 1)
def exprB (e : LinExpr) : Rat := (get e 0 : Rat)

/-- a raw generator as K2 `(kind, vector)`: 0 line, 1 parameter, 2 point, 9 malformed -/
def genK2 (g : GRow) : Nat × Vec :=
  let n := g.e.length - 2
  let cs := ratVec ((g.e.drop 1).take n)
  if g.line then (0, cs)
  else if get g.e 0 ≠ 0 then (2, vsmul (1 / (get g.e 0 : Rat)) cs)
  else if get g.e (n + 1) = 0 then (9, cs)
  else (1, vsmul (1 / (get g.e (n + 1) : Rat)) cs)

def addGens (G : GridGens) (gs : List (Nat × Vec)) : GridGens :=
  let G1 := (gs.filter (·.1 = 2)).foldl (fun acc g => addPoint acc g.2) G
  let G2 := (gs.filter (·.1 = 1)).foldl (fun acc g => addParam acc g.2) G1
  (gs.filter (·.1 = 0)).foldl (fun acc g => addLine acc g.2) G2

def conRef (G : GridGens) (c : Con) : GridGens :=
  if c.kind = 0 then intersectCon G c.toCg.toCg
  else if (exprVec c.e).isZero && (exprB c.e < 0 || (c.kind = 2 && exprB c.e = 0)) then .empty
  else G

/-- `add_constraints`: the constraints are added one by one until the grid is empty or a non-trivial inequality
    is met (the call throws there, the constraints before it have been added) -/
def conRefLoop : GridGens → List Con → GridGens
  | G, [] => G
  | G, c :: cs =>
    if c.kind ≠ 0 && !(exprVec c.e).isZero then G
    else
      let G1 := conRef G c
      if G1.isEmpty then G1 else conRefLoop G1 cs

/-- outcome of the reference: the K2 grid and its dimension, or a reason not to judge -/
inductive RefRes where
  | grid (n : Nat) (G : GridGens)
  | same                      -- the denotation must not change (lazy machinery, observers, exceptions)
  | skip (why : String)

structure Ev where
  id : String := ""
  op : String := ""
  args : List String := []
  preX : Option Grid := none
  preY : Option Grid := none
  postX : Option Grid := none
  postY : Option Grid := none
  ret : Option (List String) := none
  exc : Option String := none
deriving Inhabited

/-- result of running the model on an event -/
structure MRes where
  x : Grid
  y : Option Grid := none
  thrown : Bool := false
  ret : Option (List String) := none
  tags : List String := []

def ofR (r : R) : MRes := { x := r.g, thrown := r.thrown }
def ofR2 (r : R2) : MRes := { x := r.x, y := some r.y, thrown := r.thrown }
def obsB (r : Grid × Bool) : MRes := { x := r.1, ret := some [b2s r.2] }
def obsOB (r : Grid × Option Bool) : MRes :=
  match r.2 with
  | some b => { x := r.1, ret := some [b2s b] }
  | none => { x := r.1, thrown := true }
def obs2OB (r : Grid × Grid × Option Bool) : MRes :=
  match r.2.2 with
  | some b => { x := r.1, y := some r.2.1, ret := some [b2s b] }
  | none => { x := r.1, y := some r.2.1, thrown := true }
def obsRel (r : Grid × Option Rel) : MRes :=
  match r.2 with
  | some b => { x := r.1, ret := some [relStr b] }
  | none => { x := r.1, thrown := true }

/-- the model: `none` = unparsable / unknown operation -/
def runModel (ev : Ev) : P MRes := do
  let x := ev.preX.getD default
  let y := ev.preY.getD default
  match ev.op with
  | "new_univ" => let n ← pNat; pure { x := constructDeg n true }
  | "new_empty" => let n ← pNat; pure { x := constructDeg n false }
  | "new_cgs" => let cs ← pCSys; pure { x := constructCgs cs }
  | "new_gens" =>
    let gs ← pGSys
    match constructGgs gs with
    | some g => pure { x := g }
    | none => pure { x := blank gs.dim, thrown := true }
  | "new_cs" =>
    -- `Grid(const Constraint_System&)` (Grid_public.cc:69): equalities are inserted one by one into a fresh system
    let (sd, cs) ← pCS
    if sd = 0 then
      pure { x := if cs.any (·.inconsistent) then
          (let c := (CSys.mk 0 []).insert zeroDimFalse
           { blank 0 with st := Status.setEmpty, conDim := c.dim, con := c.rows }) else setZeroDimUniv (blank 0) }
    else if cs.any (fun c => !c.isEquality) then pure { x := blank sd, thrown := true }
    else
      let cgs := cs.foldl (fun (s : CSys) c =>
        let s1 := if c.spaceDim > s.dim then s.setSpaceDim c.spaceDim else s
        { s1 with rows := s1.rows ++ [(c.toCg.setSpaceDim s1.dim).strongNormalize] }) { dim := sd, rows := [] }
      pure { x := constructCgs cgs }
  | "copy" => pure { x := copyCtor y, y := some y }
  | "assign" => pure { x := assign x y, y := some y }
  | "m_swap" => pure { x := y, y := some x }
  | "topological_closure_assign" => pure { x := x }
  | "minimize" => pure (obsB (minimize x))
  | "update_congruences" => pure { x := updateCongruences x }
  | "update_generators" => pure (obsB (updateGenerators x))
  | "congruences" => pure { x := congruences x }
  | "minimized_congruences" => pure { x := minimizedCongruences x }
  | "grid_generators" => pure { x := gridGenerators x }
  | "minimized_grid_generators" => pure { x := minimizedGridGenerators x }
  | "is_empty" => pure (obsB (isEmpty x))
  | "set_empty" => pure { x := setEmpty x }
  | "set_zero_dim_univ" => pure { x := setZeroDimUniv x }
  | "add_congruence" | "refine_with_congruence" => let cg ← pCRow; pure (ofR (addCongruence x cg))
  | "add_congruences" | "refine_with_congruences" => let cs ← pCSys; pure (ofR (addCongruences x cs))
  | "add_recycled_congruences" => let cs ← pCSys; pure (ofR (addRecycledCongruences x cs))
  | "add_constraint" => let c ← pCon; pure (ofR (addConstraint x c))
  | "refine_with_constraint" => let c ← pCon; pure (ofR (refineWithConstraint x c))
  | "add_constraints" | "add_recycled_constraints" => let (sd, cs) ← pCS; pure (ofR (addConstraints x sd cs))
  | "refine_with_constraints" => let (sd, cs) ← pCS; pure (ofR (refineWithConstraints x sd cs))
  | "add_grid_generator" => let g ← pGRow; pure (ofR (addGridGenerator x g))
  | "add_grid_generators" | "add_recycled_grid_generators" => let gs ← pGSys; pure (ofR (addRecycledGridGenerators x gs))
  | "intersection_assign" => pure (ofR2 (intersectionAssign x y))
  | "upper_bound_assign" => pure (ofR2 (upperBoundAssign x y))
  | "difference_assign" => pure (ofR2 (differenceAssign x y))
  | "time_elapse_assign" => pure (ofR2 (timeElapseAssign x y))
  | "concatenate_assign" => pure (ofR2 (concatenateAssign x y))
  | "upper_bound_assign_if_exact" =>
    let r := upperBoundAssignIfExact x y
    pure { x := r.1.x, y := some r.1.y, thrown := r.1.thrown, ret := if r.1.thrown then none else some [b2s r.2] }
  | "affine_image" => let v ← pNat; let e ← pExpr; let d ← pInt; pure (ofR (affineImage x v e d))
  | "affine_preimage" => let v ← pNat; let e ← pExpr; let d ← pInt; pure (ofR (affinePreimage x v e d))
  | "generalized_affine_image_var" =>
    let v ← pNat; let rs ← pNat; let e ← pExpr; let d ← pInt; let m ← pInt
    pure (ofR (generalizedAffineImageVar x v rs e d m))
  | "generalized_affine_preimage_var" =>
    let v ← pNat; let rs ← pNat; let e ← pExpr; let d ← pInt; let m ← pInt
    pure (ofR (generalizedAffinePreimageVar x v rs e d m))
  | "generalized_affine_image_lr" =>
    let l ← pExpr; let rs ← pNat; let r ← pExpr; let m ← pInt
    pure (ofR (generalizedAffineImageLR x l rs r m))
  | "generalized_affine_preimage_lr" =>
    let l ← pExpr; let rs ← pNat; let r ← pExpr; let m ← pInt
    pure (ofR (generalizedAffinePreimageLR x l rs r m))
  | "bounded_affine_image" => let v ← pNat; let lb ← pExpr; let ub ← pExpr; let d ← pInt; pure (ofR (boundedAffineImage x v lb ub d))
  | "bounded_affine_preimage" => let v ← pNat; let lb ← pExpr; let ub ← pExpr; let d ← pInt; pure (ofR (boundedAffinePreimage x v lb ub d))
  | "unconstrain_var" => let v ← pNat; pure (ofR (unconstrainVar x v))
  | "unconstrain_set" => let vs ← pVars; pure (ofR (unconstrainSet x vs))
  | "add_space_dimensions_and_embed" => let m ← pNat; pure { x := addSpaceDimensionsAndEmbed x m }
  | "add_space_dimensions_and_project" => let m ← pNat; pure { x := addSpaceDimensionsAndProject x m }
  | "remove_space_dimensions" => let vs ← pVars; pure (ofR (removeSpaceDimensions x vs))
  | "remove_higher_space_dimensions" => let n ← pNat; pure (ofR (removeHigherSpaceDimensions x n))
  | "map_space_dimensions" => let pf ← pPF; pure (ofR (mapSpaceDimensions x pf))
  | "expand_space_dimension" => let v ← pNat; let m ← pNat; pure (ofR (expandSpaceDimension x v m))
  | "fold_space_dimensions" => let vs ← pVars; let d ← pNat; pure (ofR (foldSpaceDimensions x vs d))
  | "contains" => pure (obs2OB (contains x y))
  | "strictly_contains" => pure (obs2OB (strictlyContains x y))
  | "equals" => let r := equals x y; pure { x := r.1, y := some r.2.1, ret := some [b2s r.2.2] }
  | "is_disjoint_from" => pure (obs2OB (isDisjointFrom x y))
  | "is_included_in" => let r := isIncludedIn x y; pure { x := r.1, y := some r.2.1, ret := some [b2s r.2.2] }
  | "quick_equivalence_test" => pure { x := x, y := some y, ret := some [toString (quickEquivalenceTest x y)] }
  | "relation_with_cg" => let cg ← pCRow; pure (obsRel (relationWithCg x cg))
  | "relation_with_gen" => let g ← pGRow; pure (obsOB (relationWithGen x g))
  | "relation_with_con" => let c ← pCon; pure (obsRel (relationWithCon x c))
  | "is_universe" => pure (obsB (isUniverse x))
  | "is_discrete" => pure (obsB (isDiscrete x))
  | "is_bounded" => pure (obsB (isBounded x))
  | "is_topologically_closed" => pure { x := x, ret := some ["1"] }
  | "OK" => pure { x := x }
  | "contains_integer_point" => pure { x := x, ret := some [b2s (containsIntegerPoint x)] }
  | "affine_dimension" => let r := affineDimension x; pure { x := r.1, ret := some [toString r.2] }
  | "space_dimension" => pure { x := x, ret := some [toString x.spaceDim] }
  | "constrains" => let v ← pNat; pure (obsOB (constrains x v))
  | "bounds_from_above" | "bounds_from_below" => let e ← pExpr; pure (obsOB (bounds x e))
  | "maximize" | "minimize_expr" =>
    let e ← pExpr
    match maxMin x e with
    | (g, none) => pure { x := g, thrown := true }
    | (g, some r) => pure { x := g, ret := some (if r.ok then ["1", toString r.num, toString r.den, b2s r.included] else ["0"]) }
  | "frequency" =>
    let e ← pExpr
    match frequency x e with
    | (g, none) => pure { x := g, thrown := true }
    | (g, some r) => pure { x := g, ret := some (if r.ok then ["1", toString r.fn, toString r.fd, toString r.vn, toString r.vd] else ["0"]) }
  | _ => failure

/-! ### the reference -/

def unitLines (vs : List Nat) : List Vec := vs.map unit

/-- K2 reference of a state-changing operation on the denotations `G` (receiver, dimension `n`) and `H` (argument) -/
def refOp (ev : Ev) (n : Nat) (G : GridGens) (m : Nat) (H : GridGens) : P RefRes := do
  match ev.op with
  | "new_univ" => let k ← pNat; pure (.grid k (univ k))
  | "new_empty" => let k ← pNat; pure (.grid k .empty)
  | "new_cgs" => let cs ← pCSys; pure (.grid cs.dim (consToGens cs.dim (cgsOf cs.rows)))
  | "new_gens" =>
    let gs ← pGSys
    let ks := gs.rows.map genK2
    if ks.any (·.1 > 2) then pure (.skip "malformed") else pure (.grid gs.dim (addGens .empty ks))
  | "new_cs" => let (sd, cs) ← pCS; pure (.grid sd (cs.foldl conRef (univ sd)))
  | "copy" | "assign" => pure (.grid m H)
  | "m_swap" => pure (.grid m H)
  | "set_empty" => pure (.grid n .empty)
  | "set_zero_dim_univ" => pure (.grid 0 (univ 0))
  | "add_congruence" | "refine_with_congruence" => let cg ← pCRow; pure (.grid n (intersectCon G cg.toCg))
  | "add_congruences" | "refine_with_congruences" | "add_recycled_congruences" =>
    let cs ← pCSys; pure (.grid n (intersectCons G (cgsOf cs.rows)))
  | "add_constraint" | "refine_with_constraint" => let c ← pCon; pure (.grid n (conRef G c))
  | "add_constraints" | "add_recycled_constraints" =>
    -- 7218b6b: the system is validated first; a rejected call (`exc`) must leave the grid unchanged (judged below)
    let (_, cs) ← pCS; pure (.grid n (cs.foldl conRef G))
  | "refine_with_constraints" => let (_, cs) ← pCS; pure (.grid n (cs.foldl conRef G))
  | "add_grid_generator" => let g ← pGRow; pure (.grid n (addGens G [genK2 g]))
  | "add_grid_generators" | "add_recycled_grid_generators" =>
    let gs ← pGSys; pure (.grid n (addGens G (gs.rows.map genK2)))
  | "intersection_assign" =>
    match inter G H with
    | some K => pure (.grid n K)
    | none => pure (.skip "certificate failed")
  | "upper_bound_assign" => pure (.grid n (join G H))
  | "difference_assign" =>
    match difference G H with
    | some K => pure (.grid n K)
    | none => pure (.skip "certificate failed")
  | "time_elapse_assign" => pure (.grid n (timeElapse G H))
  | "concatenate_assign" => pure (.grid (n + m) (concat n G H))
  | "upper_bound_assign_if_exact" => pure (.skip "judged through ret")
  | "affine_image" =>
    let v ← pNat; let e ← pExpr; let d ← pInt
    pure (.grid n (PPLV.Lattice.affineImage G v (exprVec e) (exprB e) (d : Rat)))
  | "affine_preimage" =>
    let v ← pNat; let e ← pExpr; let d ← pInt
    pure (.grid n (PPLV.Lattice.affinePreimage G v (exprVec e) (exprB e) (d : Rat)))
  | "generalized_affine_image_var" | "generalized_affine_preimage_var" =>
    let v ← pNat; let rs ← pNat; let e ← pExpr; let d ← pInt; let md ← pInt
    if rs ≠ 2 then pure (.grid n (addLines G [unit v]))
    else
      let lhs : Vec := vsmul (d : Rat) (unit v)
      let f : Rat := (d : Rat) * (md : Rat)
      if ev.op = "generalized_affine_image_var" then pure (.grid n (relImage n G lhs (0 - exprB e) (exprVec e) 0 f))
      else pure (.grid n (relPreimage n G lhs (0 - exprB e) (exprVec e) 0 f))
  | "generalized_affine_image_lr" | "generalized_affine_preimage_lr" =>
    let l ← pExpr; let rs ← pNat; let r ← pExpr; let md ← pInt
    if rs ≠ 2 then pure (.grid n (addLines G (unitLines (varsOf l))))
    else if ev.op = "generalized_affine_image_lr" then
      pure (.grid n (relImage n G (exprVec l) (exprB l - exprB r) (exprVec r) 0 (md : Rat)))
    else pure (.grid n (relPreimage n G (exprVec l) (exprB l - exprB r) (exprVec r) 0 (md : Rat)))
  | "bounded_affine_image" | "bounded_affine_preimage" => let v ← pNat; pure (.grid n (addLines G [unit v]))
  | "unconstrain_var" => let v ← pNat; pure (.grid n (addLines G [unit v]))
  | "unconstrain_set" => let vs ← pVars; pure (.grid n (addLines G (unitLines vs)))
  | "add_space_dimensions_and_embed" =>
    let k ← pNat; pure (.grid (n + k) (addLines G ((List.range k).map fun j => unit (n + j))))
  | "add_space_dimensions_and_project" => let k ← pNat; pure (.grid (n + k) G)
  | "remove_space_dimensions" =>
    let vs ← pVars
    let keep := (List.range n).filter fun i => !vs.contains i
    pure (.grid keep.length (mapG (selectCoords keep) [] G))
  | "remove_higher_space_dimensions" => let k ← pNat; pure (.grid k (mapG (selectCoords (List.range k)) [] G))
  | "map_space_dimensions" =>
    let pf ← pPF
    if n = 0 then pure (.grid 0 G) else
    let k := if pf.hasEmptyCodomain then 0 else pf.maxInCodomain + 1
    pure (.grid k (mapG (mapCoords k pf) [] G))
  | "expand_space_dimension" =>
    let v ← pNat; let k ← pNat
    match expand n v k G with
    | some K => pure (.grid (n + k) K)
    | none => pure (.skip "certificate failed")
  | "fold_space_dimensions" =>
    let vs ← pVars; let d ← pNat
    let keep := (List.range n).filter fun i => !vs.contains i
    if vs.isEmpty then pure (.grid n G) else pure (.grid keep.length (PPLV.Lattice.fold n vs d G))
  | _ => pure .same

/-- K2 reference answers of the observers: `none` = not judged -/
def refRet (ev : Ev) (n : Nat) (G : GridGens) (m : Nat) (H : GridGens) (real : List String) : P (Option String) := do
  let boolAns (want : Bool) : Option String :=
    if real = [b2s want] then none else some s!"lib={" ".intercalate real} ref={b2s want}"
  match ev.op with
  | "minimize" | "update_generators" => pure (boolAns (!G.isEmpty))
  | "is_empty" => pure (boolAns G.isEmpty)
  | "is_universe" => pure (boolAns (PPLV.Lattice.isUniverse n G))
  | "is_discrete" => pure (boolAns (PPLV.Lattice.isDiscrete G))
  | "is_bounded" => pure (boolAns (PPLV.Lattice.isBounded G))
  | "is_topologically_closed" => pure (boolAns true)
  | "contains_integer_point" => pure (boolAns (PPLV.Lattice.containsIntegerPoint n G))
  | "space_dimension" => pure (if real = [toString n] then none else some s!"lib={real} ref={n}")
  | "affine_dimension" =>
    let d := affineDim G
    pure (if real = [toString d] then none else some s!"lib={real} ref={d}")
  | "constrains" => let v ← pNat; pure (boolAns (PPLV.Lattice.constrains G v))
  | "contains" => pure (boolAns (subsetB H G))
  | "strictly_contains" => pure (boolAns (subsetB H G && !subsetB G H))
  | "equals" => pure (boolAns (n == m && equivB H G))
  | "is_included_in" => pure (boolAns (subsetB G H))
  | "is_disjoint_from" =>
    match inter G H with
    | some K => pure (boolAns K.isEmpty)
    | none => pure none
  | "quick_equivalence_test" =>
    -- TVB_TRUE ⇒ equal, TVB_FALSE ⇒ different
    let eq := equivB G H
    pure (if real = ["0"] && !eq then some "TVB_TRUE on different grids"
          else if real = ["1"] && eq then some "TVB_FALSE on equal grids" else none)
  | "upper_bound_assign_if_exact" =>
    -- `true` ⇒ the union is a grid: G ∪ H = join, i.e. one contains the other or … (only the sound direction is judged
    -- through `sem` of the post-state); nothing here
    pure none
  | "relation_with_cg" =>
    let cg ← pCRow
    let c := cg.toCg
    let w := bits4 (relCg G c)
    let r := real.headD ""
    let same := if n = 0 && c.f ≠ 0 then r.take 3 == w.take 3 else r == w
    pure (if same then none else some s!"lib={r} ref={w}")
  | "relation_with_con" =>
    let c ← pCon
    let w := bits4 (if c.kind = 0 then relCg G c.toCg.toCg else relIneq G (exprVec c.e) (exprB c.e) (c.kind = 2))
    let r := real.headD ""
    let same := if n = 0 && c.kind = 2 then r.take 3 == w.take 3 else r == w
    pure (if same then none else some s!"lib={r} ref={w}")
  | "relation_with_gen" =>
    let g ← pGRow
    let k := genK2 g
    if k.1 > 2 then pure none else pure (boolAns (relGen G k.1 k.2))
  | "bounds_from_above" | "bounds_from_below" => let e ← pExpr; pure (boolAns (boundsExpr G (exprVec e)))
  | "maximize" | "minimize_expr" =>
    let e ← pExpr
    match G with
    | .empty => pure (if real = ["0"] then none else some "lib=1 ref=0 (empty)")
    | .gens g =>
      if !boundsExpr G (exprVec e) then pure (if real = ["0"] then none else some "lib=1 ref=0 (unbounded)")
      else
        match real with
        | ["1", a, b, c] =>
          let want := dot (exprVec e) g.pt + exprB e
          match a.toInt?, b.toInt? with
          | some num, some den =>
            pure (if den ≠ 0 && (num : Rat) / (den : Rat) = want && c = "1" then none
                  else some s!"lib={a}/{b},{c} ref={showRat want},1")
          | _, _ => pure (some "unparsable")
        | _ => pure (some "lib=0 ref=1")
  | "frequency" =>
    let e ← pExpr
    match PPLV.Lattice.frequency G (exprVec e) (exprB e) with
    | none => pure (if real = ["0"] then none else some "lib=1 ref=0")
    | some (f, vals) =>
      match real with
      | ["1", a, b, c, d] =>
        match a.toInt?, b.toInt?, c.toInt?, d.toInt? with
        | some fn, some fd, some vn, some vd =>
          if fd = 0 || vd = 0 then pure (some "zero denominator") else
          let lf : Rat := (fn : Rat) / (fd : Rat); let lv : Rat := (vn : Rat) / (vd : Rat)
          pure (if lf ≠ f then some s!"freq lib={showRat lf} ref={showRat f}"
                else if !vals.contains lv then some s!"val lib={showRat lv} ref={",".intercalate (vals.map showRat)}"
                else none)
        | _, _, _, _ => pure (some "unparsable")
      | _ => pure (some "lib=0 ref=1")
  | _ => pure none

/-! ### judging one event -/

def flagTag (g : Grid) : String :=
  if g.st.empty then "E" else if g.spaceDim = 0 then "Z" else
    (if g.st.cUp then (if g.st.cMin then "C" else "c") else "-") ++ (if g.st.gUp then (if g.st.gMin then "G" else "g") else "-")

def isCtor (op : String) : Bool := ["new_univ", "new_empty", "new_cgs", "new_gens", "new_cs"].contains op
def isBinary (op : String) : Bool :=
  ["copy", "assign", "m_swap", "intersection_assign", "upper_bound_assign", "difference_assign", "time_elapse_assign",
   "concatenate_assign", "upper_bound_assign_if_exact", "contains", "strictly_contains", "equals", "is_disjoint_from",
   "is_included_in", "quick_equivalence_test"].contains op

def judge (ev : Ev) : List String :=
  let hd := s!"{ev.id}"
  match ev.postX with
  | none =>
    if ev.op = "normalize_divisors" then
      match (do let a ← pGSys; pure a : P GSys).run ev.args, (do let a ← pGSys; pure a : P GSys).run (ev.ret.getD []) with
      | some (a, _), some (r, _) =>
        if normalizeDivisors1 a == r then [s!"ok {hd} {ev.op}"]
        else [s!"MISMATCH {hd} state {ev.op} model={" ".intercalate ((normalizeDivisors1 a).rows.map showG)} real={" ".intercalate (r.rows.map showG)}"]
      | _, _ => [s!"skip {hd} {ev.op} unparsable"]
    else if ev.op = "normalize_divisors2" then
      match (do let a ← pGSys; let b ← pGSys; pure (a, b) : P (GSys × GSys)).run ev.args,
            (do let a ← pGSys; let b ← pGSys; pure (a, b) : P (GSys × GSys)).run (ev.ret.getD []) with
      | some (a, _), some (r, _) =>
        let m := normalizeDivisors2 a.1 a.2
        if m == r then [s!"ok {hd} {ev.op}"]
        else [s!"MISMATCH {hd} state {ev.op} model={" ".intercalate (m.1.rows.map showG)} | {" ".intercalate (m.2.rows.map showG)} real={" ".intercalate (r.1.rows.map showG)} | {" ".intercalate (r.2.rows.map showG)}"]
      | _, _ => [s!"skip {hd} {ev.op} unparsable"]
    else if isCtor ev.op && ev.exc.isSome then
      match (runModel ev).run ev.args with
      | some (mr, _) => if mr.thrown then [s!"ok {hd} {ev.op} exc"] else [s!"MISMATCH {hd} modelret {ev.op} exception model=0 real=1"]
      | none => [s!"skip {hd} {ev.op} unparsable-or-unknown"]
    else [s!"skip {hd} {ev.op} no-post-state"]
  | some realX =>
    -- an object outside the invariant (left behind by an earlier, reported event) is not replayed: the theorems do not
    -- speak about it, and conversions of garbage rows may take for ever
    let bigG (o : Option Grid) : Bool := match o with | some g => g.spaceDim > 12 || g.conDim > 14 || g.genDim > 14 | none => false
    if bigG ev.preX || bigG ev.preY then [s!"skip {hd} {ev.op} dimension-out-of-range"]
    else if bigG ev.postX || bigG ev.postY then
      -- the harness never asks for more than 5 dimensions: only the raw comparison is affordable
      match (runModel ev).run ev.args with
      | some (mr, _) =>
        (match stateDiff mr.x realX with
         | some d => [s!"MISMATCH {hd} state {ev.op} x:{d} (real dimension {realX.spaceDim})"]
         | none => [s!"skip {hd} {ev.op} dimension-out-of-range"])
      | none => [s!"skip {hd} {ev.op} unparsable-or-unknown"]
    else if !((match ev.preX with | some g => invB g | none => true) && (match ev.preY with | some g => invB g | none => true)) then
      [s!"skip {hd} {ev.op} pre-state-outside-invariant"]
    else
    match (runModel ev).run ev.args with
    | none => [s!"skip {hd} {ev.op} unparsable-or-unknown"]
    | some (mr, _) =>
      let preTag := (match ev.preX with | some g => flagTag g | none => "new") ++
        (match ev.preY with | some g => "/" ++ flagTag g | none => "")
      let realThrown := ev.exc.isSome
      let out : List String := []
      -- 1. model vs real: exception, raw state, answer
      let out := if mr.thrown ≠ realThrown then
          out ++ [s!"MISMATCH {hd} modelret {ev.op} exception model={b2s mr.thrown} real={b2s realThrown} {ev.exc.getD ""}"]
        else out
      let out := match stateDiff mr.x realX with
        | some d => out ++ [s!"MISMATCH {hd} state {ev.op} x:{d} pre={preTag} || model: {showGrid mr.x} || real: {showGrid realX}"]
        | none => out
      let out := match mr.y, ev.postY with
        | some my, some ry =>
          (match stateDiff my ry with
           | some d => out ++ [s!"MISMATCH {hd} state {ev.op} y:{d} pre={preTag} || model: {showGrid my} || real: {showGrid ry}"]
           | none => out)
        | _, _ => out
      let out := match mr.ret, ev.ret with
        | some a, some b => if !realThrown && a ≠ b then
            out ++ [s!"MISMATCH {hd} modelret {ev.op} model={" ".intercalate a} real={" ".intercalate b} pre={preTag}"] else out
        | _, _ => out
      let preOk := (match ev.preX with | some g => invB g | none => true) && (match ev.preY with | some g => invB g | none => true)
      if !preOk then
        (if out.isEmpty then [s!"skip {hd} {ev.op} pre-state-outside-invariant pre={preTag}"]
         else out ++ [s!"info {hd} {ev.op} pre-state-outside-invariant pre={preTag}"])
      else
      -- 2. the invariant on the real post-states
      let out := if !invB realX then out ++ [s!"MISMATCH {hd} inv {ev.op} x pre={preTag} || real: {showGrid realX}"] else out
      let out := match ev.postY with
        | some ry => if !invB ry then out ++ [s!"MISMATCH {hd} inv {ev.op} y pre={preTag} || real: {showGrid ry}"] else out
        | none => out
      -- 3. the reference on the denotations of the real states
      let dPreX : Option (Nat × GridGens) := match ev.preX with
        | some g => (den g).map fun G => (g.spaceDim, G)
        | none => if isCtor ev.op || ev.op = "copy" then some (0, .empty) else none
      let dPreY : Option (Nat × GridGens) := match ev.preY with
        | some g => (den g).map fun G => (g.spaceDim, G)
        | none => if isBinary ev.op then none else some (0, .empty)
      let semOut : List String × List String :=
        match dPreX, dPreY with
        | some (n, G), some (m, H) =>
          -- the argument keeps its denotation
          let o1 : List String := match ev.postY with
            | some ry =>
              (match den ry with
               | some H' => if ev.op = "m_swap" then
                    (if ry.spaceDim = n && equivB H' G then [] else [s!"MISMATCH {hd} sem {ev.op} y-after-swap"])
                  else if ry.spaceDim = m && equivB H' H then [] else [s!"MISMATCH {hd} sem {ev.op} argument-changed real={showGG H'} was={showGG H}"]
               | none => [s!"MISMATCH {hd} sem {ev.op} argument-undenotable"])
            | none => []
          match (refOp ev n G m H).run ev.args with
          | none => (o1, ["ref-unparsable"])
          | some (res, _) =>
            let want : Option (Nat × GridGens) × Option String :=
              if realThrown then (some (n, G), none) else
              match res with
              | .grid k K => (some (k, K), none)
              | .same => (some (n, G), none)
              | .skip why => (none, some why)
            let o2 : List String × List String := match want with
              | (some (k, K), _) =>
                (match den realX with
                 | some K' =>
                   if realX.spaceDim = k && equivB K' K then ([], [])
                   else ([s!"MISMATCH {hd} sem {ev.op} pre={preTag} dim={realX.spaceDim}/{k} real={showGG K'} ref={showGG K} from={showGG G}" ++
                          (if isBinary ev.op then s!" arg={showGG H}" else "")], [])
                 | none => ([s!"MISMATCH {hd} sem {ev.op} post-state-undenotable || real: {showGrid realX}"], []))
              | (none, some why) => ([], ["sem-skip:" ++ why])
              | (none, none) => ([], [])
            let o3 : List String := match ev.ret with
              | some real => if realThrown then [] else
                (match (refRet ev n G m H real).run ev.args with
                 | some (some d, _) => [s!"MISMATCH {hd} ret {ev.op} {d} pre={preTag} grid={showGG G}" ++ (if isBinary ev.op then s!" arg={showGG H}" else "")]
                 | _ => [])
              | none => []
            (o1 ++ o2.1 ++ o3, o2.2)
        | _, _ => ([], ["pre-undenotable"])
      let out := out ++ semOut.1
      -- instances of the duality hypotheses `DkCompatG` / `DkCompatC` (one description minimized, the other one simplified
      -- by this call, `dim_kinds` overwritten): their conclusion is part of `invB` of the post-state, checked above
      let dkTag : List String := match ev.preX with
        | some g => if !g.st.empty && g.spaceDim != 0 && g.st.cUp && g.st.gUp && (g.st.cMin != g.st.gMin) &&
                      realX.st.cMin && realX.st.gMin && realX.spaceDim == g.spaceDim then
                      [if g.st.cMin then "dkcompatG-instance-checked" else "dkcompatC-instance-checked"] else []
        | none => []
      let tags := [s!"pre={preTag}", s!"post={flagTag realX}"] ++ (if realThrown then ["exc"] else []) ++ semOut.2 ++ dkTag ++
        (if stateDiff mr.x realX == none && staleDiff mr.x realX then ["stale-differs"] else [])
      if out.isEmpty then [s!"ok {hd} {ev.op} {" ".intercalate tags}"]
      else out ++ [s!"info {hd} {ev.op} {" ".intercalate tags}"]

/-! ### main loop -/

def parseState (rest : List String) : Option Grid := (pState.run rest).map (·.1)

def stepLine (ev : Ev) (line : String) : Ev × List String :=
  let toks := (line.trimAscii.toString.splitOn " ").filter (· ≠ "")
  match toks with
  | "ev" :: id :: op :: args => ({ id := id, op := op, args := args }, [])
  | "pre" :: "x" :: rest => ({ ev with preX := parseState rest }, [])
  | "pre" :: "y" :: rest => ({ ev with preY := parseState rest }, [])
  | "post" :: "x" :: rest => ({ ev with postX := parseState rest }, [])
  | "post" :: "y" :: rest => ({ ev with postY := parseState rest }, [])
  | "ret" :: rest => ({ ev with ret := some rest }, [])
  | "exc" :: rest => ({ ev with exc := some (" ".intercalate rest) }, [])
  | "end" :: _ => if ev.id = "" then ({}, []) else ({}, judge ev)
  | _ => (ev, [])

partial def loop (h : IO.FS.Stream) (out : IO.FS.Stream) (ev : Ev) : IO Unit := do
  let line ← h.getLine
  if line.isEmpty then return ()
  let (ev', vs) := stepLine ev line
  for v in vs do out.putStrLn v
  loop h out ev'

def main (_args : List String) : IO UInt32 := do
  let stdin ← IO.getStdin
  let stdout ← IO.getStdout
  loop stdin stdout {}
  stdout.flush
  return 0
