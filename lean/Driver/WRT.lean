import PPLV.WR.Trans
import PPLV.WR.TransOct
import PPLV.Lin.Parse
/-!
native driver `pplv_wrt` — correspondence of the transformer models of `PPLV/WR/Trans.lean`
(`BD_Shape<T>`) and `PPLV/WR/TransOct.lean` (`Octagonal_Shape<T>::affine_image`) with the real code,
and an independent judgement of the real output with the K1 deciders.

stdin: the journal of `harness/c03_trans.cc`, one event per line

    <id> <op> <mode> <n> <closed> <before> <args...> <after>

* `mode`   : the rounding of `T`: `id` (`mpq_class`, `Rnd.exact`), `ceil` (`mpz_class`, `Rnd.ceil`),
             `range:<lo>:<hi>` (bounded integers, `Rnd.range lo hi`), `dbl` (`double`)
* `n`      : space dimension; `closed` : `marked_shortest_path_closed()` just before the call (0/1)
* `before`, `after` : matrices, rows separated by `;`, entries by `,`; an entry is an integer, `p/q`,
             `+inf`, `-inf` or `nan`; `after` is `E` when the shape is marked empty afterwards and
             `X:<class>` when the call threw.  A line ending in `crash <signal>` (no `after`) is a call
             that killed the process.
* `op` and `args`:
    * `refine <sd> <kind> <inhomo> <coeffs>` — `refine_no_check(c)`, `addc …` — `add_constraint(c)`:
      `c` reads `coeffs·x + inhomo ⋈ 0`, `kind ∈ {eq, ge, gt}`, `sd = c.space_dimension()`, `coeffs` comma
      separated (`-` when `sd = 0`)
    * `aff <var> <den> <b> <coeffs>` — `affine_image(Variable(var), coeffs·x + b, den)`
    * `gaff <var> <le|ge|eq> <den> <b> <coeffs>` — `generalized_affine_image(var, relsym, expr, den)`
    * `baff <var> <den> <bl> <lcoeffs> <bu> <ucoeffs>` — `bounded_affine_image(var, lb, ub, den)`
    * `apre <var> <den> <b> <coeffs>` — `affine_preimage(Variable(var), coeffs·x + b, den)`
    * `gapre <var> <le|ge|eq> <den> <b> <coeffs>` — `generalized_affine_preimage(var, relsym, expr, den)`
    * `unc <var>` — `unconstrain(Variable(var))`
    * `oaff <var> <den> <b> <coeffs>` — `Octagonal_Shape<T>::affine_image` (matrices: the `2n` rows of the
      pseudo-triangular matrix)

Per event one verdict line

* `ok <id> <op> <branch> <J|->`    the model (rounding of `T`) computes exactly `after` (same `E` / throws)
* `okle <id> <op> <branch> <J|->`  mode `dbl`: the model with exact arithmetic is entrywise `≤` the real matrix
* `MISMATCH <id> model <op> <branch> got=… want=…`
* `NAN <id> <op> <branch> <entry|threw> [coeff] maxb=<k>`  (`k` = largest finite magnitude in the closed matrix) the real matrix holds `nan` / `-inf`, or the call threw an
                                   `int` (`sgn()` of a Not-a-Number does `throw(0)`): not compared, not judged
* `skip <id> coeff <op> <J|F|->`   a coefficient of the expression is not representable in `T` (bounded integers:
                                   beyond `±hi`): outside the model, the real output is still judged.  A case where only
                                   the denominator is not representable is replayed (`Rnd.dn` / `Rnd.up` model
                                   `div_round_up_by_positive`); its branch tag ends in `/bigden`
* `CRASH <id> <op> <signal>`

and, when the real output is not sound, a second line `JUDGE-FAIL <id> <op> …`: `before` is read as a
constraint system (`m[i][j] = p/q` finite, `i ≠ j` ⇒ `x_j − x_i ≤ p/q`, `x_0 = 0`), the exact result is
computed with the `RefPoly` operators of K1 (`addCons`, `affineImage`, `genAffineImage`,
`boundedAffineImage`, `unconstrain`, `affinePreimage`, `genAffinePreimage`), `after` is read the same way
(octagons: cell `(i, j)` bounds `V_j − V_i` with `V_{2k} = x_k`, `V_{2k+1} = −x_k`) and `subsetB n exact after` is
demanded (`E` ⇒ the exact result is infeasible).  `J` = judged and sound.

Arguments: `nojudge` (model comparison only), `print` (print the model's answer instead of comparing).
-/
open PPLV.WR
open PPLV.WR.ExtRat (fin pinf)

namespace WRTDriver

def parseRat (s : String) : Option Rat :=
  match s.splitOn "/" with
  | [n] => n.toInt?.map (fun i => (i : Rat))
  | [n, d] => do
    let n ← n.toInt?
    let d ← d.toNat?
    if d == 0 then none else some (mkRat n d)
  | _ => none

def parseExt (s : String) : Option ExtRat :=
  if s == "+inf" then some pinf else (parseRat s).map fin

def parseMat (s : String) : Option (List (List ExtRat)) :=
  (s.splitOn ";").mapM fun row => (row.splitOn ",").mapM parseExt

def showRat (q : Rat) : String :=
  if q.den == 1 then toString q.num else s!"{q.num}/{q.den}"

def showExt : ExtRat → String
  | fin q => showRat q
  | pinf => "+inf"

def showMat (rows : List (List ExtRat)) : String :=
  ";".intercalate (rows.map fun r => ",".intercalate (r.map showExt))

inductive Mode | exact (R : Rnd) (hi : Option Int) | dbl

def parseMode (s : String) : Option Mode :=
  match s.splitOn ":" with
  | ["id"] => some (.exact Rnd.exact none)
  | ["ceil"] => some (.exact Rnd.ceil none)
  | ["range", lo, hi] => do
    let lo ← lo.toInt?
    let hi ← hi.toInt?
    some (.exact (Rnd.range lo hi) (some hi))
  | ["dbl"] => some .dbl
  | _ => none

def parseInts (s : String) : Option (List Int) :=
  if s == "-" then some [] else (s.splitOn ",").mapM String.toInt?

def fnOf (l : List Int) : Nat → Int := fun i => l.getD i 0

inductive Res where
  | mat (m : List (List ExtRat))
  | empty
  | throws

def Res.show : Res → String
  | .mat m => showMat m
  | .empty => "E"
  | .throws => "X"

def bdsOut (n : Nat) (m : Mat) : List (List ExtRat) := Mat.toLists (n+1) (fun _ => n+1) m
def octOut (n : Nat) (m : Mat) : List (List ExtRat) := Mat.toLists (2*n) rowSize m

def ofOutcome (n : Nat) : Outcome → Res
  | .ok m => .mat (bdsOut n m)
  | .empty => .empty
  | .throws => .throws

def ofOpt (n : Nat) : Option Mat → Res
  | some m => .mat (bdsOut n m)
  | none => .empty

def parseKind : String → Option CKind
  | "eq" => some .eq | "ge" => some .ge | "gt" => some .gt | _ => none

def parseRelSym : String → Option RelSym
  | "le" => some .le | "ge" => some .ge | "eq" => some .eq | _ => none

/-- an operation with parsed arguments -/
inductive Op where
  | refine (add : Bool) (sd : Nat) (kind : CKind) (inhomo : Int) (cf : List Int)
  | aff (var : Nat) (den b : Int) (cf : List Int)
  | gaff (var : Nat) (rel : RelSym) (den b : Int) (cf : List Int)
  | apre (var : Nat) (den b : Int) (cf : List Int)
  | gapre (var : Nat) (rel : RelSym) (den b : Int) (cf : List Int)
  | baff (var : Nat) (den bl : Int) (lcf : List Int) (bu : Int) (ucf : List Int)
  | unc (var : Nat)
  | oaff (var : Nat) (den b : Int) (cf : List Int)

def parseOp (op : String) (args : List String) : Option Op :=
  match op, args with
  | "refine", [sd, k, i, cf] => do some (.refine false (← sd.toNat?) (← parseKind k) (← i.toInt?) (← parseInts cf))
  | "addc", [sd, k, i, cf] => do some (.refine true (← sd.toNat?) (← parseKind k) (← i.toInt?) (← parseInts cf))
  | "aff", [v, d, b, cf] => do some (.aff (← v.toNat?) (← d.toInt?) (← b.toInt?) (← parseInts cf))
  | "gaff", [v, r, d, b, cf] => do
    some (.gaff (← v.toNat?) (← parseRelSym r) (← d.toInt?) (← b.toInt?) (← parseInts cf))
  | "apre", [v, d, b, cf] => do some (.apre (← v.toNat?) (← d.toInt?) (← b.toInt?) (← parseInts cf))
  | "gapre", [v, r, d, b, cf] => do
    some (.gapre (← v.toNat?) (← parseRelSym r) (← d.toInt?) (← b.toInt?) (← parseInts cf))
  | "baff", [v, d, bl, lcf, bu, ucf] => do
    some (.baff (← v.toNat?) (← d.toInt?) (← bl.toInt?) (← parseInts lcf) (← bu.toInt?) (← parseInts ucf))
  | "unc", [v] => do some (.unc (← v.toNat?))
  | "oaff", [v, d, b, cf] => do some (.oaff (← v.toNat?) (← d.toInt?) (← b.toInt?) (← parseInts cf))
  | _, _ => none

def nArgs : String → Option Nat
  | "refine" => some 4 | "addc" => some 4 | "aff" => some 4 | "gaff" => some 5 | "baff" => some 6
  | "unc" => some 1 | "oaff" => some 4 | "apre" => some 4 | "gapre" => some 5 | _ => none

/-- the coefficients that the transformer converts to `T` with `assign_r(coeff_i, ±sc_i, ROUND_UP)`: a case
with one of them beyond the range of a bounded `T` is outside the model (`skip`).  The preimages build
the inverse expression from the coefficients and the denominator: all of them count there. -/
def Op.convInts : Op → List Int
  | .refine .. => []
  | .aff _ _ _ cf => cf
  | .gaff _ _ _ _ cf => cf
  | .apre _ d _ cf => d :: cf
  | .gapre _ _ d _ cf => d :: cf
  | .baff _ _ _ lcf _ ucf => lcf ++ ucf
  | .unc _ => []
  | .oaff _ _ _ cf => cf

/-- the denominator (`div_round_up_by_positive` converts it to `T` in both directions: modelled by `Rnd.dn` /
`Rnd.up`, so the case is replayed, but it is outside the hypotheses `CoeffExact` of the theorems) -/
def Op.den : Op → Int
  | .aff _ d .. => d | .gaff _ _ d .. => d | .baff _ d .. => d | .oaff _ d .. => d | _ => 1

/-- the model's answer -/
def runOp (R : Rnd) (n : Nat) (closed : Bool) (before : List (List ExtRat)) : Op → Res
  | .refine false sd k i cf => ofOutcome n (refineNoCheck R sd (fnOf cf) i k (DBM.ofLists n before).e)
  | .refine true sd k i cf => ofOutcome n (addConstraint R sd (fnOf cf) i k (DBM.ofLists n before).e)
  | .aff v d b cf => ofOpt n (affineImage R closed v (fnOf cf) b d (DBM.ofLists n before))
  | .gaff v r d b cf => ofOpt n (genAffineImage R closed v r (fnOf cf) b d (DBM.ofLists n before))
  | .baff v d bl lcf bu ucf =>
    ofOpt n (boundedAffineImage R closed v (fnOf lcf) bl (fnOf ucf) bu d (DBM.ofLists n before))
  | .unc v => ofOpt n (unconstrain R closed v (DBM.ofLists n before))
  | .apre v d b cf => ofOpt n (affinePreimage R closed v (fnOf cf) b d (DBM.ofLists n before))
  | .gapre v r d b cf => ofOpt n (genAffinePreimage R closed v r (fnOf cf) b d (DBM.ofLists n before))
  | .oaff v d b cf =>
    match octAffineImage R closed v (fnOf cf) b d (OctM.ofLists n before) with
    | some m => .mat (octOut n m)
    | none => .empty

/-! ### which branch of the code the case exercises (coverage only) -/

def cnt2 (c : Nat) : Nat := if c > 1 then 2 else c

def formTag (R : Rnd) (n v : Nat) (e : Nat → Int) (den : Int) (m : Mat) (both : Bool) : String :=
  let w := lastNonzero e n
  let t := exprT e w
  if t = 0 then "t0"
  else
    let a := e (w - 1)
    if t = 1 ∧ (a = den ∨ a = - den) then
      s!"t1.{if w = v then "wv" else "wo"}.{if a = den then "a+" else "a-"}"
    else
      let sc := scExpr e den
      let scDen := if den > 0 then den else - den
      let stored (st : Acc) : String :=
        if st.cnt = 1 then (if st.idx ≠ v ∧ sc (st.idx - 1) = scDen then "y" else "n") else ""
      let p := loopUp w (accStepA R m sc true) ⟨fin 0, 0, 0⟩
      let q := loopUp w (accStepA R m sc false) ⟨fin 0, 0, 0⟩
      if both then s!"g{t}.p{cnt2 p.cnt}{stored p}.n{cnt2 q.cnt}{stored q}" else s!"g{t}.p{cnt2 p.cnt}{stored p}"

def gformTag (R : Rnd) (n v : Nat) (isLe : Bool) (e : Nat → Int) (den : Int) (m : Mat) : String :=
  let w := lastNonzero e n
  let t := exprT e w
  if t = 0 then "t0"
  else
    let a := e (w - 1)
    if t = 1 ∧ (a = den ∨ a = - den) then
      s!"t1.{if w = v then "wv" else "wo"}.{if a = den then "a+" else "a-"}"
    else
      let sc := scExpr e den
      let st := loopUp w (accStepG R m sc isLe) ⟨fin 0, 0, 0⟩
      let stored := if st.cnt = 1 then (if st.idx ≠ v ∧ e (st.idx - 1) = den then "y" else "n") else ""
      s!"g{t}.c{cnt2 st.cnt}{stored}"

/-- the form of the expression alone -/
def plainForm (n v : Nat) (e : Nat → Int) (den : Int) : String :=
  let w := lastNonzero e n
  let t := exprT e w
  if t = 0 then "t0"
  else
    let a := e (w - 1)
    if t = 1 ∧ (a = den ∨ a = - den) then
      s!"t1.{if w = v then "wv" else "wo"}.{if a = den then "a+" else "a-"}"
    else s!"g{t}"

/-- `affine_preimage`: the form, and whether the general case is invertible -/
def preTag (n var : Nat) (e : Nat → Int) (den : Int) : String :=
  let f := plainForm n (var+1) e den
  if f.startsWith "g" then s!"{f}.{if e var ≠ 0 then "inv" else "forget"}" else f

def dsign (d : Int) : String := if d > 0 then "d+" else "d-"

def branchTag (R : Rnd) (n : Nat) (closed : Bool) (before : List (List ExtRat)) : Op → String
  | .refine _ sd k i cf =>
    let x := extractBoundedDifference sd (fnOf cf)
    let ks := match k with | .eq => "eq" | .ge => "ge" | .gt => "gt"
    if !x.ok then s!"nonbd.{ks}"
    else if x.numVars = 0 then s!"v0.{ks}.{if i < 0 then "neg" else if i = 0 then "zero" else "pos"}"
    else s!"v{x.numVars}.{ks}.{if x.coeff < 0 then "cneg" else "cpos"}{if x.coeff = 1 ∨ x.coeff = -1 then "" else ".a"}"
  | .aff v d _ cf =>
    match closeFirst R.up closed (DBM.ofLists n before) with
    | none => "E"
    | some m => s!"{formTag R n (v+1) (fnOf cf) d m true}/{dsign d}"
  | .gaff v r d _ cf =>
    match closeFirst R.up closed (DBM.ofLists n before) with
    | none => "E"
    | some m =>
      match r with
      | .eq => s!"eq.{formTag R n (v+1) (fnOf cf) d m true}/{dsign d}"
      | .le => s!"le.{gformTag R n (v+1) true (fnOf cf) d m}/{dsign d}"
      | .ge => s!"ge.{gformTag R n (v+1) false (fnOf cf) d m}/{dsign d}"
  | .baff v d _ lcf _ ucf =>
    match closeFirst R.up closed (DBM.ofLists n before) with
    | none => "E"
    | some m => s!"ub.{formTag R n (v+1) (fnOf ucf) d m false}:lb.{gformTag R n (v+1) false (fnOf lcf) d m}/{dsign d}"
  | .unc _ => "unc"
  | .apre v d _ cf => s!"{preTag n v (fnOf cf) d}/{dsign d}"
  | .gapre v r d _ cf =>
    let rs := match r with | .le => "le" | .ge => "ge" | .eq => "eq"
    s!"{rs}.{if r = .eq then preTag n v (fnOf cf) d else if (fnOf cf) v ≠ 0 then "inv." ++ plainForm n (v+1) (fnOf cf) d else "ref." ++ plainForm n (v+1) (fnOf cf) d}/{dsign d}"
  | .oaff v d _ cf => s!"{plainForm n (v+1) (fnOf cf) d}/{dsign d}"

/-! ### the judge -/
open PPLV.Lin in
/-- the constraint system of a difference-bound matrix -/
def matRows (n : Nat) (m : List (List ExtRat)) : List Con :=
  (List.range (n+1)).flatMap fun i => (List.range (n+1)).filterMap fun j =>
    if i = j then none else
    match (m.getD i []).getD j pinf with
    | pinf => none
    | fin q =>
      let d : Int := q.den
      some ⟨(List.range n).map fun k =>
              (if k + 1 = i then d else 0) - (if k + 1 = j then d else 0), q.num, false⟩

open PPLV.Lin in
/-- the constraint system of an octagon matrix: `m[i][j]` bounds `oval j − oval i`, with
`oval (2k) = x_k`, `oval (2k+1) = −x_k` -/
def octRows (n : Nat) (m : List (List ExtRat)) : List Con :=
  (List.range (2*n)).flatMap fun i => (List.range (rowSize i)).filterMap fun j =>
    if i = j then none else
    match (m.getD i []).getD j pinf with
    | pinf => none
    | fin q =>
      let d : Int := q.den
      let sg (t : Nat) : Int := if t % 2 = 0 then 1 else -1
      some ⟨(List.range n).map fun k =>
              (if k = i / 2 then sg i * d else 0) - (if k = j / 2 then sg j * d else 0), q.num, false⟩

open PPLV.Lin in
def exactOf (p : RefPoly) : Op → RefPoly
  | .refine _ _ k i cf =>
    p.addCons (match k with | .eq => eqRows cf i | .ge => [geRow cf i] | .gt => [gtRow cf i])
  | .aff v d b cf => p.affineImage v ⟨cf, b⟩ d
  | .gaff v r d b cf =>
    p.genAffineImage v (match r with | .le => Rel.le | .ge => Rel.ge | .eq => Rel.eq) ⟨cf, b⟩ d
  | .apre v d b cf => p.affinePreimage v ⟨cf, b⟩ d
  | .gapre v r d b cf =>
    p.genAffinePreimage v (match r with | .le => Rel.le | .ge => Rel.ge | .eq => Rel.eq) ⟨cf, b⟩ d
  | .baff v d bl lcf bu ucf => p.boundedAffineImage v ⟨lcf, bl⟩ ⟨ucf, bu⟩ d
  | .unc v => p.unconstrain [v]
  | .oaff v d b cf => p.affineImage v ⟨cf, b⟩ d

open PPLV.Lin in
/-- `none` = sound; `some why` otherwise -/
def judge (n : Nat) (oct : Bool) (before : List (List ExtRat)) (op : Op) (after : Option (List (List ExtRat))) :
    Option String :=
  let rows := fun m => if oct then octRows n m else matRows n m
  let p : RefPoly := ⟨true, n, rows before⟩
  let ex := exactOf p op
  match after with
  | none => if feasible n ex.cs then some "marked empty, the exact result is not empty" else none
  | some a =>
    let bad := (rows a).filter fun c => !implies n ex.cs c
    if bad.isEmpty then none
    else some s!"the result cuts away points of the exact result: {bad.length} row(s) not implied, first {repr (bad.headD default).coeffs} k={(bad.headD default).k}"

/-- the largest magnitude among the finite entries of the matrix the transformer works on (after the
closure at its head): the structural class of a Not-a-Number case is `|coefficient| * |bound|` beyond `T` -/
def maxBound (R : Rnd) (n : Nat) (closed oct : Bool) (before : List (List ExtRat)) : Int :=
  let rows : List (List ExtRat) :=
    if oct then
      match octCloseFirst R.up closed (OctM.ofLists n before) with
      | some m => octOut n m
      | none => before
    else
      match closeFirst R.up closed (DBM.ofLists n before) with
      | some m => bdsOut n m
      | none => before
  (rows ++ before).foldl (fun acc r => r.foldl (fun acc x =>
    match x with
    | fin q => max acc (if q < 0 then (-q).ceil else q.ceil)
    | pinf => acc) acc) 0

def leMat (a b : List (List ExtRat)) : Bool :=
  a.length == b.length && (a.zip b).all fun (r, s) => r.length == s.length && (r.zip s).all fun (x, y) => decide (x ≤ y)

def hasNaN (s : String) : Bool := (s.splitOn "nan").length > 1 || (s.splitOn "-inf").length > 1

def processLine (printOnly noJudge : Bool) (line : String) : List String :=
  let ws := (line.trimAscii.toString.splitOn " ").filter (· ≠ "")
  match ws with
  | [] => []
  | ["end"] => []
  | id :: op :: mode :: n :: closed :: before :: rest =>
    match nArgs op with
    | none => [s!"MISMATCH {id} parse {op}"]
    | some k =>
      if rest.length == k + 2 && rest.getD k "" == "crash" then [s!"CRASH {id} {op} {rest.getD (k+1) "?"}"]
      else if rest.length != k + 1 then [s!"MISMATCH {id} parse {op} arity"]
      else
        let after := rest.getD k ""
        let r : Option (List String) := do
          let md ← parseMode mode
          let n ← n.toNat?
          let b ← parseMat before
          let o ← parseOp op (rest.take k)
          let closed := closed == "1"
          let oct := op == "oaff"
          let (R, hi, isDbl) := match md with
            | .exact R hi => (R, hi, false)
            | .dbl => (Rnd.exact, none, true)
          let tag := branchTag R n closed b o
          let tag := match hi with
            | some h => if o.den > h ∨ o.den < -h then tag ++ "/bigden" else tag
            | none => tag
          if printOnly then some [s!"{id} {(runOp R n closed b o).show}"] else
          let outside := match hi with
            | some h => o.convInts.any fun c => decide (c > h ∨ c < -h)
            | none => false
          if hasNaN after || after == "X:int" then
            some [s!"NAN {id} {op} {tag} {if after == "X:int" then "threw" else "entry"}{if outside then " coeff" else ""} maxb={maxBound R n closed oct b}"] else
          let wantM ← if after == "E" || after.startsWith "X:" then some none else (parseMat after).map some
          let jres : Option String :=
            if noJudge || after.startsWith "X:" then none else judge n oct b o wantM
          let jl := match jres with
            | some why => [s!"JUDGE-FAIL {id} {op} {tag} {why}"]
            | none => []
          let jflag := if noJudge || after.startsWith "X:" then "-" else if jres.isNone then "J" else "F"
          if outside then some (s!"skip {id} coeff {op} {jflag}" :: jl) else
          let got := runOp R n closed b o
          let wantS := if after.startsWith "X:" then "X" else after
          if !isDbl then
            if got.show == wantS then some (s!"ok {id} {op} {tag} {jflag}" :: jl)
            else some (s!"MISMATCH {id} model {op} {tag} got={got.show} want={wantS}" :: jl)
          else
            let fine := match got, wantM with
              | .mat g, some w => leMat g w
              | .empty, _ => !after.startsWith "X:"      -- exact arithmetic detects emptiness earlier
              | .throws, _ => after.startsWith "X:"
              | .mat _, none => false
            if fine then some (s!"okle {id} {op} {tag} {jflag}" :: jl)
            else some (s!"MISMATCH {id} model {op} {tag} got={got.show} want={wantS} (mode dbl: model <= real demanded)" :: jl)
        r.getD [s!"MISMATCH {id} parse {op}"]
  | id :: _ => [s!"MISMATCH {id} parse -"]

partial def loop (printOnly noJudge : Bool) (h : IO.FS.Stream) (out : IO.FS.Stream) : IO Unit := do
  let line ← h.getLine
  if line.isEmpty then return
  for s in processLine printOnly noJudge line do
    out.putStrLn s
  loop printOnly noJudge h out

end WRTDriver

def main (args : List String) : IO UInt32 := do
  let stdin ← IO.getStdin
  let stdout ← IO.getStdout
  WRTDriver.loop (args.contains "print") (args.contains "nojudge") stdin stdout
  return 0
