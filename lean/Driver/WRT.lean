import PPLV.WR.Trans
import PPLV.WR.TransOct
import PPLV.WR.Trans2Lhs
import PPLV.WR.TransOct2Gen
import PPLV.WR.TransOct2Lhs
import PPLV.WR.Trans2Lat
import PPLV.WR.TransOct2Lat
import PPLV.Lin.Parse
/-!
native driver `pplv_wrt` — correspondence of the transformer models of `PPLV/WR/Trans.lean`
(`BD_Shape<T>`) and `PPLV/WR/TransOct.lean` (`Octagonal_Shape<T>::affine_image`) with the real code,
and an independent judgement of the real output with the K1 deciders.

stdin: the journal of `harness/c03_trans.cc`, one event per line

    <id> <op> <mode> <n> <closed> <before> <args...> <after>

* `mode`   : the rounding of `T`: `id` (`mpq_class`, `Rnd.exact`), `ceil` (`mpz_class`, `Rnd.ceil`),
             `range:<lo>:<hi>` (bounded integers, `Rnd.range lo hi`), `dbl` (`double`)
* `n`      : space dimension; `closed` : `marked_shortest_path_closed()` just before the call (0/1)
* `before`, `after` : matrices, rows separated by `;`, entries by `,`; an entry is an integer, `p/q`,
             `+inf`, `-inf` or `nan`; `after` is `E` when the shape is marked empty afterwards and
             `X:<class>` when the call threw.  A line ending in `crash <signal>` (no `after`) is a call
             that killed the process.
* `op` and `args`:
    * `refine <sd> <kind> <inhomo> <coeffs>` — `refine_no_check(c)`, `addc …` — `add_constraint(c)`:
      `c` reads `coeffs·x + inhomo ⋈ 0`, `kind ∈ {eq, ge, gt}`, `sd = c.space_dimension()`, `coeffs` comma
      separated (`-` when `sd = 0`)
    * `aff <var> <den> <b> <coeffs>` — `affine_image(Variable(var), coeffs·x + b, den)`
    * `gaff <var> <le|ge|eq> <den> <b> <coeffs>` — `generalized_affine_image(var, relsym, expr, den)`
    * `baff <var> <den> <bl> <lcoeffs> <bu> <ucoeffs>` — `bounded_affine_image(var, lb, ub, den)`
    * `apre <var> <den> <b> <coeffs>` — `affine_preimage(Variable(var), coeffs·x + b, den)`
    * `gapre <var> <le|ge|eq> <den> <b> <coeffs>` — `generalized_affine_preimage(var, relsym, expr, den)`
    * `unc <var>` — `unconstrain(Variable(var))`
    * `oaff <var> <den> <b> <coeffs>` — `Octagonal_Shape<T>::affine_image` (matrices: the `2n` rows of the
      pseudo-triangular matrix)

Per event one verdict line

* `ok <id> <op> <branch> <J|->`    the model (rounding of `T`) computes exactly `after` (same `E` / throws)
* `okle <id> <op> <branch> <J|->`  mode `dbl`: the model with exact arithmetic is entrywise `≤` the real matrix
* `MISMATCH <id> model <op> <branch> got=… want=…`
* `NAN <id> <op> <branch> <entry|threw> [coeff] maxb=<k>`  (`k` = largest finite magnitude in the closed matrix) the real matrix holds `nan` / `-inf`, or the call threw an
                                   `int` (`sgn()` of a Not-a-Number does `throw(0)`): not compared, not judged
* `skip <id> coeff <op> <J|F|->`   a coefficient of the expression is not representable in `T` (bounded integers:
                                   beyond `±hi`): outside the model, the real output is still judged.  A case where only
                                   the denominator is not representable is replayed (`Rnd.dn` / `Rnd.up` model
                                   `div_round_up_by_positive`); its branch tag ends in `/bigden`
* `CRASH <id> <op> <signal>`

and, when the real output is not sound, a second line `JUDGE-FAIL <id> <op> …`: `before` is read as a
constraint system (`m[i][j] = p/q` finite, `i ≠ j` ⇒ `x_j − x_i ≤ p/q`, `x_0 = 0`), the exact result is
computed with the `RefPoly` operators of K1 (`addCons`, `affineImage`, `genAffineImage`,
`boundedAffineImage`, `unconstrain`, `affinePreimage`, `genAffinePreimage`), `after` is read the same way
(octagons: cell `(i, j)` bounds `V_j − V_i` with `V_{2k} = x_k`, `V_{2k+1} = −x_k`) and `subsetB n exact after` is
demanded (`E` ⇒ the exact result is infeasible).  `J` = judged and sound.

Arguments: `nojudge` (model comparison only), `print` (print the model's answer instead of comparing).
-/
open PPLV.WR
open PPLV.WR.ExtRat (fin pinf)

namespace WRTDriver

def parseRat (s : String) : Option Rat :=
  match s.splitOn "/" with
  | [n] => n.toInt?.map (fun i => (i : Rat))
  | [n, d] => do
    let n ← n.toInt?
    let d ← d.toNat?
    if d == 0 then none else some (mkRat n d)
  | _ => none

def parseExt (s : String) : Option ExtRat :=
  if s == "+inf" then some pinf else (parseRat s).map fin

def parseMat (s : String) : Option (List (List ExtRat)) :=
  (s.splitOn ";").mapM fun row => (row.splitOn ",").mapM parseExt

def showRat (q : Rat) : String :=
  if q.den == 1 then toString q.num else s!"{q.num}/{q.den}"

def showExt : ExtRat → String
  | fin q => showRat q
  | pinf => "+inf"

def showMat (rows : List (List ExtRat)) : String :=
  ";".intercalate (rows.map fun r => ",".intercalate (r.map showExt))

inductive Mode | exact (R : Rnd) (hi : Option Int) | dbl

def parseMode (s : String) : Option Mode :=
  match s.splitOn ":" with
  | ["id"] => some (.exact Rnd.exact none)
  | ["ceil"] => some (.exact Rnd.ceil none)
  | ["range", lo, hi] => do
    let lo ← lo.toInt?
    let hi ← hi.toInt?
    some (.exact (Rnd.range lo hi) (some hi))
  | ["dbl"] => some .dbl
  | _ => none

def parseInts (s : String) : Option (List Int) :=
  if s == "-" then some [] else (s.splitOn ",").mapM String.toInt?

def fnOf (l : List Int) : Nat → Int := fun i => l.getD i 0

inductive Res where
  | mat (m : List (List ExtRat))
  | empty
  | throws

def Res.show : Res → String
  | .mat m => showMat m
  | .empty => "E"
  | .throws => "X"

def bdsOut (n : Nat) (m : Mat) : List (List ExtRat) := Mat.toLists (n+1) (fun _ => n+1) m
def octOut (n : Nat) (m : Mat) : List (List ExtRat) := Mat.toLists (2*n) rowSize m

def ofOutcome (n : Nat) : Outcome → Res
  | .ok m => .mat (bdsOut n m)
  | .empty => .empty
  | .throws => .throws

def ofOpt (n : Nat) : Option Mat → Res
  | some m => .mat (bdsOut n m)
  | none => .empty

def parseKind : String → Option CKind
  | "eq" => some .eq | "ge" => some .ge | "gt" => some .gt | _ => none

def parseRelSym : String → Option RelSym
  | "le" => some .le | "ge" => some .ge | "eq" => some .eq | _ => none

/-- an operation with parsed arguments -/
inductive Op where
  | refine (add : Bool) (sd : Nat) (kind : CKind) (inhomo : Int) (cf : List Int)
  | aff (var : Nat) (den b : Int) (cf : List Int)
  | gaff (var : Nat) (rel : RelSym) (den b : Int) (cf : List Int)
  | apre (var : Nat) (den b : Int) (cf : List Int)
  | gapre (var : Nat) (rel : RelSym) (den b : Int) (cf : List Int)
  | baff (var : Nat) (den bl : Int) (lcf : List Int) (bu : Int) (ucf : List Int)
  | unc (var : Nat)
  | oaff (var : Nat) (den b : Int) (cf : List Int)

def parseOp (op : String) (args : List String) : Option Op :=
  match op, args with
  | "refine", [sd, k, i, cf] => do some (.refine false (← sd.toNat?) (← parseKind k) (← i.toInt?) (← parseInts cf))
  | "addc", [sd, k, i, cf] => do some (.refine true (← sd.toNat?) (← parseKind k) (← i.toInt?) (← parseInts cf))
  | "aff", [v, d, b, cf] => do some (.aff (← v.toNat?) (← d.toInt?) (← b.toInt?) (← parseInts cf))
  | "gaff", [v, r, d, b, cf] => do
    some (.gaff (← v.toNat?) (← parseRelSym r) (← d.toInt?) (← b.toInt?) (← parseInts cf))
  | "apre", [v, d, b, cf] => do some (.apre (← v.toNat?) (← d.toInt?) (← b.toInt?) (← parseInts cf))
  | "gapre", [v, r, d, b, cf] => do
    some (.gapre (← v.toNat?) (← parseRelSym r) (← d.toInt?) (← b.toInt?) (← parseInts cf))
  | "baff", [v, d, bl, lcf, bu, ucf] => do
    some (.baff (← v.toNat?) (← d.toInt?) (← bl.toInt?) (← parseInts lcf) (← bu.toInt?) (← parseInts ucf))
  | "unc", [v] => do some (.unc (← v.toNat?))
  | "oaff", [v, d, b, cf] => do some (.oaff (← v.toNat?) (← d.toInt?) (← b.toInt?) (← parseInts cf))
  | _, _ => none

def nArgs : String → Option Nat
  | "refine" => some 4 | "addc" => some 4 | "aff" => some 4 | "gaff" => some 5 | "baff" => some 6
  | "unc" => some 1 | "oaff" => some 4 | "apre" => some 4 | "gapre" => some 5 | _ => none

/-- the coefficients that the transformer converts to `T` with `assign_r(coeff_i, ±sc_i, ROUND_UP)`: a case
with one of them beyond the range of a bounded `T` is outside the model (`skip`).  The preimages build
the inverse expression from the coefficients and the denominator: all of them count there. -/
def Op.convInts : Op → List Int
  | .refine .. => []
  | .aff _ _ _ cf => cf
  | .gaff _ _ _ _ cf => cf
  | .apre _ d _ cf => d :: cf
  | .gapre _ _ d _ cf => d :: cf
  | .baff _ _ _ lcf _ ucf => lcf ++ ucf
  | .unc _ => []
  | .oaff _ _ _ cf => cf

/-- the denominator (`div_round_up_by_positive` converts it to `T` in both directions: modelled by `Rnd.dn` /
`Rnd.up`, so the case is replayed, but it is outside the hypotheses `CoeffExact` of the theorems) -/
def Op.den : Op → Int
  | .aff _ d .. => d | .gaff _ _ d .. => d | .baff _ d .. => d | .oaff _ d .. => d | _ => 1

/-- the model's answer -/
def runOp (R : Rnd) (n : Nat) (closed : Bool) (before : List (List ExtRat)) : Op → Res
  | .refine false sd k i cf => ofOutcome n (refineNoCheck R sd (fnOf cf) i k (DBM.ofLists n before).e)
  | .refine true sd k i cf => ofOutcome n (addConstraint R sd (fnOf cf) i k (DBM.ofLists n before).e)
  | .aff v d b cf => ofOpt n (affineImage R closed v (fnOf cf) b d (DBM.ofLists n before))
  | .gaff v r d b cf => ofOpt n (genAffineImage R closed v r (fnOf cf) b d (DBM.ofLists n before))
  | .baff v d bl lcf bu ucf =>
    ofOpt n (boundedAffineImage R closed v (fnOf lcf) bl (fnOf ucf) bu d (DBM.ofLists n before))
  | .unc v => ofOpt n (unconstrain R closed v (DBM.ofLists n before))
  | .apre v d b cf => ofOpt n (affinePreimage R closed v (fnOf cf) b d (DBM.ofLists n before))
  | .gapre v r d b cf => ofOpt n (genAffinePreimage R closed v r (fnOf cf) b d (DBM.ofLists n before))
  | .oaff v d b cf =>
    match octAffineImage R closed v (fnOf cf) b d (OctM.ofLists n before) with
    | some m => .mat (octOut n m)
    | none => .empty

/-! ### which branch of the code the case exercises (coverage only) -/

def cnt2 (c : Nat) : Nat := if c > 1 then 2 else c

def formTag (R : Rnd) (n v : Nat) (e : Nat → Int) (den : Int) (m : Mat) (both : Bool) : String :=
  let w := lastNonzero e n
  let t := exprT e w
  if t = 0 then "t0"
  else
    let a := e (w - 1)
    if t = 1 ∧ (a = den ∨ a = - den) then
      s!"t1.{if w = v then "wv" else "wo"}.{if a = den then "a+" else "a-"}"
    else
      let sc := scExpr e den
      let scDen := if den > 0 then den else - den
      let stored (st : Acc) : String :=
        if st.cnt = 1 then (if st.idx ≠ v ∧ sc (st.idx - 1) = scDen then "y" else "n") else ""
      let p := loopUp w (accStepA R m sc true) ⟨fin 0, 0, 0⟩
      let q := loopUp w (accStepA R m sc false) ⟨fin 0, 0, 0⟩
      if both then s!"g{t}.p{cnt2 p.cnt}{stored p}.n{cnt2 q.cnt}{stored q}" else s!"g{t}.p{cnt2 p.cnt}{stored p}"

def gformTag (R : Rnd) (n v : Nat) (isLe : Bool) (e : Nat → Int) (den : Int) (m : Mat) : String :=
  let w := lastNonzero e n
  let t := exprT e w
  if t = 0 then "t0"
  else
    let a := e (w - 1)
    if t = 1 ∧ (a = den ∨ a = - den) then
      s!"t1.{if w = v then "wv" else "wo"}.{if a = den then "a+" else "a-"}"
    else
      let sc := scExpr e den
      let st := loopUp w (accStepG R m sc isLe) ⟨fin 0, 0, 0⟩
      let stored := if st.cnt = 1 then (if st.idx ≠ v ∧ e (st.idx - 1) = den then "y" else "n") else ""
      s!"g{t}.c{cnt2 st.cnt}{stored}"

/-- the form of the expression alone -/
def plainForm (n v : Nat) (e : Nat → Int) (den : Int) : String :=
  let w := lastNonzero e n
  let t := exprT e w
  if t = 0 then "t0"
  else
    let a := e (w - 1)
    if t = 1 ∧ (a = den ∨ a = - den) then
      s!"t1.{if w = v then "wv" else "wo"}.{if a = den then "a+" else "a-"}"
    else s!"g{t}"

/-- `affine_preimage`: the form, and whether the general case is invertible -/
def preTag (n var : Nat) (e : Nat → Int) (den : Int) : String :=
  let f := plainForm n (var+1) e den
  if f.startsWith "g" then s!"{f}.{if e var ≠ 0 then "inv" else "forget"}" else f

def dsign (d : Int) : String := if d > 0 then "d+" else "d-"

def branchTag (R : Rnd) (n : Nat) (closed : Bool) (before : List (List ExtRat)) : Op → String
  | .refine _ sd k i cf =>
    let x := extractBoundedDifference sd (fnOf cf)
    let ks := match k with | .eq => "eq" | .ge => "ge" | .gt => "gt"
    if !x.ok then s!"nonbd.{ks}"
    else if x.numVars = 0 then s!"v0.{ks}.{if i < 0 then "neg" else if i = 0 then "zero" else "pos"}"
    else s!"v{x.numVars}.{ks}.{if x.coeff < 0 then "cneg" else "cpos"}{if x.coeff = 1 ∨ x.coeff = -1 then "" else ".a"}"
  | .aff v d _ cf =>
    match closeFirst R.up closed (DBM.ofLists n before) with
    | none => "E"
    | some m => s!"{formTag R n (v+1) (fnOf cf) d m true}/{dsign d}"
  | .gaff v r d _ cf =>
    match closeFirst R.up closed (DBM.ofLists n before) with
    | none => "E"
    | some m =>
      match r with
      | .eq => s!"eq.{formTag R n (v+1) (fnOf cf) d m true}/{dsign d}"
      | .le => s!"le.{gformTag R n (v+1) true (fnOf cf) d m}/{dsign d}"
      | .ge => s!"ge.{gformTag R n (v+1) false (fnOf cf) d m}/{dsign d}"
  | .baff v d _ lcf _ ucf =>
    match closeFirst R.up closed (DBM.ofLists n before) with
    | none => "E"
    | some m => s!"ub.{formTag R n (v+1) (fnOf ucf) d m false}:lb.{gformTag R n (v+1) false (fnOf lcf) d m}/{dsign d}"
  | .unc _ => "unc"
  | .apre v d _ cf => s!"{preTag n v (fnOf cf) d}/{dsign d}"
  | .gapre v r d _ cf =>
    let rs := match r with | .le => "le" | .ge => "ge" | .eq => "eq"
    s!"{rs}.{if r = .eq then preTag n v (fnOf cf) d else if (fnOf cf) v ≠ 0 then "inv." ++ plainForm n (v+1) (fnOf cf) d else "ref." ++ plainForm n (v+1) (fnOf cf) d}/{dsign d}"
  | .oaff v d _ cf => s!"{plainForm n (v+1) (fnOf cf) d}/{dsign d}"

/-! ### the judge -/
open PPLV.Lin in
/-- the constraint system of a difference-bound matrix -/
def matRows (n : Nat) (m : List (List ExtRat)) : List Con :=
  (List.range (n+1)).flatMap fun i => (List.range (n+1)).filterMap fun j =>
    if i = j then none else
    match (m.getD i []).getD j pinf with
    | pinf => none
    | fin q =>
      let d : Int := q.den
      some ⟨(List.range n).map fun k =>
              (if k + 1 = i then d else 0) - (if k + 1 = j then d else 0), q.num, false⟩

open PPLV.Lin in
/-- the constraint system of an octagon matrix: `m[i][j]` bounds `oval j − oval i`, with
`oval (2k) = x_k`, `oval (2k+1) = −x_k` -/
def octRows (n : Nat) (m : List (List ExtRat)) : List Con :=
  (List.range (2*n)).flatMap fun i => (List.range (rowSize i)).filterMap fun j =>
    if i = j then none else
    match (m.getD i []).getD j pinf with
    | pinf => none
    | fin q =>
      let d : Int := q.den
      let sg (t : Nat) : Int := if t % 2 = 0 then 1 else -1
      some ⟨(List.range n).map fun k =>
              (if k = i / 2 then sg i * d else 0) - (if k = j / 2 then sg j * d else 0), q.num, false⟩

open PPLV.Lin in
def exactOf (p : RefPoly) : Op → RefPoly
  | .refine _ _ k i cf =>
    p.addCons (match k with | .eq => eqRows cf i | .ge => [geRow cf i] | .gt => [gtRow cf i])
  | .aff v d b cf => p.affineImage v ⟨cf, b⟩ d
  | .gaff v r d b cf =>
    p.genAffineImage v (match r with | .le => Rel.le | .ge => Rel.ge | .eq => Rel.eq) ⟨cf, b⟩ d
  | .apre v d b cf => p.affinePreimage v ⟨cf, b⟩ d
  | .gapre v r d b cf =>
    p.genAffinePreimage v (match r with | .le => Rel.le | .ge => Rel.ge | .eq => Rel.eq) ⟨cf, b⟩ d
  | .baff v d bl lcf bu ucf => p.boundedAffineImage v ⟨lcf, bl⟩ ⟨ucf, bu⟩ d
  | .unc v => p.unconstrain [v]
  | .oaff v d b cf => p.affineImage v ⟨cf, b⟩ d

open PPLV.Lin in
/-- `none` = sound; `some why` otherwise -/
def judge (n : Nat) (oct : Bool) (before : List (List ExtRat)) (op : Op) (after : Option (List (List ExtRat))) :
    Option String :=
  let rows := fun m => if oct then octRows n m else matRows n m
  let p : RefPoly := ⟨true, n, rows before⟩
  let ex := exactOf p op
  match after with
  | none => if feasible n ex.cs then some "marked empty, the exact result is not empty" else none
  | some a =>
    let bad := (rows a).filter fun c => !implies n ex.cs c
    if bad.isEmpty then none
    else some s!"the result cuts away points of the exact result: {bad.length} row(s) not implied, first {repr (bad.headD default).coeffs} k={(bad.headD default).k}"

/-- the largest magnitude among the finite entries of the matrix the transformer works on (after the
closure at its head): the structural class of a Not-a-Number case is `|coefficient| * |bound|` beyond `T` -/
def maxBound (R : Rnd) (n : Nat) (closed oct : Bool) (before : List (List ExtRat)) : Int :=
  let rows : List (List ExtRat) :=
    if oct then
      match octCloseFirst R.up closed (OctM.ofLists n before) with
      | some m => octOut n m
      | none => before
    else
      match closeFirst R.up closed (DBM.ofLists n before) with
      | some m => bdsOut n m
      | none => before
  (rows ++ before).foldl (fun acc r => r.foldl (fun acc x =>
    match x with
    | fin q => max acc (if q < 0 then (-q).ceil else q.ceil)
    | pinf => acc) acc) 0

def leMat (a b : List (List ExtRat)) : Bool :=
  a.length == b.length && (a.zip b).all fun (r, s) => r.length == s.length && (r.zip s).all fun (x, y) => decide (x ≤ y)

def hasNaN (s : String) : Bool := (s.splitOn "nan").length > 1 || (s.splitOn "-inf").length > 1

/-! ## stage 5: the remaining transformers, lattice and dimension operations (both domains)

Journal (same layout, `harness/c03_trans.cc`, section `stage 5`); octagon op codes carry the prefix `o`:

* `[o]addc / [o]refine <sd> <kind> <inhomo> <coeffs>`, `[o]refv <var> <le|ge|eq> <den> <b> <coeffs>` (private
  `refine(var, relsym, expr, den)`), `ogaff`, `obaff`, `oapre`, `ogapre`, `ounc` (as the BD ones),
  `[o]gaffl / [o]gaprel <le|ge|eq> <bl> <lcoeffs> <br> <rcoeffs>` (`generalized_affine_(pre)image(lhs, relsym, rhs)`):
  `after` is a matrix, `E` or `X:<class>`
* `[o]meet [o]join [o]tel <closed2> <matrix2>`, `[o]diff <closed2> <matrix2> <y_contains_x> <pieces>` (the last two: the real
  intermediate data of `difference_assign`, see the harness), `[o]concat <n2> <closed2> <matrix2>`, `[o]embed <k>`,
  `[o]project <k>`, `[o]rmdims <vars|->`, `[o]rmhi <newdim>`, `[o]mapdims <pf>` (`x` = undefined), `[o]expand <var> <k>`,
  `[o]fold <vars|-> <dest>`: `after` is `<n'>|<closed'>|<matrix or ->`, `E` or `X:<class>`

Verdicts as above (`ok` / `okle` / `MISMATCH … model` / `NAN` / `skip … coeff` / `CRASH`, second line `JUDGE-FAIL`), and
`judged <id> <op> <tag> <J|F|->` for an operation without a model (`[o]tel`): only the
K1 judge speaks.  The judge: the exact result is a UNION of K1 reference polyhedra (`pieces`), every piece must be
contained in `after` (`E`: every piece infeasible); `tel`: `X ⊆ after` and every row of `after` is non-decreasing along
every point of `Y` (`X + cone(Y) ⊆ after` for a closed convex `after`); where the operation is exact on γ for every `T`
(`meet`, `concat`, `embed`, `project`, `expand`, `mapdims` of a total map; `rmdims`, `rmhi`, partial `mapdims` for `mpq_class`)
`after ⊆ exact` is demanded too (`JUDGE-FAIL … not exact`). -/

def parseMat2 (s : String) : Option (List (List ExtRat)) := if s == "-" then some [] else parseMat s
def showMat2 (rows : List (List ExtRat)) : String := if rows.isEmpty then "-" else showMat rows

def parseNats (s : String) : Option (List Nat) :=
  if s == "-" then some [] else (s.splitOn ",").mapM String.toNat?

def parsePf (s : String) : Option (List (Option Nat)) :=
  (s.splitOn ",").mapM fun t => if t == "x" then some none else t.toNat?.map some

inductive Op5 where
  | con (oct add : Bool) (sd : Nat) (kind : CKind) (inhomo : Int) (cf : List Int)
  | refv (oct : Bool) (var : Nat) (rel : RelSym) (den b : Int) (cf : List Int)
  | ogaff (var : Nat) (rel : RelSym) (den b : Int) (cf : List Int)
  | obaff (var : Nat) (den bl : Int) (lcf : List Int) (bu : Int) (ucf : List Int)
  | oapre (var : Nat) (den b : Int) (cf : List Int)
  | ogapre (var : Nat) (rel : RelSym) (den b : Int) (cf : List Int)
  | ounc (var : Nat)
  | lhs (oct pre : Bool) (rel : RelSym) (bl : Int) (lcf : List Int) (br : Int) (rcf : List Int)
  | bin (oct : Bool) (kind : String) (c2 : Bool) (m2 : List (List ExtRat))
  | concat (oct : Bool) (n2 : Nat) (c2 : Bool) (m2 : List (List ExtRat))
  | diff (oct : Bool) (c2 : Bool) (m2 : List (List ExtRat)) (yContainsX : Bool) (pieces : Option (List (Option (List (List ExtRat)))))
  | embed (oct project : Bool) (k : Nat)
  | rmdims (oct : Bool) (vars : List Nat)
  | rmhi (oct : Bool) (k : Nat)
  | mapdims (oct : Bool) (pf : List (Option Nat))
  | expand (oct : Bool) (var k : Nat)
  | fold (oct : Bool) (vars : List Nat) (dest : Nat)

def nArgs5 (bop : String) : Option Nat :=
  match bop with
  | "addc" | "refine" | "apre" => some 4
  | "refv" | "gaff" | "gapre" | "gaffl" | "gaprel" => some 5
  | "baff" => some 6
  | "unc" | "embed" | "project" | "rmdims" | "rmhi" | "mapdims" => some 1
  | "meet" | "join" | "tel" | "expand" | "fold" => some 2
  | "diff" => some 4
  | "concat" => some 3
  | _ => none

/-- `(is octagon, op without the prefix)`; the stage-3 code `oaff` and the BD codes of stage 3 are not stage-5 codes -/
def splitOp5 (op : String) : Option (Bool × String) :=
  let s3 := ["refine", "addc", "aff", "gaff", "baff", "apre", "gapre", "unc", "oaff"]
  if s3.contains op then none
  else if op.startsWith "o" && (nArgs5 (op.drop 1).toString).isSome then some (true, (op.drop 1).toString)
  else if (nArgs5 op).isSome then some (false, op)
  else none

def parseOp5 (oct : Bool) (bop : String) (args : List String) : Option Op5 :=
  match bop, args with
  | "refine", [sd, k, i, cf] => do some (.con oct false (← sd.toNat?) (← parseKind k) (← i.toInt?) (← parseInts cf))
  | "addc", [sd, k, i, cf] => do some (.con oct true (← sd.toNat?) (← parseKind k) (← i.toInt?) (← parseInts cf))
  | "refv", [v, r, d, b, cf] => do
    some (.refv oct (← v.toNat?) (← parseRelSym r) (← d.toInt?) (← b.toInt?) (← parseInts cf))
  | "gaff", [v, r, d, b, cf] => do
    some (.ogaff (← v.toNat?) (← parseRelSym r) (← d.toInt?) (← b.toInt?) (← parseInts cf))
  | "gapre", [v, r, d, b, cf] => do
    some (.ogapre (← v.toNat?) (← parseRelSym r) (← d.toInt?) (← b.toInt?) (← parseInts cf))
  | "apre", [v, d, b, cf] => do some (.oapre (← v.toNat?) (← d.toInt?) (← b.toInt?) (← parseInts cf))
  | "baff", [v, d, bl, lcf, bu, ucf] => do
    some (.obaff (← v.toNat?) (← d.toInt?) (← bl.toInt?) (← parseInts lcf) (← bu.toInt?) (← parseInts ucf))
  | "unc", [v] => do some (.ounc (← v.toNat?))
  | "gaffl", [r, bl, lcf, br, rcf] => do
    some (.lhs oct false (← parseRelSym r) (← bl.toInt?) (← parseInts lcf) (← br.toInt?) (← parseInts rcf))
  | "gaprel", [r, bl, lcf, br, rcf] => do
    some (.lhs oct true (← parseRelSym r) (← bl.toInt?) (← parseInts lcf) (← br.toInt?) (← parseInts rcf))
  | "concat", [n2, c2, m2] => do some (.concat oct (← n2.toNat?) (c2 == "1") (← parseMat2 m2))
  | "embed", [k] => do some (.embed oct false (← k.toNat?))
  | "project", [k] => do some (.embed oct true (← k.toNat?))
  | "rmdims", [vs] => do some (.rmdims oct (← parseNats vs))
  | "rmhi", [k] => do some (.rmhi oct (← k.toNat?))
  | "mapdims", [pf] => do some (.mapdims oct (← parsePf pf))
  | "expand", [v, k] => do some (.expand oct (← v.toNat?) (← k.toNat?))
  | "fold", [vs, d] => do some (.fold oct (← parseNats vs) (← d.toNat?))
  | "diff", [c2, m2, ycx, ps] => do
    let pieces : Option (List (Option (List (List ExtRat)))) :=
      if ps == "?" then none
      else if ps == "-" then some []
      else (ps.splitOn "&").mapM fun t => if t == "N" then some none else (parseMat2 t).map some
    some (.diff oct (c2 == "1") (← parseMat2 m2) (ycx == "1") pieces)
  | kind, [c2, m2] =>
    if ["meet", "join", "tel"].contains kind then do some (.bin oct kind (c2 == "1") (← parseMat2 m2)) else none
  | _, _ => none

/-- the integers the operation converts to `T` (bounded `T`: a case with one of them beyond the range is outside the model) -/
def Op5.convInts : Op5 → List Int
  | .refv _ _ _ _ _ cf => cf
  | .ogaff _ _ _ _ cf => cf
  | .obaff _ _ _ lcf _ ucf => lcf ++ ucf
  | .oapre _ d _ cf => d :: cf
  | .ogapre _ _ d _ cf => d :: cf
  | .lhs _ _ _ _ lcf _ rcf => lcf ++ rcf
  | _ => []

def Op5.den : Op5 → Int
  | .refv _ _ _ d .. => d | .ogaff _ _ d .. => d | .obaff _ d .. => d | _ => 1

def Op5.isOct : Op5 → Bool
  | .con o .. => o | .refv o .. => o | .lhs o .. => o | .bin o .. => o | .concat o .. => o | .embed o .. => o | .diff o .. => o
  | .rmdims o _ => o | .rmhi o _ => o | .mapdims o _ => o | .expand o .. => o | .fold o .. => o
  | _ => true

inductive Res5 where
  | mat (rows : List (List ExtRat))
  | lat (dim : Nat) (closed : Bool) (rows : List (List ExtRat))
  | empty
  | throws
  | nomodel

def Res5.show : Res5 → String
  | .mat m => showMat2 m
  | .lat d c m => s!"{d}|{if c then 1 else 0}|{showMat2 m}"
  | .empty => "E"
  | .throws => "X"
  | .nomodel => "?"

def out5 (oct : Bool) (n : Nat) (m : Mat) : List (List ExtRat) := if oct then octOut n m else bdsOut n m

def ofOpt5 (oct : Bool) (n : Nat) : Option Mat → Res5
  | some m => .mat (out5 oct n m)
  | none => .empty

def ofOutcome5 (oct : Bool) (n : Nat) : Outcome → Res5
  | .ok m => .mat (out5 oct n m)
  | .empty => .empty
  | .throws => .throws

/-! ### the models' answers -/
def ofLat (oct : Bool) : Option LatRes → Res5
  | some r => .lat r.dim r.closed (out5 oct r.dim r.m)
  | none => .empty

def run5 (R : Rnd) (n : Nat) (closed : Bool) (before : List (List ExtRat)) : Op5 → Res5
  | .con false false sd k i cf => ofOutcome5 false n (refineNoCheck R sd (fnOf cf) i k (DBM.ofLists n before).e)
  | .con false true sd k i cf => ofOutcome5 false n (addConstraint R sd (fnOf cf) i k (DBM.ofLists n before).e)
  | .con true false sd k i cf => ofOutcome5 true n (octRefineNoCheck R n sd (fnOf cf) i k (OctM.ofLists n before).e)
  | .con true true sd k i cf => ofOutcome5 true n (octAddConstraint R n sd (fnOf cf) i k (OctM.ofLists n before).e)
  | .refv false v r d b cf => .mat (bdsOut n (bdsRefineVar R n v r (fnOf cf) b d (DBM.ofLists n before).e))
  | .refv true v r d b cf => ofOpt5 true n (octRefineVar R n v r (fnOf cf) b d (OctM.ofLists n before).e)
  | .ogaff v r d b cf => ofOpt5 true n (octGenAffineImage R closed v r (fnOf cf) b d (OctM.ofLists n before))
  | .obaff v d bl lcf bu ucf =>
    ofOpt5 true n (octBoundedAffineImage R closed v (fnOf lcf) bl (fnOf ucf) bu d (OctM.ofLists n before))
  | .oapre v d b cf => ofOpt5 true n (octAffinePreimage R closed v (fnOf cf) b d (OctM.ofLists n before))
  | .ogapre v r d b cf => ofOpt5 true n (octGenAffinePreimage R closed v r (fnOf cf) b d (OctM.ofLists n before))
  | .ounc v => ofOpt5 true n (octUnconstrain R closed v (OctM.ofLists n before))
  | .lhs false false r bl lcf br rcf =>
    ofOpt5 false n (bdsLhsGenAffineImage R closed r (fnOf lcf) bl (fnOf rcf) br (DBM.ofLists n before))
  | .lhs false true r bl lcf br rcf =>
    ofOpt5 false n (bdsLhsGenAffinePreimage R closed r (fnOf lcf) bl (fnOf rcf) br (DBM.ofLists n before))
  | .lhs true false r bl lcf br rcf =>
    ofOpt5 true n (octLhsGenAffineImage R closed r (fnOf lcf) bl (fnOf rcf) br (OctM.ofLists n before))
  | .lhs true true r bl lcf br rcf =>
    ofOpt5 true n (octLhsGenAffinePreimage R closed r (fnOf lcf) bl (fnOf rcf) br (OctM.ofLists n before))
  | .bin oct kind c2 m2 =>
    let m1 : Mat := if oct then (OctM.ofLists n before).e else (DBM.ofLists n before).e
    let y : Mat := if oct then (OctM.ofLists n m2).e else (DBM.ofLists n m2).e
    match kind, oct with
    | "meet", false => ofLat false (bdsLatIntersection R n closed m1 c2 y)
    | "meet", true => ofLat true (octLatIntersection R n closed m1 c2 y)
    | "join", false => ofLat false (bdsLatUpperBound R n closed m1 c2 y)
    | "join", true => ofLat true (octLatUpperBound R n closed m1 c2 y)
    | _, _ => .nomodel                 -- tel: no model (round trip through C_Polyhedron)
  | .diff _ _ _ _ none => .nomodel     -- a step of the algorithm threw when the harness executed it on copies
  | .diff false c2 m2 ycx (some ps) =>
    -- the control flow of `difference_assign` over the REAL results of contains / constraints / relation_with / add_constraint / is_empty
    ofLat false (bdsLatDifference R n closed (DBM.ofLists n before).e c2 (DBM.ofLists n m2).e ycx
      (ps.map fun z => z.map fun rows => (DBM.ofLists n rows).e))
  | .diff true c2 m2 ycx (some ps) =>
    ofLat true (octLatDifference R n closed (OctM.ofLists n before).e c2 (OctM.ofLists n m2).e ycx
      (ps.map fun z => z.map fun rows => (OctM.ofLists n rows).e))
  | .concat false n2 c2 m2 =>
    ofLat false (bdsLatConcatenate R n closed (DBM.ofLists n before).e n2 c2 (DBM.ofLists n2 m2).e)
  | .concat true n2 c2 m2 =>
    ofLat true (octLatConcatenate R n closed (OctM.ofLists n before).e n2 c2 (OctM.ofLists n2 m2).e)
  | .embed false false k => ofLat false (bdsLatEmbed R n closed (DBM.ofLists n before).e k)
  | .embed false true k => ofLat false (bdsLatProject R n closed (DBM.ofLists n before).e k)
  | .embed true false k => ofLat true (octLatEmbed R n closed (OctM.ofLists n before).e k)
  | .embed true true k => ofLat true (octLatProject R n closed (OctM.ofLists n before).e k)
  | .rmdims false vs => ofLat false (bdsLatRemoveDims R n closed (DBM.ofLists n before).e vs)
  | .rmdims true vs => ofLat true (octLatRemoveDims R n closed (OctM.ofLists n before).e vs)
  | .rmhi false k => ofLat false (bdsLatRemoveHigher R n closed (DBM.ofLists n before).e k)
  | .rmhi true k => ofLat true (octLatRemoveHigher R n closed (OctM.ofLists n before).e k)
  | .mapdims false pf => ofLat false (bdsLatMapDims R n closed (DBM.ofLists n before).e pf)
  | .mapdims true pf => ofLat true (octLatMapDims R n closed (OctM.ofLists n before).e pf)
  | .expand false v k => ofLat false (bdsLatExpand R n closed (DBM.ofLists n before).e v k)
  | .expand true v k => ofLat true (octLatExpand R n closed (OctM.ofLists n before).e v k)
  | .fold false vs d => ofLat false (bdsLatFold R n closed (DBM.ofLists n before).e vs d)
  | .fold true vs d => ofLat true (octLatFold R n closed (OctM.ofLists n before).e vs d)

def relTag : RelSym → String
  | .le => "le" | .ge => "ge" | .eq => "eq"

def bflag (b : Bool) : String := if b then "1" else "0"

/-- `Octagonal_Shape::refine(var, relsym, expr, den)`: the branch (coverage; `ge.g.c1.eqden.uGEv` is the structural class
of the open findings KF-C03-75..78: `GREATER_OR_EQUAL`, one variable `u >= var` unbounded, its coefficient equal to `den`) -/
def orefTag (R : Rnd) (n vid : Nat) (rel : RelSym) (e : Nat → Int) (den : Int) (m : Mat) : String :=
  let w := lastNonzero e n
  let t0 := exprT e w
  let w_id := w - 1
  let t := if t0 = 1 ∧ e w_id ≠ den ∧ e w_id ≠ - den then 2 else t0
  if t ≠ 2 then s!"t{t}"
  else
    match rel with
    | .eq => "g"
    | _ =>
      let sc := scExpr e den
      let st := loopUp (w_id + 1) (octAccStepG R m sc (decide (rel = .le))) ⟨fin 0, 0, 0⟩
      if st.cnt = 1 then
        s!"g.c1.{if e st.idx = den then "eqden" else if e st.idx = - den then "eqmden" else "other"}.{if st.idx < vid then "uLTv" else "uGEv"}"
      else s!"g.c{cnt2 st.cnt}"

/-- `generalized_affine_preimage(var, relsym, expr, den)` of an octagon -/
def ogapreTag (R : Rnd) (n : Nat) (closed : Bool) (before : List (List ExtRat)) (v : Nat) (r : RelSym) (d : Int)
    (cf : List Int) : String :=
  if r = .eq then s!"eq.{preTag n v (fnOf cf) d}"
  else if (fnOf cf) v ≠ 0 then s!"{relTag r}.inv.{plainForm n (v+1) (fnOf cf) d}"
  else
    match octCloseFirst R.up closed (OctM.ofLists n before) with
    | none => "E"
    | some m => s!"{relTag r}.ref.{orefTag R n v r (fnOf cf) d m}"

/-- which branch of the code the case exercises (coverage only) -/
def tag5 (R : Rnd) (n : Nat) (closed : Bool) (before : List (List ExtRat)) : Op5 → String
  | .con _ _ _ k _ _ => match k with | .eq => "eq" | .ge => "ge" | .gt => "gt"
  | .refv false v r d _ cf => s!"{relTag r}.{plainForm n (v+1) (fnOf cf) d}/{dsign d}"
  | .refv true v r d _ cf => s!"{relTag r}.ref.{orefTag R n v r (fnOf cf) d (OctM.ofLists n before).e}/{dsign d}"
  | .ogaff v r d _ cf => s!"{relTag r}.{plainForm n (v+1) (fnOf cf) d}/{dsign d}"
  | .obaff v d _ lcf _ ucf => s!"ub.{plainForm n (v+1) (fnOf ucf) d}:lb.{plainForm n (v+1) (fnOf lcf) d}/{dsign d}"
  | .oapre v d _ cf => s!"{preTag n v (fnOf cf) d}/{dsign d}"
  | .ogapre v r d _ cf => s!"{ogapreTag R n closed before v r d cf}/{dsign d}"
  | .ounc _ => "unc"
  | .lhs oct pre r _ lcf _ rcf =>
    let el := fnOf lcf
    let er := fnOf rcf
    let t := (lhsForm el n).1
    let common := lhsHaveCommonVar el er (min (lhsSpaceDim el n) (lhsSpaceDim er n))
    let deleg := if t = 1 ∧ pre ∧ oct then
        let v := (lhsForm el n).2
        "." ++ ogapreTag R n closed before v (lhsNewRelSym r (el v)) (el v) ((List.range n).map er) else ""
    s!"{relTag r}{deleg}.lhs{t}{if t = 2 then (if common then ".shared" else ".disjoint") else if t = 1 then (if el (lhsForm el n).2 < 0 then ".a-" else ".a+") else ""}.rhs{exprT er (lastNonzero er n)}"
  | .bin _ kind c2 _ => s!"{kind}.c{bflag closed}{bflag c2}"
  | .diff _ c2 _ ycx ps =>
    s!"diff.c{bflag closed}{bflag c2}.{if ycx then "contained" else match ps with | none => "threw" | some l => s!"pieces{min l.length 4}"}"
  | .concat _ n2 c2 _ => s!"n2={n2}.c{bflag closed}{bflag c2}"
  | .embed _ _ k => s!"k={k}.c{bflag closed}"
  | .rmdims _ vs => s!"rm{vs.length}of{n}.c{bflag closed}"
  | .rmhi _ k => s!"to{k}of{n}.c{bflag closed}"
  | .mapdims _ pf => s!"{if pf.all Option.isSome then "total" else "partial"}.c{bflag closed}"
  | .expand _ _ k => s!"k={k}.c{bflag closed}"
  | .fold _ vs _ => s!"fold{vs.length}of{n}.c{bflag closed}"

/-! ### the judge -/
open PPLV.Lin in
def rows5 (oct : Bool) (n : Nat) (m : List (List ExtRat)) : List Con := if oct then octRows n m else matRows n m

open PPLV.Lin in
def relOf : RelSym → Rel
  | .le => Rel.le | .ge => Rel.ge | .eq => Rel.eq

open PPLV.Lin in
/-- the rows of `var relsym (cf·x + b)/den` -/
def refvRows (n var : Nat) (rel : RelSym) (den b : Int) (cf : List Int) : List Con :=
  -- `den·x_var − cf·x − b  ⋈  0`, the relation flipped for a negative denominator
  let row := (List.range n).map fun k => (if k = var then den else 0) - cf.getD k 0
  let r := if den < 0 then (relOf rel).flip else relOf rel
  relRows r row (- b)

open PPLV.Lin in
/-- the exact result as a union of reference polyhedra, the dimension of the result, and whether the operation is exact
on γ (then `after ⊆ exact` is demanded as well); `isId`: exact arithmetic -/
def pieces5 (isId : Bool) (n : Nat) (p : RefPoly) : Op5 → List RefPoly × Bool
  | .con _ _ _ k i cf =>
    ([p.addCons (match k with | .eq => eqRows cf i | .ge => [geRow cf i] | .gt => [gtRow cf i])], false)
  | .refv _ v r d b cf => ([p.addCons (refvRows n v r d b cf)], false)
  | .ogaff v r d b cf => ([p.genAffineImage v (relOf r) ⟨cf, b⟩ d], false)
  | .obaff v d bl lcf bu ucf => ([p.boundedAffineImage v ⟨lcf, bl⟩ ⟨ucf, bu⟩ d], false)
  | .oapre v d b cf => ([p.affinePreimage v ⟨cf, b⟩ d], false)
  | .ogapre v r d b cf => ([p.genAffinePreimage v (relOf r) ⟨cf, b⟩ d], false)
  | .ounc v => ([p.unconstrain [v]], false)
  | .lhs _ false r bl lcf br rcf => ([p.genAffineImage2 ⟨lcf, bl⟩ (relOf r) ⟨rcf, br⟩], false)
  | .lhs _ true r bl lcf br rcf => ([p.genAffinePreimage2 ⟨lcf, bl⟩ (relOf r) ⟨rcf, br⟩], false)
  | .bin oct kind _ m2 =>
    let q : RefPoly := ⟨true, n, rows5 oct n m2⟩
    match kind with
    | "meet" => ([p.meet q], true)
    | "join" => ([p, q], false)
    | _ => ([if feasible n q.cs then p else emptyP true n], false)      -- tel: `X` when `Y` is not empty
  | .diff oct _ m2 _ _ => ((rows5 oct n m2).map fun c => p.addCons [c.neg], false)
  | .concat oct n2 _ m2 => ([p.concat ⟨true, n2, rows5 oct n2 m2⟩], true)
  | .embed _ false k => ([p.addDimsEmbed k], true)
  | .embed _ true k => ([p.addDimsProject k], true)
  | .rmdims _ vs => ([p.removeDims vs], isId)
  | .rmhi _ k => ([p.removeHigherDims k], isId)
  | .mapdims _ pf =>
    let f := pf.zipIdx.filterMap fun (t, j) => t.map fun fj => (j, fj)
    let nOut := f.foldl (fun acc (_, fj) => max acc (fj + 1)) 0
    ([p.mapDims nOut f], isId || f.length == n)
  | .expand _ v k => ([p.expandDim v k], true)
  | .fold _ vs d =>
    if vs.isEmpty then ([p], true)
    else ((p.removeDims vs) :: vs.map fun v =>
      (p.affineImage d ⟨(List.replicate v 0) ++ [1], 0⟩ 1).removeDims vs, false)

open PPLV.Lin in
/-- `none` = sound (and exact where demanded) -/
def judge5 (isId oct : Bool) (n : Nat) (before : List (List ExtRat)) (op : Op5)
    (after : Option (Nat × List (List ExtRat))) : Option String :=
  let p : RefPoly := ⟨true, n, rows5 oct n before⟩
  let (ps, exact) := pieces5 isId n p op
  match after with
  | none =>
    if ps.any fun q => feasible q.n q.cs then some "marked empty, the exact result is not empty" else none
  | some (n', a) =>
    let ar := rows5 oct n' a
    match ps.find? fun q => q.n != n' with
    | some q => some s!"space dimension {n'} of the result, {q.n} expected"
    | none =>
      let bad := ps.flatMap fun q => ar.filter fun c => !implies n' q.cs c
      if !bad.isEmpty then
        some s!"the result cuts away points of the exact result: {bad.length} row(s) not implied, first {repr (bad.headD default).coeffs} k={(bad.headD default).k}"
      else
        let telBad : List Con := match op with
          | .bin o "tel" _ m2 =>
            let q : RefPoly := ⟨true, n, rows5 o n m2⟩
            if feasible n p.cs && feasible n q.cs then ar.filter fun c => !implies n q.cs ⟨c.coeffs, 0, false⟩ else []
          | _ => []
        if !telBad.isEmpty then
          some s!"time elapse: a row of the result decreases along a point of y: {repr (telBad.headD default).coeffs}"
        else if exact then
          match ps with
          | [q] => if subsetB n' ar q.cs then none else some "not exact: the result is strictly larger than the exact result"
          | _ => none
        else none

/-- `after` of a stage-5 event: `none` = `E`; the dimension defaults to `n` for the transformers -/
def parseAfter5 (n : Nat) (after : String) : Option (Option (Nat × Bool × List (List ExtRat))) :=
  if after == "E" || after.startsWith "X:" then some none
  else match after.splitOn "|" with
    | [m] => (parseMat2 m).map fun r => some (n, false, r)
    | [d, c, m] => do some (some ((← d.toNat?), c == "1", (← parseMat2 m)))
    | _ => none

def process5 (printOnly noJudge : Bool) (id op mode n closed before : String) (oct : Bool) (bop : String)
    (rest : List String) : List String :=
  match nArgs5 bop with
  | none => [s!"MISMATCH {id} parse {op}"]
  | some k =>
    if rest.length == k + 2 && rest.getD k "" == "crash" then [s!"CRASH {id} {op} {rest.getD (k+1) "?"}"]
    else if rest.length != k + 1 then [s!"MISMATCH {id} parse {op} arity"]
    else
      let after := rest.getD k ""
      let r : Option (List String) := do
        let md ← parseMode mode
        let n ← n.toNat?
        let b ← parseMat2 before
        let o ← parseOp5 oct bop (rest.take k)
        let closed := closed == "1"
        let (R, hi, isDbl, isId) := match md with
          | .exact R hi => (R, hi, false, mode == "id")
          | .dbl => (Rnd.exact, none, true, false)
        let tag := tag5 R n closed b o
        let tag := match hi with
          | some h => if o.den > h ∨ o.den < -h then tag ++ "/bigden" else tag
          | none => tag
        if printOnly then some [s!"{id} {(run5 R n closed b o).show}"] else
        let outside := match hi with
          | some h => o.convInts.any fun c => decide (c > h ∨ c < -h)
          | none => false
        if hasNaN after || after == "X:int" then
          some [s!"NAN {id} {op} {tag} {if after == "X:int" then "threw" else "entry"}{if outside then " coeff" else ""} maxb={maxBound R n closed oct b}"] else
        let wantA ← parseAfter5 n after
        let jres : Option String :=
          if noJudge || after.startsWith "X:" then none else judge5 isId oct n b o (wantA.map fun (d, _, m) => (d, m))
        let jl := match jres with
          | some why => [s!"JUDGE-FAIL {id} {op} {tag} {why}"]
          | none => []
        let jflag := if noJudge || after.startsWith "X:" then "-" else if jres.isNone then "J" else "F"
        if outside then some (s!"skip {id} coeff {op} {jflag}" :: jl) else
        let got := run5 R n closed b o
        match got with
        | .nomodel => some (s!"judged {id} {op} {tag} {jflag}" :: jl)
        | _ =>
        let wantS := if after.startsWith "X:" then "X" else after
        if !isDbl then
          if got.show == wantS then some (s!"ok {id} {op} {tag} {jflag}" :: jl)
          else some (s!"MISMATCH {id} model {op} {tag} got={got.show} want={wantS}" :: jl)
        else
          let fine := match got, wantA with
            | .mat g, some (_, _, w) => leMat g w
            | .lat d _ g, some (d', _, w) => d == d' && leMat g w
            | .empty, _ => !after.startsWith "X:"      -- exact arithmetic detects emptiness earlier
            | .throws, _ => after.startsWith "X:"
            | _, none => false
            | .nomodel, _ => true
          if fine then some (s!"okle {id} {op} {tag} {jflag}" :: jl)
          else some (s!"MISMATCH {id} model {op} {tag} got={got.show} want={wantS} (mode dbl: model <= real demanded)" :: jl)
      r.getD [s!"MISMATCH {id} parse {op}"]

def processLine (printOnly noJudge : Bool) (line : String) : List String :=
  let ws := (line.trimAscii.toString.splitOn " ").filter (· ≠ "")
  match ws with
  | [] => []
  | ["end"] => []
  | id :: op :: mode :: n :: closed :: before :: rest =>
    match splitOp5 op with
    | some (oct, bop) => process5 printOnly noJudge id op mode n closed before oct bop rest
    | none =>
    match nArgs op with
    | none => [s!"MISMATCH {id} parse {op}"]
    | some k =>
      if rest.length == k + 2 && rest.getD k "" == "crash" then [s!"CRASH {id} {op} {rest.getD (k+1) "?"}"]
      else if rest.length != k + 1 then [s!"MISMATCH {id} parse {op} arity"]
      else
        let after := rest.getD k ""
        let r : Option (List String) := do
          let md ← parseMode mode
          let n ← n.toNat?
          let b ← parseMat before
          let o ← parseOp op (rest.take k)
          let closed := closed == "1"
          let oct := op == "oaff"
          let (R, hi, isDbl) := match md with
            | .exact R hi => (R, hi, false)
            | .dbl => (Rnd.exact, none, true)
          let tag := branchTag R n closed b o
          let tag := match hi with
            | some h => if o.den > h ∨ o.den < -h then tag ++ "/bigden" else tag
            | none => tag
          if printOnly then some [s!"{id} {(runOp R n closed b o).show}"] else
          let outside := match hi with
            | some h => o.convInts.any fun c => decide (c > h ∨ c < -h)
            | none => false
          if hasNaN after || after == "X:int" then
            some [s!"NAN {id} {op} {tag} {if after == "X:int" then "threw" else "entry"}{if outside then " coeff" else ""} maxb={maxBound R n closed oct b}"] else
          let wantM ← if after == "E" || after.startsWith "X:" then some none else (parseMat after).map some
          let jres : Option String :=
            if noJudge || after.startsWith "X:" then none else judge n oct b o wantM
          let jl := match jres with
            | some why => [s!"JUDGE-FAIL {id} {op} {tag} {why}"]
            | none => []
          let jflag := if noJudge || after.startsWith "X:" then "-" else if jres.isNone then "J" else "F"
          if outside then some (s!"skip {id} coeff {op} {jflag}" :: jl) else
          let got := runOp R n closed b o
          let wantS := if after.startsWith "X:" then "X" else after
          if !isDbl then
            if got.show == wantS then some (s!"ok {id} {op} {tag} {jflag}" :: jl)
            else some (s!"MISMATCH {id} model {op} {tag} got={got.show} want={wantS}" :: jl)
          else
            let fine := match got, wantM with
              | .mat g, some w => leMat g w
              | .empty, _ => !after.startsWith "X:"      -- exact arithmetic detects emptiness earlier
              | .throws, _ => after.startsWith "X:"
              | .mat _, none => false
            if fine then some (s!"okle {id} {op} {tag} {jflag}" :: jl)
            else some (s!"MISMATCH {id} model {op} {tag} got={got.show} want={wantS} (mode dbl: model <= real demanded)" :: jl)
        r.getD [s!"MISMATCH {id} parse {op}"]
  | id :: _ => [s!"MISMATCH {id} parse -"]

partial def loop (printOnly noJudge : Bool) (h : IO.FS.Stream) (out : IO.FS.Stream) : IO Unit := do
  let line ← h.getLine
  if line.isEmpty then return
  for s in processLine printOnly noJudge line do
    out.putStrLn s
  loop printOnly noJudge h out

end WRTDriver

def main (args : List String) : IO UInt32 := do
  let stdin ← IO.getStdin
  let stdout ← IO.getStdout
  WRTDriver.loop (args.contains "print") (args.contains "nojudge") stdin stdout
  return 0
