import PPLV.Wrap.Model
import PPLV.Lin.Parse

/-!
# `pplv_wrap` — judge of the C17 journal (harness/c17_wrap.cc)

Journal lines judged (everything else is ignored):
```
wrap <id> W <dom> <n> <nv> <v>* <w> <u|s> <w|u|i> <g> [<cs>] <thr> <ind> <elem-desc> | A <elem> | R <elem>
drop <id> D <dom> <n> <hasvars> [<nv> <v>*] <P|S|A> <elem-desc> | A <elem> | R <elem>
cip  <id> Q <dom> <n> <elem-desc> | A <elem> | R <0|1>
```
`<elem> := <ndisj> (<cs> <cgs>)*`, `<cgs> := <m> (<modulus> <k> <a>*n)*` (`Σ a x + k ≡ 0 (mod modulus)`).

* wrap: the points of the argument `A` with integer values on the wrapped dimensions are enumerated
  inside a window (bounds propagated from the constraints, clipped to two quadrants beyond the
  range of the type; exhaustive whenever the budget allows, otherwise quadrant boundaries, end points
  and a stride); every spec image (`Spec.CoordImage` via `coordImageB`, guard applied to the image)
  must belong to the REAL result `R` (`Con.holdsAt`, congruence membership).
* drop: `R ⊆ A` (K1 `subsetB`, exact) and every window point of `A` with integer coordinates on the
  designated dimensions is in `R`.
* cip: the answer against `containsIntegerPointRef`.
Verdicts: `ok <id> k=v…`, `MISMATCH <id> <obligation> <detail>`, `skip <id> <reason>`.
-/
open PPLV.Lin PPLV.Wrap

namespace WrapDriver

structure Cg where
  m : Int
  k : Int
  a : List Int
deriving Repr, Inhabited

structure Dj where
  cs : List Con
  cgs : List Cg
deriving Inhabited

abbrev Elem := List Dj

def zsum (as bs : List Int) : Int := (List.zipWith (· * ·) as bs).foldl (· + ·) 0

/-- membership of the rational point `num/den` (`den > 0`) in a congruence -/
def Cg.holdsAt (g : Cg) (num : List Int) (den : Int) : Bool :=
  let v := zsum g.a num + g.k * den
  if g.m == 0 then v == 0 else v % (g.m * den) == 0

def Dj.has (d : Dj) (num : List Int) (den : Int) : Bool :=
  d.cs.all (fun c => c.holdsAt num den) && d.cgs.all (fun g => g.holdsAt num den)
def Elem.has (e : Elem) (num : List Int) (den : Int) : Bool := e.any fun d => d.has num den

/-! ### parsing -/

def parseCgs (n : Nat) (ts : List String) : List Cg × List String :=
  match ts with
  | m :: rest =>
    let rec go (k : Nat) (ts : List String) (acc : List Cg) : List Cg × List String :=
      match k with
      | 0 => (acc, ts)
      | k+1 =>
        match ts with
        | md :: kk :: r =>
          let (a, r') := takeInts n r
          go k r' (acc ++ [⟨tokInt md, tokInt kk, a⟩])
        | _ => (acc, [])
    go (tokNat m) rest []
  | [] => ([], [])

def parseElem (n : Nat) (ts : List String) : Elem × List String :=
  match ts with
  | nd :: rest =>
    let rec go (k : Nat) (ts : List String) (acc : Elem) : Elem × List String :=
      match k with
      | 0 => (acc, ts)
      | k+1 =>
        let (cs, r1) := parseCS n ts
        let (cgs, r2) := parseCgs n r1
        go k r2 (acc ++ [⟨cs, cgs⟩])
    go (tokNat nd) rest []
  | [] => ([], [])

def parseVars (ts : List String) : List Nat × List String :=
  match ts with
  | nv :: rest => ((rest.take (tokNat nv)).map tokNat, rest.drop (tokNat nv))
  | [] => ([], [])

def toks (s : String) : List String := (s.trimAscii.toString.splitOn " ").filter (· ≠ "")

def showPt (num : List Int) (den : Int) : String :=
  "(" ++ ",".intercalate (num.map fun a => if a % den == 0 then toString (a / den) else s!"{a}/{den}") ++ ")"

/-! ### enumeration of the points `num/den` of a disjunct inside a window -/

def lastVar (cf : List Int) : Nat :=
  (List.range cf.length).foldl (fun m i => if cf.getD i 0 != 0 then i + 1 else m) 0

structure EnumEnv where
  n : Nat
  den : Int
  /-- dimensions enumerated over integers -/
  isInt : Nat → Bool
  /-- window of dimension `i` in numerator units -/
  winLo : Nat → Int
  winHi : Nat → Int
  /-- numerators that must be tried when a range is subsampled -/
  special : Nat → List Int
  maxPerDim : Nat → Nat
  cs : List Con
  cgs : List Cg

structure EnumSt (σ : Type) where
  user : σ
  budget : Nat
  truncated : Bool      -- subsampled or out of budget
  clipped : Bool        -- the window cut the set
  stop : Bool

def ceilDiv (a b : Int) : Int := -((-a) / b)   -- b > 0

/-- `a⁻¹ mod n` (`n > 1`, `gcd a n = 1`) by the extended Euclidean algorithm -/
def invMod (a n : Int) : Int :=
  let rec go (fuel : Nat) (r0 r1 s0 s1 : Int) : Int :=
    match fuel with
    | 0 => s0
    | f + 1 => if r1 == 0 then s0 else let q := r0 / r1; go f r1 (r0 - q * r1) s1 (s0 - q * s1)
  (go 4000 (a % n) n 1 0) % n

/-- the solutions `t` of `a*t + c ≡ 0 (mod M)` (`M > 0`, `a ≠ 0`): `t ≡ t0 (mod S)` -/
def solveCong (a c M : Int) : Option (Int × Int) :=
  let g : Int := (Int.gcd a M : Nat)
  if (-c) % g != 0 then none else
  let M' := M / g
  if M' == 1 then some (0, 1) else
  let a' := (a / g) % M'
  some ((((-c) / g) % M' * invMod a' M') % M', M')

/-- candidates of dimension `i` given the numerators `pre` of the dimensions `< i`: an arithmetic
    progression inside the bounds propagated from the rows whose last variable is `i`, following the
    first congruence whose last variable is `i` (so that the points `v + k*f` of a grid are met in
    every quadrant of the window, whatever the frequency `f`) -/
def candidates (E : EnumEnv) (i : Nat) (pre : List Int) : List Int × Bool × Bool :=
  let init : Int × Int × Bool × Bool := (E.winLo i, E.winHi i, true, true)   -- lo, hi, loFromWindow, hiFromWindow
  let (lo, hi, lw, hw) := E.cs.foldl (fun (acc : Int × Int × Bool × Bool) c =>
    if lastVar c.coeffs != i + 1 then acc else
      let a := c.coeffs.getD i 0
      let part := zsum (c.coeffs.take i) pre + c.k * E.den
      let (lo, hi, lw, hw) := acc
      if a > 0 then
        let b := ceilDiv (-part) a
        if b > lo then (b, hi, false, hw) else acc
      else
        let b := part / (-a)
        if b < hi then (lo, b, lw, false) else acc) init
  let step0 : Int := if E.isInt i then E.den else 1
  -- the progression of the first congruence on `i`: (residue, modulus); `none` = no solution at all
  let prog : Option (Int × Int) :=
    match E.cgs.find? (fun g => lastVar g.a == i + 1) with
    | none => some (0, 1)
    | some g =>
      let a := g.a.getD i 0
      let part := zsum (g.a.take i) pre + g.k * E.den
      if g.m == 0 then (if part % a == 0 then some (-part / a, 0) else none)
      else solveCong a part (g.m.natAbs * E.den)
  match prog with
  | none => ([], false, false)
  | some (t0, S) =>
  if S == 0 then
    (if lo ≤ t0 && t0 ≤ hi && t0 % step0 == 0 then [t0] else [], false, false)
  else
  -- intersect with the multiples of `step0` (small): first element of the `S`-progression that is one
  let aligned := (List.range step0.toNat).find? fun (j : Nat) => (t0 + (j : Int) * S) % step0 == 0
  match aligned with
  | none => ([], false, false)
  | some j =>
  let t1 := t0 + (j : Int) * S
  let step := S / (Int.gcd S step0 : Nat) * step0       -- lcm
  let first := t1 + ceilDiv (lo - t1) step * step
  if hi < first then ([], false, false) else
  let cnt := ((hi - first) / step + 1).toNat
  let clipped := lw || hw
  if cnt ≤ E.maxPerDim i then
    ((List.range cnt).map (fun (k : Nat) => first + (k : Int) * step), false, clipped)
  else
    let last := first + ((hi - first) / step) * step
    let ends := (List.range 4).flatMap fun (k : Nat) => [first + (k : Int) * step, last - (k : Int) * step]
    let sp := (E.special i).flatMap fun v =>
      let u := first + ceilDiv (v - first) step * step
      [u, u - step].filter fun t => first ≤ t && t ≤ last
    let m := E.maxPerDim i / 2 + 1
    let stride := (List.range m).map fun (k : Nat) => first + (((hi - first) / step) * (k : Int) / (m : Int)) * step
    ((ends ++ sp ++ stride).eraseDups, true, clipped)

/-- depth-first enumeration; `leaf` is called on every point of the disjunct found -/
def enumRec {σ : Type} (E : EnumEnv) (leaf : σ → List Int → σ × Bool) :
    Nat → Nat → List Int → EnumSt σ → EnumSt σ
  | 0, _, _, st => st
  | fuel + 1, i, pre, st =>
    if st.stop then st else
    if i == E.n then
      let (u, stop) := leaf st.user pre
      { st with user := u, stop := stop }
    else
      let (cands, sub, clip) := candidates E i pre
      let st := { st with truncated := st.truncated || sub, clipped := st.clipped || clip }
      cands.foldl (fun st v =>
        if st.stop then st
        else if st.budget == 0 then { st with truncated := true, stop := true }
        else
          let pre' := pre ++ [v]
          -- prune with the rows and congruences whose last variable is `i`
          let okc := E.cs.all fun c => lastVar c.coeffs != i + 1 || c.holdsAt pre' E.den
          let okg := E.cgs.all fun g => lastVar g.a != i + 1 || g.holdsAt pre' E.den
          if okc && okg then enumRec E leaf fuel (i + 1) pre' { st with budget := st.budget - 1 }
          else { st with budget := st.budget - 1 }) st

/-- rows and congruences without variables must hold -/
def constRowsOK (d : Dj) (den : Int) : Bool :=
  (d.cs.all fun c => lastVar c.coeffs != 0 || c.holdsAt [] den) &&
  (d.cgs.all fun g => lastVar g.a != 0 || g.holdsAt [] den)

def enumDj {σ : Type} (n : Nat) (den : Int) (isInt : Nat → Bool) (winLo winHi : Nat → Int)
    (special : Nat → List Int) (maxPerDim : Nat → Nat) (budget : Nat) (d : Dj)
    (leaf : σ → List Int → σ × Bool) (st : EnumSt σ) : EnumSt σ :=
  if !constRowsOK d den then st else
  let E : EnumEnv := ⟨n, den, isInt, winLo, winHi, special, maxPerDim, d.cs, d.cgs⟩
  enumRec E leaf (n + 2) 0 [] { st with budget := budget }

/-! ### wrap -/

structure WStat where
  pts : Nat := 0
  imgs : Nat := 0
  fail : Option String := none
  qlo : List Int := []     -- per wrapped variable: least / greatest quadrant met
  qhi : List Int := []

def undefinedCands (cfg : WrapCfg) (few : Bool) (z : Int) : List Int :=
  let mn := minValue cfg.r cfg.w
  let mx := maxValue cfg.r cfg.w
  let l := if few then [mn, mx, wrapR cfg.r cfg.w z] else [mn, mx, mn + 1, mx - 1, wrapR cfg.r cfg.w z, (mn + mx) / 2, 0]
  (l.filter fun z' => coordImageB cfg z z').eraseDups

/-- the spec images (numerators over `den`) of the point `num/den`; wrapped coordinates are integers -/
def images (cfg : WrapCfg) (vars : List Nat) (den : Int) (few : Bool) (num : List Int) : List (List Int) :=
  vars.foldl (fun (acc : List (List Int)) x =>
    let z := num.getD x 0 / den
    let cands : List Int :=
      match cfg.o with
      | .wraps => [wrapR cfg.r cfg.w z]
      | .impossible => if inRangeB cfg.r cfg.w z then [z] else []
      | .undefined => if inRangeB cfg.r cfg.w z then [z] else undefinedCands cfg few z
    let cands := cands.filter fun z' => coordImageB cfg z z'
    ((acc.flatMap fun p => cands.map fun z' => p.set x (z' * den)).take 48)) [num]

/-- Which variable does the code as written leave unwrapped (collective wrapping becomes too
    complex at it)?  The complexity bookkeeping of `stepQ`/`stepWrap`/`cplxUpdate`, with the quadrant
    ranges read from the exact bounds of the argument (K1 `supB`).  Used to classify a failure. -/
def predictTrip (n : Nat) (cfg : WrapCfg) (d : Dj) : Option Nat :=
  if cfg.o != .wraps || cfg.individually || !d.cgs.isEmpty then none else
  let (_, _, trip) := (normVars cfg.vars).foldl (fun (st : Nat × Bool × Option Nat) x =>
    let (cplx, tc, trip) := st
    match supB n (unitRow x (-1)) 0 d.cs, supB n (unitRow x 1) 0 d.cs with
    | .val p' q' _, .val p q _ =>
      let fq := quadrant cfg.r cfg.w ((-p') / q')
      let lq := quadrant cfg.r cfg.w (p / q)
      if (fq == 0 && lq == 0) || tc then st
      else
        let quads := lq - fq + 1
        if quads < 0 || quads > uintMax || quads.toNat > cfg.threshold then st
        else
          let prod := cplx * quads.toNat
          if (prod : Int) > uintMax || prod > cfg.threshold then (prod, true, some x)
          else (prod, tc, trip)
    | _, _ => st) (1, false, none)
  trip

/-! ### the interval model against `Box::wrap_assign` (boxes, overflow wraps, no guard) -/

/-- the interval of `x` described by the unary rows on `x` -/
def unaryItv (cs : List Con) (x : Nat) : Itv :=
  cs.foldl (fun (I : Itv) c =>
    if lastVar c.coeffs != x + 1 || !((c.coeffs.take x).all (· == 0)) then I else
      let a := c.coeffs.getD x 0
      let b : Rat := mkRat (-c.k) a.natAbs * (if a < 0 then -1 else 1)   -- -k/a
      if a > 0 then { I with lo := Itv.maxLo I.lo (some (b, c.strict)) }
      else { I with hi := Itv.minHi I.hi (some (b, c.strict)) }) ⟨none, none⟩

def constFalse (cs : List Con) : Bool := cs.any fun c => lastVar c.coeffs == 0 && !c.holdsAt [] 1

def itvEq (I J : Itv) : Bool := (I.isEmpty && J.isEmpty) || (I == J)

/-- does the model `boxWrap` give exactly the real result?  `written`: the model of the code with the
    repairs; `kf10`: only the quadrant test before the repair of KF-C17-10 explains it; `prefix`: only the
    interval comparison before the fix of defect 12 does; `none`: no variant does -/
def ivCheck (dom : String) (n : Nat) (cfg : WrapCfg) (arg res : Dj) : String :=
  if constFalse arg.cs then "skip" else
  let B := (List.range n).map (unaryItv arg.cs)
  if B.any (·.isEmpty) then "skip" else
  let storeOpen := dom == "RB"
  let agrees := fun (strictTest kf10 : Bool) =>
    let M := boxWrap strictTest storeOpen kf10 cfg B
    if M.any (·.isEmpty) then constFalse res.cs || (List.range n).any fun x => (unaryItv res.cs x).isEmpty
    else !constFalse res.cs && (List.zipWith (fun x m => itvEq m (unaryItv res.cs x)) (List.range n) M).all id
  if agrees false false then "written" else if agrees false true then "kf10"
  else if agrees true false || agrees true true then "prefix" else "none"

def judgeWrap (id : String) (dom : String) (n : Nat) (cfg : WrapCfg) (arg res : Elem) : String :=
  let vars := normVars cfg.vars
  let den : Int := 2
  let P := pow2 cfg.w
  let mn := minValue cfg.r cfg.w
  let mx := maxValue cfg.r cfg.w
  let isInt := fun i => vars.contains i
  -- grids: nine periods of the type on each side, so that the points `v + k*f` are met for |k| up to a few
  -- even when the frequency `f` is a few times `2^w`
  let K : Int := if dom == "G" then 9 else 2
  let winLo := fun i => if vars.contains i then (mn - K * P - 3) * den else -8 * den
  let winHi := fun i => if vars.contains i then (mx + K * P + 3) * den else 8 * den
  let special := fun i =>
    if vars.contains i then
      (List.range 22).flatMap fun (k : Nat) => (List.range 7).map fun (j : Nat) => (mn + ((k : Int) - 10) * P + ((j : Int) - 3)) * den
    else []
  let nW := vars.length
  let nN := n - nW
  let perW : Nat := if nW ≤ 1 then 1400 else if nW == 2 then (if nN == 0 then 200 else 90) else 36
  let maxPerDim := fun i => if vars.contains i then perW else 33
  let guard := cfg.guard.getD []
  let leaf := fun (s : WStat) (num : List Int) =>
    let qs := vars.map fun x => quadrant cfg.r cfg.w (num.getD x 0 / den)
    let qlo := if s.qlo.isEmpty then qs else List.zipWith min s.qlo qs
    let qhi := if s.qhi.isEmpty then qs else List.zipWith max s.qhi qs
    let ims := (images cfg vars den (vars.length ≥ 2 || s.imgs > 40000) num).filter fun im => guard.all fun c => c.holdsAt im den
    let bad := ims.find? fun im => !res.has im den
    let s := { s with pts := s.pts + 1, imgs := s.imgs + ims.length, qlo := qlo, qhi := qhi }
    match bad with
    | some im =>
      -- is the loss explained by a variable that the code left unwrapped?
      let trips := (arg.filterMap fun d => predictTrip n cfg d).eraseDups
      -- … and does the lost point overflow on that variable (so that its image depends on wrapping it)?
      let expl := trips.filter fun x => !inRangeB cfg.r cfg.w (num.getD x 0 / den)
      let note := if expl.isEmpty then "" else s!" trip={expl.head!}"
      ({ s with fail := some s!"v={showPt num den} image={showPt im den}{note}" }, true)
    | none => (s, false)
  let st0 : EnumSt WStat := ⟨{}, 0, false, false, false⟩
  let st := arg.foldl (fun st d =>
    if st.stop then st else enumDj n den isInt winLo winHi special maxPerDim 60000 d leaf st) st0
  let iv :=
    if (dom == "RB" || dom == "ZB") && cfg.guard.isNone && !vars.isEmpty then
      match arg, res with
      | [a], [r] => " iv=" ++ ivCheck dom n cfg a r
      | _, _ => ""
    else ""
  match st.user.fail with
  | some f => s!"MISMATCH {id} image-lost {f}{iv}"
  | none =>
    let span := (List.zipWith (fun a b => b - a + 1) st.user.qlo st.user.qhi).foldl max 0
    let resEmpty := res.all fun d => !feasible n d.cs
    s!"ok {id} pts={st.user.pts} imgs={st.user.imgs} exh={if st.truncated || st.clipped then 0 else 1} clipped={if st.clipped then 1 else 0} span={span} resempty={if resEmpty then 1 else 0}{iv}"

/-! ### drop -/

structure DStat where
  pts : Nat := 0
  fail : Option String := none

def judgeDrop (id : String) (dom : String) (n : Nat) (hasvars : Bool) (vars : List Nat) (arg res : Elem) : String :=
  let isGrid := dom == "G"
  let den : Int := if isGrid then 6 else 2
  let W : Int := if isGrid then 5 else 12
  let isInt := fun i => if hasvars then vars.contains i else true
  let winLo := fun (_ : Nat) => -W * den
  let winHi := fun (_ : Nat) => W * den
  let none' := fun (_ : Nat) => ([] : List Int)
  let per := fun (_ : Nat) => if isGrid then 61 else 49
  -- keeps the integer points
  let leafKeep := fun (s : DStat) (num : List Int) =>
    if res.has num den then ({ s with pts := s.pts + 1 }, false)
    else ({ s with pts := s.pts + 1, fail := some s!"point {showPt num den} of the argument was dropped" }, true)
  let st0 : EnumSt DStat := ⟨{}, 0, false, false, false⟩
  let st := arg.foldl (fun st d =>
    if st.stop then st else enumDj n den isInt winLo winHi none' per 60000 d leafKeep st) st0
  match st.user.fail with
  | some f => s!"MISMATCH {id} integer-point-dropped {f}"
  | none =>
    -- result ⊆ argument
    let exact := !isGrid && arg.length == 1 && res.all (fun r => r.cgs.isEmpty) && arg.all (fun a => a.cgs.isEmpty)
    let notIn := res.filter fun r => !(arg.any fun a => a.cgs.isEmpty && r.cgs.isEmpty && subsetB n r.cs a.cs)
    if exact && !notIn.isEmpty then
      s!"MISMATCH {id} not-a-subset the result is not contained in the argument (K1 subsetB, exact)"
    else
      -- look for a concrete point of the result outside the argument
      let allHalf := fun (_ : Nat) => false
      let leafSub := fun (s : DStat) (num : List Int) =>
        if arg.has num den then ({ s with pts := s.pts + 1 }, false)
        else ({ s with pts := s.pts + 1, fail := some s!"point {showPt num den} of the result is not in the argument" }, true)
      let st2 := notIn.foldl (fun st d =>
        if st.stop then st else enumDj n den allHalf winLo winHi none' per 40000 d leafSub st) st0
      match st2.user.fail with
      | some f => s!"MISMATCH {id} not-a-subset {f}"
      | none =>
        s!"ok {id} pts={st.user.pts} exh={if st.truncated || st.clipped then 0 else 1} subset={if notIn.isEmpty then "exact" else "window"}"

/-! ### contains_integer_point -/

def judgeCip (id : String) (dom : String) (n : Nat) (arg : Elem) (ans : Bool) : String :=
  let isGrid := dom == "G"
  let ref : Option Bool :=
    if !isGrid && arg.all (fun a => a.cgs.isEmpty) then
      let rs := arg.map fun a => containsIntegerPointRef 30000 n a.cs
      if rs.any (· == some true) then some true
      else if rs.all (· == some false) then some false
      else none
    else none
  -- a window witness settles the positive case
  let ref := match ref with
    | some b => some b
    | none =>
      let leaf := fun (s : DStat) (_ : List Int) => ({ s with pts := s.pts + 1 }, true)
      let st0 : EnumSt DStat := ⟨{}, 0, false, false, false⟩
      let st := arg.foldl (fun st d =>
        if st.stop then st else
          enumDj n 1 (fun _ => true) (fun _ => -40) (fun _ => 40) (fun _ => []) (fun _ => 81) 60000 d leaf st) st0
      if st.user.pts > 0 then some true else none
  match ref with
  | none => s!"skip {id} undecided-by-reference answer={if ans then 1 else 0}"
  | some b =>
    if b == ans then s!"ok {id} ref={if b then 1 else 0}"
    else s!"MISMATCH {id} contains-integer-point library answers {if ans then 1 else 0}, the set dictates {if b then 1 else 0}"

/-! ### the model against the real template (`trace` lines)

`trace <id> <description> | O <k> <entry>* | F <term> | Q <0|1>`: the template
`Implementation::wrap_assign<PSET>` was run on a PSET that records the symbolic term of every object
and the answers of `is_empty` / `minimize` / `maximize`.  The model runs over the same symbolic
domain (`γ = ∅`, so every soundness field holds vacuously) with the recorded answers; the final terms
must coincide. -/

def conStr (n : Nat) (c : Con) : String :=
  (padTo n c.coeffs).foldl (fun s a => s ++ ":" ++ toString a) ((if c.strict then ">" else ">=") ++ ":" ++ toString c.k)

def lookupT (tab : List (String × String)) (k : String) : Option String := (tab.find? fun e => e.1 == k).map (·.2)

def traceDom (n : Nat) (tab : List (String × String)) : Dom where
  D := String
  γ := fun _ _ => False
  botLike := fun _ => "B"
  isEmpty := fun t => lookupT tab ("E " ++ t) == some "1"
  refine := fun t c => "R(" ++ t ++ "," ++ conStr n c ++ ")"
  refineAll := fun t cs => "S(" ++ t ++ ",{" ++ ";".intercalate (cs.map (conStr n)) ++ "})"
  translate := fun t x s => "T(" ++ t ++ "," ++ toString x ++ "," ++ toString s ++ ")"
  join := fun a b => "J(" ++ a ++ "," ++ b ++ ")"
  unconstrain := fun t x => "U(" ++ t ++ "," ++ toString x ++ ")"
  minimize := fun t x =>
    match lookupT tab ("m " ++ t ++ " " ++ toString x) with
    | some v => match v.splitOn " " with
      | [a, b] => if a == "none" then none else some (mkRat (tokInt a) (tokNat b))
      | _ => none
    | none => none
  maximize := fun t x =>
    match lookupT tab ("M " ++ t ++ " " ++ toString x) with
    | some v => match v.splitOn " " with
      | [a, b] => if a == "none" then none else some (mkRat (tokInt a) (tokNat b))
      | _ => none
    | none => none
  isEmpty_sound := fun _ _ _ h => h
  refine_sound := fun _ _ _ h _ => h
  refineAll_sound := fun _ _ _ h _ => h
  translate_sound := fun _ _ _ _ h => h
  join_left := fun _ _ _ h => h
  join_right := fun _ _ _ h => h
  unconstrain_sound := fun _ _ _ _ h => h
  minimize_sound := fun _ _ _ _ _ h => h.elim
  maximize_sound := fun _ _ _ _ _ h => h.elim

def parseOracle (ts : List String) : List (String × String) :=
  -- entries: `E term ans` | `m term x n d` | `M term x n d`
  let rec go (fuel : Nat) (ts : List String) (acc : List (String × String)) : List (String × String) :=
    match fuel, ts with
    | 0, _ => acc
    | _, [] => acc
    | f + 1, "E" :: t :: a :: r => go f r ((("E " ++ t), a) :: acc)
    | f + 1, k :: t :: x :: a :: b :: r => go f r (((k ++ " " ++ t ++ " " ++ x), a ++ " " ++ b) :: acc)
    | _, _ => acc
  go ts.length ts []

def judgeTrace (id : String) (n : Nat) (cfg : WrapCfg) (oracle : List String) (final : String) (same : Bool) : String :=
  let tab := parseOracle (oracle.drop 1)
  let d := traceDom n tab
  let mr : String := wrapAssign d cfg ("I" : String)
  let mb : String := wrapAssignBeforeFix d cfg ("I" : String)
  let trips := wrapTrips d cfg ("I" : String)
  -- `both`: the run does not distinguish the variants; `repaired` / `beforefix`: it does
  if !same then s!"DIVERGE {id} the template instantiated on the tracing PSET and C_Polyhedron::wrap_assign give different sets"
  else if mr == final && mb == final then s!"ok {id} trace=both trips=0 queries={tab.length}"
  else if mr == final then s!"ok {id} trace=repaired trips={if trips then 1 else 0} queries={tab.length}"
  else if mb == final then s!"ok {id} trace=beforefix trips={if trips then 1 else 0} queries={tab.length}"
  else s!"DIVERGE {id} model={mr} real={final}"

/-! ### lines -/

def splitBar (ts : List String) : List (List String) :=
  let (cur, acc) := ts.foldl (fun (st : List String × List (List String)) t =>
    if t == "|" then ([], st.2 ++ [st.1]) else (st.1 ++ [t], st.2)) ([], [])
  acc ++ [cur]

def judgeLine (line : String) : Option String :=
  let ts := toks line
  match ts with
  | kind :: id :: rest =>
    if kind == "trace" then
      match splitBar rest with
      | desc :: o :: f :: q :: [] =>
        (match desc with
        | _ :: _ :: ns :: d =>
          let n := tokNat ns
          let (vars, d1) := parseVars d
          match d1 with
          | w :: rr :: oo :: g :: d2 =>
            let (guard, d3) := if g == "1" then (let (cs, r') := parseCS n d2; (some cs, r')) else (none, d2)
            match d3 with
            | thr :: ind :: _ =>
              let cfg : WrapCfg := ⟨vars, tokNat w, if rr == "u" then .unsigned else .signed,
                if oo == "w" then .wraps else if oo == "u" then .undefined else .impossible,
                guard, tokNat thr, ind == "1"⟩
              some (judgeTrace id n cfg (o.drop 1) (f.getD 1 "") (q.getD 1 "" == "1"))
            | _ => some s!"skip {id} parse"
          | _ => some s!"skip {id} parse"
        | _ => some s!"skip {id} parse")
      | _ => some s!"skip {id} trace-exception"
    else
    if kind != "wrap" && kind != "drop" && kind != "cip" then none else
    let parts := splitBar rest
    match parts with
    | desc :: a :: r :: more =>
      if !more.isEmpty || r.getD 1 "" == "X" || a.head? != some "A" || r.head? != some "R" then
        some s!"skip {id} exception {" ".intercalate (more.getD 0 [])}"
      else
        match desc with
        | _ :: dom :: ns :: d =>
          let n := tokNat ns
          let (arg, _) := parseElem n (a.drop 1)
          if kind == "wrap" then
            let (vars, d1) := parseVars d
            match d1 with
            | w :: rr :: oo :: g :: d2 =>
              let (guard, d3) := if g == "1" then (let (cs, r') := parseCS n d2; (some cs, r')) else (none, d2)
              match d3 with
              | thr :: ind :: _ =>
                let cfg : WrapCfg := ⟨vars, tokNat w, if rr == "u" then .unsigned else .signed,
                  if oo == "w" then .wraps else if oo == "u" then .undefined else .impossible,
                  guard, tokNat thr, ind == "1"⟩
                let (res, _) := parseElem n (r.drop 1)
                some (judgeWrap id dom n cfg arg res)
              | _ => some s!"skip {id} parse"
            | _ => some s!"skip {id} parse"
          else if kind == "drop" then
            match d with
            | hv :: d1 =>
              let (vars, _) := if hv == "1" then parseVars d1 else ([], d1)
              let (res, _) := parseElem n (r.drop 1)
              some (judgeDrop id dom n (hv == "1") vars arg res)
            | _ => some s!"skip {id} parse"
          else
            some (judgeCip id dom n arg (r.getD 1 "" == "1"))
        | _ => some s!"skip {id} parse"
    | desc :: a :: [] =>
      -- the operation threw before a result was journalled: `… | A … | X <class>` has three parts; two parts = truncated
      let _ := desc; let _ := a
      some s!"skip {id} truncated"
    | _ => some s!"skip {id} parse"
  | _ => none

end WrapDriver

partial def loop (h : IO.FS.Stream) (out : IO.FS.Stream) : IO Unit := do
  let line ← h.getLine
  if line.isEmpty then return
  match WrapDriver.judgeLine line with
  | some v => out.putStrLn v
  | none => pure ()
  loop h out

def main (_args : List String) : IO UInt32 := do
  let stdin ← IO.getStdin
  let stdout ← IO.getStdout
  loop stdin stdout
  return 0
