import PPLV.Widen.ImplShape
/-!
native driver `pplv_widenimpl_shape` — correspondence of the widening models of `PPLV/Widen/ImplShape.lean` with the
real `BD_Shape<mpq_class>`, `BD_Shape<mpz_class>`, `Octagonal_Shape<mpq_class>`, `Rational_Box` code, and the judges
of the conclusions of `PPLV/Props/C08ImplShape.lean` on the real output.

stdin: the journal of `harness/c08_impl_shape.cc`, one call per line (`begin <id>` lines are echoed as nothing):

    <id> <bd|oct|box> <q|z> <op> <n> <xflags> <xmat> <xred> <yflags> <ymat> <yred> <stops> <tp> <csd> <cs>
         | <rflags> <rmat> <yflags'> <ymat'> <yred'> <tp'> <lim> <plain>

Per call: one line `ok <id> <obligation>` or `MISMATCH <id> <obligation> <detail>` per obligation, `skip <id> <why>`.
Obligations: `model` (flags, matrix cell for cell incl. `+inf`, `y` after the call incl. `redundancy_dbm`, token
count, limiting matrix — all identical to the model's), and on the REAL output: `sup` (closed receiver ≤ result
cellwise), `below_plain` (limited result ≤ plain widening), `keeps` (every expressible supplied constraint that the
closed receiver satisfies holds in the result; `keeps_rounded` when the quotient is inexact for an integer `T`: only
the rounded bound is demanded), `rank` (CC76: the matrix rank does not increase against the closed `y`, equality only
when stationary), `finite` (BHMZ05: the finite cells of the result are cells of the reduced `y`; fewer unless
stationary), `larsen` (along a BHMZ05 chain: the reduced next iterate has no more finite cells than the result).
-/
open PPLV.WR PPLV.Widen
open PPLV.WR.ExtRat (fin pinf)

namespace WISDriver

def parseRat (s : String) : Option Rat :=
  match s.splitOn "/" with
  | [n] => n.toInt?.map (fun i => (i : Rat))
  | [n, d] => do
    let n ← n.toInt?
    let d ← d.toNat?
    if d == 0 then none else some (mkRat n d)
  | _ => none

def parseExt (s : String) : Option ExtRat :=
  if s == "+inf" then some pinf else (parseRat s).map fin

def parseMat (s : String) : Option (List (List ExtRat)) :=
  if s == "-" then some [] else (s.splitOn ";").mapM fun row => (row.splitOn ",").mapM parseExt

def showRat (q : Rat) : String := if q.den == 1 then toString q.num else s!"{q.num}/{q.den}"
def showExt : ExtRat → String
  | fin q => showRat q
  | pinf => "+inf"
def showMat (rows : List (List ExtRat)) : String :=
  if rows.isEmpty then "-" else ";".intercalate (rows.map fun r => ",".intercalate (r.map showExt))

def parseBits (s : String) : Option (List (List Bool)) :=
  (s.splitOn ";").mapM fun row => row.toList.mapM fun c =>
    if c == '0' then some false else if c == '1' then some true else none

def showBits (rows : List (List Bool)) : String :=
  ";".intercalate (rows.map fun r => String.ofList (r.map fun b => if b then '1' else '0'))

def parseCon (s : String) : Option LimCon :=
  match s.splitOn "|" with
  | [t, k, cs] => do
    let k ← k.toInt?
    let cs ← if cs == "" then some [] else (cs.splitOn ",").mapM String.toInt?
    if t == "E" then some ⟨true, cs, k, false⟩ else if t == "G" then some ⟨false, cs, k, false⟩
    else if t == "S" then some ⟨false, cs, k, true⟩ else none
  | _ => none

def parseCons (s : String) : Option (List LimCon) :=
  if s == "-" then some [] else (s.splitOn ";").mapM parseCon

def parseStops (s : String) : Option (Option (List Rat)) :=
  if s == "-" then some none else if s == "[]" then some (some []) else ((s.splitOn ",").mapM parseRat).map some

def parseTp (s : String) : Option (Option Nat) := if s == "-" then some none else s.toNat?.map some
def showTp : Option Nat → String
  | none => "-"
  | some t => toString t

structure Flags where
  e : Bool
  c : Bool
  r : Bool
  deriving DecidableEq

def parseFlags (s : String) : Option Flags :=
  match s.toList with
  | [a, b, c] => some ⟨a == '1', b == '1', c == '1'⟩
  | _ => none
def showFlags (f : Flags) : String := String.ofList ([f.e, f.c, f.r].map fun b => if b then '1' else '0')

/-! ### BD shapes -/

def bdCells (n : Nat) : List (Nat × Nat) := (List.range (n+1)).flatMap fun i => (List.range (n+1)).map fun j => (i, j)
def bdLists (n : Nat) (m : Mat) : List (List ExtRat) := m.toLists (n+1) (fun _ => n+1)
def octLists (n : Nat) (m : Mat) : List (List ExtRat) := m.toLists (2*n) rowSize
def freezeBD (n : Nat) (m : Mat) : Mat := Mat.ofLists (bdLists n m)
def freezeOct (n : Nat) (m : Mat) : Mat := Mat.ofLists (octLists n m)

def mkBDS (f : Flags) (rows : List (List ExtRat)) (red : String) : Option BDS := do
  let bits ← if red == "-" then some [] else parseBits red
  some { dbm := Mat.ofLists rows, empty := f.e, closed := f.c, reduced := f.r, red := BMat.ofLists bits false }

def bdFlags (s : BDS) : Flags := ⟨s.empty, s.closed, s.reduced⟩
def octFlags (s : OCS) : Flags := ⟨s.empty, s.closed, false⟩

def cellRank (stops : List Rat) : ExtRat → Nat
  | pinf => 0
  | fin q => 1 + (stops.filter fun s => decide (q < s)).length

def finCount (cells : List (Nat × Nat)) (m : Mat) : Nat := (cells.filter fun (i, j) => !(m i j).isPinf).length

/-- the exact bound of a bounded-difference constraint and the cells it speaks about: `(row, col, q)` list -/
def bdConCells (csd : Nat) (c : LimCon) : Option (List (Nat × Nat × Rat) × Bool) :=
  let X := extractBoundedDifference csd c.coeff
  if X.ok && X.numVars != 0 then
    let negative := decide (X.coeff < 0)
    let coeff := if negative then - X.coeff else X.coeff
    let q : Rat := (c.inhomo : Rat) / (coeff : Rat)
    let (xi, xj) := if negative then (X.i, X.j) else (X.j, X.i)
    let exact := q.den == 1
    some ((if c.isEq then [(xi, xj, q), (xj, xi, -q)] else [(xi, xj, q)]), exact)
  else none

def octConCells (csd : Nat) (c : LimCon) : Option (List (Nat × Nat × Rat) × Bool) :=
  let X := extractOctagonalDifference csd c.coeff c.inhomo
  if X.ok && X.numVars != 0 then
    let coeff := if X.coeff < 0 then - X.coeff else X.coeff
    let q : Rat := (X.term : Rat) / (coeff : Rat)
    let ci := if X.i % 2 = 0 then X.i + 1 else X.i - 1
    some ((if c.isEq then [(X.i, X.j, q), (ci, cidx X.j, -q)] else [(X.i, X.j, q)]), true)
  else none

structure Out where
  lines : List String := []

def Out.ok (o : Out) (id ob : String) : Out := { lines := s!"ok {id} {ob}" :: o.lines }
def Out.bad (o : Out) (id ob detail : String) : Out := { lines := s!"MISMATCH {id} {ob} {detail}" :: o.lines }
def Out.chk (o : Out) (id ob : String) (b : Bool) (detail : String) : Out := if b then o.ok id ob else o.bad id ob detail
def Out.tag (o : Out) (id t : String) : Out := { lines := s!"tag {id} {t}" :: o.lines }

/-- state carried along the journal: for the Larsen obligation, per chain the last BHMZ05 result (closed by the model) -/
abbrev Chains := List (String × List (List ExtRat) × Nat)

def chainOf (id : String) : String × String :=
  -- `<seed>.<batch>.<kind><c>.<step>.<variant>`
  match id.splitOn "." with
  | [a, b, c, _, v] => (s!"{a}.{b}.{c}", v)
  | _ => (id, "")

/-- judges shared by BD shapes and octagons on raw matrices -/
structure Dom where
  cells : List (Nat × Nat)
  lists : Mat → List (List ExtRat)

def leCells (cells : List (Nat × Nat)) (a b : Mat) : Bool := cells.all fun (i, j) => decide (a i j ≤ b i j)
def eqCells (cells : List (Nat × Nat)) (a b : Mat) : Bool := cells.all fun (i, j) => a i j == b i j

def judgeCommon (o : Out) (id op : String) (D : Dom) (stops : List Rat) (tok : Bool)
    (xc : Option Mat) (yc : Option Mat) (yReduced : Option Mat) (loopsRan : Bool)
    (rEmpty : Bool) (r : Mat) (rClosed : Option Mat) (plain : Option (Bool × Mat))
    (conCells : LimCon → Option (List (Nat × Nat × Rat) × Bool)) (cs : List LimCon) (integerT : Bool) : Out := Id.run do
  let mut o := o
  -- sup
  match xc with
  | some xc =>
    o := o.chk id "sup" (!rEmpty && leCells D.cells xc r) "closed-receiver-not-below-result"
    -- below_plain / keeps
    if op == "lcc76" || op == "lbhmz" then
      match plain with
      | some (pe, p) =>
        -- as sets: the closure (model, tied by C03) of the real limited result is cellwise below the real plain result
        if !pe && !rEmpty then
          match rClosed with
          | some rc => o := o.chk id "below_plain" (leCells D.cells rc p) "limited-above-plain"
          | none => o := o.ok id "below_plain"
      | none => pure ()
      -- as sets: judged on the closure (model, tied by C03) of the real result — BHMZ05 legitimately drops cells that
      -- the remaining ones imply
      let rj : Mat := rClosed.getD { f := fun _ _ => fin (-1000000) }
      if !rEmpty && yc.isSome then
        for c in cs do
          match conCells c with
          | none => pure ()
          | some (cl, _) =>
            let sat := cl.all fun (i, j, q) => decide (xc i j ≤ fin q)
            if sat then
              let exact := cl.all fun (_, _, q) => !integerT || q.den == 1
              if exact then
                o := o.chk id "keeps" (cl.all fun (i, j, q) => decide (rj i j ≤ fin q)) s!"lost-constraint:{repr c.cf}+{c.inhomo}"
              else
                o := o.chk id "keeps_rounded" (cl.all fun (i, j, q) => decide (rj i j ≤ upCeil q)) s!"lost-rounded-constraint:{repr c.cf}+{c.inhomo}"
  | none => o := o.tag id "receiver-empty"
  -- rank
  if op == "cc76" && !tok && !rEmpty then
    match xc, yc with
    | some xc, some yc =>
      if leCells D.cells yc xc then
        let rk (m : Mat) : Nat := (D.cells.map fun (i, j) => cellRank stops (m i j)).sum
        let a := rk r
        let b := rk yc
        o := o.chk id "rank" (a ≤ b && (a != b || eqCells D.cells r yc)) s!"rank:{a}>{b}"
        o := o.tag id (if a < b then "rank-decreased" else "rank-stationary")
      else o := o.tag id "rank-skip-y-not-below-x"
    | _, _ => pure ()
  -- finite
  if op == "bhmz" && !tok && !rEmpty && loopsRan then
    match yReduced with
    | some yr =>
      let a := finCount D.cells r
      let b := finCount D.cells yr
      let cellsOK := D.cells.all fun (i, j) => (r i j).isPinf || r i j == yr i j
      let same := eqCells D.cells r yr
      o := o.chk id "finite" (cellsOK && a ≤ b && (same || a < b)) s!"finite:{a}vs{b}"
      o := o.tag id (if same then "bhmz-stationary" else "bhmz-decreased")
    | none => pure ()
  return o

def handleBD (st : Chains) (id : String) (T : String) (op : String) (n : Nat) (t : Array String) : Out × Chains := Id.run do
  let mut o : Out := {}
  let some xf := parseFlags t[5]! | return (o.bad id "parse" "xflags", st)
  let some xm := parseMat t[6]! | return (o.bad id "parse" "xmat", st)
  let some yf := parseFlags t[8]! | return (o.bad id "parse" "yflags", st)
  let some ym := parseMat t[9]! | return (o.bad id "parse" "ymat", st)
  let some x := mkBDS xf xm t[7]! | return (o.bad id "parse" "xred", st)
  let some y := mkBDS yf ym t[10]! | return (o.bad id "parse" "yred", st)
  let some stopsO := parseStops t[11]! | return (o.bad id "parse" "stops", st)
  let some tp := parseTp t[12]! | return (o.bad id "parse" "tp", st)
  let csd := t[13]!.toNat?.getD 0
  let some cs := parseCons t[14]! | return (o.bad id "parse" "cs", st)
  if t[16]! == "exc" then return (o.bad id "exception" t[17]!, st)
  let some rf := parseFlags t[16]! | return (o.bad id "parse" "rflags", st)
  let some rm := parseMat t[17]! | return (o.bad id "parse" "rmat", st)
  let some yf' := parseFlags t[18]! | return (o.bad id "parse" "yflags'", st)
  let some ym' := parseMat t[19]! | return (o.bad id "parse" "ymat'", st)
  let some tp' := parseTp t[21]! | return (o.bad id "parse" "tp'", st)
  let up : Rat → ExtRat := if T == "z" then upCeil else upId
  let stops := stopsO.getD defaultStops
  let D : Dom := ⟨bdCells n, bdLists n⟩
  -- the model
  let res : Option (BDS × BDS × Option Nat × Option Mat) :=
    if op == "cc76" then let (a, b, c) := bdCC76 up n stops x y tp; some (a, b, c, none)
    else if op == "bhmz" then (bdBHMZ05 up n x y tp).map fun (a, b, c) => (a, b, c, none)
    else if op == "lcc76" then let (a, b, c, l) := bdLimitedCC76 up n csd cs x y tp; some (a, b, c, some l)
    else if op == "lbhmz" then (bdLimitedBHMZ05 up n csd cs x y tp).map fun (a, b, c, l) => (a, b, c, some l)
    else if op == "getlim" then let (a, l) := bdGetLimitingShape up n csd cs x BDS.univ; some (a, y, tp, some l.dbm)
    else none
  let some (mx, my, mtp, mlim) := res | return (o.bad id "model" "fuel-exhausted-or-unknown-op", st)
  -- identical?
  let mut diffs : List String := []
  if bdFlags mx != rf then diffs := s!"rflags:model={showFlags (bdFlags mx)},real={showFlags rf}" :: diffs
  if !rf.e && !mx.empty && bdLists n mx.dbm != rm then diffs := s!"rmat:model={showMat (bdLists n mx.dbm)},real={showMat rm}" :: diffs
  if bdFlags my != yf' then diffs := s!"yflags:model={showFlags (bdFlags my)},real={showFlags yf'}" :: diffs
  if !yf'.e && !my.empty && bdLists n my.dbm != ym' then diffs := s!"ymat:model={showMat (bdLists n my.dbm)},real={showMat ym'}" :: diffs
  if yf'.r && my.reduced && n > 0 then
    let mb := showBits (my.red.toLists (n+1) (fun _ => n+1))
    if mb != t[20]! then diffs := s!"yred:model={mb},real={t[20]!}" :: diffs
  if mtp != tp' then diffs := s!"tp:model={showTp mtp},real={showTp tp'}" :: diffs
  match mlim with
  | some l =>
    if t[22]! != "-" && showMat (bdLists n l) != t[22]! then diffs := s!"lim:model={showMat (bdLists n l)},real={t[22]!}" :: diffs
  | none => pure ()
  o := o.chk id "model" diffs.isEmpty ("|".intercalate diffs)
  -- the judges, on the real output
  if n == 0 || op == "getlim" then return (o, st)
  let r := Mat.ofLists rm
  let xcS := bdClosureAssign up n x
  let ycS := bdClosureAssign up n y
  let xc : Option Mat := if xcS.empty then none else some (freezeBD n xcS.dbm)
  let yc : Option Mat := if ycS.empty then none else some (freezeBD n ycS.dbm)
  let tok := match tp with | some k => k > 0 | none => false
  -- the reduced `y` as the real code left it
  let yRed : Option Mat :=
    if yf'.r && !yf'.e then (parseBits t[20]!).map fun bits => bdsReducedMat (Mat.ofLists ym') (BMat.ofLists bits true) else none
  -- did the loops of BHMZ05 run?  (the model says so: same affine dimension, not zero)
  let loopsRan := op == "bhmz" && !tok &&
    (let (yad, y1) := bdAffineDim up n y
     let (xad, _) := bdAffineDim up n x
     yad != 0 && xad == yad && !y1.empty)
  let plain : Option (Bool × Mat) :=
    match t[23]!.splitOn "@" with
    | [f, m] => do let f ← parseFlags f; let m ← parseMat m; some (f.e, Mat.ofLists m)
    | _ => none
  let rcS := bdClosureAssign up n { dbm := r }
  let rClosed : Option Mat := if rcS.empty then none else some (freezeBD n rcS.dbm)
  o := judgeCommon o id op D stops tok xc yc yRed loopsRan rf.e r rClosed plain (bdConCells csd) cs (T == "z")
  -- Larsen along BHMZ05 chains
  let (cid, variant) := chainOf id
  let mut st := st
  if variant == "w" && op == "bhmz" then
    match st.find? (fun e => e.1 == cid), yc, yRed with
    | some (_, prev, cnt), some yc, some yr =>
      if loopsRan then
        if bdLists n yc == prev then
          o := o.chk id "larsen" (finCount D.cells yr ≤ cnt) s!"reduced-next-iterate-has-{finCount D.cells yr}-finite-cells>{cnt}"
        else o := o.tag id "larsen-skip-other-set"
    | _, _, _ => pure ()
    -- remember this result
    if !rf.e then
      let rc := bdClosureAssign up n { dbm := r }
      if !rc.empty then
        st := (cid, bdLists n rc.dbm, finCount D.cells r) :: st.filter (fun e => e.1 != cid)
  return (o, st)

def handleOct (st : Chains) (id : String) (op : String) (n : Nat) (t : Array String) : Out × Chains := Id.run do
  let mut o : Out := {}
  let some xf := parseFlags t[5]! | return (o.bad id "parse" "xflags", st)
  let some xm := parseMat t[6]! | return (o.bad id "parse" "xmat", st)
  let some yf := parseFlags t[8]! | return (o.bad id "parse" "yflags", st)
  let some ym := parseMat t[9]! | return (o.bad id "parse" "ymat", st)
  let x : OCS := { mat := Mat.ofLists xm, empty := xf.e, closed := xf.c }
  let y : OCS := { mat := Mat.ofLists ym, empty := yf.e, closed := yf.c }
  let some stopsO := parseStops t[11]! | return (o.bad id "parse" "stops", st)
  let some tp := parseTp t[12]! | return (o.bad id "parse" "tp", st)
  let csd := t[13]!.toNat?.getD 0
  let some cs := parseCons t[14]! | return (o.bad id "parse" "cs", st)
  if t[16]! == "exc" then return (o.bad id "exception" t[17]!, st)
  let some rf := parseFlags t[16]! | return (o.bad id "parse" "rflags", st)
  let some rm := parseMat t[17]! | return (o.bad id "parse" "rmat", st)
  let some yf' := parseFlags t[18]! | return (o.bad id "parse" "yflags'", st)
  let some ym' := parseMat t[19]! | return (o.bad id "parse" "ymat'", st)
  let some tp' := parseTp t[21]! | return (o.bad id "parse" "tp'", st)
  let up : Rat → ExtRat := upId
  let stops := stopsO.getD defaultStops
  let D : Dom := ⟨octCells n, octLists n⟩
  let res : Option (OCS × OCS × Option Nat × Option Mat) :=
    if op == "cc76" then let (a, b, c) := octCC76 up n stops x y tp; some (a, b, c, none)
    else if op == "bhmz" then (octBHMZ05 up n x y tp).map fun (a, b, c) => (a, b, c, none)
    else if op == "lcc76" then let (a, b, c, l) := octLimitedCC76 up n csd cs x y tp; some (a, b, c, some l)
    else if op == "lbhmz" then (octLimitedBHMZ05 up n csd cs x y tp).map fun (a, b, c, l) => (a, b, c, some l)
    else if op == "getlim" then let (a, l) := octGetLimitingOctagon up n csd cs x OCS.univ; some (a, y, tp, some l.mat)
    else none
  let some (mx, my, mtp, mlim) := res | return (o.bad id "model" "fuel-exhausted-or-unknown-op", st)
  let mut diffs : List String := []
  if octFlags mx != rf then diffs := s!"rflags:model={showFlags (octFlags mx)},real={showFlags rf}" :: diffs
  if !rf.e && !mx.empty && octLists n mx.mat != rm then diffs := s!"rmat:model={showMat (octLists n mx.mat)},real={showMat rm}" :: diffs
  if octFlags my != yf' then diffs := s!"yflags:model={showFlags (octFlags my)},real={showFlags yf'}" :: diffs
  if !yf'.e && !my.empty && octLists n my.mat != ym' then diffs := s!"ymat:model={showMat (octLists n my.mat)},real={showMat ym'}" :: diffs
  if mtp != tp' then diffs := s!"tp:model={showTp mtp},real={showTp tp'}" :: diffs
  match mlim with
  | some l =>
    if t[22]! != "-" && showMat (octLists n l) != t[22]! then diffs := s!"lim:model={showMat (octLists n l)},real={t[22]!}" :: diffs
  | none => pure ()
  o := o.chk id "model" diffs.isEmpty ("|".intercalate diffs)
  if n == 0 || op == "getlim" then return (o, st)
  let r := Mat.ofLists rm
  let xcS := octClosureAssign up n x
  let ycS := octClosureAssign up n y
  let xc : Option Mat := if xcS.empty then none else some (freezeOct n xcS.mat)
  let yc : Option Mat := if ycS.empty then none else some (freezeOct n ycS.mat)
  let tok := match tp with | some k => k > 0 | none => false
  let loopsRan := op == "bhmz" && !tok &&
    (let (yad, y1) := octAffineDim up n y
     let (xad, _) := octAffineDim up n x
     yad != 0 && xad == yad && !y1.empty)
  -- after the loops ran the real `y` holds the strongly reduced matrix
  let yRed : Option Mat := if loopsRan && !yf'.e then some (Mat.ofLists ym') else none
  let plain : Option (Bool × Mat) :=
    match t[23]!.splitOn "@" with
    | [f, m] => do let f ← parseFlags f; let m ← parseMat m; some (f.e, Mat.ofLists m)
    | _ => none
  let rcS := octClosureAssign up n { mat := r }
  let rClosed : Option Mat := if rcS.empty then none else some (freezeOct n rcS.mat)
  o := judgeCommon o id op D stops tok xc yc yRed loopsRan rf.e r rClosed plain (octConCells csd) cs false
  let (cid, variant) := chainOf id
  let mut st := st
  if variant == "w" && op == "bhmz" then
    match st.find? (fun e => e.1 == cid), yc, yRed with
    | some (_, prev, cnt), some yc, some yr =>
      if loopsRan then
        if octLists n yc == prev then
          o := o.chk id "larsen" (finCount D.cells yr ≤ cnt) s!"reduced-next-iterate-has-{finCount D.cells yr}-finite-cells>{cnt}"
        else o := o.tag id "larsen-skip-other-set"
    | _, _, _ => pure ()
    if !rf.e then
      let rc := octClosureAssign up n { mat := r }
      if !rc.empty then
        st := (cid, octLists n rc.mat, finCount D.cells r) :: st.filter (fun e => e.1 != cid)
  return (o, st)

/-! ### boxes -/

def parseItv (s : String) : Option Itv :=
  match s.splitOn ":" with
  | [l, lo, u, uo] => do
    let lo' ← if l == "-inf" then some none else (parseRat l).map some
    let hi' ← if u == "+inf" then some none else (parseRat u).map some
    some ⟨lo', lo == "1", hi', uo == "1"⟩
  | _ => none

def parseSeq (s : String) : Option BoxM := if s == "-" then some [] else (s.splitOn ";").mapM parseItv

def showItv (I : Itv) : String :=
  let l := match I.lo with | none => "-inf" | some q => showRat q
  let u := match I.hi with | none => "+inf" | some q => showRat q
  s!"{l}:{if I.lo.isSome && I.loOpen then 1 else 0}:{u}:{if I.hi.isSome && I.hiOpen then 1 else 0}"
/-- (`b.isEmpty` would resolve to `BoxM.isEmpty` — "some interval is empty" — not to `List.isEmpty`) -/
def showSeq (b : BoxM) : String :=
  match b with
  | [] => "-"
  | _ => ";".intercalate (b.map showItv)

/-- the flags of infinite boundaries carry no information -/
def normItv (I : Itv) : Itv := ⟨I.lo, I.lo.isSome && I.loOpen, I.hi, I.hi.isSome && I.hiOpen⟩

def handleBox (id : String) (op : String) (n : Nat) (t : Array String) : Out := Id.run do
  let mut o : Out := {}
  let some xf := parseFlags t[5]! | return o.bad id "parse" "xflags"
  let some xs := parseSeq t[6]! | return o.bad id "parse" "xseq"
  let some yf := parseFlags t[8]! | return o.bad id "parse" "yflags"
  let some ys := parseSeq t[9]! | return o.bad id "parse" "yseq"
  let some stopsO := parseStops t[11]! | return o.bad id "parse" "stops"
  let some tp := parseTp t[12]! | return o.bad id "parse" "tp"
  let csd := t[13]!.toNat?.getD 0
  let some cs := parseCons t[14]! | return o.bad id "parse" "cs"
  if t[16]! == "exc" then return o.bad id "exception" t[17]!
  let some rf := parseFlags t[16]! | return o.bad id "parse" "rflags"
  let some rs := parseSeq t[17]! | return o.bad id "parse" "rseq"
  let some tp' := parseTp t[21]! | return o.bad id "parse" "tp'"
  let x : BoxS := ⟨xs, xf.e⟩
  let y : BoxS := ⟨ys, yf.e⟩
  let res : Option (BoxS × Option Nat × Option BoxM) :=
    if op == "cc76" then
      match stopsO with
      | some stops => some (boxCC76Stops stops x y, tp, none)
      | none => let (a, b) := boxCC76 x y tp; some (a, b, none)
    else if op == "lcc76" then let (a, b, l) := boxLimitedCC76 csd cs x y tp; some (a, b, some l)
    else if op == "getlim" then some (x, tp, some (boxGetLimitingBox csd cs x.seq (List.replicate n Itv.univ)))
    else none
  let some (mx, mtp, mlim) := res | return o.bad id "model" "unknown-op"
  let mut diffs : List String := []
  if mx.markedEmpty != rf.e then diffs := s!"marked_empty:model={mx.markedEmpty},real={rf.e}" :: diffs
  if !rf.e && !mx.markedEmpty && mx.seq.map normItv != rs.map normItv then
    diffs := s!"seq:model={showSeq mx.seq},real={showSeq rs}" :: diffs
  if mtp != tp' then diffs := s!"tp:model={showTp mtp},real={showTp tp'}" :: diffs
  match mlim with
  | some l => if t[22]! != "-" && showSeq l != t[22]! then diffs := s!"lim:model={showSeq l},real={t[22]!}" :: diffs
  | none => pure ()
  o := o.chk id "model" diffs.isEmpty ("|".intercalate diffs)
  if !xf.e && BoxM.isEmpty xs then o := o.tag id s!"box-receiver-undetected-empty-{op}"
  match mlim with
  | some l => if BoxM.isEmpty l then o := o.tag id "limiting-box-with-empty-interval"
  | none => pure ()
  if n == 0 || op == "getlim" then return o
  let r : BoxS := ⟨rs, rf.e⟩
  let tok := match tp with | some k => k > 0 | none => false
  if !x.isEmpty then
    o := o.chk id "sup" (boxContains r x) "receiver-not-inside-result"
    if op == "lcc76" then
      match t[23]!.splitOn "@" with
      | [f, m] =>
        match parseFlags f, parseSeq m with
        | some pf, some ps => o := o.chk id "below_plain" (boxContains ⟨ps, pf.e⟩ r) "limited-above-plain"
        | _, _ => pure ()
      | _ => pure ()
      if !y.isEmpty then
        for c in cs do
          match extractIntervalConstraint csd c with
          | some (1, v) =>
            let d := c.coeff v
            let half : Itv := refineIntervalNoCheck Itv.univ c c.inhomo d
            if Itv.containsB half (xs.getD v default) then
              o := o.chk id "keeps" (r.isEmpty || Itv.containsB half (rs.getD v default)) s!"lost-constraint:{repr c.cf}+{c.inhomo}"
          | _ => pure ()
  else o := o.tag id "receiver-empty"
  if op == "cc76" && !tok && !r.isEmpty && !y.isEmpty && boxContains x y then
    let stops := stopsO.getD defaultStops
    let rk (b : BoxM) : Nat := (b.map fun I => (normItv I).rank stops).sum
    let a := rk rs
    let b := rk ys
    o := o.chk id "rank" (a ≤ b && (a != b || rs.map normItv == ys.map normItv)) s!"rank:{a}>{b}"
    o := o.tag id (if a < b then "rank-decreased" else "rank-stationary")
  return o

end WISDriver

open WISDriver in
partial def loop (h : IO.FS.Stream) (out : IO.FS.Stream) (st : Chains) : IO Unit := do
  let line ← h.getLine
  if line.isEmpty then return ()
  let toks := (line.trimAscii.toString.splitOn " ").toArray
  if toks.size < 2 then loop h out st
  else if toks[0]! == "begin" then loop h out st
  else if toks[0]! == "crash" then
    out.putStrLn s!"crash {toks[1]!}"
    loop h out st
  else if toks[0]! == "end" then loop h out st
  else if toks[1]! == "exc-outside" then
    out.putStrLn s!"skip {toks[0]!} exception-in-generator"
    loop h out st
  else if toks.size < 18 then
    out.putStrLn s!"MISMATCH {toks[0]!} parse short-line"
    loop h out st
  else
    let id := toks[0]!
    let dom := toks[1]!
    let n := toks[4]!.toNat?.getD 0
    let (o, st') :=
      if dom == "bd" then handleBD st id toks[2]! toks[3]! n toks
      else if dom == "oct" then handleOct st id toks[3]! n toks
      else if dom == "box" then (handleBox id toks[3]! n toks, st)
      else (({} : Out).bad id "parse" "domain", st)
    for l in o.lines.reverse do out.putStrLn l
    out.putStrLn s!"tag {id} {dom}-{toks[2]!}-{toks[3]!}-n{n}"
    loop h out st'

def main (_args : List String) : IO UInt32 := do
  let stdin ← IO.getStdin
  let stdout ← IO.getStdout
  loop stdin stdout []
  return 0
