import PPLV.Solver.PIPCoreTree
import PPLV.Solver.PIPCoreSolveAsWritten
import PPLV.Solver.PIPCoreSem

/-! `pplv_pipcore`: replays the journal of `harness/c07_core.cc` (grammar there).

For every complete case the MODEL of `PIP_Solution_Node::solve` (`PPLV.PIPCore.solve` with the modelled
`compatibility_check` as oracle) is run on the journalled root tableau and initial context; the result must
be the same tree as the real one: same shape, same artificial parameters and constraints in every node
(rows compared modulo trailing zeros), same FINAL tableau / basis / mapping / var_row / var_column / sign
in every solution node.  Then the conclusions of the theorems are judged on the REAL tree:

* every solution node is coherent (`PIP_Solution_Node::OK`, the `WF` of the theorems) and its columns are
  lexico-non-negative (`LexPos`, the invariant of `C07.solve_step_invariant`);
* every solution node without cut rows describes the same affine set as the root tableau
  (each of its row equations is an identity once the row variables of the root are substituted);
* at every parameter valuation of the box that satisfies the initial context: `Tree.eval` of the real tree
  (through `CTree.toTree`) equals the verified reference `lexminRef`, and at the solution node reached
  every row of the final tableau is non-negative and every problem variable integral.

Verdicts:  ok <id> k=v…   |  skip <id> <reason>  |  MISMATCH <id> <obligation> <detail>
usage: pplv_pipcore [--box N] [--window W] [--fuel F] [--ccfuel F]
-/
open PPLV.PIPCore
open PPLV.Lin (tokInt tokNat)
abbrev Tree' := PPLV.PIP.Tree

/-! ### token stream -/

abbrev P := StateT (List String) Option

def tok : P String := do
  match (← get) with
  | [] => failure
  | t :: ts => set ts; pure t
def pInt : P Int := do pure (tokInt (← tok))
def pNat : P Nat := do pure (tokNat (← tok))
def pMany {α} (p : P α) : Nat → P (List α)
  | 0 => pure []
  | n + 1 => do let a ← p; let as ← pMany p n; pure (a :: as)
def pRowN (n : Nat) : P Row := pMany pInt n
def pMat (r c : Nat) : P Mat := pMany (pRowN c) r
def pNatList : P (List Nat) := do let n ← pNat; pMany pNat n

def signOf (n : Nat) : RowSign :=
  match n with | 0 => .unknown | 1 => .zero | 2 => .positive | 3 => .negative | _ => .mixed

def pNode : P SolNode := do
  let ns ← pNat; let nt ← pNat; let den ← pInt; let nr ← pNat
  let s ← pMat nr ns; let t ← pMat nr nt
  let basis ← pNatList; let mapping ← pNatList; let vr ← pNatList; let vc ← pNatList; let sg ← pNatList
  let big ← pInt
  pure { tab := ⟨s, t, den, ns, nt⟩, basis := basis.map (· != 0), mapping, varRow := vr, varColumn := vc,
         sign := sg.map signOf, big := if big < 0 then none else some big.toNat, arts := [], cons := [] }

def pLenRow : P Row := do let n ← pNat; pRowN n
def pArts : P (List ArtP) := do
  let n ← pNat
  pMany (do let den ← pInt; let num ← pLenRow; pure (⟨num, den⟩ : ArtP)) n
def pCons : P (List Row) := do let n ← pNat; pMany pLenRow n

def pTree : Nat → P (Option CTree)
  | 0 => failure
  | fuel + 1 => do
    match (← tok) with
    | "B" => pure none
    | "S" => do
      let arts ← pArts; let cons ← pCons; let nd ← pNode
      pure (some (.sol { nd with arts, cons }))
    | "D" => do
      let arts ← pArts; let cons ← pCons
      let t ← pTree fuel; let f ← pTree fuel
      match t with
      | none => failure
      | some t => pure (some (.dec arts cons t f))
    | _ => failure

/-! ### comparison modulo trailing zeros -/

def stripZeros (r : Row) : Row := (r.reverse.dropWhile (· == 0)).reverse
def normArt (a : ArtP) : ArtP := ⟨stripZeros a.num, a.den⟩

def sameNode (a b : SolNode) : Option String :=
  if a.tab.ns != b.tab.ns || a.tab.nt != b.tab.nt then some "dims"
  else if a.tab.den != b.tab.den then some s!"den real={a.tab.den} model={b.tab.den}"
  else if a.tab.s != b.tab.s then some "s"
  else if a.tab.t != b.tab.t then some "t"
  else if a.basis != b.basis then some "basis"
  else if a.mapping != b.mapping then some "mapping"
  else if a.varRow != b.varRow then some "var_row"
  else if a.varColumn != b.varColumn then some "var_column"
  else if a.sign != b.sign then some "sign"
  else if a.arts.map normArt != b.arts.map normArt then some "solution_arts"
  else if a.cons.map stripZeros != b.cons.map stripZeros then some "solution_constraints"
  else none

/-- first difference between the real and the modelled tree: `(obligation, path)` -/
def diffTree : Option CTree → Option CTree → String → Option (String × String)
  | none, none, _ => none
  | some (.sol a), some (.sol b), path => (sameNode a b).map fun w => ("final_tableau:" ++ w, path)
  | some (.dec a1 c1 t1 f1), some (.dec a2 c2 t2 f2), path =>
    if a1.map normArt != a2.map normArt then some ("decision_arts", path)
    else if c1.map stripZeros != c2.map stripZeros then some ("decision_constraints", path)
    else match diffTree (some t1) (some t2) (path ++ "T") with
      | some d => some d
      | none => diffTree f1 f2 (path ++ "F")
  | _, _, path => some ("tree_shape", path)

/-! ### the affine set of a final tableau against the root's -/

/-- value of variable `k` under the root tableau as an affine form over (column variables of the root,
    parameter columns), times the root denominator: `(xs, qs)` -/
def rootForm (root : SolNode) (ntF : Nat) (k : Nat) : Option (Row × Row) :=
  if k ≥ root.mapping.length then none
  else if boolGet root.basis k then
    some (rset (zeroRow root.tab.ns) (natGet root.mapping k) root.tab.den, zeroRow ntF)
  else
    let i := natGet root.mapping k
    some (mrow root.tab.s i, mrow root.tab.t i ++ zeroRow (ntF - root.tab.nt))

def addScaled (a : Row) (c : Int) (b : Row) : Row := (a.zip b).map fun (x, y) => x + c * y

/-- is row `i` of the final node an identity under the root's definitions?  `none`: a cut variable occurs -/
def rowIdentity (root fin : SolNode) (i : Nat) : Option Bool := do
  let ntF := fin.tab.nt
  let (lx, lq) ← rootForm root ntF (natGet fin.varRow i)
  -- den_f * V(var_row) - Σ s_ij V(var_col j) - den_0 * t_i·q = 0   (everything times den_0)
  let mut ax := lx.map (· * fin.tab.den)
  let mut aq := lq.map (· * fin.tab.den)
  for j in List.range fin.tab.ns do
    let c := mget fin.tab.s i j
    if c ≠ 0 then
      let (fx, fq) ← rootForm root ntF (natGet fin.varColumn j)
      ax := addScaled ax (-c) fx
      aq := addScaled aq (-c) fq
  aq := addScaled aq (-root.tab.den) (mrow fin.tab.t i)
  pure (ax.all (· == 0) && aq.all (· == 0))

/-! ### the lexicographic invariant on a (real) final node -/

def lexNonnegColB : List Row → Nat → Bool
  | [], _ => true
  | r :: rs, j => decide (0 < rget r j) || (rget r j == 0 && lexNonnegColB rs j)

/-- `LexPos` (every column of the full matrix is lexico-non-negative), decided -/
def lexPosB (nd : SolNode) : Bool := (List.range nd.tab.ns).all fun j => lexNonnegColB (fullRows nd) j

/-- `PIP_Solution_Node::OK()` on the journalled members (`WF` without the proofs) -/
def wfB (nd : SolNode) : Bool :=
  nd.tab.s.length == nd.tab.t.length && nd.tab.s.all (·.length == nd.tab.ns) && nd.tab.t.all (·.length == nd.tab.nt)
  && decide (0 < nd.tab.den) && nd.varRow.length == nd.tab.s.length && nd.varColumn.length == nd.tab.ns
  && nd.sign.length == nd.tab.s.length && nd.mapping.length == nd.tab.s.length + nd.tab.ns
  && nd.basis.length == nd.mapping.length
  && (List.range nd.mapping.length).all fun k =>
      if boolGet nd.basis k then natGet nd.mapping k < nd.tab.ns && natGet nd.varColumn (natGet nd.mapping k) == k
      else natGet nd.mapping k < nd.tab.s.length && natGet nd.varRow (natGet nd.mapping k) == k

/-! ### evaluation at a valuation, with the node reached -/

open PPLV.PIP in
/-- the solution node `Tree.eval` ends in (mirrors `Tree.eval`), with the extended parameter vector -/
def reach : CTree → List Int → Option (SolNode × List Int)
  | .sol nd, env =>
    match evalArts (nd.arts.map ArtP.toQAff) env with
    | none => none
    | some env' =>
      match evalCons (nd.cons.map consToPCon) env' with
      | some true => some (nd, env')
      | _ => none
  | .dec arts cons t f, env =>
    match evalArts (arts.map ArtP.toQAff) env with
    | none => none
    | some env' =>
      match evalCons (cons.map consToPCon) env' with
      | some true => reach t env'
      | some false => (match f with | some f => reach f env' | none => none)
      | none => none

def dotQ (r : Row) (q : List Int) : Int := PPLV.PIP.dotI r q

structure Stats where
  sols : Nat := 0
  decs : Nat := 0
  arts : Nat := 0
  cutRows : Nat := 0
  maxDen : Int := 1
  depth : Nat := 0

def treeStats (nr0 : Nat) : CTree → Nat → Stats → Stats
  | .sol nd, d, st => { st with sols := st.sols + 1, arts := st.arts + nd.arts.length,
                                cutRows := st.cutRows + (nd.tab.s.length - nr0),
                                maxDen := max st.maxDen nd.tab.den, depth := max st.depth d }
  | .dec arts _ t f, d, st =>
    let st := { st with decs := st.decs + 1, arts := st.arts + arts.length }
    let st := treeStats nr0 t (d + 1) st
    match f with | some f => treeStats nr0 f (d + 1) st | none => st

def solNodes : CTree → List SolNode
  | .sol nd => [nd]
  | .dec _ _ t f => solNodes t ++ (match f with | some f => solNodes f | none => [])


/-! ### diagnosis of a wrong real answer: the solver without the second sign refinement

`solveGoSA` is `PPLV.PIPCore.solveGoAsWritten` with the sign analysis as a parameter; `signAnalysisNoR2` leaves out the
second refinement of the mixed rows (PIP_Tree.cc:2755-2808), which marks a row NEGATIVE when `t_i(z) > 0` is
incompatible with the context although the row may be 0 there (finding KF-C07-12, repaired by commit deb2fdf).  It is used ONLY to tag a
failure of the real tree: "the failure disappears without the second refinement". -/

def signAnalysisNoR2 (cc : Mat → Option Bool) (nd : SolNode) (ctx : Mat) : Option (List RowSign × Firsts) :=
  let numRows := nd.tab.t.length
  let st := recomputeSigns nd
  match st.2.neg, st.2.mix with
  | none, some fm => refineMixed1 cc nd.tab ctx fm (rangeFrom fm numRows) st
  | _, _ => some st

def solveGoSA (sa : SolNode → Mat → Option (List RowSign × Firsts)) (cc : Mat → Option Bool) (ctl : Ctl) (cfc : Bool) :
    Nat → Bool → SolNode → Mat → Res
  | 0, _, _, _ => .fuel
  | fuel + 1, entry, nd, ctx =>
    if entry && cfc then
      match cc ctx with
      | none => .fuel
      | some false => .done none
      | some true => solveGoSA sa cc ctl cfc fuel false nd ctx
    else
    match sa nd ctx with
    | none => .fuel
    | some (sg, fs) =>
      let nd := { nd with sign := sg }
      let numRows := nd.tab.t.length
      match fs.neg with
      | some fneg =>
        match choosePivot ctl nd sg (rangeFrom fneg numRows) none with
        | none => .done none
        | some none => .fuel
        | some (some (pi, pj)) => solveGoSA sa cc ctl cfc fuel false (pivot nd pi pj) ctx
      | none =>
        match fs.mix with
        | some fmix =>
          match findINeg nd.tab sg (rangeFrom fmix numRows) none with
          | some (iNeg, _) =>
            let tautology := integralSimplification (mrow nd.tab.t iNeg)
            let nd := { nd with cons := addConstraint nd.cons tautology, sign := nd.sign.set iNeg .positive }
            solveGoSA sa cc ctl cfc fuel false nd (ctx ++ [tautology])
          | none =>
            match findBestI nd.tab sg (rangeFrom fmix numRows) none with
            | none => .fuel
            | some (bestI, _) =>
              let tTest := integralSimplification (mrow nd.tab.t bestI)
              let child := { nd with arts := [], cons := [] }
              match solveGoSA sa cc ctl cfc fuel true child (ctx ++ [tTest]) with
              | .fuel => .fuel
              | .done tNode =>
                let fTest := complementAssign tTest 1
                match solveGoSA sa cc ctl cfc fuel true child (ctx ++ [fTest]) with
                | .fuel => .fuel
                | .done fNode => .done (assemble nd.arts nd.cons tTest fTest tNode fNode)
        | none =>
          let nd := { nd with tab := nd.tab.normalize }
          if solutionIntegral nd then .done (some (.sol nd))
          else
            let (nd, ctx) := generateCuts ctl nd ctx
            solveGoSA sa cc ctl cfc fuel false nd ctx

/-! ### problems (for the reference) -/

structure Prob where
  dim : Nat := 0
  isParam : Array Bool := #[]
  big : Bool := false
  cut : Nat := 0
  piv : Nat := 0
  P : PPLV.PIP.Problem := { nv := 0, np := 0, rows := [] }

def parseRel (s : String) : PPLV.PIP.Rel := if s == "=" then .eq else if s == ">" then .gt else .ge

def parseRows (pb : Prob) : Nat → List String → List PPLV.PIP.PRow
  | 0, _ => []
  | m + 1, ts =>
    match ts with
    | rel :: k :: rest =>
      let cf := (rest.take pb.dim).map tokInt
      let idx := List.range pb.dim
      let xs := (idx.zip cf).filterMap fun (i, a) => if pb.isParam.getD i false then none else some a
      let ps := (idx.zip cf).filterMap fun (i, a) => if pb.isParam.getD i false then some a else none
      ⟨xs, ps, tokInt k, parseRel rel⟩ :: parseRows pb m (rest.drop pb.dim)
    | _ => []

def boxVals (N : Nat) : Nat → List (List Int)
  | 0 => [[]]
  | k + 1 => (boxVals N k).flatMap fun v => (List.range (N + 1)).map fun a => Int.ofNat a :: v

def argNat (args : List String) (name : String) (d : Nat) : Nat :=
  match args.dropWhile (· != name) with
  | _ :: v :: _ => tokNat v
  | _ => d

def pCtx : P (Mat × Bool) := do
  let r ← pNat; let cN ← pNat; let m ← pMat r cN
  let _ ← tok; let f ← pNat
  pure (m, f != 0)

structure Case where
  id : String := "?"
  pb : Prob := {}
  root : Option SolNode := none
  ctx : Option (Mat × Bool) := none
  ctx0 : Option (Mat × Bool) := none
  status : String := ""
  tree : Option (Option CTree) := none
  treeBad : Bool := false
  shapeBad : Bool := false
  dead : Option String := none

def strRow (r : List Int) : String := ",".intercalate (r.map toString)

def judge (c : Case) (box window fuel ccfuel : Nat) (dump : Bool := false) : IO Unit := do
  let id := c.id
  if let some why := c.dead then
    -- a run that did not return: does the model return on the same input?
    match c.root, c.ctx0 with
    | some root, some (ctx, cfc) =>
      let r := match solve (ccModel ccfuel) { cut := c.pb.cut, piv := c.pb.piv } cfc fuel root ctx with
        | .fuel => "model-fuel" | .done none => "model-null" | .done (some _) => "model-tree"
      IO.println s!"skip {id} {why} {r} cut={c.pb.cut} piv={c.pb.piv} big={c.pb.big}"
    | _, _ => IO.println s!"skip {id} {why} no-root"
    return
  let some root := c.root | IO.println s!"skip {id} no-root"; return
  let some (ctx, cfc) := c.ctx | IO.println s!"skip {id} no-ctx"; return
  if let some (ctx0, cfc0) := c.ctx0 then
    if ctx0 != ctx || cfc0 != cfc then
      IO.println s!"MISMATCH {id} model:initial_context the-context-computed-from-the-data-differs-from-PIP_Problem::initial_context"
  if c.treeBad then IO.println s!"MISMATCH {id} model:parse tree-line-unparsable"; return
  let some real := c.tree | IO.println s!"skip {id} no-tree"; return
  if c.shapeBad then
    IO.println s!"MISMATCH {id} real:node_expression a-node-constraint-or-artificial-parameter-mentions-a-problem-variable"
  let ctl : Ctl := { cut := c.pb.cut, piv := c.pb.piv }
  -- 1. the replay
  let mut fine := true
  let mut variant := "repaired"
  match solve (ccModel ccfuel) ctl cfc fuel root ctx with
  | .fuel => IO.println s!"skip {id} model-fuel"; fine := false
  | .done model =>
    if (c.status == "OPT") != real.isSome then
      IO.println s!"MISMATCH {id} real:status status={c.status} tree={if real.isSome then "node" else "null"}"; fine := false
    -- the model is the code WITH the repair of KF-C07-12 (commit deb2fdf).  A tree that differs from it but equals
    -- the model of the code before the repair is a regression of the library to the old rule.
    let diff := diffTree real model "R"
    if diff.isSome then
      match solveAsWritten (ccModel ccfuel) ctl cfc fuel root ctx with
      | .done modelOld => if (diffTree real modelOld "R").isNone then variant := "as-written"
      | .fuel => pure ()
    if variant == "as-written" then
      IO.println s!"MISMATCH {id} model:variant_as_written the-library-behaves-like-the-code-before-the-repair-of-KF-C07-12 cut={c.pb.cut} piv={c.pb.piv}"
      fine := false
    match diff with
    | some (what, path) =>
      -- CUTTING_STRATEGY_DEEPEST / ALL: the score of a row counts the STORED entries of the sparse row of `s`
      -- (PIP_Tree.cc:3469-3476: a stored zero adds `denom`), which a dense model cannot know: not compared
      if variant == "as-written" then pure ()
      else if c.pb.cut != 0 then IO.println s!"skip {id} sparse-dependent-cut-choice model:{what} at={path}"
      else IO.println s!"MISMATCH {id} model:{what} at={path} cut={c.pb.cut} piv={c.pb.piv} big={c.pb.big}"
      fine := false
      if dump then
        IO.println s!"# real  {repr real}"
        IO.println s!"# model {repr model}"
    | none => pure ()
  -- 2. the conclusions on the real tree (not with a big parameter: open finding KF-C07-3)
  let nr0 := root.tab.s.length
  let mut evals := 0
  let mut unknown := 0
  let mut points := 0
  let mut affine := 0
  if !c.pb.big then
    match real with
    | some t =>
      for nd in solNodes t do
        if !wfB nd then
          IO.println s!"MISMATCH {id} real:node_ok basis/mapping/var_row/var_column-or-matrix-shapes-incoherent"; fine := false
        else if !lexPosB nd then
          IO.println s!"MISMATCH {id} real:lexpos a-column-of-the-final-tableau-is-lexico-negative"; fine := false
        if nd.tab.s.length == nr0 && nd.mapping.length == root.mapping.length then
          for i in List.range nr0 do
            match rowIdentity root nd i with
            | some false =>
              IO.println s!"MISMATCH {id} real:solution_set row={i} the-final-tableau-row-is-not-implied-by-the-root-tableau"; fine := false
            | _ => pure ()
          affine := affine + 1
    | none => pure ()
    let thetas := boxVals box c.pb.P.np
    let mut bad := 0
    -- the tree of the solver without the second sign refinement (tag of a failing valuation)
    let alt : Option Tree' :=
      match solveGoSA (signAnalysisNoR2 (ccModel ccfuel)) (ccModel ccfuel) ctl cfc fuel true root ctx with
      | .done t => some (resToTree t)
      | .fuel => none
    let tagOf := fun (θ : List Int) (want : PPLV.PIP.Result) =>
      match alt with
      | some t => if t.eval θ == want then "tag=weak_negative_row" else "tag=other"
      | none => "tag=other"
    for θ in thetas do
      if !c.pb.P.inContext θ then continue
      evals := evals + 1
      let ref := PPLV.PIP.lexminRef window c.pb.P θ
      let got := (resToTree real).eval θ
      match ref with
      | .unknown => unknown := unknown + 1
      | .bottom =>
        if got != .bottom then
          bad := bad + 1
          if bad ≤ 3 then IO.println s!"MISMATCH {id} real:lexmin theta={strRow θ} tree-gives-a-point reference=bottom {tagOf θ .bottom} cut={c.pb.cut} piv={c.pb.piv}"; fine := false
      | .point p =>
        points := points + 1
        if got != .point p then
          bad := bad + 1
          if bad ≤ 3 then IO.println s!"MISMATCH {id} real:lexmin theta={strRow θ} reference={strRow p} tree-differs {tagOf θ (.point p)} cut={c.pb.cut} piv={c.pb.piv}"; fine := false
      -- the node reached: feasibility of the basic solution, row by row
      match real with
      | some t =>
        match reach t θ with
        | some (nd, env) =>
          let q := 1 :: env
          for i in List.range nd.tab.t.length do
            if dotQ (mrow nd.tab.t i) q < 0 then
              bad := bad + 1
              if bad ≤ 3 then IO.println s!"MISMATCH {id} real:row_negative theta={strRow θ} row={i} value={dotQ (mrow nd.tab.t i) q}/{nd.tab.den}"; fine := false
        | none => pure ()
      | none => pure ()
  if fine then
    let st := match real with | some t => treeStats nr0 t 0 {} | none => {}
    IO.println s!"ok {id} nv={root.tab.ns} np={root.tab.nt - 1} rows={nr0} ctx={ctx.length} cut={c.pb.cut} piv={c.pb.piv} big={c.pb.big} sols={st.sols} decs={st.decs} arts={st.arts} cutrows={st.cutRows} maxden={st.maxDen} depth={st.depth} evals={evals} unknown={unknown} points={points} affine={affine} null={if real.isSome then 0 else 1} variant={variant}"

def main (args : List String) : IO UInt32 := do
  let box := argNat args "--box" 5
  let window := argNat args "--window" 12
  let fuel := argNat args "--fuel" 400
  let ccfuel := argNat args "--ccfuel" 400
  let stdin ← IO.getStdin
  let mut cur : Case := {}
  let mut active := false
  repeat
    let line ← stdin.getLine
    if line.isEmpty then break
    let ts := (line.trimAscii.toString.splitOn " ").filter (· != "")
    match ts with
    | "case" :: id :: _ => cur := { id := id }; active := true
    | "prob" :: dim :: np :: rest =>
      let d := tokNat dim; let n := tokNat np
      let ps := (rest.take n).map tokNat
      let rest := rest.drop n
      let isParam := (Array.range d).map fun i => ps.contains i
      let big := match rest with | "big" :: b :: _ => tokInt b ≥ 0 | _ => false
      let cut := match rest.dropWhile (· != "cut") with | _ :: v :: _ => tokNat v | _ => 0
      let piv := match rest.dropWhile (· != "piv") with | _ :: v :: _ => tokNat v | _ => 0
      cur := { cur with pb := { dim := d, isParam, big, cut, piv, P := { nv := d - n, np := n, rows := [] } } }
    | "cs" :: m :: rest =>
      let rows := parseRows cur.pb (tokNat m) rest
      cur := { cur with pb := { cur.pb with P := { cur.pb.P with rows := rows } } }
    | "root" :: rest =>
      match (pNode.run rest) with
      | some (nd, _) => cur := { cur with root := some nd }
      | none => cur := { cur with dead := some "root-unparsable" }
    | "ctx" :: rest =>
      match pCtx.run rest with
      | some (x, _) => cur := { cur with ctx := some x }
      | none => cur := { cur with dead := some "ctx-unparsable" }
    | "ctx0" :: rest =>
      match pCtx.run rest with
      | some (x, _) => cur := { cur with ctx0 := some x }
      | none => cur := { cur with dead := some "ctx0-unparsable" }
    | "status" :: s :: _ => cur := { cur with status := s }
    | "tree" :: rest =>
      match (pTree 300).run rest with
      | some (t, []) => cur := { cur with tree := some t }
      | _ => cur := { cur with treeBad := true }
    | "shape" :: "bad" :: _ => cur := { cur with shapeBad := true }
    | "exc" :: cls :: _ => cur := { cur with dead := some s!"exception:{cls}" }
    | "crash" :: sig :: _ => cur := { cur with dead := some s!"crash:{sig}" }
    | "end" :: _ =>
      if active then judge cur box window fuel ccfuel (args.contains "--dump")
      active := false
    | _ => pure ()
  return 0
