import PPLV.Term.Model

/-! `pplv_term`: judges a journal of `harness/c18_term.cc` (grammar: see that file) with the
verified procedures of `PPLV/Term/Model.lean`.

Per case the relation `R ⊆ ℚ^{2n}` is the constraint system the library read
(`minimized_constraints()` of the pointset, or of the before/after pair).  Obligations:
* a verdict `true` (termination test, `one_affine…` returning true, non-empty `mu_space`)
  ⇒ an affine ranking function exists (`existsRankingDecider`, or a returned function that
  passes `isRankingB` / `isRankingGenB`);
* a returned `μ` passes `isRankingB` (normal form) or `isRankingGenB` (bounded below, decreasing
  by a fixed positive amount); `mu_space`: `spaceOK` / `spaceGenOKAll` on its generators;
* for a closed `R`: every verdict equals the decider's answer (MS = PR = existence).
Output: `ok|MISMATCH|skip|note|MODELDIFF <line> …`, one `caseinfo` line per case, `summary`. -/
open PPLV.Lin PPLV.Term

structure Ev where
  ln : Nat
  ts : List String

structure Case where
  ln : Nat := 0
  kind : String := ""
  form : Nat := 1
  n : Nat := 0
  tmpl : String := ""
  r : List Con := []
  r0 : List Con := []
  b : List Con := []
  a : List Con := []
  b0 : List Con := []
  a0 : List Con := []
  r0ln : Nat := 0
  gens : List Gen := []
  evs : Array Ev := #[]
  crashed : Option String := none

structure Tot where
  ok : Nat := 0
  bad : Nat := 0
  skip : Nat := 0
  note : Nat := 0
  modeldiff : Nat := 0
  cases : Nat := 0

abbrev M := StateT Tot IO

def ok (ln : Nat) : M Unit := do
  modify fun s => { s with ok := s.ok + 1 }
  IO.println s!"ok {ln}"
def bad (ln : Nat) (what : String) : M Unit := do
  modify fun s => { s with bad := s.bad + 1 }
  IO.println s!"MISMATCH {ln} {what}"
def skip (ln : Nat) (why : String) : M Unit := do
  modify fun s => { s with skip := s.skip + 1 }
  IO.println s!"skip {ln} {why}"
def note (ln : Nat) (what : String) : M Unit := do
  modify fun s => { s with note := s.note + 1 }
  IO.println s!"note {ln} {what}"
def modeldiff (ln : Nat) (what : String) : M Unit := do
  modify fun s => { s with modeldiff := s.modeldiff + 1 }
  IO.println s!"MODELDIFF {ln} {what}"

def b2s (b : Bool) : String := if b then "1" else "0"
def ob2s : Option Bool → String
  | some true => "1" | some false => "0" | none => "?"

def isClosed (cs : List Con) : Bool := cs.all fun c => !c.strict

/-- a returned function: point with positive divisor, dimension `n+1` -/
def muWellFormed (n dim : Nat) (g : Gen) : Bool := dim == n + 1 && g.kind == .point && decide (0 < g.div)

structure Verd where
  ln : Nat
  what : String
  v : Bool
deriving Inhabited

def judgeCase (c : Case) : M Unit := do
  modify fun s => { s with cases := s.cases + 1 }
  let n := c.n
  let R : List Con := if c.form == 1 then c.r else pairRel n c.b c.a
  let R0 : List Con := if c.form == 1 then c.r0 else pairRel n c.b0 c.a0
  if !wfB (2*n) R then
    skip c.ln "relation_not_wellformed"
    return
  -- the two views of the pointset must agree (otherwise the case says nothing about C18)
  if !(wfB (2*n) R0 && equivB (2*n) R R0) then
    note c.r0ln "pset_views_differ"
  let closed := isClosed R
  let emptyR := isEmptyB (2*n) R
  let dec := existsRankingDecider n R c.gens
  -- first pass: witnesses among the returned functions
  let mut witness := false
  for e in c.evs do
    match e.ts with
    | "o" :: _ :: "1" :: dim :: rest =>
      match (parseGen (tokNat dim) rest).1 with
      | some g =>
        if muWellFormed n (tokNat dim) g && (isRankingB n R g.coords g.div || isRankingGenB n R g.coords g.div) then
          witness := true
      | none => pure ()
    | _ => pure ()
  let exists? : Option Bool := match dec with
    | some b => some b
    | none => if witness then some true else none
  let mut verds : Array Verd := #[]
  let judgeVerdict (ln : Nat) (what : String) (v : Bool) : M Unit := do
    if v then
      match exists? with
      | some true => ok ln
      | some false => bad ln s!"verdict_true_no_ranking {what}"
      | none => skip ln "existence_undecided"
    else
      if closed then
        match exists? with
        | some true => bad ln s!"verdict_false_but_ranking_exists {what}"
        | some false => ok ln
        | none => skip ln "existence_undecided"
      else ok ln
  for e in c.evs do
    match e.ts with
    | ["t", m, v] =>
      let vb := v == "1"
      verds := verds.push ⟨e.ln, s!"t_{m}", vb⟩
      judgeVerdict e.ln s!"t_{m}" vb
      -- code-shaped model against the code (same constraint representation as the library's)
      let model : Option Bool :=
        if m == "MS" then certify (msDim n (approxIneq R)) (msSystem n (approxIneq R))
        else if c.form == 1 then certify (prOrigDim (approxIneq R)) (prOrigSystem n (approxIneq R))
        else certify (prDim (approxIneq c.b) (approxIneq c.a)) (prSystem n (approxIneq c.b) (approxIneq c.a))
      match model with
      | some mb => if mb != vb then modeldiff e.ln s!"{m} model={b2s mb} code={b2s vb}"
      | none => pure ()
    | ["o", m, "0"] =>
      verds := verds.push ⟨e.ln, s!"o_{m}", false⟩
      judgeVerdict e.ln s!"o_{m}" false
    | "o" :: m :: "1" :: dim :: rest =>
      verds := verds.push ⟨e.ln, s!"o_{m}", true⟩
      match (parseGen (tokNat dim) rest).1 with
      | none => bad e.ln s!"mu_unparsable o_{m}"
      | some g =>
        if !muWellFormed n (tokNat dim) g then
          bad e.ln s!"mu_dimension o_{m} dim={dim} expected={n+1}"
        else if isRankingB n R g.coords g.div then
          judgeVerdict e.ln s!"o_{m}" true
        else if isRankingGenB n R g.coords g.div then
          if m == "MS" then note e.ln "ms_mu_not_normal_form"
          judgeVerdict e.ln s!"o_{m}" true
        else
          bad e.ln s!"mu_not_ranking o_{m}"
    | "s" :: m :: dim :: rest =>
      let d := tokNat dim
      let (cs, rest') := parseCS d rest
      let (gs, _) := parseGS d rest'
      let nonempty := !gs.isEmpty
      verds := verds.push ⟨e.ln, s!"s_{m}", nonempty⟩
      if d != n + 1 then
        bad e.ln s!"mu_space_dimension s_{m} dim={d} expected={n+1}"
      else if !(gensWF d gs && wfB d cs) then
        bad e.ln s!"mu_space_malformed s_{m}"
      else
        let sound := (m == "MS" && spaceOK n R gs) || spaceGenOKAll n R gs
        if !sound then
          bad e.ln s!"mu_space_not_ranking s_{m}"
        else
          -- the two descriptions of the returned polyhedron must agree
          let dd : Option Bool := if gs.length ≤ 7 then some (checkDD d cs gs) else none
          match dd with
          | some false => bad e.ln s!"mu_space_views_differ s_{m}"
          | _ =>
            if m == "MS" && nonempty && !spaceOK n R gs then note e.ln "ms_space_not_normal_form"
            -- (documentation claim, not part of C18) "the space of ALL ranking functions": every ranking
            -- function satisfies `rankCons` of generators lying in the relation (`rankCons_of_ranking`)
            if m == "MS" && closed && !emptyR then
              let gs' := expandLines c.gens
              if gs'.any (fun g => g.kind == .point) && gs'.all (genInB R) then
                if subsetB d (rankCons n gs') cs then note e.ln "ms_space_exact"
                else note e.ln "ms_space_may_miss_ranking_functions"
            judgeVerdict e.ln s!"s_{m}" nonempty
    | "qd" :: dim :: rest =>
      let d := tokNat dim
      let (_, rest') := parseCS d rest
      let (gs, _) := parseGS d rest'
      if d != n + 1 then bad e.ln s!"quasi_dimension qd"
      else if quasiOK n R true gs then ok e.ln else bad e.ln "quasi_space_not_decreasing"
    | "qb" :: dim :: rest =>
      let d := tokNat dim
      let (_, rest') := parseCS d rest
      let (gs, _) := parseGS d rest'
      if d != n + 1 then bad e.ln s!"quasi_dimension qb"
      else if quasiOK n R false gs then ok e.ln else bad e.ln "quasi_space_not_bounded"
    | "x" :: what :: cls :: _ => note e.ln s!"exception {what} {cls}"
    | _ => pure ()
  -- closed relation, existence undecided: the verdicts must at least agree with each other
  if closed && exists?.isNone && verds.size > 0 then
    let v0 := verds[0]!.v
    match verds.find? (fun x => x.v != v0) with
    | some x => bad x.ln s!"methods_disagree {verds[0]!.what}={b2s v0} {x.what}={b2s x.v}"
    | none => pure ()
  match c.crashed with
  | some sig => note c.ln s!"crash {sig}"
  | none => pure ()
  let vs := String.intercalate "," (verds.toList.map fun x => s!"{x.what}={b2s x.v}")
  -- (classification only) does `before` entail every constraint on `x` that `after` implies?
  let guardEntailed : String :=
    if c.form == 1 then "-"
    else b2s (subsetB (2*n) (c.b.map (Con.shift n)) (elimVars (List.range n) (tidy c.a)))
  -- (classification only) verdict of the proved-sound model of the UNCHANGED PR encoding on this case
  let prModel : Option Bool :=
    if c.form == 1 then certify (prOrigDim (approxIneq R)) (prOrigSystem n (approxIneq R))
    else certify (prDim (approxIneq c.b) (approxIneq c.a)) (prSystem n (approxIneq c.b) (approxIneq c.a))
  -- verdict of the model of the MS encoding on the closure: by `C18.termination_test_MS_iff` (sound AND complete)
  -- it decides "an affine ranking function of the closure of the relation exists" (read by checks/c18_complete.py)
  let msModel : Option Bool := certify (msDim n (approxIneq R)) (msSystem n (approxIneq R))
  IO.println s!"caseinfo {c.ln} kind={c.kind} form={c.form} n={n} tmpl={c.tmpl} closed={b2s closed} empty={b2s emptyR} dec={ob2s dec} exists={ob2s exists?} rows={R.length} gens={c.gens.length} guard_entailed={guardEntailed} pr_model={ob2s prModel} ms_model={ob2s msModel} verdicts={vs}"

def main (_args : List String) : IO UInt32 := do
  let stdin ← IO.getStdin
  let mut cur : Option Case := none
  let mut tot : Tot := {}
  let mut ln := 0
  repeat
    let line ← stdin.getLine
    if line.isEmpty then break
    let ts := (line.trimAscii.toString.splitOn " ").filter (· ≠ "")
    match ts with
    | "case" :: _ :: kind :: form :: n :: tmpl :: _ =>
      cur := some { ln := ln, kind := kind, form := tokNat form, n := tokNat n, tmpl := tmpl }
    | "end" :: _ =>
      match cur with
      | some c =>
        let (_, t') ← (judgeCase c).run tot
        tot := t'
        cur := none
      | none => pure ()
    | "crash" :: sig =>
      cur := cur.map fun c => { c with crashed := some (String.intercalate "_" sig) }
    | tag :: rest =>
      match cur with
      | none => pure ()
      | some c =>
        let n := c.n
        let c' : Case :=
          if tag == "R" then { c with r := (parseCS (2*n) rest).1 }
          else if tag == "R0" then { c with r0 := (parseCS (2*n) rest).1, r0ln := ln }
          else if tag == "B" then { c with b := (parseCS n rest).1 }
          else if tag == "A" then { c with a := (parseCS (2*n) rest).1 }
          else if tag == "B0" then { c with b0 := (parseCS n rest).1 }
          else if tag == "A0" then { c with a0 := (parseCS (2*n) rest).1, r0ln := ln }
          else if tag == "gens" then { c with gens := (parseGS (2*n) rest).1 }
          else { c with evs := c.evs.push ⟨ln, ts⟩ }
        cur := some c'
    | [] => pure ()
    ln := ln + 1
  IO.println s!"summary ok={tot.ok} mismatch={tot.bad} skip={tot.skip} note={tot.note} modeldiff={tot.modeldiff} cases={tot.cases}"
  return 0
