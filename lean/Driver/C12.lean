import PPLV.Interval.Model
import PPLV.Interval.Spec
import PPLV.Interval.Linearize
import PPLV.Interval.IntModel
/-!
native driver `pplv_c12`.

stdin: the journal of `harness/c12_interval.cc`, one event per line

    <id> <ty> <op> <I> <J> <R> <ok>

* `ty`  : `Q` (`Rational_Interval`, mpq, policy rational), `Z` (`Interval<mpz_class, Z_Box_Interval_Info>`),
          `D` (`Interval<double, Floating_Point_Box_Interval_Info>`), `F` (the same with `float`),
          `b B h i l` (`Interval<int8_t | uint8_t | int16_t | int32_t | int64_t, Native_Integer_Box_Interval_Info>`:
          the model instantiated with `Policy.integer` and `Rounding.native`, `PPLV/Interval/IntModel.lean`)
* `op`  : `neg add sub mul div join meet diff join2 meet2 contains scontains disjoint eq
          rex:<rel> run:<rel> wrap:<w>:<u|s> assign cc76`
* `I J` : operands as the harness built them, `R` the result read from the real library:
          `E` (is_empty()), or `[l,u]` / `(l,u)` … with `l,u` exact rationals or `-inf` / `+inf`,
          or `T` / `F` for predicates; `-` for a missing operand
* `ok`  : `1`/`0`, `R.OK()`

Events of `Boundary_NS::adjust_boundary` itself (types `b B l`):

    <id> <ty> adj:<L|U>:<open>:<r> <x> - <x'>,<special>,<open bit>,<returned Result> 1
    <id> <ty> adjop:<L|U>:<op>:<open> <x1> <x2|-> <x'>,<special>,<open bit>,<returned Result> 1

Chains of `Int8_Box::affine_image` on 2-dimensional boxes (`x_k := (a*x0 + b*x1 + c) / d`), judged on the real box only
(sampled integer points of the argument box have their image inside the result box):

    <id> b box:<k>:<a>:<b>:<c>:<d> <I0>;<I1> - <R0>;<R1>|E <ok>

`adj`: the model `Native.adjustBoundary` on the literal code `r`; `adjop`: the C11 model of the checked operation
(`Native.chk`, destination = the harness's poison value) followed by `Native.adjustBoundary` must give exactly the
observed value, bits and returned code (`model`); and the REAL boundary must be on the safe side of the exact result
(`enclose`).

args: `--d3 0|1`  `--d12 0|1` : whether the library measured at check time shows defect 3 / 12.

Per event the driver checks
  (a) `model`   : the code-shaped model (with the measured switches) gives exactly `R`;
  (b) `enclose` : sampled members of the operands have their exact result inside the REAL `R`
                  (this, `empty`, `exact`, `pred` are verdicts of the property on the real output);
      `empty`   : `R` is empty although the exact image is not;
      `exact`   : exact boundary types — `R` is not the least interval of the type containing the image;
                  floating type — `R` does not contain the hull of the image;
      `pred`    : a predicate answered differently from the set-theoretic truth;
      `okinv`   : `R.OK()` is false.
Output: `ok <id>` or one `MISMATCH <id> <obligation> tags=<t1,t2,…|-> <detail>` per failed obligation.
-/
open PPLV.Interval
open PPLV.Interval.ExtRat (ninf fin pinf)

namespace C12Driver

def parseRat (s : String) : Option Rat :=
  match s.splitOn "/" with
  | [n] => n.toInt?.map (fun i => (i : Rat))
  | [n, d] => do
    let n ← n.toInt?
    let d ← d.toNat?
    if d == 0 then none else some (mkRat n d)
  | _ => none

def parseExt (s : String) : Option ExtRat :=
  if s == "-inf" then some ninf
  else if s == "+inf" then some pinf
  else (parseRat s).map fin

inductive Val where
  | none                -- "-"
  | empty               -- "E"
  | iv (x : Iv)
  | bool (b : Bool)
deriving Repr, Inhabited

def parseVal (s : String) : Option Val :=
  if s == "-" then some .none
  else if s == "E" then some .empty
  else if s == "T" then some (.bool true)
  else if s == "F" then some (.bool false)
  else
    let cs := s.toList
    match cs with
    | [] => none
    | c0 :: rest =>
      match rest.reverse with
      | [] => none
      | cl :: midr =>
        let mid := String.ofList midr.reverse
        let lo_open := c0 == '('
        let hi_open := cl == ')'
        if (c0 != '(' && c0 != '[') || (cl != ')' && cl != ']') then none
        else match mid.splitOn "," with
          | [a, b] => do
            let l ← parseExt a
            let u ← parseExt b
            some (.iv ⟨⟨l, lo_open⟩, ⟨u, hi_open⟩⟩)
          | _ => none

def showRat (q : Rat) : String :=
  if q.den == 1 then toString q.num else toString q.num ++ "/" ++ toString q.den

def showExt : ExtRat → String
  | ninf => "-inf"
  | pinf => "+inf"
  | fin q => showRat q

structure Ty where
  name : String
  pol : Policy
  rnd : Rounding
  exact : Bool       -- boundary type is exact (mpq, mpz)
  integer : Bool
  native : Option PPLV.Checked.IntTy := none   -- boundary type is a native bounded integer

def tyOf (s : String) : Option Ty :=
  let nat (bits : Nat) (signed : Bool) : Option Ty :=
    let ty := Native.tyOfBits bits signed
    some { name := s, pol := Policy.integer, rnd := Rounding.native ty, exact := false, integer := true, native := some ty }
  if s == "Q" then some ⟨"Q", Policy.rational, Rounding.id, true, false, none⟩
  else if s == "Z" then some ⟨"Z", Policy.integer, Rounding.int, true, true, none⟩
  else if s == "D" then some ⟨"D", Policy.floating, Rounding.double, false, false, none⟩
  else if s == "F" then some ⟨"F", Policy.floating, Rounding.float 24 (-126) 127, false, false, none⟩
  else if s == "L" then some ⟨"L", Policy.floating, Rounding.float 64 (-16382) 16383, false, false, none⟩
  else if s == "b" then nat 8 true
  else if s == "B" then nat 8 false
  else if s == "h" then nat 16 true
  else if s == "i" then nat 32 true
  else if s == "l" then nat 64 true
  else none

/-- how the harness prints an interval: emptiness, then bounds with the *reported* openness -/
def showIv (t : Ty) (x : Iv) : String :=
  if isEmpty t.pol x then "E"
  else
    (if isOpen t.pol .lower x.lo then "(" else "[") ++ showExt x.lo.value ++ "," ++ showExt x.hi.value
      ++ (if isOpen t.pol .upper x.hi then ")" else "]")

/-- operands come from the journal with reported openness; rebuild the stored bits -/
def toStored (t : Ty) (x : Iv) : Iv :=
  ⟨⟨x.lo.value, t.pol.storeOpen && x.lo.open⟩, ⟨x.hi.value, t.pol.storeOpen && x.hi.open⟩⟩

def valToIv (t : Ty) : Val → Option Iv
  | .empty => some Iv.empty
  | .iv x => some (toStored t x)
  | _ => none

def valToSI : Val → Spec.SI
  | .iv x => Spec.ofIv x
  | _ => none

def parseRel (s : String) : Option Rel :=
  if s == "eq" then some .eq else if s == "lt" then some .lt else if s == "le" then some .le
  else if s == "gt" then some .gt else if s == "ge" then some .ge else if s == "ne" then some .ne
  else none

def relHolds (r : Rel) (a b : Rat) : Bool :=
  match r with
  | .eq => a == b | .lt => a < b | .le => a ≤ b | .gt => a > b | .ge => a ≥ b | .ne => a != b

/-- sample members of a set-interval -/
def samples (s : Spec.SI) : List Rat :=
  match s with
  | none => []
  | some (l, u) =>
    let tiny : Rat := 1 / 1048576
    let base : List Rat :=
      match l.v, u.v with
      | fin a, fin b =>
        let w := b - a
        [a, b, (a + b) / 2, a + w * tiny, b - w * tiny, a + w / 3, a + tiny, b - tiny]
      | fin a, _ => [a, a + tiny, a + 1, a + 1000, a + 123456789 / 7]
      | _, fin b => [b, b - tiny, b - 1, b - 1000, b - 123456789 / 7]
      | _, _ => [-1000000, -1, 1, 1000000, 5 / 3]
    let cand := base ++ [0, tiny, -tiny, 1, -1]
    (cand.filter (Spec.mem s)).eraseDups

/-- integer sample members (for wrap) -/
def intSamples (s : Spec.SI) : List Int :=
  match s with
  | none => []
  | some (l, u) =>
    let cand : List Int :=
      match l.v, u.v with
      | fin a, fin b =>
        let fa := a.ceil
        let fb := b.floor
        [fa, fa + 1, fa + 2, fa + 3, fb, fb - 1, fb - 2, fb - 3, (fa + fb) / 2, 0, 1, -1, 255, 256]
      | fin a, _ => [a.ceil, a.ceil + 1, a.ceil + 5, a.ceil + 300]
      | _, fin b => [b.floor, b.floor - 1, b.floor - 5, b.floor - 300]
      | _, _ => [-300, -1, 0, 1, 7, 300]
    (cand.filter (fun (i : Int) => Spec.mem s ((i : Int) : Rat))).eraseDups

structure Outcome where
  lines : List String := []

def mism (id ob tags detail : String) : String :=
  "MISMATCH " ++ id ++ " " ++ ob ++ " tags=" ++ (if tags == "" then "-" else tags) ++ " " ++ detail

/-- strictly both signs inside, as `mul_assign` sees it (`xls < 0 < xus`) -/
def straddles (t : Ty) (x : Iv) : Bool :=
  let ls := sgnB t.pol .lower x.lo
  let us := if ls > 0 then 1 else sgnB t.pol .upper x.hi
  ls < 0 && us > 0

/-- tags describing how defect 3 acts on this operand pair (empty when it cannot act) -/
def d3Tags (t : Ty) (x y : Iv) : List String :=
  if checkEmptyArg t.pol x || checkEmptyArg t.pol y then []
  else if !(straddles t x && straddles t y) then []
  else
    let p := t.pol
    let R := t.rnd
    let tmpL := bMul p R .lower p .upper x.hi p .lower y.lo
    let toL := bMul p R .lower p .lower x.lo p .upper y.hi
    let tmpU := bMul p R .upper p .upper x.hi p .upper y.hi
    let toU := bMul p R .upper p .lower x.lo p .lower y.lo
    let repL := gt p .lower toL p .lower tmpL
    let repU := lt p .upper toU p .upper tmpU
    let openMis := (repL && toL.open != tmpL.open && (tmpL.value.isFin || !p.storeSpecial))
                || (repU && toU.open != tmpU.open && (tmpU.value.isFin || !p.storeSpecial))
    let specialMis := p.storeSpecial && ((repL && !tmpL.value.isFin) || (repU && !tmpU.value.isFin))
    (if openMis then ["both_straddle_zero_open_flag_of_discarded_candidate"] else [])
      ++ (if specialMis then ["both_straddle_zero_special_flag_of_discarded_candidate"] else [])

def pow2N (w : Nat) : Rat := (2 : Rat) ^ w

def wrapVal (signed : Bool) (w : Nat) (a : Int) : Rat :=
  if signed then smod2exp (a : Rat) w else umod2exp (a : Rat) w

def d12Tags (x : Iv) (w : Nat) : List String :=
  match x.lo.value, x.hi.value with
  | fin l, fin h => if h - l == pow2N w then ["width_eq_2_pow_w"] else []
  | _, _ => []

def showSI : Spec.SI → String
  | none => "E"
  | some (l, u) => (if l.e > 0 then "(" else "[") ++ showExt l.v ++ "," ++ showExt u.v ++ (if u.e < 0 then ")" else "]")

/-- native bounded integers: the integer hull of the exact image is a value of the type (every finite
bound inside `[cmin, cmax]`; an infinite side of the hull is an infinite side of the image) -/
def hullRepresentable (ty : PPLV.Checked.IntTy) (specT : Spec.SI) : Bool :=
  match specT with
  | none => true
  | some (l, u) =>
    let inR (v : ExtRat) : Bool :=
      match v with
      | fin q => decide ((ty.cmin : Rat) ≤ q) && decide (q ≤ (ty.cmax : Rat))
      | _ => true
    inR l.v && inR u.v

def checkSetResult (id : String) (t : Ty) (tags : String) (realSI : Spec.SI) (spec : Spec.SI)
    (exactOp : Bool) (noRounding : Bool := false) : List String :=
  let specT := if t.integer then Spec.toInteger spec else spec
  let e1 :=
    if realSI.isNone && spec.isSome then
      [mism id "empty" tags ("result reported empty, exact image is not: spec=" ++ reprStr specT)]
    else []
  let e2 :=
    if !e1.isEmpty then []
    else if !Spec.subset spec realSI then
      [mism id "exact" tags "result does not contain the hull of the exact image"]
    else if (t.exact || noRounding) && exactOp && !Spec.seteq specT realSI then
      [mism id "exact" tags (if t.exact then "exact boundary type, result is not the least interval"
        else "operation without rounding, result is not the least interval")]
    else match t.native with
      | some ty =>
        -- the library is exact whenever the result is representable
        if exactOp && hullRepresentable ty specT && !Spec.seteq specT realSI then
          [mism id "exact" tags ("native integer type, the integer hull of the exact image is representable and the result is not it: hull="
            ++ showSI specT)]
        else []
      | none => []
  e1 ++ e2

def parseLF (t : Ty) (s : String) : Option (List Iv) :=
  (s.splitOn ";").mapM fun tok => do
    let v ← parseVal tok
    valToIv t v

def showLF (t : Ty) (f : List Iv) : String := ";".intercalate (f.map (showIv t))

/-- `Linear_Form` events: the list model against the real coefficients; members of the result
are checked coefficientwise on sampled instances -/
def processLF (d3 : Bool) (id : String) (t : Ty) (ops is js rs : String) : List String :=
  let p := t.pol
  let R := t.rnd
  match parseLF t is, parseLF t rs with
  | some F, some RR =>
    let model : Option (List Iv) :=
      if ops == "lf:add" then (parseLF t js).map (lfAdd p R F)
      else if ops == "lf:sub" then (parseLF t js).map (lfSub p R F)
      else if ops == "lf:scale" then (parseLF t js).bind (fun l => l.head?.map (fun n => lfScale d3 p R n F))
      else none
    match model with
    | none => [mism id "parse" "" ("bad linear form event " ++ ops)]
    | some M =>
      let m := if showLF t M == rs then [] else [mism id "model" "" ("model=" ++ showLF t M ++ " real=" ++ rs)]
      -- coefficientwise enclosure of sampled instances in the REAL result
      let G := (parseLF t js).getD []
      let coeffOp (a b : Rat) : Rat := if ops == "lf:add" then a + b else if ops == "lf:sub" then a - b else a * b
      let n := RR.length
      let bad := (List.range n).filterMap fun i =>
        let fi := F[i]?
        let gi := if ops == "lf:scale" then G.head? else G[i]?
        let ri := (RR[i]?).getD Iv.empty
        let sa := match fi with | some x => (samples (Spec.ofIv x)).take 6 | none => [0]
        let sb := match gi with | some y => (samples (Spec.ofIv y)).take 6 | none => [0]
        let missingF := fi.isNone
        let vals := sa.flatMap fun a => sb.map fun b =>
          if ops == "lf:sub" && missingF then -b else if missingF then b else if gi.isNone then a else coeffOp a b
        match vals.find? (fun c => !Spec.mem (Spec.ofIv ri) c) with
        | some c => some (i, c)
        | none => none
      let e := match bad with
        | [] => []
        | (i, c) :: _ =>
          -- `operator*` is `mul_assign` per coefficient: defect 3 can act there
          let tags := if ops == "lf:scale" && d3 then
              match F[i]?, G.head? with
              | some x, some nn => d3Tags t x nn
              | _, _ => []
            else []
          [mism id "enclose" (",".intercalate tags) ("coefficient " ++ toString i ++ ": instance value " ++ showRat c ++ " not in the result")]
      m ++ e
  | _, _ => [mism id "parse" "" "unparsable linear form"]


/-! ## linearization events (`harness/c12_linearize.cc`) -/

/-- an analysed format (what the concrete machine computes in) and an analyser type -/
structure LinCfg where
  ty : Ty                 -- analyser interval type
  prec : Nat              -- analysed format: significand bits (with the hidden bit)
  emin : Int
  emax : Int
  fm : FFormat

def linCfgOf (s : String) : Option LinCfg :=
  match s.toList with
  | [a, t] =>
    match tyOf (String.singleton t) with
    | none => none
    | some ty =>
      let denormMin : Rat :=
        if t == 'F' then Rounding.pow2 (-149) else if t == 'D' then Rounding.pow2 (-1074) else Rounding.pow2 (-16445)
      let mk (mant : Nat) (bias : Int) (emin emax : Int) : LinCfg :=
        let eps := Rounding.pow2 (-(mant : Int))
        let om := Rounding.pow2 ((1 - bias) - (mant : Int))
        ⟨ty, mant + 1, emin, emax, ⟨eps, if om < denormMin then denormMin else om⟩⟩
      if a == 'S' then some (mk 23 127 (-126) 127)
      else if a == 'D' then some (mk 52 1023 (-1022) 1023)
      else none
  | _ => none

/-- rounding of an exact result to the analysed format; modes 0 nearest-even, 1 up, 2 down, 3 zero;
`none` on overflow -/
def roundMode (c : LinCfg) (mode : Nat) (q : Rat) : Option Rat :=
  let R := Rounding.float c.prec c.emin c.emax
  match R.down q, R.up q with
  | fin d, fin u =>
    if mode == 1 then some u
    else if mode == 2 then some d
    else if mode == 3 then (if q < 0 then some u else some d)
    else
      let dd := q - d
      let du := u - q
      if dd < du then some d
      else if du < dd then some u
      else
        let ul := Rounding.ulp c.prec c.emin q
        if ((d / ul).num % 2 == 0) then some d else some u
  | _, _ => none

/-- expression token parser -/
partial def parseExpr (cs : List Char) : Option (FExpr × Rat × List Char) :=
  -- the `Rat` is unused for non-constants; constants return their literal value separately below
  let takeUntil (stop : Char → Bool) (l : List Char) : List Char × List Char := l.span (fun c => !stop c)
  match cs with
  | 'v' :: rest =>
    let (ds, rest) := takeUntil (fun c => !c.isDigit) rest
    (String.ofList ds).toNat?.map (fun i => (FExpr.var i, 0, rest))
  | 'c' :: b0 :: rest =>
    let (los, rest) := takeUntil (· == ',') rest
    match rest with
    | ',' :: rest =>
      let (his, rest) := takeUntil (fun c => c == ']' || c == ')') rest
      match rest with
      | b1 :: '@' :: rest =>
        let (qs, rest) := takeUntil (fun c => c == ',' || c == ')') rest
        match parseExt (String.ofList los), parseExt (String.ofList his), parseRat (String.ofList qs) with
        | some l, some u, some q => some (FExpr.const ⟨⟨l, b0 == '('⟩, ⟨u, b1 == ')'⟩⟩ q, q, rest)
        | _, _, _ => none
      | _ => none
    | _ => none
  | 'n' :: '(' :: rest =>
    match parseExpr rest with
    | some (e, _, ')' :: rest) => some (FExpr.neg e, 0, rest)
    | _ => none
  | op :: '(' :: rest =>
    match parseExpr rest with
    | some (e1, _, ',' :: rest) =>
      match parseExpr rest with
      | some (e2, _, ')' :: rest) =>
        if op == '+' then some (FExpr.add e1 e2, 0, rest)
        else if op == '-' then some (FExpr.sub e1 e2, 0, rest)
        else if op == '*' then some (FExpr.mul e1 e2, 0, rest)
        else if op == '/' then some (FExpr.div e1 e2, 0, rest)
        else none
      | _ => none
    | _ => none
  | _ => none

/-- concrete value on the analysed machine (`none`: overflow or division by zero: not judged);
a literal `q` is converted with the current rounding mode -/
def cevalOpt (c : LinCfg) (mode : Nat) (rho : Nat → Rat) : FExpr → Option Rat
  | .const _ q => roundMode c mode q
  | .var i => some (rho i)
  | .neg e => (cevalOpt c mode rho e).map (fun v => -v)
  | .add e1 e2 => do
    let a ← cevalOpt c mode rho e1
    let b ← cevalOpt c mode rho e2
    roundMode c mode (a + b)
  | .sub e1 e2 => do
    let a ← cevalOpt c mode rho e1
    let b ← cevalOpt c mode rho e2
    roundMode c mode (a - b)
  | .mul e1 e2 => do
    let a ← cevalOpt c mode rho e1
    let b ← cevalOpt c mode rho e2
    roundMode c mode (a * b)
  | .div e1 e2 => do
    let a ← cevalOpt c mode rho e1
    let b ← cevalOpt c mode rho e2
    if b == 0 then none else roundMode c mode (a / b)

/-- the set of values of an interval linear form on a concrete store (exact) -/
def evalFormSI (f : List Iv) (rho : Nat → Rat) : Spec.SI :=
  match f with
  | [] => Spec.ofIv (Iv.point 0)
  | i0 :: cs =>
    let rec go (l : List Iv) (k : Nat) (acc : Spec.SI) : Spec.SI :=
      match l with
      | [] => acc
      | c :: l => go l (k + 1) (Spec.add acc (Spec.mul (Spec.ofIv c) (Spec.ofIv (Iv.point (rho k)))))
    go cs 0 (Spec.ofIv i0)

/-- values of the analysed format inside an analyser interval -/
def storeSamples (c : LinCfg) (salt : Nat) (b : Iv) : List Rat :=
  let s := Spec.ofIv b
  let R := Rounding.float c.prec c.emin c.emax
  match b.lo.value, b.hi.value with
  | fin l, fin u =>
    let w := u - l
    let r1 : Rat := ((salt * 7919 + 13) % 1009 : Nat) / 1009
    let r2 : Rat := ((salt * 104729 + 71) % 997 : Nat) / 997
    let cand : List Rat := [l, u, (l + u) / 2, l + w * r1, l + w * r2, 0, l + w / 1024, u - w / 1024]
    let rounded := cand.flatMap fun q =>
      (match R.down q with | fin d => [d] | _ => []) ++ (match R.up q with | fin d => [d] | _ => [])
    (rounded.filter (Spec.mem s)).eraseDups
  | _, _ => []

def listGet (l : List Rat) (i : Nat) : Rat := l.getD i 0

/-- a few concrete stores: the diagonal selections and pseudo-random mixes -/
def concreteStores (c : LinCfg) (salt : Nat) (box : List Iv) : List (List Rat) :=
  let per := (List.range box.length).map fun k => storeSamples c (salt + 31 * k) (box.getD k Iv.empty)
  if per.any (·.isEmpty) then []
  else
    let pick (sel : Nat → Nat) : List Rat := (List.range per.length).map fun k =>
      let vs := per.getD k []
      vs.getD (sel k % vs.length) 0
    ((List.range 14).map fun j => pick (fun k => j + (salt + 3) * k * (j % 3)) ).eraseDups

/-- a few concrete coefficient vectors (members of each interval coefficient) -/
def instancesOf (f : List Iv) : List (List Rat) :=
  let ms := f.map fun x => samples (Spec.ofIv x)
  if ms.any (·.isEmpty) then []
  else (List.range 4).map fun j => ms.map fun l => l.getD (j % l.length) 0

def natOfId (id : String) : Nat := (id.toList.filter Char.isDigit).foldl (fun a c => (a * 10 + (c.toNat - 48)) % 1000003) 0

def processLin (id cfgs ops as bs rs : String) : List String :=
  match linCfgOf cfgs with
  | none => [mism id "parse" "" "unknown configuration"]
  | some c =>
    let t := c.ty
    let p := t.pol
    let R := t.rnd
    let salt := natOfId id
    if ops == "lin" then
      match parseExpr as.toList, bs.splitOn "|" with
      | some (e, _, []), [boxs, stores] =>
        match parseLF t boxs with
        | none => [mism id "parse" "" "bad box"]
        | some box =>
          let lfs : Option (Nat × List Iv) :=
            if stores == "-" then none
            else match stores.splitOn "=" with
              | [i, f] => match i.toNat?, parseLF t f with
                | some i, some f => some (i, f)
                | _, _ => none
              | _ => none
          let lfStore : Nat → Option (List Iv) := fun i => match lfs with
            | some (j, f) => if i == j then some f else none
            | none => none
          let model := linearize false p R c.fm box lfStore e
          let ms := match model with | some f => showLF t f | none => "F"
          let m := if ms == rs then [] else [mism id "model" "" ("model=" ++ ms ++ " real=" ++ rs)]
          -- verdict on the REAL form
          let v :=
            if rs == "F" then []
            else match parseLF t rs with
              | none => [mism id "parse" "" "bad result form"]
              | some rf =>
                let bad := (concreteStores c salt box).flatMap fun st =>
                  let rho : Nat → Rat := fun k => st.getD k 0
                  (List.range 4).filterMap fun mode =>
                    match cevalOpt c mode rho e with
                    | none => none
                    | some v => if Spec.mem (evalFormSI rf rho) v then none else some (st, mode, v)
                match bad with
                | [] => []
                | (st, mode, v) :: _ =>
                  [mism id "enclose" "" ("store=" ++ ";".intercalate (st.map showRat) ++ " mode=" ++ toString mode
                    ++ " concrete value " ++ showRat v ++ " not in the linear form evaluated on the store ("
                    ++ toString bad.length ++ " cases)")]
          m ++ v
      | _, _ => [mism id "parse" "" "bad lin event"]
    else if ops == "relerr" then
      match parseLF t as, parseLF t rs with
      | some f, some rf =>
        let model := relativeError false p R c.fm.eps f
        let m := if showLF t model == rs then [] else [mism id "model" "" ("model=" ++ showLF t model ++ " real=" ++ rs)]
        -- verdict: for instances a of f on a store and |t| <= eps*|a| : t in eval(real, store)
        let n := f.length - 1
        let stores : List (List Rat) := [List.replicate n 1, List.replicate n (-3), (List.range n).map (fun k => ((k : Nat) : Rat) - 1/2),
          (List.range n).map (fun k => if (k + salt) % 2 == 0 then (7 : Rat) / 3 else -1000)]
        let insts : List (List Rat) :=
          instancesOf f
        let bad := stores.flatMap fun st =>
          let rho : Nat → Rat := fun k => st.getD k 0
          insts.flatMap fun inst =>
            let a := lfEval inst rho
            let mag := ratAbs a * c.fm.eps
            ([mag, -mag, mag / 3] : List Rat).filterMap fun tt =>
              if Spec.mem (evalFormSI rf rho) tt then none else some (st, a, tt)
        let v := match bad with
          | [] => []
          | (st, a, tt) :: _ => [mism id "enclose" "" ("store=" ++ ";".intercalate (st.map showRat) ++ " instance value " ++ showRat a
              ++ ": error " ++ showRat tt ++ " not in the relative-error form evaluated on the store")]
        m ++ v
      | _, _ => [mism id "parse" "" "bad relerr event"]
    else if ops == "intervalize" then
      match parseLF t as, parseLF t bs with
      | some f, some box =>
        let model := intervalize false p R box f
        let ms := match model with | some x => showIv t x | none => "F"
        let m := if ms == rs then [] else [mism id "model" "" ("model=" ++ ms ++ " real=" ++ rs)]
        let v := match parseVal rs with
          | some rv =>
            let rsi := valToSI rv
            let insts : List (List Rat) :=
              instancesOf f
            let bad := (concreteStores c salt box).flatMap fun st =>
              let rho : Nat → Rat := fun k => st.getD k 0
              insts.filterMap fun inst =>
                let a := lfEval inst rho
                if rs == "F" || Spec.mem rsi a then none else some (st, a)
            match bad with
            | [] => []
            | (st, a) :: _ => [mism id "enclose" "" ("store=" ++ ";".intercalate (st.map showRat) ++ " value " ++ showRat a ++ " not in " ++ rs)]
          | none => [mism id "parse" "" "bad interval"]
        m ++ v
      | _, _ => [mism id "parse" "" "bad intervalize event"]
    else if ops == "ceval" then
      match parseExpr as.toList with
      | some (e, _, []) =>
        let st := (bs.splitOn ";").filterMap parseRat
        let rho : Nat → Rat := fun k => st.getD k 0
        let sim := (List.range 4).map fun mode => match cevalOpt c mode rho e with | some v => showRat v | none => "?"
        let simS := ";".intercalate sim
        if simS == rs then [] else [mism id "fpmodel" "" ("simulated=" ++ simS ++ " hardware=" ++ rs)]
      | _ => [mism id "parse" "" "bad ceval event"]
    else [mism id "parse" "" ("unknown op " ++ ops)]

/-! ## `Boundary_NS::adjust_boundary` events (`adj:` / `adjop:`) -/

/-- the harness's poison: what it stores in a boundary before the operation (`NatPoison` of the harness) -/
def natPoison (ty : PPLV.Checked.IntTy) (upper : Bool) : Int :=
  let lo : Int := (PPLV.Checked.pow2 ty.bits - 1) / 3          -- 0x55…
  if !upper then lo else if ty.signed then -(lo + 1) else 42    -- 0xAA… as a signed value / 0x2A

def showAdj (x : Native.NB) (r : PPLV.Checked.Result) : String :=
  toString x.raw ++ "," ++ (if x.special then "1" else "0") ++ "," ++ (if x.open then "1" else "0") ++ ","
    ++ toString r.toNat

def processAdj (id : String) (t : Ty) (ops is js rs : String) : List String :=
  match t.native with
  | none => [mism id "parse" "" "adjust_boundary event on a type that is not a native integer"]
  | some ty =>
    match ops.splitOn ":" with
    | ["adj", side, opn, rc] =>
      match is.toInt?, rc.toNat? with
      | some x, some r =>
        let bt : BT := if side == "U" then .upper else .lower
        match Native.adjustBoundary Policy.integer bt { raw := x } (opn == "1") (PPLV.Checked.Result.ofNat r) with
        | none => [mism id "model" "" ("the model reaches the PPL_UNREACHABLE label on code " ++ rc ++ "; real=" ++ rs)]
        | some (nb, ret) =>
          let ms := showAdj nb ret
          if ms == rs then [] else [mism id "model" "" ("model=" ++ ms ++ " real=" ++ rs)]
      | _, _ => [mism id "parse" "" "bad adj event"]
    | ["adjop", side, opname, opn] =>
      let upper := side == "U"
      let bt : BT := if upper then .upper else .lower
      let op? : Option PPLV.Checked.IntOp :=
        if opname == "add" then some .add else if opname == "sub" then some .sub
        else if opname == "mul" then some .mul else if opname == "div" then some .div
        else if opname == "neg" then some .neg else if opname == "assign" then some (.assign ty Native.cop)
        else none
      let y? : Option Int := if js == "-" then some 0 else js.toInt?
      match op?, is.toInt?, y?, rs.splitOn "," with
      | some op, some x, some y, [rraw, rspec, _ropen, _rret] =>
        let out := Native.chk ty op bt (natPoison ty upper) x y
        let m :=
          match Native.adjustBoundary Policy.integer bt { raw := out.1 } (opn == "1") out.2 with
          | none => [mism id "model" "" ("the model reaches the PPL_UNREACHABLE label on code "
              ++ toString out.2.toNat ++ " of the checked operation; real=" ++ rs)]
          | some (nb, ret) =>
            let ms := showAdj nb ret
            if ms == rs then [] else [mism id "model" "" ("model=" ++ ms ++ " (checked operation: "
              ++ toString out.1 ++ "," ++ toString out.2.toNat ++ ") real=" ++ rs)]
        -- soundness of the REAL boundary: a finite lower bound is ≤ the exact result, a finite upper bound ≥
        let exact? : Option Rat :=
          if opname == "add" then some ((x : Rat) + y) else if opname == "sub" then some ((x : Rat) - y)
          else if opname == "mul" then some ((x : Rat) * y)
          else if opname == "div" then (if y == 0 then none else some ((x : Rat) / y))
          else if opname == "neg" then some (-(x : Rat)) else some (x : Rat)
        let e :=
          match exact?, rraw.toInt? with
          | some q, some raw =>
            if rspec == "1" then []
            else if !upper && !((raw : Rat) ≤ q) then
              [mism id "enclose" "" ("finite lower boundary " ++ toString raw ++ " above the exact result " ++ showRat q)]
            else if upper && !(q ≤ (raw : Rat)) then
              [mism id "enclose" "" ("finite upper boundary " ++ toString raw ++ " below the exact result " ++ showRat q)]
            else if decide (raw < ty.cmin) || decide (ty.cmax < raw) then
              [mism id "enclose" "" ("boundary value " ++ toString raw ++ " is not a value of the type")]
            else []
          | _, _ => [mism id "parse" "" "bad adjop result"]
        m ++ e
      | _, _, _, _ => [mism id "parse" "" "bad adjop event"]
    | _ => [mism id "parse" "" ("unknown op " ++ ops)]

/-! ## `Int8_Box::affine_image` chains (`box:<k>:<a>:<b>:<c>:<d>`): no model, the verdict is taken on the real box -/

def processBox (id : String) (t : Ty) (ops is rs oks : String) : List String :=
  let okl := if oks == "0" then [mism id "okinv" "" "OK() of the result box is false"] else []
  match (ops.splitOn ":").map String.toInt?, (is.splitOn ";").mapM parseVal with
  | [_, some k, some a, some b, some c, some d], some [v0, v1] =>
    let s0 := valToSI v0
    let s1 := valToSI v1
    let pts : List (Int × Int) := ((intSamples s0).take 9).flatMap fun x => ((intSamples s1).take 9).map fun y => (x, y)
    if d == 0 then [mism id "parse" "" "zero denominator"]
    else if rs == "E" then
      (if pts.isEmpty then [] else [mism id "empty" "" "result box reported empty, the argument box has integer points"]) ++ okl
    else
      match (rs.splitOn ";").mapM parseVal with
      | some [r0, r1] =>
        let q0 := valToSI r0
        let q1 := valToSI r1
        let _ := t
        let bad := pts.filterMap fun (x, y) =>
          let img : Rat := ((a * x + b * y + c : Int) : Rat) / (d : Rat)
          let x' : Rat := if k == 0 then img else (x : Rat)
          let y' : Rat := if k == 1 then img else (y : Rat)
          if Spec.mem q0 x' && Spec.mem q1 y' then none else some (x, y, x', y')
        (match bad with
         | [] => []
         | (x, y, x', y') :: _ =>
           [mism id "enclose" "" ("point (" ++ toString x ++ "," ++ toString y ++ ") has image (" ++ showRat x' ++ "," ++ showRat y'
             ++ ") outside the result box " ++ rs ++ " (" ++ toString bad.length ++ " sampled points)")]) ++ okl
      | _ => [mism id "parse" "" "bad result box"]
  | _, _ => [mism id "parse" "" "bad box event"]

def process (d3 d12 : Bool) (line : String) : List String :=
  let toks := (line.trimAscii.toString.splitOn " ").filter (· != "")
  match toks with
  | [id, tys, ops, is, js, rs, oks] =>
    if tys.length == 2 then
      let r := processLin id tys ops is js rs
      if r.isEmpty then ["ok " ++ id] else r
    else if ops.startsWith "lf:" then
      match tyOf tys with
      | some t =>
        let r := processLF d3 id t ops is js rs
        if r.isEmpty then ["ok " ++ id] else r
      | none => [mism id "parse" "" "unknown type"]
    else if ops.startsWith "box:" then
      match tyOf tys with
      | some t =>
        let r := processBox id t ops is rs oks
        if r.isEmpty then ["ok " ++ id] else r
      | none => [mism id "parse" "" "unknown type"]
    else if ops.startsWith "adj" then
      match tyOf tys with
      | some t =>
        let r := processAdj id t ops is js rs
        if r.isEmpty then ["ok " ++ id] else r
      | none => [mism id "parse" "" "unknown type"]
    else
    match tyOf tys, parseVal is, parseVal js, parseVal rs with
    | some t, some iv, some jv, some rv =>
      let p := t.pol
      let R := t.rnd
      let opParts := ops.splitOn ":"
      let opn := opParts.headD ""
      let I := (valToIv t iv).getD Iv.empty
      let J := (valToIv t jv).getD Iv.empty
      let sI := valToSI iv
      let sJ := valToSI jv
      let realSI := valToSI rv
      let oklT (tg : String) := if oks == "0" then [mism id "okinv" tg "OK() of the result is false"] else []
      let okl := oklT ""
      -- model result
      -- negation, copies, joins, meets, differences and refinements involve no rounding: exact for every type
      -- (native bounded integers: the negation of the least value overflows)
      let noRounding := opn != "add" && opn != "sub" && opn != "mul" && opn != "div"
        && !(t.native.isSome && (opn == "neg" || opn == "cvt"))
      let setOp (modelRes : Iv) (spec : Spec.SI) (exactOp : Bool) (tags : List String)
          (skipModel : Bool) (encl : List String) : List String :=
        let tg := ",".intercalate tags
        let ms := showIv t modelRes
        let m := if skipModel || ms == rs then [] else [mism id "model" tg ("model=" ++ ms ++ " real=" ++ rs)]
        m ++ encl ++ checkSetResult id t tg realSI spec exactOp noRounding ++ oklT tg
      let binSamples (f : Rat → Rat → Option Rat) (tags : List String) : List String :=
        let tg := ",".intercalate tags
        let bad := (samples sI).flatMap fun a => (samples sJ).filterMap fun b =>
          match f a b with
          | some c => if Spec.mem realSI c then none else some (a, b, c)
          | none => none
        match bad with
        | [] => []
        | (a, b, c) :: _ =>
          [mism id "enclose" tg ("a=" ++ showRat a ++ " b=" ++ showRat b ++ " result " ++ showRat c ++ " not in " ++ rs
            ++ " (" ++ toString bad.length ++ " sampled pairs)")]
      let unSamples (src : Spec.SI) (f : Rat → Option Rat) (tags : List String) (what : String) : List String :=
        let tg := ",".intercalate tags
        let bad := (samples src).filterMap fun a =>
          match f a with
          | some c => if Spec.mem realSI c then none else some (a, c)
          | none => none
        match bad with
        | [] => []
        | (a, c) :: _ => [mism id "enclose" tg (what ++ " a=" ++ showRat a ++ " result " ++ showRat c ++ " not in " ++ rs)]
      let predOp (modelRes : Bool) (truth : Option Bool) : List String :=
        match rv with
        | .bool r =>
          (if modelRes != r then [mism id "model" "" ("model=" ++ toString modelRes ++ " real=" ++ rs)] else [])
          ++ (match truth with
              | some tr => if tr != r then [mism id "pred" "" ("truth=" ++ toString tr ++ " real=" ++ rs)] else []
              | none => [])
        | _ => [mism id "parse" "" "predicate result expected"]
      -- a policy that cannot store OPEN weakens strict relations (the library rejects strict
      -- constraints for such boxes): only enclosure is required there
      let strictOk (rel : Rel) : Bool := p.storeOpen || rel == .eq || rel == .le || rel == .ge
      let res : List String :=
        if opn == "neg" then
          setOp (negAssign p R I) (Spec.neg sI) true [] false (unSamples sI (fun a => some (-a)) [] "neg")
        else if opn == "assign" then
          setOp (assign p R p I) sI true [] false (unSamples sI (fun a => some a) [] "assign")
        else if opn == "cvt" then
          -- `Interval::assign(const From&)` from an interval of another boundary type: `Q` = `Rational_Interval`
          -- (open bounds stored), `Z` / a native letter = closed integer bounds
          let srcPol := if opParts.getD 1 "Q" == "Q" then Policy.rational else Policy.integer
          let Isrc : Iv := match iv with
            | .iv x => ⟨⟨x.lo.value, srcPol.storeOpen && x.lo.open⟩, ⟨x.hi.value, srcPol.storeOpen && x.hi.open⟩⟩
            | _ => Iv.empty
          setOp (assign p R srcPol Isrc) sI true [] false (unSamples sI (fun a => some a) [] "cvt")
        else if opn == "add" then
          setOp (addAssign p R I J) (Spec.add sI sJ) true [] false (binSamples (fun a b => some (a + b)) [])
        else if opn == "sub" then
          setOp (subAssign p R I J) (Spec.sub sI sJ) true [] false (binSamples (fun a b => some (a - b)) [])
        else if opn == "mul" then
          let tags := if d3 then d3Tags t I J else []
          let skip := tags.contains "both_straddle_zero_special_flag_of_discarded_candidate"
          setOp (mulAssign d3 p R I J) (Spec.mul sI sJ) true tags skip (binSamples (fun a b => some (a * b)) tags)
        else if opn == "div" then
          -- x = {0} divided by a zero-straddling interval: universe by design (I_SINGULARITIES)
          let spec := Spec.div sI sJ
          setOp (divAssign p R I J) spec (spec != Spec.univ) [] false
            (binSamples (fun a b => if b == 0 then none else some (a / b)) [])
        else if opn == "join" then
          setOp (joinAssign p R I J) (Spec.join sI sJ) true [] false
            (unSamples sI some [] "join-left" ++ unSamples sJ some [] "join-right")
        else if opn == "join2" then
          setOp (joinAssign2 p R I J) (Spec.join sI sJ) true [] false
            (unSamples sI some [] "join-left" ++ unSamples sJ some [] "join-right")
        else if opn == "meet" then
          setOp (intersectAssign p R I J) (Spec.meet sI sJ) true [] false
            (unSamples sI (fun a => if Spec.mem sJ a then some a else none) [] "meet")
        else if opn == "meet2" then
          setOp (intersectAssign2 p R I J) (Spec.meet sI sJ) true [] false
            (unSamples sI (fun a => if Spec.mem sJ a then some a else none) [] "meet")
        else if opn == "diff" then
          setOp (differenceAssign p R I J) (Spec.diff sI sJ) true [] false
            (unSamples sI (fun a => if Spec.mem sJ a then none else some a) [] "diff")
        else if opn == "rex" || opn == "run" then
          match parseRel (opParts.getD 1 "") with
          | some rel =>
            if opn == "rex" then
              let spec := Spec.refineEx sI rel sJ
              setOp (refineExistential p R I rel J) spec (strictOk rel) [] false
                (unSamples sI (fun a => if (samples sJ).any (fun b => relHolds rel a b) then some a else none) [] "rex")
            else
              let spec := Spec.refineUn sI rel sJ
              setOp (refineUniversal p R I rel J) spec (strictOk rel) [] false
                (unSamples sI (fun a => if Spec.mem spec a then some a else none) [] "run")
          | none => [mism id "parse" "" ("bad relation in " ++ ops)]
        else if opn == "wrap" then
          let w := (opParts.getD 1 "8").toNat!
          let signed := opParts.getD 2 "u" == "s"
          let tags := if d12 then d12Tags I w else []
          let tg := ",".intercalate tags
          let modelRes := wrapAssign d12 p R I w (if signed then .signed2c else .unsigned) J
          let ms := showIv t modelRes
          let m := if ms == rs then [] else [mism id "model" tg ("model=" ++ ms ++ " real=" ++ rs)]
          let bad := (intSamples sI).filterMap fun a =>
            let c := wrapVal signed w a
            if Spec.mem sJ c && !Spec.mem realSI c then some (a, c) else none
          let e := match bad with
            | [] => []
            | (a, c) :: _ => [mism id "enclose" tg ("a=" ++ toString a ++ " wraps to " ++ showRat c ++ " (inside the refinement) not in " ++ rs)]
          m ++ e ++ okl
        else if opn == "cc76" then
          -- widening: the result must contain the widened interval; no exactness is claimed
          let modelRes := cc76Widening p I J [-2, -1, 0, 1, 2]
          let ms := showIv t modelRes
          (if ms == rs then [] else [mism id "model" "" ("model=" ++ ms ++ " real=" ++ rs)])
            ++ unSamples sI some [] "cc76" ++ okl
        else if opn == "contains" then
          predOp (contains p I J) (some (Spec.subset sJ sI))
        else if opn == "scontains" then
          predOp (strictlyContains p I J) (some (Spec.subset sJ sI && !Spec.subset sI sJ))
        else if opn == "disjoint" then
          predOp (isDisjointFrom p I J) (some ((Spec.meet sI sJ).isNone))
        else if opn == "eq" then
          predOp (ivEq p I J) (some (Spec.seteq sI sJ))
        else [mism id "parse" "" ("unknown op " ++ ops)]
      if res.isEmpty then ["ok " ++ id] else res
    | _, _, _, _ => [mism id "parse" "" "unparsable event"]
  | _ => []

partial def loop (d3 d12 : Bool) (h : IO.FS.Stream) (out : IO.FS.Stream) : IO Unit := do
  let line ← h.getLine
  if line.isEmpty then return ()
  let c := line.trimAscii.toString
  if c.isEmpty || c.startsWith "#" || c.startsWith "probe" || c.startsWith "crash" || c.startsWith "end"
      || c.startsWith "batch" then
    loop d3 d12 h out
  else
    for l in process d3 d12 c do
      out.putStrLn l
    loop d3 d12 h out

/-- `--selftest`: search the MODEL (rational policy, exact rounding, the given switches) for an
operand pair whose result does not contain the exact hull / is not the hull, over the template set of
the harness.  Used by the check when a proof obligation no longer builds: a counterexample to the
enclosure in the model is a concrete failing input. -/
def selftest (d3 : Bool) : List String :=
  let p := Policy.rational
  let R := Rounding.id
  let vals : List Rat := [-3, -1, 0, 1/2, 2]
  let fins : List ExtRat := vals.map fin
  let los : List Bound := (⟨ninf, true⟩ : Bound) :: fins.flatMap (fun v => [⟨v, false⟩, ⟨v, true⟩])
  let his : List Bound := (⟨pinf, true⟩ : Bound) :: fins.flatMap (fun v => [⟨v, false⟩, ⟨v, true⟩])
  let ivs : List Iv := Iv.empty :: (los.flatMap fun l => his.filterMap fun h =>
    let x : Iv := ⟨l, h⟩
    if isEmpty p x then none else some x)
  let t : Ty := ⟨"Q", p, R, true, false, none⟩
  let ops : List (String × (Iv → Iv → Iv) × (Spec.SI → Spec.SI → Spec.SI)) :=
    [("add", addAssign p R, Spec.add), ("sub", subAssign p R, Spec.sub), ("mul", mulAssign d3 p R, Spec.mul),
     ("div", divAssign p R, Spec.div), ("join", joinAssign p R, Spec.join), ("meet", intersectAssign p R, Spec.meet),
     ("diff", differenceAssign p R, Spec.diff)]
  ivs.flatMap fun x => ivs.flatMap fun y => ops.filterMap fun (nm, f, sp) =>
    let r := Spec.ofIv (f x y)
    let s := sp (Spec.ofIv x) (Spec.ofIv y)
    if !Spec.subset s r then
      some ("SELFTEST-FAIL enclose " ++ nm ++ " " ++ showIv t x ++ " " ++ showIv t y ++ " model=" ++ showIv t (f x y))
    else if nm != "div" && !Spec.seteq s r then
      some ("SELFTEST-FAIL exact " ++ nm ++ " " ++ showIv t x ++ " " ++ showIv t y ++ " model=" ++ showIv t (f x y))
    else none

def argFlag (args : List String) (name : String) (dflt : Bool) : Bool :=
  match args with
  | a :: v :: rest => if a == name then v == "1" else argFlag (v :: rest) name dflt
  | _ => dflt

end C12Driver

def main (args : List String) : IO UInt32 := do
  let d3 := C12Driver.argFlag args "--d3" true
  let d12 := C12Driver.argFlag args "--d12" true
  let stdout ← IO.getStdout
  if args.contains "--selftest" then
    let fails := C12Driver.selftest d3
    for l in fails.take 20 do
      stdout.putStrLn l
    stdout.putStrLn ("selftest failures " ++ toString fails.length)
    return 0
  let stdin ← IO.getStdin
  C12Driver.loop d3 d12 stdin stdout
  return 0
