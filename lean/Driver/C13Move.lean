import PPLV.Value.MoveRepr
import PPLV.Value.Judge

/-!
# `pplv_c13 --move` — replays the journal of `harness/c13_move.cc` on the heap-with-ownership model

One case per line (`mv <id> <op> <params…> | pre <objects> | post <objects> | [copy …] | live … | faults n | exc e`).
The `pre` objects are parsed into model objects and a heap whose cells are the canonical addresses of
the journal; the model function of `PPLV.Value.Move*` named by `<op>` is run; the resulting objects are
printed in the journal's own format (addresses the model allocated are renumbered in order of first
appearance, as the harness numbers the blocks it had not seen before) and compared token by token with
the `post` part.  Further obligations, all on the REAL output: `live` (a cell is alive afterwards iff
the model says so: nothing leaked, nothing freed early), `faults` (no double delete), `double_owner`
(no storage address occurs twice in the real post state), `exc`, `ok_flag` (`OK()` of receiver and
argument), `rows_eq_copy` (receiver after the recycling / aliased call = receiver after the call on
copies, row for row with all scalar members), `value_eq_copy` (K1 `equivB` of the two constraint
systems).  stdout: `ok <id> <op> <exit>` | `skip <id> <op> <why>` | `MISMATCH <id> <obligation> <detail>`.
-/
open PPLV PPLV.Value PPLV.Value.Move

namespace C13Move

abbrev Cells := List (Nat × List Int)

def addrOf (s : String) : Nat := (String.ofList (s.toList.drop 1)).toNat?.getD 0
def tokI (s : String) : Int := s.toInt?.getD 0
def tokN (s : String) : Nat := s.toNat?.getD 0

inductive Obj where
  | vec (v : SVec)
  | lin (s : LinSys)
  | row (r : Row)
  | cg (s : CgSys)
  | poly (p : Poly)
  | grid (g : GridC)
  | ps (sd : Nat) (reduced : Bool) (seq : List (Nat × Nat))
deriving Inhabited

/-- `@addr tag nnc k c1…ck` -/
def parseRowBody (ts : List String) (cells : Cells) : Row × List String × Cells :=
  match ts with
  | a :: tag :: nnc :: k :: rest =>
    let n := tokN k
    let cs := (rest.take n).map tokI
    (⟨addrOf a, tokI tag, nnc == "1"⟩, rest.drop n, (addrOf a, cs) :: cells)
  | _ => (⟨0, 0, false⟩, [], cells)

def parseRows : Nat → List String → Cells → List Row → List Row × List String × Cells
  | 0, ts, cells, acc => (acc.reverse, ts, cells)
  | k + 1, ts, cells, acc =>
    let (r, ts', cells') := parseRowBody ts cells
    parseRows k ts' cells' (r :: acc)

/-- `V cap n rows` -/
def parseV (ts : List String) (cells : Cells) : SVec × List String × Cells :=
  match ts with
  | "V" :: cap :: n :: rest =>
    let (rows, rest', cells') := parseRows (tokN n) rest cells []
    (⟨rows, tokN cap⟩, rest', cells')
  | _ => (SVec.nil, [], cells)

/-- `L sd nnc first_pending sorted V…` -/
def parseL (ts : List String) (cells : Cells) : LinSys × List String × Cells :=
  match ts with
  | "L" :: sd :: nnc :: fp :: so :: rest =>
    let (v, rest', cells') := parseV rest cells
    (⟨v, tokN sd, nnc == "1", tokN fp, so == "1"⟩, rest', cells')
  | _ => (LinSys.mk0 false, [], cells)

def parseQ (ts : List String) (cells : Cells) : CgSys × List String × Cells :=
  match ts with
  | "Q" :: sd :: rest =>
    let (v, rest', cells') := parseV rest cells
    (⟨v, tokN sd⟩, rest', cells')
  | _ => (⟨SVec.nil, 0⟩, [], cells)

def parseBitRows : Nat → List String → List (List Nat) → List (List Nat) × List String
  | 0, ts, acc => (acc.reverse, ts)
  | k + 1, ts, acc =>
    match ts with
    | n :: rest => parseBitRows k (rest.drop (tokN n)) (((rest.take (tokN n)).map tokN) :: acc)
    | [] => (acc.reverse, [])

def parseB (ts : List String) : BitMatrix × List String :=
  match ts with
  | "B" :: cols :: n :: rest =>
    let (rows, rest') := parseBitRows (tokN n) rest []
    (⟨rows, tokN cols⟩, rest')
  | _ => (BitMatrix.empty, [])

def parsePSeq : Nat → List String → List (Nat × Nat) → List (Nat × Nat) × List String
  | 0, ts, acc => (acc.reverse, ts)
  | k + 1, ts, acc =>
    match ts with
    | a :: r :: rest => parsePSeq k rest ((addrOf a, tokN r) :: acc)
    | _ => (acc.reverse, [])

/-- objects until a token that is not an object tag; returns the objects, the leftover tokens, the cells -/
partial def parseObjs (ts : List String) (cells : Cells) (acc : List Obj) : List Obj × List String × Cells :=
  match ts with
  | "V" :: _ => let (v, r, c) := parseV ts cells; parseObjs r c (.vec v :: acc)
  | "L" :: _ => let (v, r, c) := parseL ts cells; parseObjs r c (.lin v :: acc)
  | "Q" :: _ => let (v, r, c) := parseQ ts cells; parseObjs r c (.cg v :: acc)
  | "R" :: rest => let (v, r, c) := parseRowBody rest cells; parseObjs r c (.row v :: acc)
  | "P" :: sd :: st :: rest =>
    let (c1, r1, cl1) := parseL rest cells
    let (g1, r2, cl2) := parseL r1 cl1
    let (b1, r3) := parseB r2
    let (b2, r4) := parseB r3
    parseObjs r4 cl2 (.poly ⟨c1, g1, b1, b2, tokN st, tokN sd⟩ :: acc)
  | "GR" :: sd :: st :: rest =>
    let (q, r, c) := parseQ rest cells
    parseObjs r c (.grid ⟨q, tokN st, tokN sd⟩ :: acc)
  | "PS" :: sd :: red :: n :: rest =>
    let (s, r) := parsePSeq (tokN n) rest []
    parseObjs r cells (.ps (tokN sd) (red == "1") s :: acc)
  | _ => (acc.reverse, ts, cells)

def mkHeap (cells : Cells) (next : Nat) : Heap :=
  ⟨fun a => (cells.find? (·.1 == a)).map (·.2), next, false⟩

def nextOf (cells : Cells) : Nat := cells.foldl (fun m c => max m (c.1 + 1)) 0

/-! ### printing in the journal's format -/
def serRow (h : Heap) (r : Row) : List String :=
  let c := (h.read r.impl).getD []
  [s!"@{r.impl}", toString r.tag, if r.nnc then "1" else "0", toString c.length] ++ c.map toString
def serV (h : Heap) (v : SVec) : List String :=
  ["V", toString v.cap, toString v.impl.length] ++ v.impl.flatMap (serRow h)
def b2s (b : Bool) : String := if b then "1" else "0"
def serL (h : Heap) (s : LinSys) : List String :=
  ["L", toString s.spaceDim, b2s s.nnc, toString s.firstPending, b2s s.sorted] ++ serV h s.rows
def serQ (h : Heap) (s : CgSys) : List String := ["Q", toString s.spaceDim] ++ serV h s.rows
def serB (b : BitMatrix) : List String :=
  ["B", toString b.cols, toString b.rows.length] ++ b.rows.flatMap (fun r => toString r.length :: r.map toString)
def serObj (h : Heap) : Obj → List String
  | .vec v => serV h v
  | .lin s => serL h s
  | .row r => "R" :: serRow h r
  | .cg s => serQ h s
  | .poly p => ["P", toString p.spaceDim, toString p.status] ++ serL h p.conSys ++ serL h p.genSys ++ serB p.satC ++ serB p.satG
  | .grid g => ["GR", toString g.spaceDim, toString g.status] ++ serQ h g.conSys
  | .ps sd red seq => ["PS", toString sd, b2s red, toString seq.length] ++ seq.flatMap (fun (a, r) => [s!"@{a}", toString r])

/-- addresses `≥ next0` are renumbered `next0, next0+1, …` in order of first appearance -/
def renumber (next0 : Nat) (ts : List String) : List String :=
  let step (st : List (Nat × Nat) × List String) (t : String) : List (Nat × Nat) × List String :=
    if t.startsWith "@" then
      let a := addrOf t
      if a < next0 then (st.1, t :: st.2)
      else
        match st.1.find? (·.1 == a) with
        | some (_, b) => (st.1, s!"@{b}" :: st.2)
        | none => let b := next0 + st.1.length; ((a, b) :: st.1, s!"@{b}" :: st.2)
    else (st.1, t :: st.2)
  (ts.foldl step ([], [])).2.reverse

/-- the value part of a dump: addresses and capacities blanked -/
partial def blank (ts : List String) : List String :=
  match ts with
  | "V" :: _ :: rest => "V" :: blank rest
  | t :: rest => (if t.startsWith "@" then "@" else t) :: blank rest
  | [] => []

def addrsOf (ts : List String) : List Nat := (ts.filter (·.startsWith "@")).map addrOf

/-! ### running the model -/
def classOf (t : String) : RowClass := if t == "G" then generatorClass else constraintClass

def exitName : Exit → String
  | .threw => "threw" | .noRows => "noRows" | .zeroDim => "zeroDim" | .markedEmpty => "markedEmpty"
  | .wasEmptySwapped => "wasEmptySwapped" | .movedPending => "movedPending" | .moved => "moved" | .notModelled => "notModelled"

/-- the Cow machine state of a list of dumped powersets: one handle per list node -/
def cowOf (pss : List (List (Nat × Nat))) (next : Nat) : Cow.State Nat × List (List Nat) :=
  let all := pss.flatten
  let handles : List (Option Nat) := all.map (fun p => some p.1)
  let heap : Nat → Option (Cow.Rep Nat) := fun a => (all.find? (·.1 == a)).map (fun p => ⟨p.2, a⟩)
  let rec slots (pss : List (List (Nat × Nat))) (k : Nat) : List (List Nat) :=
    match pss with
    | [] => []
    | p :: rest => (List.range p.length).map (· + k) :: slots rest (k + p.length)
  (⟨heap, next, handles ++ [none, none], false⟩, slots pss 0)

def psSeq (σ : Cow.State Nat) (seq : List Nat) : List (Nat × Nat) :=
  seq.map (fun hd => match σ.prep hd with
    | some a => (a, ((σ.heap a).map (·.refs)).getD 0)
    | none => (999999, 0))

/-- returns the heap, the objects afterwards (in the order of the `post` dump), the path name;
    `none`: the op / object shapes are not understood -/
def runOp (op : List String) (h : Heap) (objs : List Obj) : Option (Heap × List Obj × String) :=
  let K := constraintClass
  match op, objs with
  | ["sv_reserve", c], [.vec v] => let (h', v') := v.reserve K h (tokN c); some (h', [.vec v'], if v.cap < tokN c then "realloc" else "noop")
  | ["sv_resize", c], [.vec v] =>
    let (h', v') := v.resize K h (tokN c)
    some (h', [.vec v'], (if v.cap < tokN c then "realloc" else "inplace") ++ (if tokN c < v.size then "_shrink" else "_grow"))
  | ["sv_erase", a, b], [.vec v] => let (h', v') := v.eraseRange h (tokN a) (tokN b); some (h', [.vec v'], "erase")
  | ["sv_erase_one", a], [.vec v] =>
    let (h', v', _) := v.eraseOne h (tokN a)
    some (h', [.vec v'], if tokN a + 1 == v.size then "last" else if tokN a == 0 then "first" else "middle")
  | ["sv_clear"], [.vec v] => let (h', v') := v.clear h; some (h', [.vec v'], "clear")
  | ["sv_swap", "1"], [.vec v] => some (h, [.vec (SVec.mSwap v v).1], "self")
  | ["sv_swap", "0"], [.vec v, .vec w] => let (a, b) := SVec.mSwap v w; some (h, [.vec a, .vec b], "swap")
  | ["ls_insert_row", k, p], [.lin s, .row r] =>
    let (h', s', r') := if p == "1" then s.insertPendingRow (classOf k) h r else s.insertRow (classOf k) h r
    some (h', [.lin s', .row r'], if s.spaceDim < ((r.value h).map (·.spaceDim)).getD 0 then "grow_system" else "grow_row")
  | ["ls_insert_sys", k, p], [.lin x, .lin y] =>
    let (h', x', y') := if p == "1" then x.insertPendingSys (classOf k) h y else x.insertSys (classOf k) h y
    some (h', [.lin x', .lin y'], if y.hasNoRows then "noRows" else "moved")
  | [nm, k, self], (.lin x :: rest) =>
    let y? : Option (Arg LinSys) := match self, rest with
      | "1", [] => some .self
      | "0", [.lin y] => some (.other y)
      | _, _ => none
    match y? with
    | none => none
    | some y =>
      let out? : Option (Heap × LinSys) :=
        if nm == "ls_insert_const" then some (x.insertConst (classOf k) h y)
        else if nm == "ls_insert_pending_const" then some (x.insertPendingConst (classOf k) h y)
        else if nm == "ls_merge" then some (x.mergeRowsAssign (classOf k) h y)
        else if nm == "ls_assign" then some (LinSys.assign h x y)
        else if nm == "ls_assign_with_pending" then some (LinSys.assignWithPending h x y)
        else none
      out?.map fun (h', x') => (h', .lin x' :: rest, if self == "1" then "self" else "other")
  | ["cs_insert_row", p], [.lin s, .row r] =>
    let (h', s', r') := if p == "1" then csInsertPendingRow h s r else csInsertRow h s r
    some (h', [.lin s', .row r'], if s.nnc == r.nnc then "same_topology" else if s.nnc then "row_to_nnc" else "system_to_nnc")
  | ["cg_insert_sys"], [.cg x, .cg y] => let (h', x', y') := x.insertSys h y; some (h', [.cg x', .cg y'], "moved")
  | ["gr_add_recycled_congruences"], [.grid x, .cg y] =>
    let (h', x', y', e) := x.addRecycledCongruences h y; some (h', [.grid x', .cg y'], exitName e)
  | ["ph_add_recycled_constraints", _, conv], [.poly x, .lin cs] =>
    let (h', x', cs', e) := x.addRecycledConstraints h cs
    -- a system of the other representation: every row that is moved is converted first (new storage)
    if conv == "1" && (e == .moved || e == .movedPending) then
      let (h₁, cs₁) := cs.converted h
      let (h', x', cs', e) := x.addRecycledConstraints h₁ cs₁
      some (h', [.poly x', .lin cs'], exitName e ++ "_converted")
    else some (h', [.poly x', .lin cs'], exitName e)
  | ["ph_add_recycled_generators", _, conv], [.poly x, .lin gs] =>
    let (h', x', gs', e) := x.addRecycledGenerators h gs
    if conv == "1" && (e == .moved || e == .movedPending) then
      let (h₁, gs₁) := gs.converted h
      let (h', x', gs', e) := x.addRecycledGenerators h₁ gs₁
      some (h', [.poly x', .lin gs'], exitName e ++ "_converted")
    else some (h', [.poly x', .lin gs'], exitName e)
  | ["ph_swap", _, "1", "0"], [.poly x] => some (h, [.poly (Poly.mSwap x x).1], "m_swap_self")
  | ["ph_swap", _, "0", "0"], [.poly x, .poly y] => let (a, b) := Poly.mSwap x y; some (h, [.poly a, .poly b], "m_swap")
  | ["ph_swap", _, "1", _], [.poly x] => let (h', a, _) := x.stdSwap h .self; some (h', [.poly a], "std_swap_self")
  | ["ph_swap", _, "0", _], [.poly x, .poly y] =>
    let (h', a, b) := x.stdSwap h (.other y); some (h', [.poly a, .poly (b.getD y)], "std_swap")
  | ["ph_assign", _, "1"], [.poly x] => let (h', x') := x.assign h .self; some (h', [.poly x'], "self")
  | ["ph_assign", _, "0"], [.poly x, .poly y] => let (h', x') := x.assign h (.other y); some (h', [.poly x', .poly y], "other")
  | ["ph_intersection", _, "1"], [.poly x] => let (h', x', e) := x.intersectionAssign h .self; some (h', [.poly x'], exitName e)
  | ["ph_intersection", _, "0"], [.poly x, .poly y] => let (h', x', e) := x.intersectionAssign h (.other y); some (h', [.poly x', .poly y], exitName e)
  | ["ph_hull", _, "1"], [.poly x] => let (h', x', e) := x.polyHullAssign h .self; some (h', [.poly x'], exitName e)
  | ["ph_hull", _, "0"], [.poly x, .poly y] => let (h', x', e) := x.polyHullAssign h (.other y); some (h', [.poly x', .poly y], exitName e)
  | ["ph_concat", _, "1"], [.poly x] => let (h', c, e) := x.concatenateAssignCons h .self; some (h', [.lin c], exitName e)
  | ["ph_concat", _, "0"], [.poly x, .poly y] => let (h', c, e) := x.concatenateAssignCons h (.other y); some (h', [.lin c, .poly y], exitName e)
  | _, _ => none

/-- powerset operations on the Cow machine; returns the printed post state -/
def runPS (op : List String) (objs : List Obj) (next0 : Nat) : Option (List String × String) :=
  let pss := objs.filterMap (fun o => match o with | .ps sd red seq => some (sd, red, seq) | _ => none)
  let (σ, slots) := cowOf (pss.map (·.2.2)) next0
  let nH := σ.handles.length
  let mk (σ : Cow.State Nat) (l : List (PS.Pset)) : List String :=
    l.flatMap (fun p => serObj Heap.empty (.ps p.spaceDim p.reduced (psSeq σ p.seq)))
  let psets : List PS.Pset := (pss.zip slots).map (fun (p, s) => ⟨s, p.2.1, p.1⟩)
  match op, psets with
  | ["ps_add_disjunct"], [a, c] =>
    let (σ', a') := PS.addDisjunct σ a next0 (nH - 2) (nH - 1)
    -- the point set of the new Rep is named by its own address
    some (mk σ' [a', c] ++ [b2s (!σ'.fault)], "add_disjunct")
  | ["ps_swap", "1"], [a, c] => some (mk σ [(PS.mSwap a a).1, c], "self")
  | ["ps_swap", "0"], [a, b, c] => let (a', b') := PS.mSwap a b; some (mk σ [a', b', c], "swap")
  | _, _ => none

/-! ### K1 value of a constraint system dump -/
def consOfRow (n : Nat) (v : RowV) : List Lin.Con :=
  let b := v.coeffs.headD 0
  let cf := ((v.coeffs.drop 1).take n) ++ List.replicate (n - ((v.coeffs.drop 1).take n).length) 0
  if v.tag == 0 then Lin.eqRows cf b
  else if v.nnc && v.coeffs.getLastD 0 < 0 then [Lin.gtRow cf b]
  else [Lin.geRow cf b]

def polyValue (h : Heap) (p : Poly) : Option Value :=
  if testAny p.status EMPTY || !testAny p.status C_UP || p.spaceDim == 0 || p.spaceDim > 3 then none
  else some (.poly p.spaceDim ((p.conSys.value h).rows.flatMap (consOfRow p.spaceDim)))

/-- the members of a polyhedron that its status declares meaningful (the copy constructor copies only
    those: `Polyhedron_nonpublic.cc:81`); the others are blanked before two states are compared -/
def meaningful : Obj → Obj
  | .poly p =>
    let e := LinSys.mk0 p.nnc
    if testAny p.status EMPTY then .poly { p with conSys := e, genSys := e, satC := .empty, satG := .empty }
    else .poly { p with conSys := if testAny p.status C_UP then p.conSys else e,
                        genSys := if testAny p.status G_UP then p.genSys else e,
                        satC := if testAny p.status SAT_C_UP then p.satC else .empty,
                        satG := if testAny p.status SAT_G_UP then p.satG else .empty }
  | o => o

def sectionOf (secs : List (List String)) (name : String) : Option (List String) :=
  (secs.find? (fun s => s.head? == some name)).map (·.drop 1)

def short (ts : List String) : String := " ".intercalate (ts.take 120)

def processLine (line : String) : IO Unit := do
  let secs := (line.splitOn " | ").map (fun s => (s.trimAscii.toString.splitOn " ").filter (· != ""))
  match secs with
  | ("mv" :: id :: op) :: _ =>
    let opn := op.headD "?"
    let bad (obl detail : String) : IO Unit := IO.println s!"MISMATCH {id} {obl} {opn} {detail}"
    match sectionOf secs "pre", sectionOf secs "post" with
    | some pre, some post =>
      let (objs, _, cells) := parseObjs pre [] []
      let next0 := max (nextOf cells) ((addrsOf pre).foldl (fun m a => max m (a + 1)) 0)
      let h := mkHeap cells next0
      let (robjs, rextra, rcells) := parseObjs post [] []
      let exc := ((sectionOf secs "exc").getD ["-"]).headD "-"
      let faults := tokN (((sectionOf secs "faults").getD ["0"]).headD "0")
      let live := (sectionOf secs "live").getD []
      let mut nbad := 0
      -- no storage is owned twice in the real post state; no double delete
      let raddrs := addrsOf (if opn.startsWith "ps_" then [] else post)
      if raddrs.eraseDups.length != raddrs.length then
        nbad := nbad + 1; bad "double_owner" (short post)
      if faults != 0 then
        nbad := nbad + 1; bad "faults" s!"{faults} double / foreign deletes"
      if opn.startsWith "ps_" then
        match runPS op objs next0 with
        | none => IO.println s!"skip {id} {opn} shape"
        | some (mpost, path) =>
          let want := renumber next0 mpost
          if want != post then
            nbad := nbad + 1; bad "ownership" s!"model {short want} | real {short post}"
          if nbad == 0 then IO.println s!"ok {id} {opn} {path}"
      else
      match runOp op h objs with
      | none => IO.println s!"skip {id} {opn} shape"
      | some (h', mobjs, path) =>
        if path == "notModelled" then IO.println s!"skip {id} {opn} notModelled"
        else
          -- exceptions
          if (path == "threw") != (exc != "-") then
            nbad := nbad + 1; bad "exc" s!"model path {path}, real exception {exc}"
          -- the post state, exactly
          let rheap := mkHeap rcells (nextOf rcells)
          let (mobjs', robjs') :=
            if opn == "ph_concat" && path != "threw" then
              (mobjs, match robjs with
                | .poly p :: rest => Obj.lin p.conSys :: rest
                | l => l)
            else if opn == "gr_add_recycled_congruences" && path == "zeroDim" then (mobjs.drop 1, robjs.drop 1)
            else (mobjs, robjs)
          let want := renumber next0 (mobjs'.flatMap (serObj h'))
          let got := renumber next0 (robjs'.flatMap (serObj rheap))
          let moved := opn == "ph_concat" && (path == "moved" || path == "movedPending")
          if want != got && !(opn == "ph_concat" && !moved) then
            nbad := nbad + 1; bad "ownership" s!"path {path}: model {short want} | real {short got}"
          -- `erase(iterator)` returns the position of the erased element (model: `(v.eraseOne h i).2.2 = i`)
          if opn == "sv_erase_one" && rextra.headD "" != op.getD 1 "?" then
            nbad := nbad + 1; bad "return_position" s!"model {op.getD 1 "?"} real {rextra.headD ""}"
          -- liveness of the cells seen before the call
          let liveBits := live.drop 1
          let wrong := (List.range (tokN (live.headD "0"))).filter (fun a => (h'.cells a).isSome != (liveBits.getD a "0" == "1"))
          if !wrong.isEmpty && !(opn == "ph_concat") then
            nbad := nbad + 1; bad "live" s!"path {path}: cells {wrong} (model alive = {wrong.map (fun a => (h'.cells a).isSome)})"
          -- the model instance satisfies the invariant of the theorems
          if h'.fault then
            nbad := nbad + 1; bad "model_fault" path
          -- conclusions on the real output
          match sectionOf secs "copy" with
          | none => pure ()
          | some cp =>
            let (cobjs, cextra, ccells) := parseObjs cp [] []
            let cheap := mkHeap ccells (nextOf ccells)
            let okx := cextra.getD 1 "1"
            let okarg := cextra.getD 2 "1"
            let exc2 := cextra.getD 0 "-"
            if okx != "1" || okarg != "1" then
              nbad := nbad + 1; bad "ok_flag" s!"receiver OK()={okx} argument OK()={okarg} path {path}"
            if (exc2 != "-") != (exc != "-") then
              nbad := nbad + 1; bad "exc_copy" s!"real {exc} on copies {exc2}"
            match robjs.head?, cobjs.head? with
            | some r, some c =>
              let a := blank (serObj rheap (meaningful r))
              let b := blank (serObj cheap (meaningful c))
              if a != b then
                nbad := nbad + 1; bad "rows_eq_copy" s!"path {path}: {short a} | on copies {short b}"
              match r, c with
              | .poly p, .poly q =>
                match polyValue rheap p, polyValue cheap q with
                | some u, some v =>
                  if u.size + v.size ≤ 400 && !valEq u v then
                    nbad := nbad + 1; bad "value_eq_copy" s!"path {path}"
                | _, _ => pure ()
              | _, _ => pure ()
            | _, _ => pure ()
          -- extra bit of ps_add_disjunct etc. is handled in runPS
          let _ := rextra
          if nbad == 0 then IO.println s!"ok {id} {opn} {path}"
    | _, _ => IO.println s!"MISMATCH {id} parse {opn}"
  | _ => pure ()

partial def loop (hIn : IO.FS.Stream) : IO Unit := do
  let line ← hIn.getLine
  if line.isEmpty then return
  processLine line
  loop hIn

def main : IO UInt32 := do
  let stdin ← IO.getStdin
  loop stdin
  return 0

end C13Move
