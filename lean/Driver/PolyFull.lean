import PPLV.PolyFull.Step
import PPLV.Lin.Parse

/-!
# `pplv_polyfull` — replay of HISTORIES through the full model of `Polyhedron` (C01/C02 integration stage)

Reads the journal of `harness/c01_full.cc`.  For every history the model world starts from the observed
raw initial states and then runs on its own: after EVERY call the model's receiver (and argument) must
have the same space dimension, status word, and — for every description / matrix the real status
declares up to date — the same rows IN ORDER, the same `index_first_pending`, the same `sorted` flag and
the same saturation matrix; the answer of an observer must be the same.  After the first difference of a
history the model is re-seeded from the real state (`resync`) and the rest of the history is still
replayed, so that one run shows every diverging step.

In parallel a REFERENCE world (K1 constraint systems, `PPLV/Lin/Ops.lean`) follows the history with the
verified reference operators; every real post-state and every real answer is judged against it
(`sem=ok` / `sem=BAD`): this is what decides whether a difference is a violation of C01/C02.

Verdicts: `s <hid> <k> <op> pre=<status> post=<status> cmp=<…> sem=<…>` for a step that agrees,
`MISMATCH <hid> <k> <op> <kind> … sem=<…>`, `ok <hid> steps=<n>`, `skip …`.
-/
open PPLV.Lin PPLV.PolyOps PPLV.PolyFull

namespace PolyFullDriver

def parseRow (sd : Nat) (ts : List String) : Row × List String :=
  match ts with
  | k :: b :: eps :: rest =>
    let (cf, rest') := takeInts sd rest
    (⟨k == "e", tokInt b, cf, tokInt eps⟩, rest')
  | _ => (default, [])

def parseSys (ts : List String) : Sys × List String :=
  match ts with
  | sd :: nr :: fp :: srt :: rest =>
    let sdn := tokNat sd
    let rec go (k : Nat) (ts : List String) (acc : List Row) : List Row × List String :=
      match k with
      | 0 => (acc.reverse, ts)
      | k+1 => let (r, ts') := parseRow sdn ts; go k ts' (r :: acc)
    let (rows, rest') := go (tokNat nr) rest []
    (⟨rows, tokNat fp, srt == "1"⟩, rest')
  | _ => (default, [])

def parseMat (ts : List String) : BitMat × List String :=
  match ts with
  | nr :: nc :: rest =>
    let n := tokNat nr
    let rows := (rest.take n).map fun s => if s == "-" then [] else s.toList.map (· == '1')
    (⟨rows, tokNat nc⟩, rest.drop n)
  | _ => (default, [])

def parseStatus (s : String) : Status :=
  let b := fun (i : Nat) => (s.toList.getD i '0') == '1'
  ⟨b 0, b 1, b 2, b 3, b 4, b 5, b 6, b 7, b 8⟩

def parseFPoly (nnc : Bool) (ts : List String) : FPoly × List String :=
  match ts with
  | dim :: st :: rest =>
    let (cs, r1) := parseSys rest
    let (gs, r2) := parseSys r1
    let (sc, r3) := parseMat r2
    let (sg, r4) := parseMat r3
    (⟨⟨nnc, tokNat dim, parseStatus st, cs, gs⟩, sc, sg⟩, r4)
  | _ => (default, [])

def stStr (s : Status) : String :=
  String.ofList ([s.empty, s.cUp, s.gUp, s.cMin, s.gMin, s.satC, s.satG, s.cPend, s.gPend].map fun b => if b then '1' else '0')

def rowStr (r : Row) : String := s!"{if r.eq then "e" else "i"}:{r.b}:{r.eps}:{r.cf}"

def cmpList : List Int → List Int → Ordering
  | [], [] => .eq
  | [], _ => .lt
  | _, [] => .gt
  | a :: as, b :: bs => if a < b then .lt else if a > b then .gt else cmpList as bs
def rowKey (r : Row) : List Int := (if r.eq then 1 else 0) :: r.b :: r.eps :: r.cf
def sortRowsK (rows : List Row) : List Row := (rows.toArray.qsort (fun a b => cmpList (rowKey a) (rowKey b) == .lt)).toList

def matStr (m : BitMat) : String :=
  s!"{m.rows.length}x{m.ncols}:" ++ ",".intercalate (m.norm.map fun r => String.ofList (r.map fun b => if b then '1' else '0'))

/-- compare the model state `q` with the real state `r`; `none` = equal where the real status says
    "up to date"; the string tells how it was compared -/
def cmpState (q r : FPoly) : Option String × String :=
  if q.dim != r.dim then (some s!"dim model={q.dim} real={r.dim}", "")
  else if q.st != r.st then (some s!"status model={stStr q.st} real={stStr r.st}", "")
  else if r.st.empty then (none, "empty")
  else
    let chk (name : String) (a b : Sys) : Option String :=
      if a.rows == b.rows && a.firstPending == b.firstPending && a.sorted == b.sorted then none
      else if a.rows == b.rows && a.firstPending == b.firstPending then
        some s!"{name} sorted-flag model={a.sorted} real={b.sorted}"
      else
        let kind := if sortRowsK a.rows == sortRowsK b.rows then "order" else "rows"
        some s!"{name} {kind} model={a.rows.map rowStr} fp={a.firstPending} real={b.rows.map rowStr} fp={b.firstPending}"
    let e1 := if r.st.cUp then chk "con_sys" q.p.cs r.p.cs else none
    let e2 := if r.st.gUp then chk "gen_sys" q.p.gs r.p.gs else none
    let e3 := if r.st.satC then
        (if q.satC.norm == r.satC.norm && q.satC.ncols == r.satC.ncols then none
         else some s!"sat_c model={matStr q.satC} real={matStr r.satC}") else none
    let e4 := if r.st.satG then
        (if q.satG.norm == r.satG.norm && q.satG.ncols == r.satG.ncols then none
         else some s!"sat_g model={matStr q.satG} real={matStr r.satG}") else none
    match e1, e2, e3, e4 with
    | some a, _, _, _ => (some a, "")
    | _, some a, _, _ => (some a, "")
    | _, _, some a, _ => (some a, "")
    | _, _, _, some a => (some a, "")
    | _, _, _, _ => (none, "ord")

/-! ### the reference world -/

def refOf (p : Poly) : Option RefPoly :=
  if p.st.empty then some (emptyP p.nnc p.dim)
  else if p.st.cUp && !p.st.gPend then some ⟨p.nnc, p.dim, consOf p.nnc p.cs.rows⟩
  else if p.st.gUp && !p.st.cPend then
    -- FM projection of the lifted generator system: only when it is small
    if (p.dim ≤ 1 && p.gs.rows.length ≤ 8) || p.gs.rows.length ≤ (if p.nnc then 3 else 5) then
      some ⟨p.nnc, p.dim, gensToCons p.dim (gensOf p.nnc p.gs.rows)⟩
    else none
  else if !p.st.cUp && !p.st.gUp then some (univ p.nnc p.dim)
  else none

/-- `RefPoly.ofGens` when the projection is affordable -/
def ofGensSmall (nnc : Bool) (n : Nat) (gs : List Gen) : Option RefPoly :=
  if (n ≤ 1 && gs.length ≤ 8) || gs.length ≤ (if nnc then 3 else 5) then some (RefPoly.ofGens nnc n gs) else none

def gensOfPoly (p : Poly) : Option (List Gen) :=
  if p.st.empty then some []
  else if p.st.gUp && !p.st.cPend then some (gensOf p.nnc p.gs.rows)
  else none

def semCheck (r : Poly) (ex : RefPoly) : Option String :=
  if r.dim != ex.n then some s!"dimension real={r.dim} reference={ex.n}"
  else if r.st.empty then
    if isEmptyB ex.n ex.cs then none else some "marked empty but the reference set is not empty"
  else if !r.st.cUp && !r.st.gUp then
    if subsetB ex.n [] ex.cs then none else some "no description held (universe) but the reference set is not the universe"
  else
    let c1 := if r.st.cUp && !r.st.gPend then
        (if equivB ex.n (consOf r.nnc r.cs.rows) ex.cs then none else some "constraints ≠ reference")
      else none
    let c2 := if r.st.gUp && !r.st.cPend then
        (if gensWF ex.n (gensOf r.nnc r.gs.rows) && checkDD ex.n ex.cs (gensOf r.nnc r.gs.rows) then none
         else some "generators ≠ reference")
      else none
    match c1, c2 with
    | some a, some b => some (a ++ "; " ++ b)
    | some a, none => some a
    | none, b => b

def gkindOf (s : String) : FPoly.GKindA :=
  if s == "l" then .line else if s == "r" then .ray else if s == "p" then .point else .cpoint

def genOfArg (k : FPoly.GKindA) (g : Row) : Gen :=
  match k with
  | .line => ⟨.line, g.cf, 1⟩
  | .ray => ⟨.ray, g.cf, 1⟩
  | .point => ⟨.point, g.cf, g.b⟩
  | .cpoint => ⟨.cpoint, g.cf, g.b⟩

structure Step where
  k : String
  name : String
  op : Op
  ans : List String               -- the real answer tokens (after `R`)
  posts : List (Nat × FPoly)      -- real post-states
  exc : Option String

def natList (ts : List String) : List Nat := ts.map tokNat

/-- parse `step <k> <op> <args…> [R …] (S <slot> <fpoly>)* | EXC <class>` -/
def parseStep (nnc : Bool) (dimOf : Nat → Nat) (ts : List String) : Option Step :=
  match ts with
  | "step" :: k :: name :: rest =>
    let args := rest.takeWhile fun t => t != "R" && t != "S" && t != "EXC"
    let after := rest.drop args.length
    let (ans, after2) := match after with
      | "R" :: t => (t.takeWhile fun x => x != "S" && x != "EXC", t.dropWhile fun x => x != "S" && x != "EXC")
      | t => ([], t)
    let exc := match after2 with | "EXC" :: t => some (" ".intercalate t) | _ => none
    let rec posts (fuel : Nat) (ts : List String) (acc : List (Nat × FPoly)) : List (Nat × FPoly) :=
      match fuel, ts with
      | f + 1, "S" :: s :: t => let (p, t') := parseFPoly nnc t; posts f t' (acc ++ [(tokNat s, p)])
      | _, _ => acc
    let ps := posts 4 after2 []
    let s := tokNat (args.getD 0 "0")
    let d := dimOf s
    let op : Option Op := match name with
      | "is_empty" => some (.isEmpty s)
      | "constraints" => some (.constraints s)
      | "generators" => some (.generators s)
      | "min_constraints" => some (.minimizedConstraints s)
      | "min_generators" => some (.minimizedGenerators s)
      | "contains" => some (.contains s (tokNat (args.getD 1 "0")))
      | "equals" => some (.equals s (tokNat (args.getD 1 "0")))
      | "rel_gen" => let (g, _) := parseRow d (args.drop 2); some (.relationWithGen s (gkindOf (args.getD 1 "p")) g)
      | "bounds" => let (e, _) := parseExpr d (args.drop 2); some (.bounds s e (args.getD 1 "0" == "1"))
      | "max_min" => let (e, _) := parseExpr d (args.drop 2); some (.maxMin s e (args.getD 1 "0" == "1"))
      | "add_constraint" => let (c, _) := parseRow d (args.drop 1); some (.addConstraint s c)
      | "refine_constraint" => let (c, _) := parseRow d (args.drop 1); some (.refineWithConstraint s c)
      | "add_generator" => let (g, _) := parseRow d (args.drop 2); some (.addGenerator s (gkindOf (args.getD 1 "p")) g)
      | "affine_image" => let (e, _) := parseExpr d (args.drop 3)
        some (.affineImage s (tokNat (args.getD 1 "0")) e (tokInt (args.getD 2 "1")))
      | "affine_preimage" => let (e, _) := parseExpr d (args.drop 3)
        some (.affinePreimage s (tokNat (args.getD 1 "0")) e (tokInt (args.getD 2 "1")))
      | "gen_affine_image" => let (e, _) := parseExpr d (args.drop 4)
        some (.generalizedAffineImage s (tokNat (args.getD 1 "0")) (parseRel (args.getD 2 "=")) e (tokInt (args.getD 3 "1")))
      | "bounded_affine_image" =>
        let (lb, r1) := parseExpr d (args.drop 3)
        let (ub, _) := parseExpr d r1
        some (.boundedAffineImage s (tokNat (args.getD 1 "0")) lb ub (tokInt (args.getD 2 "1")))
      | "embed" => some (.embed s (tokNat (args.getD 1 "0")))
      | "project" => some (.project s (tokNat (args.getD 1 "0")))
      | "remove" => some (.removeDims s (natList (args.drop 2)))
      | "remove_higher" => some (.removeHigher s (tokNat (args.getD 1 "0")))
      | "unconstrain" => some (.unconstrain s (natList (args.drop 2)))
      | "closure" => some (.closure s)
      | "expand" => some (.expand s (tokNat (args.getD 1 "0")) (tokNat (args.getD 2 "0")))
      | "fold" => some (.fold s (natList (args.drop 3)) (tokNat (args.getD 1 "0")))
      | "map" => some (.mapDims s ((args.drop 2).map fun t => if t.startsWith "-" then none else some (tokNat t)))
      | "intersection" => some (.intersection s (tokNat (args.getD 1 "0")))
      | "hull" => some (.hull s (tokNat (args.getD 1 "0")))
      | "time_elapse" => some (.timeElapse s (tokNat (args.getD 1 "0")))
      | "concat" => some (.concat s (tokNat (args.getD 1 "0")))
      | "copy" => some (.copy s (tokNat (args.getD 1 "0")))
      | _ => none
    op.map fun o => ⟨k, name, o, ans, ps, exc⟩
  | _ => none

def obsStr : Obs → String
  | .none => "-"
  | .bool b => if b then "1" else "0"
  | .ext none => "0"
  | .ext (some e) => s!"1 {e.num} {e.den} {if e.included then 1 else 0} {rowStr e.gen}"

/-- the real answer in the same form -/
def realAnsStr (nnc : Bool) (d : Nat) (op : Op) (ans : List String) : String :=
  match op with
  | .maxMin _ _ _ =>
    if ans.getD 0 "0" == "1" then
      let (g, _) := parseRow d (ans.drop 4)
      let g := if nnc then g else { g with eps := 0 }
      s!"1 {tokInt (ans.getD 1 "0")} {tokInt (ans.getD 2 "1")} {ans.getD 3 "0"} {rowStr g}"
    else "0"
  | _ => if op.isObserver && !ans.isEmpty then ans.getD 0 "-" else "-"

/-! ### reference step -/

abbrev RWorld := Nat → Option RefPoly

def RWorld.set (w : RWorld) (i : Nat) (x : Option RefPoly) : RWorld := fun j => if j = i then x else w j

/-- the reference world after the call (`none` for a slot = not computable, re-seeded from the real state),
    and the reference answer of an observer -/
def refStep (nnc : Bool) (rw : RWorld) (pre : Nat → FPoly) (op : Op) : RWorld × Option String :=
  let b2s := fun (b : Bool) => if b then "1" else "0"
  match op with
  | .isEmpty s => (rw, (rw s).map fun r => b2s r.isEmpty)
  | .contains s t => (rw, match rw s, rw t with | some a, some b => some (b2s (a.contains b)) | _, _ => none)
  | .equals s t => (rw, match rw s, rw t with | some a, some b => some (b2s (a.equiv b)) | _, _ => none)
  | .relationWithGen s k g => (rw, (rw s).map fun r => b2s (!r.isEmpty && r.subsumes (genOfArg k g)))
  | .bounds s e above =>
    (rw, ((rw s).filter fun r => r.n ≤ 3 && r.cs.length ≤ 8).map fun r =>
      match (if above then r.sup e else r.inf e) with
      | .unbounded => "0"
      | _ => "1")
  | .maxMin s e mx =>
    (rw, ((rw s).filter fun r => r.n ≤ 3 && r.cs.length ≤ 8).map fun r =>
      match (if mx then r.sup e else r.inf e) with
      | .val n d att => s!"1 {n} {d} {if att then 1 else 0}"
      | _ => "0")
  | .copy d s => (rw.set d (rw s), none)
  | .addConstraint s c | .refineWithConstraint s c =>
    (rw.set s ((rw s).map fun r => r.addCons (Row.toCons nnc c)), none)
  | .addGenerator s k g =>
    let r := match rw s, gensOfPoly (pre s).p with
      | some r0, some gs => if r0.isEmpty then ofGensSmall nnc r0.n (hullGens [[genOfArg k g]])
                            else ofGensSmall nnc r0.n (hullGens [gs, [genOfArg k g]])
      | _, _ => none
    (rw.set s r, none)
  | .affineImage s v e den => (rw.set s ((rw s).map (·.affineImage v e den)), none)
  | .affinePreimage s v e den => (rw.set s ((rw s).map (·.affinePreimage v e den)), none)
  | .generalizedAffineImage s v r e den => (rw.set s ((rw s).map (·.genAffineImage v r e den)), none)
  | .boundedAffineImage s v lb ub den =>
    (rw.set s (((rw s).filter fun r => r.n ≤ 2 && r.cs.length ≤ 6).map (·.boundedAffineImage v lb ub den)), none)
  | .embed s m => (rw.set s ((rw s).map (·.addDimsEmbed m)), none)
  | .project s m => (rw.set s ((rw s).map (·.addDimsProject m)), none)
  | .removeDims s vars => (rw.set s ((rw s).map (·.removeDims vars)), none)
  | .removeHigher s nd => (rw.set s ((rw s).map (·.removeHigherDims nd)), none)
  | .unconstrain s vars => (rw.set s ((rw s).map (·.unconstrain vars)), none)
  | .closure s => (rw.set s ((rw s).map (·.closure)), none)
  | .expand s v m => (rw.set s (((rw s).filter fun r => r.n ≤ 3 && r.cs.length ≤ 6).map (·.expandDim v m)), none)
  | .mapDims s f =>
    let newDim := f.foldl (fun m o => match o with | some k => max m (k + 1) | none => m) 0
    let pairs := (f.zipIdx.filterMap fun (o, j) => o.map fun k => (j, k))
    (rw.set s (((rw s).filter fun r => r.cs.length ≤ 6).map fun r => if r.n == 0 then r else r.mapDims newDim pairs), none)
  | .fold s vars dest =>
    let r := match rw s, gensOfPoly (pre s).p with
      | some r0, some gs =>
        if vars.isEmpty then some r0
        else if gs.isEmpty then some (emptyP nnc (r0.n - vars.length))
        else if r0.n ≤ 3 && gs.length ≤ 5 then some (r0.foldGens vars dest gs) else none
      | _, _ => none
    (rw.set s r, none)
  | .intersection s t => (rw.set s (match rw s, rw t with | some a, some b => some (a.meet b) | _, _ => none), none)
  | .concat s t => (rw.set s (match rw s, rw t with | some a, some b => some (a.concat b) | _, _ => none), none)
  | .hull s t =>
    let r := match rw s, rw t, gensOfPoly (pre s).p, gensOfPoly (pre t).p with
      | some a, some b, some gx, some gy =>
        if b.isEmpty then some a else if a.isEmpty then some b else ofGensSmall nnc a.n (hullGens [gx, gy])
      | some a, some b, _, _ => if b.isEmpty then some a else if a.isEmpty then some b else none
      | _, _, _, _ => none
    (rw.set s r, none)
  | .timeElapse s t =>
    let r := match rw s, rw t, gensOfPoly (pre s).p, gensOfPoly (pre t).p with
      | some a, some b, some gx, some gy =>
        if a.isEmpty || b.isEmpty then some (emptyP nnc a.n) else ofGensSmall nnc a.n (timeElapseGens gx gy)
      | some a, some b, _, _ => if a.isEmpty || b.isEmpty then some (emptyP nnc a.n) else none
      | _, _, _, _ => none
    (rw.set s r, none)
  | _ => (rw, none)

def sizeOK (ex : RefPoly) (r : FPoly) (maxRows : Nat) : Bool :=
  ex.n ≤ 3 && ex.cs.length ≤ 10 && r.p.cs.rows.length ≤ 10 &&
    -- `checkDD` (FM on the lifted generator system) only on small generator systems
    (!(r.p.st.gUp && !r.p.st.cPend && !r.p.st.empty) ||
      (ex.n ≤ 3 && r.p.gs.rows.length ≤ (if r.p.nnc then maxRows - 3 else maxRows)))

def refSmall (r : Option RefPoly) : Bool := match r with | some x => x.n ≤ 3 && x.cs.length ≤ 10 | none => true

structure HState where
  hid : String := ""
  nnc : Bool := false
  model : World := fun _ => default
  real : World := fun _ => default
  ref : RWorld := fun _ => none
  steps : Nat := 0
  bad : Nat := 0
  active : Bool := false

def processLine (line : String) (maxRows : Nat) (resync : Bool) (h : HState) : IO HState := do
  let ts := (line.trimAscii.toString.splitOn " ").filter (· != "")
  match ts with
  | "crash" :: sig =>
    IO.println s!"MISMATCH {h.hid} ? ? crash {" ".intercalate sig}"
    return { h with active := false }
  | "begin" :: hid :: nnc :: _ =>
    return { hid := hid, nnc := nnc == "1", active := true }
  | "init" :: s :: rest =>
    let (p, _) := parseFPoly h.nnc rest
    let i := tokNat s
    return { h with model := h.model.set i p, real := h.real.set i p, ref := h.ref.set i (refOf p.p) }
  | "end" :: _ =>
    if h.active then IO.println s!"ok {h.hid} steps={h.steps} bad={h.bad}"
    return { h with active := false }
  | "step" :: _ =>
    if !h.active then return h
    match parseStep h.nnc (fun s => (h.real s).dim) ts with
    | none => IO.println s!"skip {h.hid} parse {ts.getD 2 "?"}"; return { h with active := false }
    | some st =>
      match st.exc with
      | some e =>
        IO.println s!"exc {h.hid} {st.k} {st.name} {e}"
        return { h with active := false }
      | none =>
        let (mw, obs) := h.model.step st.op
        let slots := st.op.slots
        let pre := stStr (h.real (slots.getD 0 0)).st
        -- real world after the step
        let realW := st.posts.foldl (fun w (ip : Nat × FPoly) => w.set ip.1 ip.2) h.real
        let post := stStr (realW (slots.getD 0 0)).st
        -- 1. states
        let errs := st.posts.filterMap fun (ip : Nat × FPoly) =>
          match (cmpState (mw ip.1) ip.2).1 with
          | some e => some s!"slot{ip.1} {e}"
          | none => none
        -- 2. answers
        let d := (h.real (slots.getD 0 0)).dim
        let ra := realAnsStr h.nnc d st.op st.ans
        let ma := if st.op.isObserver then obsStr obs else "-"
        let ansErr := if ra != ma && ra != "-" then some s!"answer model={ma} real={ra}" else none
        -- 3. the reference
        let small := slots.all fun i => refSmall (h.ref i) && (h.real i).p.gs.rows.length ≤ maxRows
        let (rw, refAns) := if small then refStep h.nnc h.ref h.real st.op
                            else (slots.foldl (fun (w : RWorld) i => w.set i none) h.ref, none)
        let semMsgs := slots.filterMap fun i =>
          match rw i with
          | none => none
          | some ex =>
            let r := realW i
            if !sizeOK ex r maxRows then none else (semCheck r.p ex).map fun m => s!"slot{i}: {m}"
        let ansSem : Option String := match refAns, st.op with
          | some a, .maxMin _ _ _ =>
            -- value and attainment (the witness generator is not part of the reference answer)
            let realCore := " ".intercalate ((ra.splitOn " ").take 4)
            if a == realCore || (a == "0" && ra == "0") then none else some s!"answer real={realCore} reference={a}"
          | some a, _ => if a == ra || ra == "-" then none else some s!"answer real={ra} reference={a}"
          | none, _ => none
        let semAll := semMsgs ++ (match ansSem with | some m => [m] | none => [])
        let nChecks := (slots.filter fun i => match rw i with
          | some ex => sizeOK ex (realW i) maxRows
          | none => false).length + (if refAns.isSome then 1 else 0)
        let semStr := if semAll.isEmpty then (if nChecks == 0 then "sem=noref" else s!"sem=ok checks={nChecks}")
                      else "sem=BAD " ++ "; ".intercalate semAll
        -- a reference that could not be computed is re-seeded from the real state
        -- … and a reference just found K1-equivalent to the real constraint system is replaced by it (it is smaller)
        let rw' := slots.foldl (fun (w : RWorld) i => match w i with
          | none => w.set i (refOf (realW i).p)
          | some ex =>
            let r := (realW i).p
            if semAll.isEmpty && !r.st.empty && r.st.cUp && !r.st.gPend && r.dim == ex.n && r.cs.rows.length < ex.cs.length
            then w.set i (refOf r) else w) rw
        let allErr := errs ++ (match ansErr with | some e => [e] | none => [])
        if allErr.isEmpty then
          if semAll.isEmpty then
            IO.println s!"s {h.hid} {st.k} {st.name} pre={pre} post={post} nnc={if h.nnc then 1 else 0} dim={d} {semStr}"
          else
            IO.println s!"MISMATCH {h.hid} {st.k} {st.name} sem pre={pre} post={post} {semStr}"
          return { h with model := mw, real := realW, ref := rw', steps := h.steps + 1,
                          bad := h.bad + (if semAll.isEmpty then 0 else 1) }
        else
          IO.println s!"MISMATCH {h.hid} {st.k} {st.name} rows pre={pre} post={post} {semStr} | {" || ".intercalate allErr}"
          if resync then
            return { h with model := realW, real := realW, ref := rw', steps := h.steps + 1, bad := h.bad + 1 }
          else
            return { h with active := false, bad := h.bad + 1 }
  | _ => return h

partial def loop (s : IO.FS.Stream) (maxRows : Nat) (resync : Bool) (h : HState) : IO Unit := do
  let line ← s.getLine
  if line.isEmpty then return ()
  let t0 ← IO.monoMsNow
  let h' ← processLine line maxRows resync h
  (← IO.getStdout).flush
  let t1 ← IO.monoMsNow
  if t1 - t0 > 3000 then IO.eprintln s!"slow {t1 - t0}ms {h.hid} {line.take 70}"
  loop s maxRows resync h'

end PolyFullDriver

def main (args : List String) : IO UInt32 := do
  let resync := args.contains "--resync"
  let stdin ← IO.getStdin
  PolyFullDriver.loop stdin 8 resync {}
  return 0
