import PPLV.WR.Model

/-! `pplv_wr`: replays a journal of `harness/c04_shapes.cc` and judges every reported result and
every answer with K1's deciders and K3's best abstraction.

    pplv_wr --mode c04|c03

* `c04` (T = mpq): predicates and queries must equal the exact answer in both polarities; exact
  operators must return the exact set; upper bound / difference / fold / constructors from generators
  and from other domains at ANY_COMPLEXITY must return `best K exact`; `upper_bound_assign_if_exact`
  answers true iff the union is in the domain; everything else must contain the exact result.
* `c03` (every T): every result contains the exact result computed from the arguments *as the library
  reports them*; `is_empty` / `contains` / `is_disjoint_from` answering true must be right.

Verdict lines: `ok <ln>`, `skip <ln> <why>`, `MISMATCH <ln> <obligation> <detail>`, `info <ln> <what>`. -/
open PPLV.Lin PPLV.WR

inductive Cls | exact | best | sound
deriving DecidableEq, Repr, Inhabited

structure Pending where
  ln : Nat
  slot : Nat
  name : String
  nOut : Nat
  pieces : List (List Con)       -- the exact result as a union of convex pieces
  cls : Cls
  before : Option RefPoly         -- receiver before the op
  other : Option RefPoly := none
  ret : Option Bool := none
  exc : Option String := none
  modelled : Bool := true
deriving Inhabited

structure St where
  c03 : Bool := false
  kind : ShapeKind := .bds
  opn : Bool := false                  -- the domain stores open bounds
  slots : Array (Option RefPoly) := Array.replicate 8 none   -- tightest reading since the last mutation
  cur : Array (Option RefPoly) := Array.replicate 8 none     -- latest reading (C03: may be weaker)
  pending : Option Pending := none
  lastOp : String := "?"
  nOk : Nat := 0
  nBad : Nat := 0
  nSkip : Nat := 0

abbrev M := StateT St IO

def getSlot (i : Nat) : M (Option RefPoly) := do return (← get).slots.getD i none
def setSlot (i : Nat) (p : Option RefPoly) : M Unit :=
  modify fun s => { s with slots := s.slots.setIfInBounds i p, cur := s.cur.setIfInBounds i p }
def getCur (i : Nat) : M (Option RefPoly) := do return (← get).cur.getD i none
def setCur (i : Nat) (p : Option RefPoly) : M Unit :=
  modify fun s => { s with cur := s.cur.setIfInBounds i p }

def ok (ln : Nat) : M Unit := do
  modify fun s => { s with nOk := s.nOk + 1 }
  IO.println s!"ok {ln}"
def bad (ln : Nat) (what : String) : M Unit := do
  modify fun s => { s with nBad := s.nBad + 1 }
  IO.println s!"MISMATCH {ln} {what}"
def skip (ln : Nat) (why : String) : M Unit := do
  modify fun s => { s with nSkip := s.nSkip + 1 }
  IO.println s!"skip {ln} {why}"
def info (ln : Nat) (what : String) : M Unit := IO.println s!"info {ln} {what}"

def b2s (b : Bool) : String := if b then "1" else "0"
def mk (n : Nat) (cs : List Con) : RefPoly := ⟨true, n, cs⟩

def shrinkCs (n : Nat) (cs : List Con) : List Con :=
  if cs.length ≤ 10 then cs else dropRedundant n [] (tidy cs)

/-- a congruence `Σ a_i x_i + k ≡ 0 (mod m)` as rows: `(rows of a necessary part, exactly expressible)` -/
def cgRows (m k : Int) (cf : List Int) : List Con × Bool :=
  if m == 0 then (eqRows cf k, true)
  else if cf.all (· == 0) then
    (if k % m == 0 then ([], true) else ([falseRow], true))
  else (eqRows cf k, false)      -- one of the hyperplanes of the congruence: a subset of the exact result

def parseCgs (n : Nat) (ts : List String) : List Con × Bool :=
  match ts with
  | cnt :: rest =>
    let rec go (k : Nat) (ts : List String) (acc : List Con) (ex : Bool) : List Con × Bool :=
      match k with
      | 0 => (acc, ex)
      | k+1 =>
        match ts with
        | m :: kk :: r =>
          let (cf, r') := takeInts n r
          let (rows, e) := cgRows (tokInt m) (tokInt kk) cf
          go k r' (acc ++ rows) (ex && e)
        | _ => (acc, ex)
    go (tokNat cnt) rest [] true
  | [] => ([], true)

def rowsExpressible (K : ShapeKind) (opn : Bool) (rows : List Con) : Bool :=
  rows.all fun c => rowInKind K c && (!c.strict || (K == .box && opn) || c.allZero)

/-- DESIGN §4 (iii): constant right-hand side, or one variable with coefficient `d` (bds, oct) / `−d` (oct) -/
def affExpressible (K : ShapeKind) (e : LinExpr) (d : Int) : Bool :=
  match nonzeroIdx e.coeffs with
  | [] => true
  | [w] =>
    let a := e.coeffs.getD w 0
    match K with
    | .box => false
    | .bds => a == d
    | .oct => a == d || a == -d
  | _ => false

/-- `{p + y | p ∈ A, y = t·q, q ∈ B, t > 0}` over `(x, y, t)` projected on `x` -/
def elapsePiece (n : Nat) (A B : List Con) : List Con :=
  let rowsA := A.map fun c =>
    let cf := padTo n c.coeffs
    ({ c with coeffs := cf ++ cf.map (- ·) } : Con)
  let rowsB := B.map fun c =>
    ({ c with coeffs := List.replicate n 0 ++ padTo n c.coeffs ++ [c.k], k := 0 } : Con)
  let tpos : Con := gtRow (List.replicate (2 * n) 0 ++ [1]) 0
  projectTo n (2 * n + 1) (tpos :: rowsA ++ rowsB)

/-- the pieces `P[w ↦ v]` of `fold_space_dimensions(vs, v)` -/
def foldPieces (p : RefPoly) (v : Nat) (vs : List Nat) : Nat × List (List Con) :=
  let kept := otherVars p.n vs
  let newIdx (j : Nat) : Nat := (kept.idxOf j)
  let nOut := kept.length
  let piece (w : Nat) : List Con :=
    let f := (kept.filter (· != v)).map (fun j => (j, newIdx j)) ++ [(w, newIdx v)]
    (p.mapDims nOut f).cs
  (nOut, (v :: vs).map piece)

structure OpRes where
  nOut : Nat
  pieces : List (List Con)
  cls : Cls
  modelled : Bool := true

/-- the exact result of a mutator applied to the reported argument sets -/
def applyOp (K : ShapeKind) (opn : Bool) (p : RefPoly) (name : String) (args : List String)
    (other : Nat → Option RefPoly) : OpRes :=
  let n := p.n
  let one (q : RefPoly) (c : Cls) : OpRes := ⟨q.n, [q.cs], c, true⟩
  let unknown : OpRes := ⟨n, [], .sound, false⟩
  let withOther (t : String) (f : RefPoly → OpRes) : OpRes :=
    match other (tokNat t) with
    | some q => f q
    | none => unknown
  match name, args with
  | "add_cons", a =>
    let rows := (parseCS n a).1
    one (p.addCons rows) (if rowsExpressible K opn rows then .exact else .sound)
  | "refine_cons", a =>
    let rows := (parseCS n a).1
    one (p.addCons rows) (if rowsExpressible K opn rows then .exact else .sound)
  | "add_cgs", a =>
    let (rows, ex) := parseCgs n a
    one (p.addCons rows) (if ex && rowsExpressible K opn rows then .exact else .sound)
  | "refine_cgs", a =>
    let (rows, ex) := parseCgs n a
    one (p.addCons rows) (if ex && rowsExpressible K opn rows then .exact else .sound)
  | "meet", [t] => withOther t fun q => one (p.meet q) .exact
  | "join", [t] => withOther t fun q => ⟨n, [p.cs, q.cs], .best, true⟩
  | "join_if_exact", [t] => withOther t fun q => ⟨n, [p.cs, q.cs], .best, true⟩
  | "diff", [t] => withOther t fun q => ⟨n, diffPieces p.cs q.cs, .best, true⟩
  | "concat", [t] => withOther t fun q => one (p.concat q) .exact
  | "time_elapse", [t] => withOther t fun q =>
    if q.isEmpty || p.isEmpty then ⟨n, [], .sound, true⟩
    else ⟨n, [p.cs, elapsePiece n p.cs q.cs], .sound, true⟩
  | "simplify_ctx", [t] => withOther t fun q => one (p.meet q) .sound
  | "aff_img", v :: d :: a =>
    let e := (parseExpr n a).1
    one (p.affineImage (tokNat v) e (tokInt d)) (if affExpressible K e (tokInt d) then .exact else .sound)
  | "aff_pre", v :: d :: a =>
    let e := (parseExpr n a).1
    one (p.affinePreimage (tokNat v) e (tokInt d)) (if affExpressible K e (tokInt d) then .exact else .sound)
  | "gen_img", v :: r :: d :: a => one (p.genAffineImage (tokNat v) (parseRel r) (parseExpr n a).1 (tokInt d)) .sound
  | "gen_pre", v :: r :: d :: a => one (p.genAffinePreimage (tokNat v) (parseRel r) (parseExpr n a).1 (tokInt d)) .sound
  | "gen_img2", r :: a =>
    let (lhs, a') := parseExpr n a
    let (rhs, _) := parseExpr n a'
    one (p.genAffineImage2 lhs (parseRel r) rhs) .sound
  | "gen_pre2", r :: a =>
    let (lhs, a') := parseExpr n a
    let (rhs, _) := parseExpr n a'
    one (p.genAffinePreimage2 lhs (parseRel r) rhs) .sound
  | "bnd_img", v :: d :: a =>
    let (lb, a') := parseExpr n a
    let (ub, _) := parseExpr n a'
    one (p.boundedAffineImage (tokNat v) lb ub (tokInt d)) .sound
  | "bnd_pre", v :: d :: a =>
    let (lb, a') := parseExpr n a
    let (ub, _) := parseExpr n a'
    one (p.boundedAffinePreimage (tokNat v) lb ub (tokInt d)) .sound
  | "unconstrain", _ :: vs => one (p.unconstrain (vs.map tokNat)) .sound
  | "closure", _ => one p.closure .sound
  | "add_dims_embed", [m] => one (p.addDimsEmbed (tokNat m)) .exact
  | "add_dims_project", [m] => one (p.addDimsProject (tokNat m)) .exact
  | "remove_dims", _ :: vs => one (p.removeDims (vs.map tokNat)) .exact
  | "remove_higher", [m] => one (p.removeHigherDims (tokNat m)) .exact
  | "map_dims", nOut :: _ :: prs =>
    let rec pairs : List String → List (Nat × Nat)
      | a :: b :: r => (tokNat a, tokNat b) :: pairs r
      | _ => []
    one (p.mapDims (tokNat nOut) (pairs prs)) .exact
  | "expand", [v, m] => one (p.expandDim (tokNat v) (tokNat m)) .exact
  | "fold", v :: _ :: vs =>
    let (nOut, ps) := foldPieces p (tokNat v) (vs.map tokNat)
    ⟨nOut, ps, .best, true⟩
  | _, _ => unknown

/-- the exact set a constructor is given -/
def applyNew (n : Nat) (how : String) (rest : List String) : OpRes :=
  let cplxCls (c : String) : Cls := if c == "any" then .best else .sound
  match how, rest with
  | "univ", _ => ⟨n, [[]], .exact, true⟩
  | "empty", _ => ⟨n, [[falseRow]], .exact, true⟩
  | "cons", a => ⟨n, [(parseCS n a).1], .exact, true⟩
  | "gens", a => ⟨n, [gensToCons n (parseGS n a).1], .best, true⟩
  | "poly", _ :: c :: _ :: a => ⟨n, [(parseCS n a).1], cplxCls c, true⟩
  | "grid", c :: a => ⟨n, [gensToCons n (parseGS n a).1], cplxCls c, true⟩
  | "from", _ :: c :: a => ⟨n, [(parseCS n a).1], cplxCls c, true⟩
  | _, _ => ⟨n, [], .sound, false⟩

def supStr : Sup → String
  | .empty => "empty"
  | .unbounded => "unbounded"
  | .val p q a => s!"{p}/{q} att={b2s a}"

def supMatches (s : Sup) (num den : Int) (incl : Bool) : Bool :=
  match s with
  | .val p q a => decide (p * den = num * q) && (a == incl)
  | _ => false

/-- tight bounds of `p` in the template directions: a direction `e` with `sup_p(e) + sup_q(−e) < 0`
    separates the two sets -/
def singleDirSeparates (K : ShapeKind) (p q : RefPoly) : Bool :=
  (dirs K p.n).any fun e =>
    match supB p.n e 0 p.cs, supB p.n (e.map (- ·)) 0 q.cs with
    | .val a b _, .val c d _ => decide (a * d + c * b < 0)
    | _, _ => false

/-- judge a reported result against the expectation -/
def judge (ln : Nat) (c03 : Bool) (K : ShapeKind) (site : String) (e : OpRes) (R : List Con) : M Unit := do
  if !e.modelled then skip ln s!"not-modelled {site}" else
  let n := e.nOut
  let pieces := e.pieces.map (shrinkCs n)
  let lost := pieces.filter fun P => !subsetB n P R
  if !lost.isEmpty then
    bad ln s!"unsound {site}: the result cuts away points of the exact result ({lost.length} of {pieces.length} pieces not contained)"
  else
    let cls := if c03 then Cls.sound else e.cls
    match cls with
    | .sound =>
      ok ln
      -- information only: is the result also the best / the exact one?
      if !c03 then
        if e.pieces.length == 1 && subsetB n R (pieces.headD []) then info ln s!"precise exact {site}"
        else if subsetB n R (bestU K n pieces) then info ln s!"precise best {site}"
        else info ln s!"precise no {site}"
    | .exact =>
      if subsetB n R (pieces.headD []) then ok ln
      else bad ln s!"notexact {site}: the result is larger than the exact result, which the domain can express"
    | .best =>
      if subsetB n R (bestU K n pieces) then ok ln
      else bad ln s!"notbest {site}: the result is not the smallest element of the domain containing the exact result"

def processLine (ln : Nat) (line : String) : M Unit := do
  let ts := (line.trimAscii.toString.splitOn " ").filter (· ≠ "")
  let st ← get
  let K := st.kind
  let c03 := st.c03
  match ts with
  | "hist" :: _ :: _ :: kind :: _ :: opn :: _ =>
    let k := if kind == "box" then ShapeKind.box else if kind == "bds" then .bds else .oct
    modify fun s => { s with slots := Array.replicate 8 none, cur := Array.replicate 8 none, pending := none, kind := k, opn := opn == "1" }
  | "new" :: s :: n :: how :: rest =>
    let e := applyNew (tokNat n) how rest
    let nm : String := "new:" ++ how
    let pd : Pending := { ln := ln, slot := tokNat s, name := nm, nOut := e.nOut,
                          pieces := e.pieces, cls := e.cls, before := none, modelled := e.modelled }
    modify fun st => { st with pending := some pd, lastOp := nm }
  | ["copy", d, s] =>
    let c ← getCur (tokNat s)
    setSlot (tokNat d) (← getSlot (tokNat s))
    setCur (tokNat d) c
  | ["swap", a, b] =>
    let pa ← getSlot (tokNat a); let pb ← getSlot (tokNat b)
    let ca ← getCur (tokNat a); let cb ← getCur (tokNat b)
    setSlot (tokNat a) pb; setSlot (tokNat b) pa
    setCur (tokNat a) cb; setCur (tokNat b) ca
  | "arg" :: s :: n :: _ :: rest =>
    let nn := tokNat n
    let cs := (parseCS nn rest).1
    match ← getSlot (tokNat s) with
    | some p =>
      if p.n != nn then
        bad ln s!"history arg: space dimension {nn}, expected {p.n}"
        setSlot (tokNat s) (some (mk nn cs))
      else if c03 then
        -- every reading of an object contains its internal set; for inexact T a later reading (reduced form)
        -- may be weaker than an earlier one: keep the tightest reading as the argument
        if subsetB nn p.cs cs then
          ok ln
          setCur (tokNat s) (some (mk nn cs))
        else
          bad ln "history arg: the reported set lost points without a mutator"
          setSlot (tokNat s) (some (mk nn cs))
      else
        if equivB nn p.cs cs then ok ln else bad ln "history arg: the reported set changed without a mutator"
        setSlot (tokNat s) (some (mk nn cs))
    | none => setSlot (tokNat s) (some (mk nn cs))
  | "op" :: s :: name :: args =>
    let si := tokNat s
    match ← getSlot si with
    | some p =>
      let lookup (i : Nat) : Option RefPoly :=
        if c03 && name == "diff" then st.cur.getD i none else st.slots.getD i none
      let e := applyOp K st.opn p name args lookup
      let oth := match args with
        | [t] => st.slots.getD (tokNat t) none
        | _ => none
      match oth with
      | some q => IO.println s!"info {ln} emptyops {b2s p.isEmpty} {b2s q.isEmpty}"
      | none => pure ()
      let pd : Pending := { ln := ln, slot := si, name := name, nOut := e.nOut, pieces := e.pieces,
                            cls := e.cls, before := some p, other := oth, modelled := e.modelled }
      modify fun st => { st with pending := some pd, lastOp := name }
    | none => modify fun st => { st with pending := none, lastOp := name }
  | ["ret", b] =>
    modify fun st => { st with pending := st.pending.map fun p => { p with ret := some (b == "1") } }
  | "exc" :: cls :: _ =>
    match st.pending with
    | some p =>
      modify fun st => { st with pending := some { p with exc := some cls } }
      if cls == "invalid_argument" || cls == "length_error" then skip ln s!"documented-exception {p.name} {cls}"
      else bad ln s!"exception {p.name}: undocumented exception class {cls}"
    | none => skip ln s!"exception-outside-op {cls}"
  | "res" :: s :: n :: kind :: rest =>
    let si := tokNat s
    let nn := tokNat n
    let R := (parseCS nn rest).1
    if kind == "cons" then
      match st.pending with
      | some p =>
        modify fun st => { st with pending := none }
        if p.slot != si then skip ln "res-without-op"
        else if p.exc.isSome then
          -- the operation threw: the receiver must be unchanged
          match p.before with
          | some b =>
            if b.n == nn && equivB nn b.cs R then ok ln else bad ln s!"exception {p.name}: the receiver changed although the call threw"
          | none => skip ln "constructor-threw"
        else if p.nOut != nn && p.modelled then
          bad ln s!"dimension {p.name}: result has {nn} dimensions, expected {p.nOut}"
        else if p.name == "join_if_exact" then
          match p.before, p.other, p.ret with
          | some a, some b, some r =>
            if c03 then
              let need := if r then [a.cs, b.cs] else [a.cs]
              if need.all fun P => subsetB nn P R then ok ln
              else bad ln s!"unsound join_if_exact: ret={b2s r}, the result cuts away points"
            else
              let want := unionInDomain K nn a.cs b.cs
              if want != r then
                let neg := if want then "" else " not"
                bad ln s!"ret join_if_exact: library answers {b2s r}, the union is{neg} an element of the domain"
              else if r then
                if equivB nn R (bestU K nn [a.cs, b.cs]) then ok ln
                else bad ln "notexact join_if_exact: answered true but the result is not the union"
              else
                if equivB nn R a.cs then ok ln
                else bad ln "notexact join_if_exact: answered false but the receiver changed"
          | _, _, _ => skip ln "join_if_exact-incomplete"
        else
          judge ln c03 K p.name ⟨p.nOut, p.pieces, p.cls, p.modelled⟩ R
      | none => skip ln "res-without-op"
      setSlot si (some (mk nn (shrinkCs nn R)))
    else
      -- a second / third reading of the same object
      match ← getSlot si with
      | some p =>
        if p.n != nn then bad ln s!"readings {kind}: dimension {nn} vs {p.n}"
        else if c03 then
          if subsetB nn p.cs R then ok ln else bad ln s!"readings {kind}: this reading of the result lacks points of constraints()"
        else if equivB nn p.cs R then ok ln
        else bad ln s!"readings {kind}: this reading of the result differs from constraints()"
      | none => skip ln "unknown-slot"
  | "obs" :: s :: n :: kind :: rest =>
    let nn := tokNat n
    match ← getSlot (tokNat s) with
    | none => skip ln "unknown-slot"
    | some p =>
      let cs := (parseCS nn rest).1
      if p.n != nn then bad ln s!"history obs {kind}: dimension {nn} vs {p.n}"
      else if c03 then
        if subsetB nn p.cs cs then ok ln else bad ln s!"history obs {kind}: lost points without a mutator"
      else if equivB nn p.cs cs then ok ln
      else bad ln s!"history obs {kind}: the reported set changed without a mutator"
  | "q" :: s :: qn :: rest =>
    modify fun st => { st with lastOp := "query:" ++ qn }
    match ← getSlot (tokNat s) with
    | none => skip ln "unknown-slot"
    | some p =>
      let other (t : String) : Option RefPoly := st.slots.getD (tokNat t) none
      let cmpB (model : Bool) (ans : String) : M Unit :=
        if b2s model == ans then ok ln else bad ln s!"query {qn}: library {ans}, set dictates {b2s model}"
      -- C03: only a `true` must be right
      let definite (model : Bool) (ans : String) : M Unit :=
        if ans == "1" && !model then bad ln s!"definite {qn}: library answers true, the sets say false"
        else if ans == "1" then ok ln else skip ln "c03-indefinite"
      let withOther (t : String) (f : RefPoly → M Unit) : M Unit :=
        match other t with
        | some q =>
          if q.n == p.n then do
            IO.println s!"info {ln} emptyops {b2s p.isEmpty} {b2s q.isEmpty}"
            f q
          else skip ln "dimension"
        | none => skip ln "unknown-slot"
      if c03 then
        -- I_x ⊆ latest reading of x, tightest reading of y ⊆ I_y: `contains` true implies tight(y) ⊆ latest(x)
        let pc := (st.cur.getD (tokNat s) none).getD p
        if qn == "is_empty" then definite p.isEmpty (rest.getD 0 "")
        else if qn == "contains" then withOther (rest.getD 0 "") fun q => definite (pc.contains q) (rest.getD 1 "")
        else if qn == "disjoint" then withOther (rest.getD 0 "") fun q => definite (p.disjoint q) (rest.getD 1 "")
        else skip ln "c03-not-judged"
      else if qn == "is_empty" then cmpB p.isEmpty (rest.getD 0 "")
      else if qn == "is_universe" then cmpB p.isUniverse (rest.getD 0 "")
      else if qn == "is_bounded" then cmpB p.isBounded (rest.getD 0 "")
      else if qn == "is_closed" then cmpB p.isClosed (rest.getD 0 "")
      else if qn == "contains" then withOther (rest.getD 0 "") fun q => cmpB (p.contains q) (rest.getD 1 "")
      else if qn == "strictly_contains" then
        withOther (rest.getD 0 "") fun q => cmpB (p.contains q && !q.contains p) (rest.getD 1 "")
      else if qn == "disjoint" then withOther (rest.getD 0 "") fun q => do
        let m := p.disjoint q
        let ans := rest.getD 1 ""
        if b2s m == ans then ok ln
        else
          let tag := if m && !singleDirSeparates K p q then " [no-single-direction-separates]" else ""
          bad ln s!"query disjoint: library {ans}, set dictates {b2s m}{tag}"
      else if qn == "equals" then withOther (rest.getD 0 "") fun q => do
        let m := p.equiv q
        if b2s m == rest.getD 1 "" && b2s (!m) == rest.getD 2 "" then ok ln
        else bad ln s!"query equals: library == {rest.getD 1 ""} != {rest.getD 2 ""}, set dictates {b2s m}"
      else if qn == "constrains" then cmpB (p.constrains (tokNat (rest.getD 0 ""))) (rest.getD 1 "")
      else if qn == "affdim" then
        let d := rest.getD 0 ""
        if p.affineDim == tokNat d then ok ln else bad ln s!"query affdim: library {d}, set dictates {p.affineDim}"
      else if qn == "relcon" then
        let (rows, r') := parseCon p.n rest
        match r' with
        | [fd, fs, fi, fsat] =>
          let rel := rest.getD 0 ""
          let k := rest.getD 1 ""
          let cf := (takeInts p.n (rest.drop 2)).1
          let hyper := eqRows cf (tokInt k)
          let rows' := if rel == "=" then hyper else rows
          let (dj, inc, sat) := p.relCon rows' hyper
          let si := !dj && !inc
          let good := (fd == b2s dj) && (fi == b2s inc) && (fs == b2s si) && (fsat == b2s sat)
          if good then ok ln
          else bad ln s!"query relcon: library D{fd} S{fs} I{fi} T{fsat}, set dictates D{b2s dj} S{b2s si} I{b2s inc} T{b2s sat}"
        | _ => skip ln "parse"
      else if qn == "relcg" then
        match rest with
        | m :: k :: r =>
          let (cf, r') := takeInts p.n r
          match r' with
          | [fd, fs, fi, fsat] =>
            let mm := tokInt m; let kk := tokInt k
            if mm == 0 then
              let hyper := eqRows cf kk
              let (dj, inc, sat) := p.relCon hyper hyper
              let si := !dj && !inc
              if (fd == b2s dj) && (fi == b2s inc) && (fs == b2s si) && (fsat == b2s sat) then ok ln
              else bad ln s!"query relcg(equality): library D{fd} S{fs} I{fi} T{fsat}, set dictates D{b2s dj} S{b2s si} I{b2s inc} T{b2s sat}"
            else
              -- the values of e = cf·x + k over the set form an interval [lo, hi]
              let e : LinExpr := ⟨cf, kk⟩
              let hi := p.sup e; let lo := p.inf e
              -- (disjoint, included): exact for a convex set
              let verdict : Option (Bool × Bool) :=
                match lo, hi with
                | .empty, _ => some (true, true)
                | _, .empty => some (true, true)
                | .val a b la, .val c d ha =>
                  -- lo = a/b, hi = c/d ; lattice points m·t in [lo, hi] (respecting openness)
                  let am := if mm < 0 then -mm else mm
                  -- smallest multiple of am that is ≥ lo (or > lo when lo is not attained)
                  let t0 := Int.fdiv a (b * am)             -- floor(lo / am)
                  let c0 := t0 * am
                  let cand := [c0, c0 + am, c0 + 2 * am]
                  let inside (v : Int) : Bool :=
                    (if la then decide (a ≤ v * b) else decide (a < v * b)) &&
                    (if ha then decide (v * d ≤ c) else decide (v * d < c))
                  let hit := cand.any inside
                  let single := decide (a * d = c * b)
                  some (!hit, hit && single)
                | _, _ => some (false, false)   -- unbounded on one side: strictly intersects
              match verdict with
              | some (dj, inc) =>
                let si := !dj && !inc
                let sat := inc       -- the library reports `saturates` together with `is_included` for congruences
                let _ := sat
                if (fd == b2s dj) && (fi == b2s inc) && (fs == b2s si) then ok ln
                else bad ln s!"query relcg: library D{fd} S{fs} I{fi} T{fsat}, set dictates D{b2s dj} S{b2s si} I{b2s inc} (values of e: {supStr lo} .. {supStr hi})"
              | none => skip ln "relcg"
          | _ => skip ln "parse"
        | _ => skip ln "parse"
      else if qn == "relgen" then
        match parseGen p.n rest with
        | (some g, [a]) =>
          let sub :=
            !p.isEmpty && match g.kind with
              | .point => p.hasPoint g.coords g.div
              | .cpoint => ({ p with cs := relax p.cs } : RefPoly).hasPoint g.coords g.div
              | .ray => p.hasRay g.coords
              | .line => p.hasRay g.coords && p.hasRay (g.coords.map (- ·))
          cmpB sub a
        | _ => skip ln "parse"
      else if qn == "bounds_above" then
        let (e, r) := parseExpr p.n rest
        cmpB (match p.sup e with | .unbounded => false | _ => true) (r.getD 0 "")
      else if qn == "bounds_below" then
        let (e, r) := parseExpr p.n rest
        cmpB (match p.inf e with | .unbounded => false | _ => true) (r.getD 0 "")
      else if qn == "has_ub" || qn == "has_lb" then
        let v := tokNat (rest.getD 0 "")
        let e : LinExpr := ⟨unitRow v 1, 0⟩
        let s := if qn == "has_ub" then p.sup e else p.inf e
        match rest.drop 1 with
        | ["none"] =>
          (match s with
           | .val .. => bad ln s!"query {qn}: library reports no bound, set dictates {supStr s}"
           | _ => ok ln)
        | [num, den, closed] =>
          (match s with
           | .empty => skip ln "has-bound-on-empty"
           | _ =>
             if supMatches s (tokInt num) (tokInt den) (closed == "1") then ok ln
             else bad ln s!"query {qn}: library {num}/{den} closed={closed}, set dictates {supStr s}")
        | _ => skip ln "parse"
      else if qn == "max" || qn == "min" || qn == "maxp" || qn == "minp" then
        let (e, r) := parseExpr p.n rest
        let s := if qn == "max" || qn == "maxp" then p.sup e else p.inf e
        match r with
        | ["none"] =>
          (match s with
           | .val .. => bad ln s!"query {qn}: library reports no optimum, set dictates {supStr s}"
           | _ => ok ln)
        | num :: den :: incl :: gt =>
          if !supMatches s (tokInt num) (tokInt den) (incl == "1") then
            bad ln s!"query {qn}: library {num}/{den} incl={incl}, set dictates {supStr s}"
          else
            match parseGen p.n gt with
            | (some g, _) =>
              let inCl := ({ p with cs := relax p.cs } : RefPoly).hasPoint g.coords g.div
              let v := (List.zipWith (· * ·) e.coeffs g.coords).foldl (· + ·) 0 + e.k * g.div
              if inCl && decide (v * tokInt den = tokInt num * g.div) &&
                 (incl == "0" || p.hasPoint g.coords g.div) then ok ln
              else bad ln s!"query {qn}: witness point does not attain the optimum inside the set"
            | _ => ok ln
        | _ => skip ln "parse"
      else skip ln s!"unknown-query {qn}"
  | "note" :: "okfalse" :: _ =>
    -- for inexact T the closure is not idempotent and OK() re-computes it: information only
    if c03 then info ln s!"okfalse {st.lastOp}"
    else bad ln s!"invalid {st.lastOp}: OK() is false, the object violates its class invariant"
  | "note" :: "nan" :: _ =>
    bad ln s!"invalid {st.lastOp}: a bound of the object is Not-a-Number"
  | ["reset", s, n] =>
    setSlot (tokNat s) (some (mk (tokNat n) []))
  | "crash" :: sig =>
    bad ln s!"crash {" ".intercalate sig}"
  | _ => pure ()

partial def loop (h : IO.FS.Stream) (ln : Nat) : M Unit := do
  let line ← h.getLine
  if line.isEmpty then return ()
  let t0 ← IO.monoMsNow
  processLine ln line
  let t1 ← IO.monoMsNow
  if t1 - t0 > 500 then IO.eprintln s!"slow {ln} {t1 - t0}ms {line.take 80}"
  loop h (ln + 1)

def main (args : List String) : IO UInt32 := do
  let c03 := match args with
    | ["--mode", "c03"] => true
    | _ => false
  let stdin ← IO.getStdin
  let ((), st) ← (loop stdin 1).run { c03 := c03 }
  IO.println s!"summary ok={st.nOk} mismatch={st.nBad} skipped={st.nSkip}"
  return 0
