import PPLV.Checked.Spec
import PPLV.Checked.Bounded
import PPLV.Checked.ModelAsWritten
import PPLV.Checked.FloatJudge
import PPLV.Checked.FloatModel
import PPLV.Checked.ConvMp
/-!
`pplv_c11`: reads the journal of `harness/c11_checked.cc` on stdin (grammar there) and, for every
executed case, (1) runs the code-shaped model `IntOp.run`, (2) evaluates — independently of the
model — `K4.holds`, `K4.directed`, `K4.overflowHolds` and `storedOK` **on the real output**
against the exact result of the operation.

Output: `ok <id> …` per case / per table, or
`MISMATCH <id> <obligations joined by +> T=… P=… op=… dir=… to0=… x=… y=… e=… real=<stored>,<code>
model=<stored>,<code> exact=… tags=…`
where an obligation is `holds`, `directed`, `overflow`, `stored` (property clauses broken by the
real output) or `model` (the real output differs from the model's).  `skip` counts cases outside
the contract `IntOp.pre`.  At the end: `stat`, `sample` and `total` lines (evidence).
-/
open PPLV.Checked

structure Cfg where
  types : List (String × IntTy) := []
  pols : List (String × Policy) := []
  fixes : Fixes := {}
  fmts : List (String × FloatFmt) := []
  fpols : List (String × FPolicy) := []

def Cfg.ty (c : Cfg) (n : String) : Option IntTy := (c.types.find? (·.1 == n)).map (·.2)
def Cfg.pol (c : Cfg) (n : String) : Option Policy := (c.pols.find? (·.1 == n)).map (·.2)

def tokInt (s : String) : Int := s.toInt?.getD 0
def tokNat (s : String) : Nat := s.toNat?.getD 0
def tokB (s : String) : Bool := s != "0"

def parseOp (c : Cfg) (s : String) : Option IntOp :=
  match s with
  | "neg" => some .neg | "abs" => some .abs | "add" => some .add | "sub" => some .sub | "mul" => some .mul
  | "div" => some .div | "idiv" => some .idiv | "rem" => some .rem | "addMul" => some .addMul
  | "subMul" => some .subMul | "add2exp" => some .add2exp | "sub2exp" => some .sub2exp
  | "mul2exp" => some .mul2exp | "div2exp" => some .div2exp | "smod2exp" => some .smod2exp
  | "umod2exp" => some .umod2exp | "sqrt" => some .sqrt | "gcd" => some .gcd | "lcm" => some .lcm
  | _ =>
    match s.splitOn ":" with
    | ["assign", f, pf] => do
      let ft ← c.ty f
      let fp ← c.pol pf
      some (.assign ft fp)
    | _ => none

def showExact : Exact → String
  | .nan => "nan" | .minf => "-inf" | .pinf => "+inf"
  | .frac n d => if d == 1 then toString n else s!"{n}/{d}"
  | .sqrt n d => if d == 1 then s!"sqrt({n})" else s!"sqrt({n}/{d})"

structure Stat where
  n : Nat := 0
  nontrivial : Nat := 0
  skipped : Nat := 0
  bad : Nat := 0

structure St where
  cfg : Cfg := {}
  stats : List (String × Stat) := []       -- key "T P op"
  samples : List String := []
  nSamplesFor : List (String × Nat) := []
  total : Stat := {}
  -- current table
  tabId : String := ""
  tabT : String := ""
  tabP : String := ""
  tabOp : String := ""
  tabDir : Nat := 0
  tabTo0 : Int := 0
  tabKind : String := ""
  tabStat : Stat := {}
  tabMis : Nat := 0

abbrev M := StateT St IO

def bump (key : String) (f : Stat → Stat) : M Unit :=
  modify fun s =>
    let rec go : List (String × Stat) → List (String × Stat)
      | [] => [(key, f {})]
      | (k, v) :: rest => if k == key then (k, f v) :: rest else (k, v) :: go rest
    { s with stats := go s.stats, total := f s.total }

/-- tags describing the structural class of a failing input (for known-finding predicates) -/
def tagsOf (t : IntTy) (π : Policy) (op : IntOp) (dir : Dir) (a : Operands) (realStored : Int) : List String :=
  let x := t.denote π a.x
  let y := t.denote π a.y
  let fx := match x with | .fin _ => true | _ => false
  let fy := match y with | .fin _ => true | _ => false
  let base := (if t.signed then ["signed"] else ["unsigned"]) ++
    (if dir == .up || dir == .down then ["directed"] else ["undirected"])
  let d := match op with
    | .div =>
      if t.signed && fx && fy && a.y < 0 && a.y != -1 && a.x.tmod a.y != 0 && (dir == .up || dir == .down)
      then ["negative_divisor_inexact_quotient"] else []
    | .umod2exp =>
      if t.signed && fx && a.x < 0 && a.e + 1 == t.bits && (match t.denote π realStored with | .fin _ => false | _ => true)
      then ["negative_operand_result_is_special_encoding"] else []
    | .lcm =>
      if t.signed && ((fx && -a.x > t.emax π) || (fy && -a.y > t.emax π)) then ["abs_of_operand_overflows"] else []
    | .subMul =>
      if t.signed && fx && fy && a.to0 == 0 && a.x * a.y == t.emax π + 1 then ["zero_minuend_product_is_max_plus_one"] else []
    | .sqrt =>
      if t.signed && fx && a.x ≥ pow2 (t.bits - 2) then ["signed_operand_ge_quarter_range"] else []
    | _ => []
  base ++ d

structure CaseOut where
  skipped : Bool
  obligations : List String
  nontrivial : Bool
  line : Unit → String

def checkCase (fx : Fixes) (t : IntTy) (π : Policy) (tn pn opn : String) (op : IntOp) (dirN : Nat) (a : Operands)
    (realStored : Int) (realCode : Nat) : CaseOut :=
  match Dir.ofCode dirN with
  | none => { skipped := true, obligations := [], nontrivial := false, line := fun _ => "" }
  | some dir =>
    if !IntOp.pre t π op a then { skipped := true, obligations := [], nontrivial := false, line := fun _ => "" }
    else
      let realRes := Result.ofNat realCode
      let (ms, mr) := IntOp.runM fx t π op dir a
      let msw := t.wrap ms
      let exact := IntOp.exact t π op a
      let st := t.denote π realStored
      let obs : List String :=
        (if K4.holdsB realRes st exact then [] else ["holds"]) ++
        (if K4.directedB dir realRes st exact then [] else ["directed"]) ++
        (if K4.overflowHoldsB realRes (t.emin π) (t.emax π) exact then [] else ["overflow"]) ++
        (if storedOK t π realStored realRes then [] else ["stored"]) ++
        (if msw == realStored && mr.toNat == realCode && ms == msw then [] else ["model"])
      let nontriv := realCode != 1
      let line : Unit → String := fun _ =>
        let desc := s!"T={tn} P={pn} op={opn} dir={dirN} to0={a.to0} x={a.x} y={a.y} e={a.e} real={realStored},{realCode} model={msw},{mr.toNat} exact={showExact exact}"
        if obs.isEmpty then desc
        else desc ++ " tags=" ++ ",".intercalate (tagsOf t π op dir a realStored)
      { skipped := false, obligations := obs, nontrivial := nontriv, line := line }

/-- conversions from mpz / mpq / double / float: the exact value is given by the journal
(`x` = numerator, `y` = denominator or `e` = binary exponent of the denominator).  For mpz and mpq the
model (`assignMpz`, `assignMpq`) is compared as well; for floating point only the property clauses
are evaluated on the real output (the float kernel is not modelled). -/
def checkConv (t : IntTy) (π : Policy) (tn pn opn : String) (dirN : Nat) (a : Operands)
    (realStored : Int) (realCode : Nat) : CaseOut :=
  match Dir.ofCode dirN with
  | none => { skipped := true, obligations := [], nontrivial := false, line := fun _ => "" }
  | some dir =>
    let kind := (opn.splitOn ":").headD ""
    let special := (opn.splitOn ":").getD 1 ""
    let exact : Exact :=
      if special == "nan" then .nan else if special == "pinf" then .pinf else if special == "minf" then .minf
      else if kind == "assignZ" then .frac a.x 1
      else if kind == "assignQ" then .frac a.x a.y
      else .frac a.x (pow2 a.e)
    let realRes := Result.ofNat realCode
    let st := t.denote π realStored
    let model : Option (Int × Result) :=
      if kind == "assignZ" then some (assignMpz t π a.to0 a.x dir)
      else if kind == "assignQ" then some (assignMpq t π a.to0 a.x a.y dir)
      else none
    let modelBad := match model with
      | some (ms, mr) => !(t.wrap ms == realStored && mr.toNat == realCode && ms == t.wrap ms)
      | none => false
    let obs : List String :=
      (if K4.holdsB realRes st exact then [] else ["holds"]) ++
      (if K4.directedB dir realRes st exact then [] else ["directed"]) ++
      (if K4.overflowHoldsB realRes (t.emin π) (t.emax π) exact then [] else ["overflow"]) ++
      (if storedOK t π realStored realRes then [] else ["stored"]) ++
      (if modelBad then ["model"] else [])
    let prec := if kind == "assignF" then 24 else 53
    let tags : List String :=
      (if kind == "assignD" || kind == "assignF" then
        -- the value exceeds max (is below min) but not the floating-point image of max (min)
        (match exact with
         | .frac n d =>
           (if n > t.emax π * d && n ≤ fpUp prec (t.emax π) * d then ["above_max_within_float_rounding_of_max"] else []) ++
           (if n < t.emin π * d && n ≥ -(fpUp prec (-(t.emin π))) * d then ["below_min_within_float_rounding_of_min"] else [])
         | _ => [])
       else [])
    let line : Unit → String := fun _ =>
      let ms := match model with | some (m, r) => s!"{t.wrap m},{r.toNat}" | none => "-"
      let desc := s!"T={tn} P={pn} op={kind} dir={dirN} to0={a.to0} x={a.x} y={a.y} e={a.e} real={realStored},{realCode} model={ms} exact={showExact exact}"
      if obs.isEmpty then desc else desc ++ " tags=" ++ ",".intercalate tags
    { skipped := false, obligations := obs, nontrivial := realCode != 1, line := line }

/-- `assign_r(mpz_class, mpq_class, dir)` (journal family `zFromQ`; `dirN` carries `ROUND_STRICT_RELATION`):
the code's relation and the direction are judged on the real output; the model `Mp.assignMpzMpq` is compared -/
def checkZFromQ (dirN : Nat) (n d : Int) (realStored : Int) (realCode : Nat) : CaseOut :=
  match Dir.ofCode dirN with
  | none => { skipped := true, obligations := [], nontrivial := false, line := fun _ => "" }
  | some dir =>
    -- ROUND_NOT_NEEDED promises an integral operand
    if dir == .notNeeded && d != 1 then { skipped := true, obligations := [], nontrivial := false, line := fun _ => "" }
    else
    let strict := dirN / 8 % 2 == 1
    let exact : Exact := .frac n d
    let realRes := Result.ofNat realCode
    let st : Ext Int := .fin realStored
    let (ms, mr) := Mp.assignMpzMpq n d dir strict
    let obs : List String :=
      (if K4.holdsB realRes st exact then [] else ["holds"]) ++
      (if K4.directedB dir realRes st exact then [] else ["directed"]) ++
      (if ms == realStored && mr.toNat == realCode then [] else ["model"])
    let line : Unit → String := fun _ =>
      s!"T=mpz P=EN op=zFromQ dir={dirN} to0=0 x={n} y={d} e=0 real={realStored},{realCode} model={ms},{mr.toNat} exact={showExact exact}"
    { skipped := false, obligations := obs, nontrivial := realCode != 1, line := line }

/-- `gcdext_assign_r(to, s, t, x, y)` judged on the real output (journal family `gx`): a `V_EQ` result
claims `to = gcd(x, y) ≥ 0` and `s·x + t·y = to` over the integers; any other code is judged by the usual
clauses against the exact result `gcd(x, y)`.  Operands that are special encodings are skipped. -/
def checkGcdext (t : IntTy) (π : Policy) (tn pn : String) (dirN : Nat) (x y to0 to s tt : Int) (code : Nat) : CaseOut :=
  match Dir.ofCode dirN, t.denote π x, t.denote π y with
  | some dir, .fin _, .fin _ =>
    let g : Int := Int.ofNat (Int.gcd x y)
    let exact := Exact.ofInt g
    let r := Result.ofNat code
    let st := t.denote π to
    let obs : List String :=
      if code == 1 then
        (if to == g then [] else ["holds"]) ++ (if s * x + tt * y == to then [] else ["bezout"])
      else
        (if K4.holdsB r st exact then [] else ["holds"]) ++
        (if K4.directedB dir r st exact then [] else ["directed"]) ++
        (if K4.overflowHoldsB r (t.emin π) (t.emax π) exact then [] else ["overflow"]) ++
        (if storedOK t π to r then [] else ["stored"])
    let tags : List String :=
      (if t.signed then ["signed"] else ["unsigned"]) ++
      (if x == 0 && y == 0 then ["both_operands_zero"] else []) ++
      (if t.signed && (-x > t.emax π || -y > t.emax π) then ["abs_of_operand_overflows"] else []) ++
      (if !t.signed && code == 1 && !(x == 0 && y == 0) then ["unsigned_bezout_coefficient_wraps"] else [])
    let line : Unit → String := fun _ =>
      let desc := s!"T={tn} P={pn} op=gcdext dir={dirN} to0={to0} x={x} y={y} e=0 real={to};s={s};t={tt},{code} model=- exact={showExact exact}"
      if obs.isEmpty then desc else desc ++ " tags=" ++ ",".intercalate tags
    { skipped := false, obligations := obs, nontrivial := code != 1 || g != 1, line := line }
  | _, _, _ => { skipped := true, obligations := [], nontrivial := false, line := fun _ => "" }

def hexVal (b : UInt8) : Nat :=
  if b ≥ 48 && b ≤ 57 then (b - 48).toNat else if b ≥ 97 && b ≤ 102 then (b - 87).toNat else 0

def relOfSpecRel (r : Rel) : Nat := r.toNat

def addSample (key : String) (line : String) : M Unit := do
  let s ← get
  let cnt := ((s.nSamplesFor.find? (·.1 == key)).map (·.2)).getD 0
  if cnt < 2 then
    let rec go : List (String × Nat) → List (String × Nat)
      | [] => [(key, 1)]
      | (k, v) :: rest => if k == key then (k, v + 1) :: rest else (k, v) :: go rest
    set { s with samples := line :: s.samples, nSamplesFor := go s.nSamplesFor }

def addSampleLazy (key : String) (line : Unit → String) : M Unit := do
  let s ← get
  let cnt := ((s.nSamplesFor.find? (·.1 == key)).map (·.2)).getD 0
  if cnt < 2 then addSample key (line ())

def record (key : String) (id : String) (o : CaseOut) (perCase : Bool) : M Unit := do
  if o.skipped then
    bump key fun s => { s with skipped := s.skipped + 1 }
    if perCase then IO.println s!"skip {id}"
  else
    let bad := !o.obligations.isEmpty
    bump key fun s => { s with n := s.n + 1, nontrivial := s.nontrivial + (if o.nontrivial then 1 else 0),
                                bad := s.bad + (if bad then 1 else 0) }
    if bad then
      let obs := "+".intercalate o.obligations
      IO.println s!"MISMATCH {id} {obs} {o.line ()}"
    else
      if perCase then IO.println s!"ok {id}"
      if o.nontrivial then addSample key (o.line ())

def handleRow (key : Nat) (data : ByteArray) : M Unit := do
  let s ← get
  let some t := s.cfg.ty s.tabT | return
  let some π := s.cfg.pol s.tabP | return
  let skey := s!"{s.tabT} {s.tabP} {s.tabOp}"
  let id := s.tabId
  match s.tabKind with
  | "cmp" =>
    for i in [0:256] do
      let real := hexVal (data.get! i)
      let x := t.wrap key
      let y := t.wrap i
      let inC := true
      let m := (cmpExt t π x y).toNat
      bump skey fun st => { st with n := st.n + 1 }
      if inC && m != real then
        bump skey fun st => { st with bad := st.bad + 1 }
        IO.println s!"MISMATCH {id} model T={s.tabT} P={s.tabP} op=cmp dir=0 to0=0 x={x} y={y} e=0 real=0,{real} model=0,{m} exact=- tags="
  | "sgn" =>
    for i in [0:256] do
      let real := hexVal (data.get! i)
      let x := t.wrap i
      let m := (sgnExt t π x).toNat
      bump skey fun st => { st with n := st.n + 1 }
      if m != real then
        bump skey fun st => { st with bad := st.bad + 1 }
        IO.println s!"MISMATCH {id} model T={s.tabT} P={s.tabP} op=sgn dir=0 to0=0 x={x} y=0 e=0 real=0,{real} model=0,{m} exact=- tags="
  | "cls" =>
    for i in [0:256] do
      let real := hexVal (data.get! (3*i)) * 256 + hexVal (data.get! (3*i+1)) * 16 + hexVal (data.get! (3*i+2))
      let x := t.wrap i
      let m := (classify t π x (key / 4 % 2 == 1) (key / 2 % 2 == 1) (key % 2 == 1)).toNat
      bump skey fun st => { st with n := st.n + 1 }
      if m != real then
        bump skey fun st => { st with bad := st.bad + 1 }
        IO.println s!"MISMATCH {id} model T={s.tabT} P={s.tabP} op=classify dir={key} to0=0 x={x} y=0 e=0 real=0,{real} model=0,{m} exact=- tags="
  | kind =>
    let some op := parseOp s.cfg s.tabOp | return
    let ft : IntTy := match op with | .assign f _ => f | _ => t
    let mut n := 0
    let mut nt := 0
    let mut sk := 0
    let mut bad := 0
    let mut sampleLine : Option String := none
    for i in [0:256] do
      let b0 := data.get! (5*i)
      if b0 == 45 then     -- '-'
        sk := sk + 1
      else
        let sb := hexVal b0 * 16 + hexVal (data.get! (5*i+1))
        let code := hexVal (data.get! (5*i+2)) * 256 + hexVal (data.get! (5*i+3)) * 16 + hexVal (data.get! (5*i+4))
        let a : Operands :=
          match kind with
          | "bin" => { to0 := s.tabTo0, x := t.wrap key, y := t.wrap i }
          | "un" => { to0 := s.tabTo0, x := t.wrap i }
          | "exp" => { to0 := s.tabTo0, x := t.wrap i, e := key }
          | "asg8" => { to0 := s.tabTo0, x := ft.wrap i }
          | _ => { to0 := s.tabTo0, x := ft.wrap (key * 256 + i) }
        let o := checkCase s.cfg.fixes t π s.tabT s.tabP s.tabOp op s.tabDir a (t.wrap sb) code
        if o.skipped then sk := sk + 1
        else
          n := n + 1
          if o.nontrivial then
            nt := nt + 1
            if sampleLine.isNone && o.obligations.isEmpty then sampleLine := some (o.line ())
          if !o.obligations.isEmpty then
            bad := bad + 1
            let obs := "+".intercalate o.obligations
            IO.println s!"MISMATCH {id} {obs} {o.line ()}"
    let (n', nt', sk', bad') := (n, nt, sk, bad)
    bump skey fun st => { st with n := st.n + n', nontrivial := st.nontrivial + nt', skipped := st.skipped + sk', bad := st.bad + bad' }
    if let some l := sampleLine then addSample skey l

/-- `prog` lines: a straight-line coefficient computation, run by the library in a bounded
configuration (`B`) and over `mpz_class` (`U`).  Obligation `bounded`: if the bounded run did not throw,
its registers are those of the unbounded run.  Obligation `model`: the model (`IntOp.run` + `throws`,
i.e. `stepB`) predicts the bounded run (exception index and registers). -/
def progOp (s : String) : Option IntOp :=
  match s with
  | "neg" => some .neg | "abs" => some .abs | "add" => some .add | "sub" => some .sub | "mul" => some .mul
  | "addMul" => some .addMul | "subMul" => some .subMul | "div" => some .div | "rem" => some .rem
  | "gcd" => some .gcd | "lcm" => some .lcm | _ => none

def runProgModel (fx : Fixes) (t : IntTy) (π : Policy) (instrs : List String) (regs : Array Int) : Option Nat × Array Int := Id.run do
  let mut r := regs
  let mut k := 0
  for ins in instrs do
    match ins.splitOn ":" with
    | [nm, d, a, b] =>
      match progOp nm with
      | some op =>
        let di := tokNat d
        let out := IntOp.runM fx t π op .ignore { to0 := r[di]!, x := r[tokNat a]!, y := r[tokNat b]! }
        if throws out.2 then return (some k, r)
        r := r.set! di (t.wrap out.1)
      | none => return (some 999, r)
    | _ => return (some 999, r)
    k := k + 1
  return (none, r)

def handleProg (id tn : String) (rest : List String) : M Unit := do
  let s ← get
  let some t := s.cfg.ty tn | return
  let some π := s.cfg.pol "BIC" | return
  -- rest = k instr*k | r0 r1 r2 r3 | B outcome r0..r3 | U r0..r3
  let parts := (" ".intercalate rest).splitOn " | "
  match parts with
  | [p1, p2, p3, p4] =>
    let instrs := (p1.splitOn " ").drop 1
    let init := ((p2.splitOn " ").map tokInt).toArray
    let b := p3.splitOn " "
    let outcome := b.getD 1 ""
    let bregs := ((b.drop 2).map tokInt).toArray
    let uregs := (((p4.splitOn " ").drop 1).map tokInt).toArray
    let (mexc, mregs) := runProgModel s.cfg.fixes t π instrs init
    let bexc : Option Nat := if outcome == "ok" then none else (outcome.splitOn ":").getLast?.map tokNat
    let key := s!"{tn} BIC prog"
    let mut obs : List String := []
    if bexc.isNone && bregs != uregs then obs := obs ++ ["bounded"]
    -- after an exception the destination may have been partly written (lcm stores the quotient first): only
    -- the position of the exception is compared
    if mexc != bexc || (bexc.isNone && mregs != bregs) then obs := obs ++ ["model"]
    let nt := bexc.isSome
    let nobs := obs
    bump key fun st => { st with n := st.n + 1, nontrivial := st.nontrivial + (if nt then 1 else 0),
                                  bad := st.bad + (if nobs.isEmpty then 0 else 1) }
    if obs.isEmpty then IO.println s!"ok {id}"
    else
      let o := "+".intercalate obs
      let ins := ",".intercalate instrs
      IO.println s!"MISMATCH {id} {o} T={tn} P=BIC op=prog dir=6 to0=0 x=0 y=0 e=0 real={outcome} model={mexc} exact=- prog={ins} init={init.toList} B={bregs.toList} U={uregs.toList} M={mregs.toList} tags="
  | _ => IO.println s!"MISMATCH {id} parse prog"

/-! ### floating point: judged on the real output only (`FloatJudge.lean`) -/

def parseQV (s : String) : QV :=
  if s == "nan" then .nan else if s == "+inf" then .pinf else if s == "-inf" then .minf
  else match s.splitOn "/" with
    | [n, d] => .fin (tokInt n) (tokInt d)
    | _ => match s.splitOn ":" with
      | [m, k] =>
        let mi := tokInt m
        let ki := tokInt k
        if ki ≥ 0 then .fin mi (pow2big ki.toNat) else .fin (mi * pow2big (-ki).toNat) 1
      | _ => .nan

def parseFloatOp (s : String) : Option FloatOp :=
  match s with
  | "neg" => some .neg | "abs" => some .abs | "sqrt" => some .sqrt | "floor" => some .floor | "ceil" => some .ceil
  | "trunc" => some .trunc | "add" => some .add | "sub" => some .sub | "mul" => some .mul | "div" => some .div
  | "rem" => some .rem | "addMul" => some .addMul | "subMul" => some .subMul | "add2exp" => some .add2exp
  | "sub2exp" => some .sub2exp | "mul2exp" => some .mul2exp | "div2exp" => some .div2exp
  | "smod2exp" => some .smod2exp | "umod2exp" => some .umod2exp
  | "assignI" | "assignZ" | "assignQ" | "assignF" | "toZ" | "toQ" => some .assign
  | _ => none

def showQX : QX → String
  | .val .nan => "nan" | .val .minf => "-inf" | .val .pinf => "+inf"
  | .val (.fin n d) => if d == 1 then toString n else s!"{n}/{d}"
  | .sqrt n d => s!"sqrt({n}/{d})"

/-- structural classes of float inputs (for known-finding predicates) -/
def floatTags (fmt : FloatFmt) (opn : String) (to0 x y : QV) : List String :=
  let isFinite (v : QV) : Bool := match v with | .fin _ _ => true | _ => false
  let t1 := if opn == "sqrt" && (x.sgn < 0) then ["negative_operand_nan_unclassified"] else []
  let t2 := if (opn == "smod2exp" || opn == "umod2exp") && x.isInf then ["infinite_operand_nan_unclassified"] else []
  let t3 := if (opn == "addMul" || opn == "subMul") && to0.isInf && isFinite x && isFinite y
            then ["infinite_accumulator_finite_product"] else []
  let t4 := match opn, x with
    | "assignQ", .fin n d =>
      if n == 0 then [] else
      let a := n.natAbs
      let e0 : Int := (a.log2 : Int) - (d.natAbs.log2 : Int)       -- bits(n) - bits(d)
      -- floor(log2 |n/d|) is e0 or e0 - 1
      let ge : Bool := if e0 ≥ 0 then decide ((a : Int) ≥ d * pow2big e0.toNat) else decide ((a : Int) * pow2big (-e0).toNat ≥ d)
      let ee := if ge then e0 else e0 - 1
      if !ge && ee < fmt.emin then ["denormal_result_quotient_mantissa_below_one"] else []
    | _, _ => []
  t1 ++ t2 ++ t3 ++ t4

partial def trailingZeros (a : Nat) (acc : Nat := 0) : Nat :=
  if a == 0 then acc else if a % 2 == 1 then acc else trailingZeros (a / 2) (acc + 1)

/-- the code-shaped model of `assign_float_mpz` against the library (obligation `model`) -/
def assignZModelBad (fmt : FloatFmt) (dirN : Nat) (x stored : QV) (code : Nat) : Bool :=
  match x, Dir.ofCode dirN with
  | .fin v 1, some dir =>
    if dir == .notNeeded then false else
    let f : FloatFormat := { mbits := fmt.p - 1, emax := fmt.emax }
    let a := v.natAbs
    let (ms, mr) := f.assignMpz v a.log2 (trailingZeros a) dir
    let same := match ms, stored with
      | .nan, .nan => true | .minf, .minf => true | .pinf, .pinf => true
      | .fin m, .fin n d => m * d == n
      | _, _ => false
    !(same && mr.toNat == code)
  | _, _ => false

/-- the code-shaped models of `assign_mpz_float` / `assign_mpz_long_double` (→ `assign_mpz_mpq`) and
`assign_mpq_float` against the library (obligation `model`; targets are `Extended_Number_Policy`) -/
def toZQModelBad (opn fn : String) (dirN : Nat) (x stored : QV) (code : Nat) : Bool :=
  match Dir.ofCode dirN with
  | some dir =>
    let strict := dirN / 8 % 2 == 1
    let (ms, mr) : QV × Result :=
      if opn == "toQ" then Mp.assignMpqFloat Policy.extended .nan x
      else match x with
        | .fin n d =>
          if fn == "f80" then
            let g : Int := Int.ofNat (Int.gcd n d)
            let o := Mp.assignMpzMpq (n / g) (d / g) dir strict
            (.fin o.1 1, o.2)
          else Mp.assignMpzFloat Policy.extended .nan .up x dir
        | _ => Mp.assignMpzFloat Policy.extended .nan .up x dir
    !(Mp.sameQV ms stored && mr.toNat == code)
  | none => false

def handleFloat (id fn pn opn d to0 x y e st code : String) : M Unit := do
  let s ← get
  let key := s!"{fn} {pn} {opn}"
  match (s.cfg.fmts.find? (·.1 == fn)).map (·.2), (s.cfg.fpols.find? (·.1 == pn)).map (·.2), parseFloatOp opn with
  | some fmt, some π, some op =>
    let (vt, vx, vy) := (parseQV to0, parseQV x, parseQV y)
    let v0 := judgeFloat fmt π op (tokNat d) vt vx vy (tokNat e) (parseQV st) (tokNat code)
    let v : FloatVerdict :=
      if opn == "assignZ" && !v0.skipped && assignZModelBad fmt (tokNat d) vx (parseQV st) (tokNat code)
      then { v0 with obligations := v0.obligations ++ ["model"] }
      else if (opn == "toZ" || opn == "toQ") && !v0.skipped && toZQModelBad opn fn (tokNat d) vx (parseQV st) (tokNat code)
      then { v0 with obligations := v0.obligations ++ ["model"] } else v0
    if v.skipped then
      bump key fun c => { c with skipped := c.skipped + 1 }
      IO.println s!"skip {id}"
    else
      let bad := !v.obligations.isEmpty
      let nt := tokNat code != 1
      bump key fun c => { c with n := c.n + 1, nontrivial := c.nontrivial + (if nt then 1 else 0), bad := c.bad + (if bad then 1 else 0) }
      let desc := fun (_ : Unit) =>
        let ex := showQX (op.exact vt vx vy (tokNat e))
        let exs := if ex.length > 160 then (ex.take 160).toString ++ "…" else ex
        s!"T={fn} P={pn} op={opn} dir={d} to0={to0} x={x} y={y} e={e} real={st},{code} model=- exact={exs}"
      if bad then
        let obs := "+".intercalate v.obligations
        let tags := ",".intercalate ("float" :: floatTags fmt opn vt vx vy)
        IO.println s!"MISMATCH {id} {obs} {desc ()} tags={tags}"
      else
        IO.println s!"ok {id}"
        if nt then addSampleLazy key desc
  | _, _, _ => IO.println s!"MISMATCH {id} parse float line"

def handleFloatQuery (id fn pn what x y aux ans : String) : M Unit := do
  let key := s!"{fn} {pn} {what}"
  let vx := parseQV x
  let expected : Nat :=
    if what == "cmp" then cmpSpec vx (parseQV y)
    else if what == "sgn" then sgnSpec vx
    else if what == "isint" then (if isIntSpec vx then 1 else 0)
    else let k := tokNat aux; classifySpec vx (k / 4 % 2 == 1) (k / 2 % 2 == 1) (k % 2 == 1)
  bump key fun c => { c with n := c.n + 1 }
  if expected == tokNat ans then IO.println s!"ok {id}"
  else
    bump key fun c => { c with bad := c.bad + 1 }
    -- a wrong answer of a query IS the property clause ("comparison … reports true relations")
    IO.println s!"MISMATCH {id} holds T={fn} P={pn} op={what} dir={aux} to0=0 x={x} y={y} e=0 real=0,{ans} model=0,{expected} exact=- tags=float"

partial def loop (h : IO.FS.Stream) : M Unit := do
  let line ← h.getLine
  if line.isEmpty then return
  let ts := line.trimAscii.toString.splitOn " "
  match ts with
  | ["cfg", "type", n, bits, sg, un, ua, us, um, lb] =>
    let ty : IntTy := IntTy.mk (tokNat bits) (tokB sg) (tokB un) (tokB ua) (tokB us) (tokB um) (tokNat lb)
    modify fun s => { s with cfg := { s.cfg with types := (n, ty) :: s.cfg.types } }
  | ["cfg", "policy", n, a, b, c, d, e, f, g, h', i, j] =>
    let po : Policy := Policy.mk (tokB a) (tokB b) (tokB c) (tokB d) (tokB e) (tokB f) (tokB g) (tokB h') (tokB i) (tokB j)
    modify fun s => { s with cfg := { s.cfg with pols := (n, po) :: s.cfg.pols } }
  | ["cfg", "float", fn, p, emax, emin, _mb] =>
    let fmt : FloatFmt := { p := tokNat p, emax := tokNat emax, emin := tokInt emin }
    modify fun s => { s with cfg := { s.cfg with fmts := (fn, fmt) :: s.cfg.fmts } }
  | ["cfg", "fpolicy", n, a, b, c, d, e, f, g, h', i, j, k, l] =>
    let po : Policy := Policy.mk (tokB a) (tokB b) (tokB c) (tokB d) (tokB e) (tokB f) (tokB g) (tokB h') (tokB i) (tokB j)
    let fp : FPolicy := { base := po, checkFpuInexact := tokB k, checkFpuNanResult := tokB l }
    modify fun s => { s with cfg := { s.cfg with fpols := (n, fp) :: s.cfg.fpols } }
  | ["f", id, fn, pn, opn, d, to0, x, y, e, st, code] => handleFloat id fn pn opn d to0 x y e st code
  | ["fq", id, fn, pn, what, x, y, aux, ans] => handleFloatQuery id fn pn what x y aux ans
  | ["cfg", "fix", name, v] =>
    modify fun s =>
      let f := s.cfg.fixes
      let on := tokB v
      let f' : Fixes := match name with
        | "div" => { f with div := on } | "subMul" => { f with subMul := on }
        | "umod" => { f with umod := on } | "isqrt" => { f with isqrt := on }
        | "lcm" => { f with lcm := on } | _ => f
      { s with cfg := { s.cfg with fixes := f' } }
  | ["tab", id, tn, pn, opn, d, to0, kind] =>
    modify fun s => { s with tabId := id, tabT := tn, tabP := pn, tabOp := opn, tabDir := tokNat d, tabTo0 := tokInt to0,
                             tabKind := kind }
  | ["r", key, data] => handleRow (tokNat key) data.toUTF8
  | ["end", id] => IO.println s!"done {id}"
  | ["c", id, tn, pn, opn, d, to0, x, y, e, st, code] =>
    let s ← get
    if opn == "zFromQ" then
      let o := checkZFromQ (tokNat d) (tokInt x) (tokInt y) (tokInt st) (tokNat code)
      record s!"{tn} {pn} zFromQ" id o true
    else
    if opn.startsWith "assignZ" || opn.startsWith "assignQ" || opn.startsWith "assignD" || opn.startsWith "assignF" then
      match s.cfg.ty tn, s.cfg.pol pn with
      | some t, some π =>
        let a : Operands := { to0 := tokInt to0, x := tokInt x, y := tokInt y, e := tokNat e }
        let o := checkConv t π tn pn opn (tokNat d) a (tokInt st) (tokNat code)
        let key := (opn.splitOn ":").headD ""
        record s!"{tn} {pn} {key}" id o true
      | _, _ => IO.println s!"MISMATCH {id} parse {line.trimAscii.toString}"
    else
    match s.cfg.ty tn, s.cfg.pol pn, parseOp s.cfg opn with
    | some t, some π, some op =>
      let a : Operands := { to0 := tokInt to0, x := tokInt x, y := tokInt y, e := tokNat e }
      let o := checkCase s.cfg.fixes t π tn pn opn op (tokNat d) a (tokInt st) (tokNat code)
      record s!"{tn} {pn} {opn}" id o true
    | _, _, _ => IO.println s!"MISMATCH {id} parse {line.trimAscii.toString}"
  | ["gx", id, tn, pn, d, x, y, to0, _s0, _t0, to, sv, tv, code] =>
    let s ← get
    match s.cfg.ty tn, s.cfg.pol pn with
    | some t, some π =>
      let o := checkGcdext t π tn pn (tokNat d) (tokInt x) (tokInt y) (tokInt to0) (tokInt to) (tokInt sv) (tokInt tv) (tokNat code)
      record s!"{tn} {pn} gcdext" id o true
    | _, _ => IO.println s!"MISMATCH {id} parse {line.trimAscii.toString}"
  | ["q", id, tn, pn, what, x, y, rel] =>
    let s ← get
    match s.cfg.ty tn, s.cfg.pol pn with
    | some t, some π =>
      let m := if what == "cmp" then (cmpExt t π (tokInt x) (tokInt y)).toNat else (sgnExt t π (tokInt x)).toNat
      bump s!"{tn} {pn} {what}" fun st => { st with n := st.n + 1 }
      if m == tokNat rel then IO.println s!"ok {id}"
      else
        bump s!"{tn} {pn} {what}" fun st => { st with bad := st.bad + 1 }
        IO.println s!"MISMATCH {id} model T={tn} P={pn} op={what} dir=0 to0=0 x={x} y={y} e=0 real=0,{rel} model=0,{m} exact=- tags="
    | _, _ => IO.println s!"MISMATCH {id} parse {line.trimAscii.toString}"
  | "prog" :: id :: tn :: rest => handleProg id tn rest
  | "crash" :: rest =>
    let st ← get
    let what := " ".intercalate rest
    IO.println s!"CRASH {what} table={st.tabId} T={st.tabT} P={st.tabP} op={st.tabOp}"
  | _ => pure ()
  loop h

def main (_args : List String) : IO UInt32 := do
  let h ← IO.getStdin
  let ((), s) ← (loop h).run {}
  for (k, v) in s.stats.reverse do
    IO.println s!"stat {k} n={v.n} nontrivial={v.nontrivial} skipped={v.skipped} bad={v.bad}"
  for l in s.samples.reverse do
    IO.println s!"sample {l}"
  IO.println s!"total n={s.total.n} nontrivial={s.total.nontrivial} skipped={s.total.skipped} bad={s.total.bad}"
  return 0
