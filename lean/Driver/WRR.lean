import PPLV.WR.ReduceOct
import PPLV.WR.Model
import PPLV.Lin.Parse
/-!
native driver `pplv_wrr` — correspondence of the reduction / exact-join models of `PPLV/WR/Reduce.lean`,
`PPLV/WR/ReduceOct.lean` with the real `BD_Shape<mpq_class>` / `Octagonal_Shape<mpq_class>` code, and the
judges of the conclusions of `PPLV/Props/C04Reduce.lean` on the real output.

stdin: the journal of `harness/c04_reduce.cc`, one event per line

    <id> bred <n> <scenario> <closed dbm> <redundancy_dbm> <minimized_constraints> <constraints> <affine_dim> <is_reduced>
    <id> ored <n> <scenario> <closed matrix> <non_redundant> <matrix after strong_reduction_assign>
                                 <minimized_constraints> <constraints> <affine_dim>
    <id> bub  <n> <scenario> <x closed> <y closed> <answer 0|1> <matrix after | ->
    <id> oub  <n> <scenario> <x closed> <y closed> <answer 0|1> <matrix after | ->

matrices as in `ascii_dump` (`;` rows, `,` entries, `+inf`), bit matrices as rows of `0`/`1` separated by `;`
(for `redundancy_dbm` `1` = redundant, for `non_redundant` `1` = not redundant), a constraint list is `-` or
`;`-separated `E|k|c0,c1,…` / `G|k|c0,…` (`k + Σ c_i·x_i = 0` resp. `≥ 0`, as the library stores them).

Per event one line: `ok <id> <kind> <coverage tags…>`, or `MISMATCH <id> <kind> <what> got=… want=…` (the
model does not compute what the library computed), and/or `JUDGE-FAIL <id> <kind> <what>` (the real output
contradicts a conclusion of the theorems: γ-equality of the reduced form, re-closure, affine dimension,
exactness of the join).
-/
open PPLV.WR
open PPLV.WR.ExtRat (fin pinf)
open PPLV.Lin (Con)

namespace WRRDriver

def parseRat (s : String) : Option Rat :=
  match s.splitOn "/" with
  | [n] => n.toInt?.map (fun i => (i : Rat))
  | [n, d] => do
    let n ← n.toInt?
    let d ← d.toNat?
    if d == 0 then none else some (mkRat n d)
  | _ => none

def parseExt (s : String) : Option ExtRat :=
  if s == "+inf" then some pinf else (parseRat s).map fin

def parseMat (s : String) : Option (List (List ExtRat)) :=
  (s.splitOn ";").mapM fun row => (row.splitOn ",").mapM parseExt

def showRat (q : Rat) : String := if q.den == 1 then toString q.num else s!"{q.num}/{q.den}"
def showExt : ExtRat → String
  | fin q => showRat q
  | pinf => "+inf"
def showMat (rows : List (List ExtRat)) : String :=
  ";".intercalate (rows.map fun r => ",".intercalate (r.map showExt))

def parseBits (s : String) : Option (List (List Bool)) :=
  (s.splitOn ";").mapM fun row => row.toList.mapM fun c =>
    if c == '0' then some false else if c == '1' then some true else none

def showBits (rows : List (List Bool)) : String :=
  ";".intercalate (rows.map fun r => String.ofList (r.map fun b => if b then '1' else '0'))

/-- a constraint as the library stores it: `k + Σ c_i x_i (= | ≥) 0` -/
structure PCon where
  isEq : Bool
  k : Int
  coeffs : List Int
  deriving DecidableEq, Repr

def parsePCon (s : String) : Option PCon :=
  match s.splitOn "|" with
  | [t, k, cs] => do
    let k ← k.toInt?
    let cs ← (cs.splitOn ",").mapM String.toInt?
    if t == "E" then some ⟨true, k, cs⟩ else if t == "G" then some ⟨false, k, cs⟩ else none
  | _ => none

def parsePCons (s : String) : Option (List PCon) :=
  if s == "-" then some [] else (s.splitOn ";").mapM parsePCon

def gcdAll (l : List Int) : Nat := l.foldl (fun g x => Nat.gcd g x.natAbs) 0

/-- canonical form: divided by the gcd, an equality with its first non-zero variable coefficient positive -/
def PCon.normalize (c : PCon) : PCon :=
  let g := gcdAll (c.k :: c.coeffs)
  let c : PCon := if g ≤ 1 then c else ⟨c.isEq, c.k / g, c.coeffs.map (· / g)⟩
  if c.isEq then
    match c.coeffs.find? (· ≠ 0) with
    | some a => if a < 0 then ⟨true, -c.k, c.coeffs.map (- ·)⟩ else c
    | none => c
  else c

def PCon.show (c : PCon) : String :=
  s!"{if c.isEq then "E" else "G"}|{c.k}|{",".intercalate (c.coeffs.map toString)}"

def showPCons (l : List PCon) : String := if l.isEmpty then "-" else ";".intercalate (l.map PCon.show)

/-- `Σ a·x (== | <=) rhs` in the library's form -/
def ofLCon (c : LCon) : PCon := (⟨c.isEq, c.rhs, c.coeffs.map (- ·)⟩ : PCon).normalize

def PCon.rows (c : PCon) : List Con :=
  if c.isEq then [⟨c.coeffs, c.k, false⟩, ⟨c.coeffs.map (- ·), -c.k, false⟩] else [⟨c.coeffs, c.k, false⟩]

/-- the constraint system of a difference-bound matrix -/
def matRows (n : Nat) (m : List (List ExtRat)) : List Con :=
  (List.range (n+1)).flatMap fun i => (List.range (n+1)).filterMap fun j =>
    if i = j then none else
    match (m.getD i []).getD j pinf with
    | pinf => none
    | fin q =>
      let d : Int := q.den
      some ⟨(List.range n).map fun k =>
              (if k + 1 = i then d else 0) - (if k + 1 = j then d else 0), q.num, false⟩

/-- the constraint system of an octagon matrix -/
def octRows (n : Nat) (m : List (List ExtRat)) : List Con :=
  (List.range (2*n)).flatMap fun i => (List.range (rowSize i)).filterMap fun j =>
    if i = j then none else
    match (m.getD i []).getD j pinf with
    | pinf => none
    | fin q =>
      let d : Int := q.den
      let sg (t : Nat) : Int := if t % 2 = 0 then 1 else -1
      some ⟨(List.range n).map fun k =>
              (if k = i / 2 then sg i * d else 0) - (if k = j / 2 then sg j * d else 0), q.num, false⟩

def bdsOut (n : Nat) (m : Mat) : List (List ExtRat) := Mat.toLists (n+1) (fun _ => n+1) m
def octOut (n : Nat) (m : Mat) : List (List ExtRat) := Mat.toLists (2*n) rowSize m

/-- dimension up to which the FM-based K1 judges are run (beyond: the re-closure judge only) -/
def k1MaxDim : Nat := 3

structure Out where
  bad : List String := []
  tags : List String := []

def Out.mis (o : Out) (what got want : String) : Out := { o with bad := o.bad ++ [s!"MISMATCH {what} got={got} want={want}"] }
def Out.judge (o : Out) (what : String) : Out := { o with bad := o.bad ++ [s!"JUDGE-FAIL {what}"] }
def Out.tag (o : Out) (t : String) : Out := { o with tags := o.tags ++ [t] }

def cmp (o : Out) (what got want : String) : Out := if got == want then o else o.mis what got want

/-- the sizes of the zero-equivalence classes given the leader of every index -/
def classSizes (rows : Nat) (leaders : Vec) : List Nat :=
  ((List.range rows).filter fun i => leaders i == i).map fun l => ((List.range rows).filter fun i => leaders i == l).length

/-- zero-equivalence of dbm indices on the stored matrix (the `ZEq` of `ReduceProofsBase.lean`) -/
def ZEqB (m : Mat) (i j : Nat) : Prop := i = j ∨ ExtRat.isAddInv (m i j) (m j i) = true
instance (m : Mat) (i j : Nat) : Decidable (ZEqB m i j) := by unfold ZEqB; infer_instance

def bred (n : Nat) (closedS redS minS allS affS isrS : String) : Option Out := do
  let closed ← parseMat closedS
  let redL ← parseBits redS
  let minc ← parsePCons minS
  let allc ← parsePCons allS
  let aff ← affS.toNat?
  let dm := DBM.ofLists n closed
  let m := dm.e
  let mut o : Out := {}
  -- precondition: the journalled matrix is non-empty and shortest-path closed
  if DBM.closureEmpty upId dm || showMat (bdsOut n (DBM.closure upId dm).e) != showMat (bdsOut n m) then
    return o.mis "precondition-closed" (showMat (bdsOut n (DBM.closure upId dm).e)) closedS
  let pred := bdsComputePredecessors (n+1) m
  let leaders := bdsComputeLeaders (n+1) m
  let sizes := classSizes (n+1) leaders
  o := o.tag s!"n={n}" |>.tag s!"classes={sizes.length}" |>.tag s!"nonsingleton={(sizes.filter (· > 1)).length}"
        |>.tag s!"maxclass={sizes.foldl max 0}"
  -- (1) redundancy_dbm
  match bdsShortestPathReduction upId n m with
  | none => o := o.mis "fuel" "none" redS
  | some red =>
    let redM := BMat.toLists (n+1) (fun _ => n+1) red
    o := cmp o "redundancy_dbm" (showBits redM) (showBits redL)
    let lead := computeLeaderIndices (n+1) pred
    let kept := (lead.flatMap fun i => lead.filter fun j => !red i j).length
    let finiteLL := (lead.flatMap fun i => lead.filter fun j => i != j && !(m i j).isPinf).length
    o := o.tag s!"leaderpairs_kept={kept}" |>.tag s!"leaderpairs_dropped={finiteLL - kept}"
    -- (2) minimized_constraints
    o := cmp o "minimized_constraints" (showPCons ((bdsMinimizedConstraints n m red).map ofLCon)) (showPCons (minc.map PCon.normalize))
    -- (5) is_shortest_path_reduced on the model's bits
    match bdsIsShortestPathReduced upId n m red with
    | none => o := o.mis "is_reduced-fuel" "none" isrS
    | some b => o := cmp o "is_shortest_path_reduced" (if b then "1" else "0") isrS
  -- (3) constraints() of the closed, not reduced shape
  o := cmp o "constraints" (showPCons ((bdsConstraintsAll n m).map ofLCon)) (showPCons (allc.map PCon.normalize))
  -- (4) affine_dimension
  o := cmp o "affine_dimension" (toString (bdsAffineDimension n m)) affS
  o := o.tag s!"affdim={aff}"
  -- judges on the REAL output
  let realRed := BMat.ofLists redL true
  let reduced := DBM.ofLists n (bdsOut n (bdsReducedMat m realRed))
  if DBM.closureEmpty upId reduced || showMat (bdsOut n (DBM.closure upId reduced).e) != showMat (bdsOut n m) then
    o := o.judge s!"recloses: closing the entries kept by redundancy_dbm gives {showMat (bdsOut n (DBM.closure upId reduced).e)}, not the closed matrix"
  -- irredundancy (`bds_reduction_irredundant`) and `bds_reduced_cross_class` on the REAL bits: a kept entry between
  -- different zero-equivalence classes joins two leaders, is finite, and is not matched by the sum through a third leader
  for i in List.range (n+1) do
    for j in List.range (n+1) do
      if !realRed i j && !(decide (ZEqB m i j)) then
        if leaders i != i || leaders j != j then
          o := o.judge s!"cross-class: redundancy_dbm keeps ({i},{j}), which joins different classes and is not a pair of leaders"
        else if (m i j).isPinf then
          o := o.judge s!"irredundant: redundancy_dbm keeps the +inf entry ({i},{j})"
        else if (List.range (n+1)).any (fun k => k != i && k != j && leaders k == k &&
                  decide (ExtRat.addUp fin (m i k) (m k j) ≤ m i j)) then
          o := o.judge s!"irredundant: the kept entry ({i},{j}) is matched by the sum through a third leader"
  if n ≤ k1MaxDim then
    let A := matRows n closed
    let R := minc.flatMap PCon.rows
    if !PPLV.Lin.equivB n A R then
      o := o.judge "preserves: minimized_constraints() does not denote the set of the closed matrix (K1 equivB)"
    let C := allc.flatMap PCon.rows
    if !PPLV.Lin.equivB n A C then
      o := o.judge "constraints() does not denote the set of the closed matrix (K1 equivB)"
    let d := (⟨false, n, A⟩ : PPLV.Lin.RefPoly).affineDim
    if d != aff then
      o := o.judge s!"affine_dimension: the library says {aff}, K1 affineDim of the closed matrix is {d}"
    o := o.tag "k1"
  -- the number of equalities emitted: n - affine dimension
  let neq := (minc.filter (·.isEq)).length
  if neq + aff != n then o := o.judge s!"equalities: {neq} equalities emitted, n - affine_dimension = {n - aff}"
  return o

def ored (n : Nat) (closedS nrS afterS minS allS affS : String) : Option Out := do
  let closed ← parseMat closedS
  let nrL ← parseBits nrS
  let after ← parseMat afterS
  let minc ← parsePCons minS
  let allc ← parsePCons allS
  let aff ← affS.toNat?
  let om := OctM.ofLists n closed
  let m := om.e
  let mut o : Out := {}
  if OctM.strongClosureEmpty upId om || showMat (octOut n (OctM.strongClosure upId om).e) != showMat (octOut n m) then
    return o.mis "precondition-closed" (showMat (octOut n (OctM.strongClosure upId om).e)) closedS
  -- the hypothesis `OctM.IsStronglyClosed` of the octagon theorems, evaluated on the journalled matrix
  if !isStronglyClosedB n m then
    return o.mis "precondition-IsStronglyClosed" "false" closedS
  let succ := octComputeSuccessors (2*n) m
  let L := octComputeLeaders4 (2*n) succ
  let leaders := octComputeLeaders (2*n) m
  let sizes := classSizes (2*n) leaders
  o := o.tag s!"n={n}" |>.tag s!"classes={sizes.length}" |>.tag s!"nonsingleton={(sizes.filter (· > 1)).length}"
        |>.tag s!"sing={if L.exist_sing_class then 1 else 0}" |>.tag s!"nosing={L.no_sing_leaders.length}"
        |>.tag s!"maxclass={sizes.foldl max 0}"
  match octNonRedundantMatrixEntries upId n m with
  | none => o := o.mis "fuel" "none" nrS
  | some nr =>
    o := cmp o "non_redundant" (showBits (BMat.toLists (2*n) rowSize nr)) (showBits nrL)
    o := cmp o "strong_reduction_assign" (showMat (octOut n (octReducedMat m nr))) (showMat after)
    o := cmp o "minimized_constraints" (showPCons ((octConstraints n (octReducedMat m nr)).map ofLCon)) (showPCons (minc.map PCon.normalize))
    let kept := ((List.range (2*n)).flatMap fun i => (List.range (rowSize i)).filter fun j => nr i j).length
    let finite := ((List.range (2*n)).flatMap fun i => (List.range (rowSize i)).filter fun j => i != j && !(m i j).isPinf).length
    let keptInf := ((List.range (2*n)).flatMap fun i => (List.range (rowSize i)).filter fun j => nr i j && (m i j).isPinf).length
    o := o.tag s!"kept={kept}" |>.tag s!"finite={finite}" |>.tag s!"kept_pinf={keptInf}"
  o := cmp o "constraints" (showPCons ((octConstraints n m).map ofLCon)) (showPCons (allc.map PCon.normalize))
  o := cmp o "affine_dimension" (toString (octAffineDimension n m)) affS
  o := o.tag s!"affdim={aff}"
  -- judges on the REAL output: re-closing the matrix left by strong_reduction_assign gives back the closed one
  let red := OctM.ofLists n after
  if OctM.strongClosureEmpty upId red || showMat (octOut n (OctM.strongClosure upId red).e) != showMat (octOut n m) then
    o := o.judge s!"recloses: strong closure of the reduced matrix gives {showMat (octOut n (OctM.strongClosure upId red).e)}, not the closed matrix"
  if n ≤ k1MaxDim then
    let A := octRows n closed
    if !PPLV.Lin.equivB n A (octRows n after) then
      o := o.judge "preserves: the matrix left by strong_reduction_assign does not denote the set of the closed matrix (K1 equivB)"
    if !PPLV.Lin.equivB n A (minc.flatMap PCon.rows) then
      o := o.judge "preserves: minimized_constraints() does not denote the set of the closed matrix (K1 equivB)"
    if !PPLV.Lin.equivB n A (allc.flatMap PCon.rows) then
      o := o.judge "constraints() does not denote the set of the closed matrix (K1 equivB)"
    let d := (⟨false, n, A⟩ : PPLV.Lin.RefPoly).affineDim
    if d != aff then
      o := o.judge s!"affine_dimension: the library says {aff}, K1 affineDim of the closed matrix is {d}"
    o := o.tag "k1"
  return o

def ubJudge (o : Out) (n : Nat) (rows : List (List ExtRat) → List Con) (xs ys join : List (List ExtRat)) (ans : Bool) : Out :=
  if n ≤ k1MaxDim then
    let exact := subsetUnion n (rows join) (rows xs) (rows ys)
    let o := o.tag "k1"
    if exact != ans then
      o.judge s!"upper_bound_assign_if_exact answered {ans}, the union {if exact then "is" else "is not"} the set of the pointwise maximum (K1)"
    else o
  else o

def bub (n : Nat) (xS yS ansS afterS : String) : Option Out := do
  let xs ← parseMat xS
  let ys ← parseMat yS
  let ans := ansS == "1"
  let x := (DBM.ofLists n xs).e
  let y := (DBM.ofLists n ys).e
  let mut o : Out := {}
  o := o.tag s!"n={n}" |>.tag s!"answer={ansS}"
  match bdsShortestPathReduction upId n x, bdsShortestPathReduction upId n y with
  | some xr, some yr =>
    let got := bdsBHZ09 upId n x y xr yr
    o := cmp o "upper_bound_assign_if_exact" (if got then "1" else "0") ansS
    if ans then
      if afterS != "-" then o := cmp o "join" (showMat (bdsOut n (Mat.diagDown (n+1) pinf (matMax x y)))) afterS
  | _, _ => o := o.mis "fuel" "none" ansS
  o := ubJudge o n (matRows n) xs ys (bdsOut n (matMax x y)) ans
  return o

def oub (n : Nat) (xS yS ansS afterS : String) : Option Out := do
  let xs ← parseMat xS
  let ys ← parseMat yS
  let ans := ansS == "1"
  let x := (OctM.ofLists n xs).e
  let y := (OctM.ofLists n ys).e
  let mut o : Out := {}
  o := o.tag s!"n={n}" |>.tag s!"answer={ansS}"
  match octNonRedundantMatrixEntries upId n x, octNonRedundantMatrixEntries upId n y with
  | some xr, some yr =>
    let got := octUpperBoundIfExact upId n x y xr yr
    o := cmp o "upper_bound_assign_if_exact" (if got then "1" else "0") ansS
    if ans then
      if afterS != "-" then o := cmp o "join" (showMat (octOut n (Mat.diagUp (2*n) pinf (matMax x y)))) afterS
  | _, _ => o := o.mis "fuel" "none" ansS
  o := ubJudge o n (octRows n) xs ys (octOut n (matMax x y)) ans
  return o

def processLine (line : String) : List String :=
  let ws := (line.trimAscii.toString.splitOn " ").filter (· ≠ "")
  match ws with
  | [] => []
  | "begin" :: _ => []          -- case markers, crashes and exceptions are classified by checks/c04_reduce.py
  | "crash" :: _ => []
  | "end" :: _ => []
  | _ :: "exc" :: _ => []
  | id :: kind :: n :: scen :: rest =>
    let r : Option Out := do
      let n ← n.toNat?
      match kind, rest with
      | "bred", [a, b, c, d, e, f] => bred n a b c d e f
      | "ored", [a, b, c, d, e, f] => ored n a b c d e f
      | "bub", [a, b, c, d] => bub n a b c d
      | "oub", [a, b, c, d] => oub n a b c d
      | _, _ => none
    match r with
    | none => [s!"MISMATCH {id} {kind} parse"]
    | some o =>
      if o.bad.isEmpty then [s!"ok {id} {kind} scen={scen} {" ".intercalate o.tags}"]
      else o.bad.map fun b =>
        match b.splitOn " " with
        | v :: rest => s!"{v} {id} {kind} {" ".intercalate rest}"
        | [] => s!"MISMATCH {id} {kind} ?"
  | id :: _ => [s!"MISMATCH {id} ? parse"]

partial def loop (h : IO.FS.Stream) (out : IO.FS.Stream) : IO Unit := do
  let line ← h.getLine
  if line.isEmpty then return
  for s in processLine line do out.putStrLn s
  loop h out

end WRRDriver

def main (_args : List String) : IO UInt32 := do
  let stdin ← IO.getStdin
  let stdout ← IO.getStdout
  WRRDriver.loop stdin stdout
  return 0
