import PPLV.Solver.PIP

/-! `pplv_pip`: judges the journal of `harness/c07_pip.cc` (grammar there).

For every `tree` line (one solve of the real `PIP_Problem`): the tree is rebuilt as a
`PPLV.PIP.Tree`, checked for well-formedness and scoping, and evaluated with `Tree.eval` at every
parameter valuation of the box that satisfies the context; the result is compared with the verified
reference `lexminRef` (computed once per `prob` record).  Verdicts (keyed by the line number of
the `tree` line):

    ok <ln> evals=<n> unknown=<u> points=<k> bottoms=<b> ...
    MISMATCH <ln> <obligation> <k=v …>
    detail <ln> theta=<…> tree=<…> ref=<…>          (up to 40 per tree)

usage: pplv_pip [--box N] [--window W] [--bigs M1,M2,M3]
-/
open PPLV.PIP
open PPLV.Lin (tokInt tokNat)

structure Prob where
  dim : Nat := 0
  isParam : Array Bool := #[]
  big : Option Nat := none          -- index of the big parameter in the parameter vector
  P : Problem := { nv := 0, np := 0, rows := [] }
  key : String := ""

/-- index of dimension `i` among the parameters / among the variables -/
def rankOf (isParam : Array Bool) (i : Nat) (what : Bool) : Nat :=
  (List.range i).foldl (fun k j => if isParam.getD j false == what then k + 1 else k) 0

def parseRel (s : String) : Rel := if s == "=" then .eq else if s == ">" then .gt else .ge

/-- `rel k a_0 … a_{dim-1}` → PRow -/
def parseRow (pb : Prob) (ts : List String) : PRow × List String :=
  match ts with
  | rel :: k :: rest =>
    let cf := (rest.take pb.dim).map tokInt
    let idx := List.range pb.dim
    let xs := (idx.zip cf).filterMap fun (i, a) => if pb.isParam.getD i false then none else some a
    let ps := (idx.zip cf).filterMap fun (i, a) => if pb.isParam.getD i false then some a else none
    (⟨xs, ps, tokInt k, parseRel rel⟩, rest.drop pb.dim)
  | _ => (⟨[], [], 0, .ge⟩, [])

def parseRows (pb : Prob) : Nat → List String → List PRow
  | 0, _ => []
  | m + 1, ts => let (r, ts') := parseRow pb ts; r :: parseRows pb m ts'

/-! ### tree parser -/

structure PState where
  toks : List String
  varCoeff : Bool := false       -- a problem *variable* occurs in a parameter expression
  bad : Bool := false            -- unparsable

/-- `sd k a_0 … a_{sd-1}` over the dimensions → `Aff` over the parameter vector -/
def parseAff (pb : Prob) (st : PState) : Aff × PState :=
  match st.toks with
  | sd :: k :: rest =>
    let n := tokNat sd
    let cf := (rest.take n).map tokInt
    let np := pb.P.np
    let width := np + (n - pb.dim)
    let (cs, vc) := (List.range n).zip cf |>.foldl (fun (acc : Array Int × Bool) (i, a) =>
      if i < pb.dim then
        if pb.isParam.getD i false then (acc.1.setIfInBounds (rankOf pb.isParam i true) a, acc.2)
        else (acc.1, acc.2 || a != 0)
      else (acc.1.setIfInBounds (np + (i - pb.dim)) a, acc.2)) (Array.replicate width 0, false)
    (⟨cs.toList, tokInt k⟩, { st with toks := rest.drop n, varCoeff := st.varCoeff || vc,
                                       bad := st.bad || rest.length < n })
  | _ => (⟨[], 0⟩, { st with toks := [], bad := true })

def parseArts (pb : Prob) : Nat → PState → List QAff × PState
  | 0, st => ([], st)
  | n + 1, st =>
    match st.toks with
    | den :: rest =>
      let (a, st1) := parseAff pb { st with toks := rest }
      let (as, st2) := parseArts pb n st1
      (⟨a, tokInt den⟩ :: as, st2)
    | [] => ([], { st with bad := true })

def parseCons (pb : Prob) : Nat → PState → List PCon × PState
  | 0, st => ([], st)
  | n + 1, st =>
    match st.toks with
    | rel :: rest =>
      let (a, st1) := parseAff pb { st with toks := rest }
      let (cs, st2) := parseCons pb n st1
      (⟨a, parseRel rel⟩ :: cs, st2)
    | [] => ([], { st with bad := true })

def parseVals (pb : Prob) : Nat → PState → List QAff × PState
  | 0, st => ([], st)
  | n + 1, st =>
    match st.toks with
    | _dim :: rest =>
      let (a, st1) := parseAff pb { st with toks := rest }
      let (vs, st2) := parseVals pb n st1
      (⟨a, 1⟩ :: vs, st2)
    | [] => ([], { st with bad := true })

def parseTree (pb : Prob) : Nat → PState → Tree × PState
  | 0, st => (.bottom, { st with bad := true })
  | fuel + 1, st =>
    match st.toks with
    | "B" :: rest => (.bottom, { st with toks := rest })
    | "S" :: na :: nc :: nvl :: rest =>
      let (arts, st1) := parseArts pb (tokNat na) { st with toks := rest }
      let (cons, st2) := parseCons pb (tokNat nc) st1
      let (vals, st3) := parseVals pb (tokNat nvl) st2
      (.sol arts cons vals, st3)
    | "D" :: na :: nc :: rest =>
      let (arts, st1) := parseArts pb (tokNat na) { st with toks := rest }
      let (cons, st2) := parseCons pb (tokNat nc) st1
      let (t, st3) := parseTree pb fuel st2
      let (f, st4) := parseTree pb fuel st3
      (.dec arts cons t f, st4)
    | _ => (.bottom, { st with toks := [], bad := true })

/-! ### valuations -/

/-- all vectors of `[0, N]^k` -/
def boxVals (N : Nat) : Nat → List (List Int)
  | 0 => [[]]
  | k + 1 => (boxVals N k).flatMap fun v => (List.range (N + 1)).map fun a => Int.ofNat a :: v

def ansStr : Ans → String
  | .bottom => "bottom"
  | .point p => "point(" ++ ",".intercalate (p.map toString) ++ ")"
  | .unknown => "unknown"

def resStr : Result → String
  | .bottom => "bottom"
  | .point p => "point(" ++ ",".intercalate (p.map toString) ++ ")"
  | .scopeError => "scopeError"
  | .nonIntegral => "nonIntegral"

def thetaStr (θ : List Int) : String := ",".intercalate (θ.map toString)

/-- number of constraints carried by the solution node at which the evaluation ends (classification aid only) -/
def leafGuards : Tree → List Int → Option Nat
  | .bottom, _ => none
  | .sol arts cons _, env =>
    match evalArts arts env with
    | none => none
    | some env' => if evalCons cons env' == some true then some cons.length else none
  | .dec arts cons t f, env =>
    match evalArts arts env with
    | none => none
    | some env' =>
      match evalCons cons env' with
      | some true => leafGuards t env'
      | some false => leafGuards f env'
      | none => none

structure Cfg where
  box : Nat := 6
  window : Nat := 64
  bigs : List Int := [24, 36, 48]
  bigBox : Nat := 3

/-- the valuations at which a problem is judged: (θ, group) — for a big parameter every valuation of
    the other parameters is a group, with the big parameter running through `cfg.bigs` -/
def valuations (cfg : Cfg) (pb : Prob) : List (List (List Int)) :=
  match pb.big with
  | none => (boxVals cfg.box pb.P.np).map fun θ => [θ]
  | some b =>
    (boxVals cfg.bigBox (pb.P.np - 1)).map fun θ' =>
      cfg.bigs.map fun M => θ'.take b ++ [M] ++ θ'.drop b

structure RefTable where
  groups : List (List (List Int × Ans)) := []     -- only valuations inside the context

def mkRef (cfg : Cfg) (pb : Prob) : RefTable :=
  { groups := (valuations cfg pb).map fun g =>
      (g.filter pb.P.inContext).map fun θ => (θ, lexminRef cfg.window pb.P θ) }

def agrees : Result → Ans → Option Bool     -- none: reference unknown
  | _, .unknown => none
  | .bottom, .bottom => some true
  | .point p, .point q => some (p == q)
  | _, _ => some false

structure Solved where
  kind : String := ""
  status : String := ""
  sat : String := "-"
  okFlag : String := "1"

def field (ts : List String) (name : String) : String :=
  match ts.dropWhile (· != name) with
  | _ :: v :: _ => v
  | _ => ""

def judgeTree (cfg : Cfg) (ln : Nat) (pb : Prob) (rt : RefTable) (sv : Solved) (toks : List String) : IO Bool := do
  let (tree, st) := parseTree pb 10000 { toks := toks }
  let bad (obl : String) (detail : String) : IO Bool := do
    IO.println s!"MISMATCH {ln} {obl} {detail}"; return false
  if st.bad || !st.toks.isEmpty then
    IO.println s!"skip {ln} unparsable"; return true
  if sv.okFlag != "1" then return (← bad "ok-false" "OK() is false after the solve")
  let isNull := match tree with | .bottom => true | _ => false
  if sv.status == "UNF" && !isNull then return (← bad "status-tree" "status UNFEASIBLE but solution() is not null")
  if sv.status == "OPT" && isNull then return (← bad "status-tree" "status OPTIMIZED but solution() is null")
  if sv.sat != "-" && (sv.sat == "1") != (sv.status == "OPT") then
    return (← bad "sat-flag" s!"is_satisfiable()={sv.sat} but solve() says {sv.status}")
  if st.varCoeff then return (← bad "malformed" "a problem variable occurs in a parameter expression of the tree")
  if !tree.wellFormed then
    return (← bad "malformed" "non-positive denominator, decision node without constraint, or false child under several constraints")
  let isScoped := tree.wellScoped pb.P.np
  -- evaluation against the reference
  let mut evals := 0
  let mut unknown := 0
  let mut points := 0
  let mut bottoms := 0
  let mut nbad := 0
  let mut kinds : List String := []
  let mut badZero := 0          -- mismatching valuations with at least one zero parameter
  let mut badInfeasible := 0    -- mismatching valuations where the tree yields a point outside the feasible region
  let mut badGuarded := 0       -- … and the solution node reached carries constraints of its own
  let mut details : List String := []
  for g in rt.groups do
    -- a group is judged at its valuations; with a big parameter only a mismatch that persists at
    -- the two largest values of the group counts
    let res := g.map fun (θ, a) => (θ, tree.eval θ, a)
    let judged := res.filterMap fun (θ, r, a) => (agrees r a).map fun b => (θ, r, a, b)
    evals := evals + judged.length
    unknown := unknown + (res.length - judged.length)
    for (_, _, a, _) in judged do
      match a with
      | .point _ => points := points + 1
      | _ => bottoms := bottoms + 1
    let wrong :=
      if pb.big.isSome then
        let lastTwo := judged.drop (judged.length - 2)
        if lastTwo.length == 2 && lastTwo.all (fun (_, _, _, b) => !b) then lastTwo.take 1 else []
      else judged.filter fun (_, _, _, b) => !b
    for (θ, r, a, _) in wrong do
      nbad := nbad + 1
      let kind := (match r with | .bottom => "bottom" | .point _ => "point" | .scopeError => "scopeError" | .nonIntegral => "nonIntegral")
        ++ "/" ++ (match a with | .bottom => "bottom" | .point _ => "point" | .unknown => "unknown")
      if !kinds.contains kind then kinds := kinds ++ [kind]
      if θ.any (· == 0) then badZero := badZero + 1
      match r with
      | .point p =>
        if !pb.P.feasibleB θ p then
          badInfeasible := badInfeasible + 1
          if (leafGuards tree θ).getD 0 > 0 then badGuarded := badGuarded + 1
      | _ => pure ()
      if details.length < 40 then
        details := details ++ [s!"detail {ln} theta={thetaStr θ} tree={resStr r} ref={ansStr a}"]
  if nbad > 0 then
    let obl := if sv.status == "UNF" then "unfeasible-but-feasible" else "eval"
    IO.println s!"MISMATCH {ln} {obl} bad={nbad} evals={evals} kinds={",".intercalate kinds} bad_with_zero_param={badZero} bad_infeasible_point={badInfeasible} bad_infeasible_at_guarded_leaf={badGuarded} scoped={isScoped} nodes={tree.size} arts={tree.numArts} big={pb.big.isSome}"
    for d in details do IO.println d
    return false
  if !isScoped then
    return (← bad "scope" "an expression mentions an artificial parameter that is not declared above it (no valuation of the box reaches it)")
  IO.println s!"ok {ln} evals={evals} unknown={unknown} points={points} bottoms={bottoms} nodes={tree.size} arts={tree.numArts} big={pb.big.isSome}"
  return true

partial def loop (cfg : Cfg) (h : IO.FS.Stream) (ln : Nat) (pb : Prob) (rt : Option RefTable) (sv : Solved)
    (nOk nBad : Nat) : IO (Nat × Nat) := do
  let line ← h.getLine
  if line.isEmpty then return (nOk, nBad)
  let ts := (line.trimAscii.toString.splitOn " ").filter (· != "")
  match ts with
  | "prob" :: dim :: np :: rest =>
    let d := tokNat dim
    let k := tokNat np
    let ps := (rest.take k).map tokNat
    let isParam := (Array.replicate d false) |> fun a => ps.foldl (fun a i => a.setIfInBounds i true) a
    let bigDim := tokInt (field rest "big")
    let big := if bigDim < 0 then none else some (rankOf isParam bigDim.toNat true)
    let pb' : Prob := { dim := d, isParam := isParam, big := big,
                        P := { nv := d - k, np := k, rows := [] }, key := line }
    loop cfg h (ln + 1) pb' none sv nOk nBad
  | "cs" :: m :: rest =>
    let rows := parseRows pb (tokNat m) rest
    let pb' := { pb with P := { pb.P with rows := rows } }
    loop cfg h (ln + 1) pb' none sv nOk nBad
  | "solved" :: kind :: rest =>
    let sv' : Solved := { kind := kind, status := field rest "status", sat := field rest "sat", okFlag := field rest "ok" }
    loop cfg h (ln + 1) pb rt sv' nOk nBad
  | "tree" :: toks =>
    let t0 ← IO.monoMsNow
    let rt' := match rt with | some r => r | none => mkRef cfg pb
    -- force the table now so that its cost is attributed to this record
    let nvals := rt'.groups.foldl (fun k g => g.foldl (fun k (_, a) => match a with | .unknown => k | _ => k + 1) k) 0
    let t1 ← IO.monoMsNow
    if rt.isNone then IO.println s!"ref {ln} known={nvals} ms={t1 - t0} nv={pb.P.nv} np={pb.P.np} rows={pb.P.rows.length} big={pb.big.isSome}"
    let good ← judgeTree cfg ln pb rt' sv toks
    loop cfg h (ln + 1) pb (some rt') sv (if good then nOk + 1 else nOk) (if good then nBad else nBad + 1)
  | _ => loop cfg h (ln + 1) pb rt sv nOk nBad

def argVal (args : List String) (name : String) : Option String :=
  match args.dropWhile (· != name) with
  | _ :: v :: _ => some v
  | _ => none

def main (args : List String) : IO UInt32 := do
  let cfg : Cfg := {
    box := ((argVal args "--box").map tokNat).getD 6
    window := ((argVal args "--window").map tokNat).getD 64
    bigs := ((argVal args "--bigs").map fun s => (s.splitOn ",").map tokInt).getD [24, 36, 48]
    bigBox := ((argVal args "--bigbox").map tokNat).getD 3 }
  let stdin ← IO.getStdin
  let (nOk, nBad) ← loop cfg stdin 1 {} none {} 0 0
  IO.println s!"summary ok={nOk} mismatch={nBad}"
  return 0
