import PPLV.Lin.Parse
import PPLV.Widen.ImplBHRZ03

/-!
# `pplv_widenimpl` — replays the models of `H79_widening_assign` / `BHRZ03_widening_assign`
on the journal of `harness/c08_impl.cc` and judges the theorems' conclusions on the real output

stdin: the journal; stdout: `ok <id> <obligation>` | `MISMATCH <id> <obligation> <detail>` |
`skip <id> <obligation> <why>` | `info <id> k=v …`.

Correspondence obligations (model = real, exactly):
* `ch78_rows`  `select_CH78_constraints`: the same rows in the same order
* `sel_rows`   `select_H79_constraints`: `cs_selected` and `cs_not_selected`, row for row
* `result` / `result_rows` / `tokens`  the value left in `*this` (as a set, by K1 `equivB`; for a freshly
  built result also its raw rows as a set of normalised rows), and `*tp`
* `precheck`   BHRZ03: model `is_stabilizing(x)` / `y.contains(x)` = real; `branch`: the technique that fired
Contract of the conversion oracles (`MinimalDD`, checked on the journalled data):
* `contract_sat` `sat_g[i][j] ⇔ sp > 0` · `contract_dd` the pair is a double description of y (K1 `checkDD`)
* `contract_taut` at most one tautology (closed) · `contract_facet` the `hfacet` clause for every selected row
Theorem conclusions judged on the real output with the verified K1 deciders:
* `sup_x` result ⊇ x · `sup_y` result ⊇ y · `yconst` y still denotes the same set
* `cert_decrease` non-stationary ⇒ certificate strictly smaller (models of `Widen/Model.lean`)
* `accept_contract` BHRZ03: an accepted candidate is stabilizing, does not contain H79, lies between x and H79;
  `fallback_stabilizing` the H79 fallback is stabilizing (only asserted by the code)
-/
open PPLV.Lin PPLV.Widen PPLV.Widen.Impl

abbrev Toks := List String

def kv (ts : Toks) (key : String) : String :=
  match ts.find? (fun t => t.startsWith (key ++ "=")) with
  | some t => (t.drop (key.length + 1)).toString
  | none => ""
def kvInt (ts : Toks) (key : String) : Int := tokInt (kv ts key)
def kvB (ts : Toks) (key : String) : Bool := kv ts key == "1"

def takeRow (nc : Nat) (ts : Toks) : (Bool × List Int) × Toks :=
  match ts with
  | f :: rest => let (v, r) := takeInts nc rest; ((f == "1", v), r)
  | [] => ((false, []), [])

partial def takeRowsAux (nc : Nat) : Nat → Toks → List (Bool × List Int) → List (Bool × List Int) × Toks
  | 0, ts, acc => (acc.reverse, ts)
  | k + 1, ts, acc => let (r, ts') := takeRow nc ts; takeRowsAux nc k ts' (r :: acc)

/-- `<m> {<flag> <nc ints>}*` -/
def takeRows (nc : Nat) (ts : Toks) : List (Bool × List Int) × Toks :=
  match ts with
  | m :: rest => takeRowsAux nc (tokNat m) rest []
  | [] => ([], [])

def toCRows (l : List (Bool × List Int)) : List CRow := l.map fun r => { e := r.2, eq := r.1 }
def toGRows (l : List (Bool × List Int)) : List GRow := l.map fun r => { e := r.2, line := r.1 }

/-- `<r> <c> {bits}*` -/
def takeSat (ts : Toks) : List BitRow :=
  match ts with
  | r :: _c :: rest => (rest.take (tokNat r)).map fun s => if s == "-" then [] else s.toList.map (· == '1')
  | _ => []

def after (ts : Toks) (key : String) : Toks := (ts.dropWhile (· != key)).drop 1

structure PState where
  me : Bool := false
  pg : Bool := false
  cu : Bool := false
  cs : List CRow := []
  gs : List GRow := []

def parseState (nc : Nat) (ts : Toks) : PState :=
  let (c, r1) := takeRows nc (after ts "cs")
  let (g, _) := takeRows nc (r1.drop 1)
  { me := kvB ts "me", pg := kvB ts "pg", cu := kvB ts "cu", cs := toCRows c, gs := toGRows g }

def parseYMin (nc : Nat) (ts : Toks) : YMin :=
  let (c, r1) := takeRows nc (after ts "cs")
  let (g, r2) := takeRows nc (r1.drop 1)
  { conSys := toCRows c, genSys := toGRows g, satG := takeSat (r2.drop 1) }

/-! ### K1 encodings -/

def padN (n : Nat) (l : List Int) : List Int := (l ++ List.replicate (n - l.length) 0).take n

def toK1 (nnc : Bool) (n : Nat) (c : CRow) : List Con :=
  let k := c.e.headD 0
  let cf := padN n (c.e.drop 1)
  if c.eq then eqRows cf k
  else if nnc && decide (epsCoeff c.e < 0) then [gtRow cf k] else [geRow cf k]
def toK1s (nnc : Bool) (n : Nat) (cs : List CRow) : List Con := cs.flatMap (toK1 nnc n)

def fromK1 (nnc : Bool) (n : Nat) (c : Con) : CRow :=
  { e := [c.k] ++ padN n c.coeffs ++ (if nnc then [if c.strict then -1 else 0] else []), eq := false }

def gToK1 (nnc : Bool) (n : Nat) (g : GRow) : Gen :=
  let d := g.e.headD 0
  let cf := padN n (g.e.drop 1)
  if g.line then ⟨.line, cf, 1⟩ else if d == 0 then ⟨.ray, cf, 1⟩
  else if nnc && epsCoeff g.e == 0 then ⟨.cpoint, cf, d⟩ else ⟨.point, cf, d⟩

def emptySet : List Con := [geRow [] (-1)]

/-- `XK <put_cs>` | `XK empty` -/
def parseSet (n : Nat) (ts : Toks) : List Con := if ts.head? == some "empty" then emptySet else (parseCS n ts).1

structure Descr where
  empty : Bool := true
  cs : List Con := []
  gs : List Gen := []
  nCons : Nat := 0
  nEq : Nat := 0

def splitBar (ts : Toks) : Toks × Toks := (ts.takeWhile (· != "|"), (ts.dropWhile (· != "|")).drop 1)

partial def countEq (n : Nat) : Nat → Toks → Nat → Nat
  | 0, _, acc => acc
  | k + 1, ts, acc =>
    match ts with
    | rel :: rest => countEq n k (rest.drop (n + 1)) (if rel == "=" then acc + 1 else acc)
    | [] => acc

def parseDescr (n : Nat) (ts : Toks) : Descr :=
  if ts.head? == some "empty" then {} else
  let (a, b) := splitBar ts
  let m := tokNat (a.headD "0")
  { empty := false, cs := (parseCS n a).1, gs := (parseGS n b).1, nCons := m, nEq := countEq n m (a.drop 1) 0 }

def Descr.bhrz (n : Nat) (d : Descr) : BHRZ03Cert :=
  mkBHRZ03 n d.nCons d.nEq (d.gs.filter fun g => g.kind == .point || g.kind == .cpoint).length
    (d.gs.filter fun g => g.kind == .line).length
    ((d.gs.filter fun g => g.kind == .ray).map (·.coords))
def Descr.h79 (n : Nat) (d : Descr) : H79Cert := mkH79 n d.nCons d.nEq

/-- `<affine> <lin> <cons> <points> <k> <r_0 … r_{k-1}>`: the members of a real `BHRZ03_Certificate` -/
def parseBC (ts : Toks) : Option BHRZ03Cert :=
  match ts with
  | a :: l :: c :: p :: k :: rest =>
    some { affineDim := tokNat a, linSpaceDim := tokNat l, numConstraints := tokNat c, numPoints := tokNat p,
           numRaysNullCoord := (rest.take (tokNat k)).map tokNat }
  | _ => none

/-! ### normalised rows -/

def gcdL (l : List Int) : Nat := l.foldl (fun g a => Nat.gcd g a.natAbs) 0
def normRow (c : CRow) : CRow :=
  let g := gcdL c.e
  let e := if g ≤ 1 then c.e else c.e.map (· / (g : Int))
  let e := if c.eq then (match e.find? (· != 0) with | some a => if a < 0 then e.map (- ·) else e | none => e) else e
  { e := e, eq := c.eq }
def rowSetEq (a b : List CRow) : Bool :=
  let a' := a.map normRow; let b' := b.map normRow
  a'.all (b'.contains ·) && b'.all (a'.contains ·)

def showRow (c : CRow) : String := (if c.eq then "=" else ">=") ++ toString c.e
def showRows (cs : List CRow) : String := String.intercalate ";" (cs.map showRow)

/-! ### the judge -/

structure St where
  kind : String := ""
  id : String := "0"
  nnc : Bool := false
  n : Nat := 0
  fields : List (String × Toks) := []
  runs : List (Toks × Toks) := []     -- (R line, RK line) per run, in order
  pendingR : Option Toks := none
  nOk : Nat := 0
  nBad : Nat := 0

abbrev M := StateT St IO

def ok (obl : String) : M Unit := do
  let s ← get; set { s with nOk := s.nOk + 1 }; IO.println s!"ok {s.id} {obl}"
def bad (obl what : String) : M Unit := do
  let s ← get; set { s with nBad := s.nBad + 1 }; IO.println s!"MISMATCH {s.id} {obl} {what}"
def skipO (obl why : String) : M Unit := do
  let s ← get; IO.println s!"skip {s.id} {obl} {why}"
def judge (obl : String) (b : Bool) (what : String) : M Unit := if b then ok obl else bad obl what

def getField (fs : List (String × Toks)) (tag : String) : Option Toks := (fs.find? (·.1 == tag)).map (·.2)

def certLessH79 (cy cr : H79Cert) : Bool := cy.comparePh cr == .gt && decide (cy.affineDim ≤ cr.affineDim)
def certLessBhrz (cy cr : BHRZ03Cert) : Bool :=
  cy.comparePh cr == .gt && decide (cy.affineDim ≤ cr.affineDim) && decide (cy.linSpaceDim ≤ cr.linSpaceDim)

/-- the contract checks on `(YS.cs, YS.gs, YS.sat)` and the selected rows (closed polyhedra: all; NNC: sat only) -/
def judgeContract (nnc : Bool) (n : Nat) (ys : YMin) (yk : List Con) (sel : List CRow) : M Unit := do
  judge "contract_sat" (ys.satG == ys.conSys.map fun c => satRow c ys.genSys) "sat_g is not the saturation matrix of (con_sys, gen_sys)"
  let gens := ys.genSys.map (gToK1 nnc n)
  if gens.length ≤ 6 then
    judge "contract_dd" (gensWF n gens && checkDD n yk gens) "y's generators do not generate y"
  else skipO "contract_dd" "too many generators"
  let tmp := tmpSatG nnc ys.conSys ys.satG
  -- a surviving sat row that belongs only to tautologies (the swap-with-last quirk)
  let nontautRows := (ys.conSys.zip ys.satG).filterMap fun (c, r) => if c.isTautological nnc then none else some r
  let surv := tmp.any fun r => !(nontautRows.contains r)
  let selByTaut := (sel.filter fun ci => !ci.isTautological nnc && !(nontautRows.contains (satRow ci ys.genSys))).length
  let s ← get
  IO.println s!"info {s.id} taut_rows={(ys.conSys.filter (·.isTautological nnc)).length} taut_survives={if surv then 1 else 0} sel_by_taut={selByTaut} tmp_rows={tmp.length} y_rows={ys.conSys.length}"
  if !nnc then
    judge "contract_taut" ((ys.conSys.filter (·.isTautological false)).length ≤ 1) "more than one tautology in a minimised closed system"
    let eqs := toK1s false n (ys.conSys.filter (·.eq))
    let badRows := sel.filter fun ci =>
      let r := satRow ci ys.genSys
      !((ys.conSys.filter fun cj => !cj.isTautological false && satRow cj ys.genSys == r).any fun cj =>
          equivB n (eqs ++ toK1 false n ci) (eqs ++ toK1 false n cj))
    judge "contract_facet" badRows.isEmpty s!"selected rows not equivalent (on the affine hull of y) to the matched row of y: {showRows badRows}"

def xContainsK1 (nnc : Bool) (n : Nat) (xk : List Con) (cs : List CRow) : Bool := subsetB n (toK1s nnc n cs) xk

def judgeH79 : M Unit := do
  let s ← get
  let nnc := s.nnc; let n := s.n
  let nc := n + 1 + (if nnc then 1 else 0)
  let fs := s.fields
  let xk := parseSet n ((getField fs "XK").getD [])
  let yk := parseSet n ((getField fs "YK").getD [])
  let x0 := parseState nc ((getField fs "X0").getD [])
  let y0 := parseState nc ((getField fs "Y0").getD [])
  let xs := match getField fs "X" with | some t => parseState nc t | none => x0
  let yMin : Option YMin := match getField fs "YA" with
    | some t => if t.head? == some "none" then none else some (parseYMin nc t)
    | none => none
  let xu : List CRow := match getField fs "XU" with | some t => toCRows (takeRows nc t).1 | none => xs.cs
  let ys : YMin := match getField fs "YS" with | some t => parseYMin nc t | none => yMin.getD default
  let x : Poly := { nnc := nnc, n := n, markedEmpty := x0.me, pendingGens := xs.pg, consUpToDate := xs.cu,
                    conSys := xs.cs, genSys := xs.gs }
  let o : Oracle := { yMin := yMin, xConsUpdated := xu, ySel := ys, xContains := xContainsK1 nnc n xk }
  let trivial := (getField fs "TRIVIAL").isSome
  -- selections
  match getField fs "CH", yMin with
  | some t, some y =>
    let real := toCRows (takeRows nc t).1
    let model := selectCH78Constraints nnc x.genSys y.conSys
    judge "ch78_rows" (real == model) s!"real={showRows real} model={showRows model}"
  | _, _ => pure ()
  match getField fs "SEL", getField fs "NSEL" with
  | some t1, some t2 =>
    let rs := toCRows (takeRows nc t1).1; let rn := toCRows (takeRows nc t2).1
    let m := selectH79Constraints nnc xu ys.conSys ys.genSys ys.satG
    judge "sel_rows" (rs == m.1 && rn == m.2) s!"real_sel={showRows rs} model_sel={showRows m.1} real_not={showRows rn} model_not={showRows m.2}"
    judgeContract nnc n ys yk rs
  | _, _ => pure ()
  -- the runs
  for (r, rk) in s.runs do
    let tp0 := kvInt r "tp0"
    let tpReal := kvInt r "tp"
    let tp : Option Nat := if tp0 < 0 then none else some tp0.toNat
    let (res, tp') := h79WideningAssign x y0.me o tp
    let rkS := parseSet n rk
    let tag := if tp0 < 0 then "" else "_tok"
    let modelSet : List Con := match res with
      | .unchanged => xk | .assignY => yk | .fresh cs => toK1s nnc n cs
    judge ("result" ++ tag) (equivB n modelSet rkS) s!"model={repr res} real={rk}"
    judge ("tokens" ++ tag) ((match tp' with | none => (-1 : Int) | some t => (t : Int)) == tpReal) s!"model tp={repr tp'} real tp={tpReal}"
    match res with
    | .fresh cs =>
      let raw := toCRows (takeRows nc (after r "raw")).1
      if raw.isEmpty then skipO "result_rows" "constraints of the result not up to date"
      else
        judge ("result_rows" ++ tag) (rowSetEq (raw.filter (!·.isTautological nnc)) (cs.filter (!·.isTautological nnc))) s!"raw={showRows raw} model={showRows cs}"
    | _ => pure ()
    if tp0 < 0 then
      -- conclusions on the real output
      judge "sup_x" (subsetB n xk rkS) "result does not contain the larger argument"
      judge "sup_y" (subsetB n yk rkS) "result does not contain the smaller argument"
      let yak := parseSet n ((getField fs "YAK").getD [])
      judge "yconst" (equivB n yk yak) "the smaller argument changed"
      let dy := parseDescr n ((getField fs "CY").getD []); let dr := parseDescr n ((getField fs "CR").getD [])
      if !trivial && !dy.empty && !dr.empty then
        if equivB n rkS yk then ok "cert_decrease"
        else judge "cert_decrease" (certLessH79 (dy.h79 n) (dr.h79 n)) s!"y={repr (dy.h79 n)} result={repr (dr.h79 n)}"
      let branch := match res with | .unchanged => "unchanged" | .assignY => "assignY" | .fresh _ => "fresh"
      IO.println s!"info {s.id} op=h79 nnc={if nnc then 1 else 0} n={n} branch={branch} ch78={(getField fs "CH").isSome} sel={(getField fs "SEL").isSome} xrows={xu.length} yrows={ys.conSys.length} ygens={ys.genSys.length} extrap={!(equivB n rkS xk)}"

def judgeBhrz : M Unit := do
  let s ← get
  let nnc := s.nnc; let n := s.n
  let nc := n + 1 + (if nnc then 1 else 0)
  let fs := s.fields
  let xk := parseSet n ((getField fs "XK").getD [])
  let yk := parseSet n ((getField fs "YK").getD [])
  let x0 := parseState nc ((getField fs "X0").getD [])
  let y0 := parseState nc ((getField fs "Y0").getD [])
  let xs := match getField fs "X" with | some t => parseState nc t | none => x0
  let yMin : Option YMin := match getField fs "YA" with
    | some t => if t.head? == some "none" then none else some (parseYMin nc t)
    | none => none
  let ys : YMin := match getField fs "YS" with | some t => parseYMin nc t | none => yMin.getD default
  let xu : List CRow := match getField fs "XU" with | some t => toCRows (takeRows nc t).1 | none => xs.cs
  let dya := parseDescr n ((getField fs "CYA").getD []); let dxa := parseDescr n ((getField fs "CXA").getD [])
  -- the certificates as the library computed them in place (journalled members); the recomputation from the
  -- minimised descriptions of copies is only the fallback (BHRZ03_Certificate depends on the representation)
  let bc (tag : String) (dflt : BHRZ03Cert) : BHRZ03Cert := ((getField fs tag).bind parseBC).getD dflt
  let yCert := bc "BCY" (dya.bhrz n); let xCert0 := dxa.bhrz n
  -- the precheck: when the recomputed certificate of x does not reproduce the library's decision (the numbers
  -- `compare(x)` computes are not observable and depend on the representation, KF-C08-5/6/9/10) this is reported
  -- as `precheck` and the replay goes on with a certificate that reproduces the real decision
  let realStab : Option Bool := (getField fs "PRE").map fun t => kvB t "stab"
  let xCert : BHRZ03Cert := match realStab with
    | some b => if yCert.isStabilizing xCert0 == b then xCert0
                else if b then { yCert with affineDim := yCert.affineDim + 1 } else yCert
    | none => xCert0
  let lin := max yCert.linSpaceDim xCert0.linSpaceDim
  let hk := parseSet n ((getField fs "HK").getD [])
  let h79rows : List CRow := match getField fs "H79" with | some t => toCRows (takeRows nc t).1 | none => []
  let dh := parseDescr n ((getField fs "CH79").getD [])
  let tech : Nat := match getField fs "TECH" with | some t => tokNat (t.headD "0") | none => 0
  let tk := parseSet n ((getField fs "TK").getD [])
  let dt := parseDescr n ((getField fs "CT").getD [])
  let tkRows := tk.map (fromK1 nnc n)
  let dummy : Cand := { cs := [], cert := yCert }
  let tCert := bc "BCT" (dt.bhrz n)
  let hCert := bc "BCH" (dh.bhrz n)
  let realCand : Cand := { cs := tkRows, cert := tCert }
  let x : Poly := { nnc := nnc, n := n, markedEmpty := x0.me, pendingGens := xs.pg, consUpToDate := xs.cu,
                    conSys := xs.cs, genSys := xs.gs }
  let ycx := subsetB n xk yk
  let o : BOracle := {
    yMin := yMin, xCons := xu, yCert := yCert, xCert := xCert, yContainsX := ycx, ySel := ys,
    h79 := { cs := h79rows, cert := hCert },
    strictlyIntersects := fun c => !(subsetB n hk (toK1 nnc n c)) && feasible n (toK1 nnc n c ++ hk),
    containsH79 := fun cs => subsetB n hk (toK1s nnc n cs),
    cert1 := fun _ => if tech == 1 then tCert else yCert,
    cand2 := if tech == 2 then realCand else dummy,
    cand3 := if tech == 3 then some realCand else none }
  let trivial := (getField fs "TRIVIAL").isSome
  match getField fs "PRE" with
  | some t =>
    judge "precheck" (kvB t "stab" == yCert.isStabilizing xCert0 && kvB t "ycx" == ycx)
      s!"lineality={lin} real stab={kv t "stab"} ycx={kv t "ycx"} model stab={yCert.isStabilizing xCert0} ycx={ycx} yCert={repr yCert} xCert={repr xCert0}"
  | none => pure ()
  match getField fs "SEL", getField fs "NSEL" with
  | some t1, some t2 =>
    let rs := toCRows (takeRows nc t1).1; let rn := toCRows (takeRows nc t2).1
    let m := selectH79Constraints nnc xu ys.conSys ys.genSys ys.satG
    judge "sel_rows" (rs == m.1 && rn == m.2) s!"real_sel={showRows rs} model_sel={showRows m.1} real_not={showRows rn} model_not={showRows m.2}"
    judgeContract nnc n ys yk rs
    judge "h79_set" (equivB n hk (toK1s nnc n rs)) "H79 is not the set of the selected constraints"
    -- the output contract of the technique that fired, on the real candidate
    if tech == 1 || tech == 2 || tech == 3 then
      judge "accept_contract" (yCert.isStabilizing tCert && !(subsetB n hk tk) && subsetB n tk hk && subsetB n xk tk)
        s!"lineality={max lin tCert.linSpaceDim} tech={tech} stabilizing={yCert.isStabilizing tCert} containsH79={subsetB n hk tk} belowH79={subsetB n tk hk} above_x={subsetB n xk tk}"
    if tech == 4 then
      judge "fallback_stabilizing" (yCert.isStabilizing hCert) s!"lineality={max lin hCert.linSpaceDim} yCert={repr yCert} H79 cert={repr hCert}"
    -- is a rejection of the first technique explained by the model's own guards?
    if tech != 1 then
      let newCs := combiningNewCs nnc n ys.genSys h79rows rn
      let explained := rn.length ≤ 1 || !(newCs.reverse.any o.strictlyIntersects) || o.containsH79 (h79rows ++ newCs)
      let epsRow : CRow := { e := List.replicate (n + 1) 0 ++ [1], eq := false }
      IO.println s!"info {s.id} combining_rejected=1 explained_by_guards={if explained then 1 else 0} new_cs={newCs.length} nnc_h79_has_eps_row={if nnc then (if h79rows.contains epsRow then "1" else "0") else "-"}"
  | _, _ => pure ()
  for (r, rk) in s.runs do
    let tp0 := kvInt r "tp0"
    let tpReal := kvInt r "tp"
    let tp : Option Nat := if tp0 < 0 then none else some tp0.toNat
    let res := bhrz03WideningAssign x y0.me o tp
    let rkS := parseSet n rk
    let tag := if tp0 < 0 then "" else "_tok"
    let modelSet : List Con := match res.cs with | none => xk | some cs => toK1s nnc n cs
    judge ("result" ++ tag) (equivB n modelSet rkS) s!"model branch={repr res.branch} real={rk}"
    judge ("tokens" ++ tag) ((match res.tp with | none => (-1 : Int) | some t => (t : Int)) == tpReal) s!"model tp={repr res.tp} real tp={tpReal}"
    if tp0 < 0 then
      let expected : Branch :=
        if trivial then .trivial else if yMin.isNone then .yEmpty
        else match getField fs "PRE" with
          | some t => if kvB t "stab" || kvB t "ycx" then .stabilizing
                      else (match tech with | 1 => .combining | 2 => .points | 3 => .rays | _ => .h79)
          | none => .trivial
      judge "branch" (res.branch == expected) s!"model={repr res.branch} real={repr expected}"
      judge "sup_x" (subsetB n xk rkS) "result does not contain the larger argument"
      judge "sup_y" (subsetB n yk rkS) "result does not contain the smaller argument"
      let yak := parseSet n ((getField fs "YAK").getD [])
      judge "yconst" (equivB n yk yak) "the smaller argument changed"
      let dy := parseDescr n ((getField fs "CY").getD []); let dr := parseDescr n ((getField fs "CR").getD [])
      if !trivial && !dy.empty && !dr.empty then
        if equivB n rkS yk then ok "cert_decrease"
        else
          -- from the minimised descriptions of copies, and as the library computes it on the objects of the call
          judge "cert_decrease" (certLessBhrz (dy.bhrz n) (dr.bhrz n))
            s!"lineality={max (dy.bhrz n).linSpaceDim (dr.bhrz n).linSpaceDim} y={repr (dy.bhrz n)} result={repr (dr.bhrz n)}"
          match (getField fs "BRY").bind parseBC, (getField fs "BRR").bind parseBC with
          | some cy, some cr =>
            judge "cert_decrease_inplace" (certLessBhrz cy cr) s!"lineality={max cy.linSpaceDim cr.linSpaceDim} y={repr cy} result={repr cr}"
          | _, _ => pure ()
      IO.println s!"info {s.id} op=bhrz nnc={if nnc then 1 else 0} n={n} branch={repr res.branch} tech={tech} xrows={xs.cs.length} yrows={ys.conSys.length} ygens={ys.genSys.length} extrap={!(equivB n rkS xk)}"

def endStep : M Unit := do
  let s ← get
  if s.kind == "h79" then judgeH79 else if s.kind == "bhrz" then judgeBhrz else pure ()
  modify fun s => { s with kind := "", fields := [], runs := [], pendingR := none }

def handle (line : String) : M Unit := do
  let ts := line.trimAscii.toString.splitOn " " |>.filter (· != "")
  match ts with
  | [] => pure ()
  | tag :: rest =>
    if tag == "h79" || tag == "bhrz" then
      modify fun s => { s with kind := tag, id := rest.headD "0", nnc := kvB rest "nnc", n := tokNat (kv rest "n"),
                               fields := [], runs := [], pendingR := none }
    else if tag == "endstep" then endStep
    else if tag == "R" then modify fun s => { s with pendingR := some rest }
    else if tag == "RK" then
      modify fun s => match s.pendingR with
        | some r => { s with runs := s.runs ++ [(r, rest)], pendingR := none }
        | none => s
    else if tag == "exc" || tag == "crash" then do
      let s ← get
      if s.kind != "" then bad tag (String.intercalate " " rest)
      else IO.println s!"MISMATCH {s.id} {tag} {String.intercalate " " rest}"
    else if tag == "hist" || tag == "run" || tag == "end" then pure ()
    else modify fun s => { s with fields := s.fields ++ [(tag, rest)] }

partial def loop (h : IO.FS.Stream) : M Unit := do
  let line ← h.getLine
  if line.isEmpty then pure () else
    handle line
    loop h

def main (_args : List String) : IO UInt32 := do
  let stdin ← IO.getStdin
  let (_, s) ← (loop stdin).run {}
  IO.println s!"stats ok={s.nOk} mismatch={s.nBad}"
  return 0
