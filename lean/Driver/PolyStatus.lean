import PPLV.PolyStatus.Step
import Std.Data.HashMap

/-! `pplv_polystatus`: replays the status trace of `harness/c01_poly.cc --status-trace 1` on the
code-shaped model of the lazy status protocol (`PPLV/PolyStatus`).

Input (stdin): the journal.  Only lines
  `status <slot> <10 flags> T d=<dim> n=<0|1> cs=<S|U>,<rows>,<first_pending> gs=<…> <phase> <method> [k=v …]`
are read (`phase` = pre | apre | post | apost, see the harness).  For every bracketed call the model is
run from the OBSERVED pre-status (ghost facts = what the flags promise), for every resolution of the ghost
inputs, and the observed post-status must be one of the results:

  `ok <line> <method> pre=<flags> post=<flags>`
  `MISMATCH <line> <method> pre=<flags> post=<flags> allowed=<f1|f2|…> forbidden=<0|1>`

`forbidden=1`: the observed post-status is one the invariant excludes whatever the ghost inputs (a flag
left set over a description the step modified without re-validating it, or an illegal status word).
`skip <line> <method> <why>` for calls that are not modelled.  Last line: `summary ok=… mismatch=… skip=…`. -/
open PPLV.PolyStatus PPLV.PolyStatus.PState

structure Obs where
  line : Nat := 0
  slot : Nat := 0
  em : Bool := false
  cmin : Bool := false
  gmin : Bool := false
  cup : Bool := false
  gup : Bool := false
  cpend : Bool := false
  gpend : Bool := false
  satc : Bool := false
  satg : Bool := false
  ze : Bool := false
  dim : Nat := 0
  nnc : Bool := false
  csS : Bool := true
  csPend : Bool := false
  gsS : Bool := true
  gsPend : Bool := false
  phase : String := ""
  method : String := ""
  facts : List (String × Nat) := []
deriving Inhabited

def b2c (b : Bool) (n : String) : String := (if b then "+" else "-") ++ n

def Obs.flags (o : Obs) : String :=
  String.intercalate "," [b2c o.ze "ZE", b2c o.em "EM", b2c o.cmin "CM", b2c o.gmin "GM", b2c o.cup "CS", b2c o.gup "GS",
    b2c o.cpend "CP", b2c o.gpend "GP", b2c o.satc "SC", b2c o.satg "SG",
    "d" ++ toString o.dim, (if o.csS then "cS" else "cU") ++ (if o.csPend then "p" else ""),
    (if o.gsS then "gS" else "gU") ++ (if o.gsPend then "p" else "")]

def stFlags (s : PState) : String :=
  String.intercalate "," [b2c s.ze "ZE", b2c s.em "EM", b2c s.cmin "CM", b2c s.gmin "GM", b2c s.cup "CS", b2c s.gup "GS",
    b2c s.cpend "CP", b2c s.gpend "GP", b2c s.satc "SC", b2c s.satg "SG",
    "d" ++ toString s.dim, (if s.csS then "cS" else "cU") ++ (if s.pC then "p" else ""),
    (if s.gsS then "gS" else "gU") ++ (if s.pG then "p" else "")]

def tokNat (s : String) : Nat := s.toNat?.getD 0

def parseSys (v : String) : Bool × Bool :=   -- (sorted, has pending rows)
  match v.splitOn "," with
  | [s, rows, fp] => (s == "S", tokNat fp < tokNat rows)
  | _ => (true, false)

def flagOn (t : String) : Bool := t.startsWith "+"

def parseObs (ln : Nat) (line : String) : Option Obs :=
  let toks := (line.splitOn " ").filter (· ≠ "")
  match toks with
  | "status" :: slot :: ze :: em :: cm :: gm :: cs :: gs :: cp :: gp :: sc :: sg :: "T" :: rest =>
    let kv (t : String) : Option (String × String) :=
      match t.splitOn "=" with | [k, v] => some (k, v) | _ => none
    -- d= n= cs= gs= phase method facts…
    match rest with
    | d :: n :: c :: g :: phase :: method :: facts =>
      let dv := ((kv d).map (·.2)).getD "0"
      let nv := ((kv n).map (·.2)).getD "0"
      let (csS, csP) := parseSys (((kv c).map (·.2)).getD "")
      let (gsS, gsP) := parseSys (((kv g).map (·.2)).getD "")
      some { line := ln, slot := tokNat slot, ze := flagOn ze, em := flagOn em, cmin := flagOn cm, gmin := flagOn gm,
             cup := flagOn cs, gup := flagOn gs, cpend := flagOn cp, gpend := flagOn gp, satc := flagOn sc, satg := flagOn sg,
             dim := tokNat dv, nnc := nv == "1", csS := csS, csPend := csP, gsS := gsS, gsPend := gsP,
             phase := phase, method := method,
             facts := facts.filterMap fun t => (kv t).map fun (k, v) => (k, tokNat v) }
    | _ => none
  | _ => none

def Obs.fact (o : Obs) (k : String) : Nat := ((o.facts.find? (·.1 == k)).map (·.2)).getD 0
def Obs.factB (o : Obs) (k : String) : Bool := o.fact k != 0

def Obs.toFacts (o : Obs) : Facts :=
  { strict := o.factB "strict", taut := o.factB "taut", incons := o.factB "incons", norows := o.factB "norows",
    nontriv := o.factB "nontriv", hasstrict := o.factB "hasstrict", inv := o.factB "inv", eq := o.factB "eq",
    lconst := o.factB "lconst", common := o.factB "common", lbv := o.factB "lbv", ubv := o.factB "ubv",
    point := o.factB "point", m := o.fact "m", k := o.fact "k", nd := o.fact "nd", dim := o.fact "dim" }

/-- the abstract state an observed status stands for: ghost facts are exactly what the flags promise. -/
def Obs.toState (o : Obs) (emp : Bool) : PState :=
  { nnc := o.nnc, dim := o.dim, ver := 0,
    b := fun f => match f with
      | .em => o.em | .cup => o.cup | .gup => o.gup | .cmin => o.cmin | .gmin => o.gmin
      | .satc => o.satc | .satg => o.satg | .cpend => o.cpend | .gpend => o.gpend
      | .csS => o.csS | .gsS => o.gsS | .emp => emp
      | .vC => o.cup && !o.gpend | .vG => o.gup && !o.cpend | .dd => o.cup && o.gup
      | .mC => o.cmin | .mG => o.gmin | .vSC => o.satc | .vSG => o.satg | .rC => o.csS | .rG => o.gsS
      | .pC => o.csPend | .pG => o.gsPend }

/-- candidate values of the ghost "the set is empty" for an observed status. -/
def Obs.emps (o : Obs) : List Bool :=
  if o.em then [true]
  else if (o.gup && !o.cpend) || (o.ze && o.dim == 0) then [false]
  else [false, true]

/-- does a model state agree with an observed status? (flags, dimension, sorted flags; pending rows only if the
model admits them) -/
def agrees (s : PState) (o : Obs) : Bool :=
  s.em == o.em && s.cup == o.cup && s.gup == o.gup && s.cmin == o.cmin && s.gmin == o.gmin
  && s.satc == o.satc && s.satg == o.satg && s.cpend == o.cpend && s.gpend == o.gpend
  && s.dim == o.dim && s.csS == o.csS && s.gsS == o.gsS
  && (!o.csPend || !o.cup || s.pC) && (!o.gsPend || !o.gup || s.pG)

/-- a model outcome carrying the observed flags instead of its own. -/
def withObsFlags (s : PState) (o : Obs) : PState :=
  (s.set .em o.em |>.set .cup o.cup |>.set .gup o.gup |>.set .cmin o.cmin |>.set .gmin o.gmin |>.set .satc o.satc
    |>.set .satg o.satg |>.set .cpend o.cpend |>.set .gpend o.gpend |>.set .csS o.csS |>.set .gsS o.gsS).setDim o.dim

/-- the Boolean components packed into a number: states are re-tabulated after every step (a chain of `set`s is a
chain of closures) and compared by this key. -/
def fldIdx : Fld → Nat
  | .em => 0 | .cup => 1 | .gup => 2 | .cmin => 3 | .gmin => 4 | .satc => 5 | .satg => 6 | .cpend => 7 | .gpend => 8
  | .csS => 9 | .gsS => 10 | .emp => 11 | .vC => 12 | .vG => 13 | .dd => 14 | .mC => 15 | .mG => 16
  | .vSC => 17 | .vSG => 18 | .rC => 19 | .rG => 20 | .pC => 21 | .pG => 22

def pack (s : PState) : Nat :=
  Fld.all.foldl (fun acc f => if s.b f then acc ||| (1 <<< fldIdx f) else acc) 0

def keyOf (s : PState) : Nat := pack s + (s.dim <<< 24) + ((if s.nnc then 1 else 0) <<< 40)

/-- the same state, tabulated, with the ghost counter reset. -/
def norm (s : PState) : PState :=
  let m := pack s
  { nnc := s.nnc, dim := s.dim, ver := 0, b := fun f => m.testBit (fldIdx f) }

def bools : List Bool := [false, true]

def ghAll : List Gh := Id.run do
  let mut r : List Gh := []
  for dup in bools do for srcS in bools do for dstS in bools do for keep in bools do
    for fast in bools do for chg in bools do for be in bools do for aux in bools do
      r := { dup, srcS, dstS, keep, fast, chg, be, aux } :: r
  return r.reverse

/-- the ghost inputs that matter for an argument object / a later phase. -/
def ghSmall : List Gh := Id.run do
  let mut r : List Gh := []
  for dup in bools do for srcS in bools do for dstS in bools do for keep in bools do for be in bools do for aux in bools do
    r := { dup, srcS, dstS, keep, be, aux } :: r
  return r.reverse

def ghArg : List Gh := Id.run do
  let mut r : List Gh := []
  for dup in bools do for srcS in bools do for dstS in bools do
    r := { dup, srcS, dstS } :: r
  return r.reverse

/-- receiver-side ghost inputs of the binary observers (`dup`, `srcS`, `dstS`, `aux` are the only ones they read). -/
def ghObsX : List Gh := Id.run do
  let mut r : List Gh := []
  for dup in bools do for srcS in bools do for dstS in bools do for aux in bools do
    r := { dup, srcS, dstS, aux } :: r
  return r.reverse

/-- receiver-side ghost inputs of the binary mutators (no observer fast path). -/
def ghMutX : List Gh := ghAll.filter fun g => !g.fast

def ghQs : List GhQ :=
  [{}, { qf := true }, { qg := true }, { qg := true, qt := true }, { qc := true }, { qc := true, qt := true }]

def op1OfName : String → Option Op1
  | "constraints" => some .constraints | "minimized_constraints" => some .minimizedConstraints
  | "generators" => some .generators | "minimized_generators" => some .minimizedGenerators
  | "is_empty" => some .isEmpty | "is_universe" => some .isUniverse | "is_bounded" => some .isBounded
  | "is_topologically_closed" => some .isTopologicallyClosed | "constrains" => some .constrains
  | "relation_with_con" => some .relationWithCon | "relation_with_gen" => some .relationWithGen
  | "relation_with_cg" => some .relationWithCg | "bounds" => some .bounds | "max_min" => some .maxMin
  | "affine_dimension" => some .affineDimension
  | "add_constraint" => some .addConstraint | "add_constraints" => some .addConstraints
  | "refine_with_constraint" => some .refineWithConstraint | "refine_with_constraints" => some .refineWithConstraints
  | "add_generator" => some .addGenerator | "add_generators" => some .addGenerators | "unconstrain" => some .unconstrain
  | "affine_image" => some .affineImage | "affine_preimage" => some .affinePreimage
  | "generalized_affine_image" => some .generalizedAffineImage | "generalized_affine_preimage" => some .generalizedAffinePreimage
  | "generalized_affine_image2" => some .generalizedAffineImage2 | "generalized_affine_preimage2" => some .generalizedAffinePreimage2
  | "bounded_affine_image" => some .boundedAffineImage | "bounded_affine_preimage" => some .boundedAffinePreimage
  | "topological_closure_assign" => some .topologicalClosureAssign
  | "add_space_dimensions_and_embed" => some .addSpaceDimensionsAndEmbed
  | "add_space_dimensions_and_project" => some .addSpaceDimensionsAndProject
  | "remove_space_dimensions" => some .removeSpaceDimensions
  | "remove_higher_space_dimensions" => some .removeHigherSpaceDimensions
  | "expand_space_dimension" => some .expandSpaceDimension | "map_space_dimensions" => some .mapSpaceDimensions
  | _ => none

def op2OfName : String → Option Op2
  | "contains" => some .contains | "strictly_contains" => some .strictlyContains
  | "is_disjoint_from" => some .isDisjointFrom | "equals" => some .equals
  | "intersection_assign" => some .intersectionAssign | "poly_hull_assign" => some .polyHullAssign
  | "poly_difference_assign" => some .polyDifferenceAssign | "time_elapse_assign" => some .timeElapseAssign
  | "concatenate_assign" => some .concatenateAssign | "simplify_using_context_assign" => some .simplifyUsingContextAssign
  | "assign" => some .assign | "m_swap" => some .mSwap
  | _ => none

/-- all outcomes of a unary call from an observed pre-status: the steps of the method are run one after the
other on the SET of states reached so far, each step with every value of its ghost inputs. -/
def outcomes1 (o : Op1) (f : Facts) (pre : Obs) : List PState := Id.run do
  let mut r : List PState := []
  for emp in pre.emps do
    let s0 := norm (pre.toState emp)
    let mut states : List PState := [s0]
    for step in stepsOf o f s0 do
      let mut next : List PState := []
      let mut keys : List Nat := []
      for s in states do
        for g in ghAll do
          let s' := norm (step g s)
          let k := keyOf s'
          if !keys.contains k then
            keys := k :: keys
            next := s' :: next
      states := next
    r := states ++ r
  return r

def find1 (o : Op1) (f : Facts) (pre post : Obs) : Bool := (outcomes1 o f pre).any (agrees · post)

def dedupStr (l : List String) : List String := l.foldl (fun acc s => if acc.contains s then acc else acc ++ [s]) []

def ghZ : List Gh := Id.run do
  let mut r : List Gh := []
  for dup in bools do for srcS in bools do for dstS in bools do for keep in bools do for be in bools do
    r := { dup, srcS, dstS, keep, be } :: r
  return r.reverse

def ghN : List Gh := Id.run do
  let mut r : List Gh := []
  for dup in bools do for srcS in bools do for dstS in bools do for keep in bools do
    r := { dup, srcS, dstS, keep } :: r
  return r.reverse

/-- the closure of `new_polyhedron` under the iterations of the loop of `poly_difference_assign`
(the set of values of `diffLoop its x` over all `its`, up to the ghost counter). -/
def diffReach (x : PState) : List PState := Id.run do
  if x.em then return [norm (diffNew0 x)]
  let n0 := norm (diffNew0 x)
  let mut seen : List PState := [n0]
  let mut keys : List Nat := [keyOf n0]
  let mut frontier : List PState := [n0]
  for _ in [0:6] do
    let mut next : List PState := []
    for nw in frontier do
      for gz in ghZ do
        for gn in ghN do
          let nw' := norm (diffIter gz gn x nw)
          let k := keyOf nw'
          if !keys.contains k then
            keys := k :: keys
            seen := nw' :: seen
            next := nw' :: next
    frontier := next
  return seen

def normTwo (c : Two) : Two := { c with x := norm c.x, y := if c.al then norm c.x else norm c.y }
def keyTwo (c : Two) : Nat := keyOf c.x + (keyOf c.y <<< 48) + ((if c.go then 1 else 0) <<< 96)

def usesQ : Op2 → Bool
  | .contains | .strictlyContains | .equals | .polyDifferenceAssign => true
  | _ => false

/-- outcomes (x, y) of a binary call. `yPre = none`: aliased. -/
def outcomes2 (o : Op2) (xPre : Obs) (yPre : Option Obs) (stop : Two → Bool) : Bool × List Two := Id.run do
  let mut r : List Two := []
  let ye : List Bool := match yPre with | some y => y.emps | none => [false]
  let qs := if usesQ o then ghQs else [{}]
  for ex in xPre.emps do
    for ey in ye do
      let c : Two := normTwo (match yPre with
        | some y => { x := xPre.toState ex, y := y.toState ey, al := false }
        | none => { x := xPre.toState ex, y := xPre.toState ex, al := true })
      match o with
      | .polyDifferenceAssign =>
        -- distinct states at the head of the loop first, then the closure of the loop once per receiver
        let mut heads : List Two := []
        let mut hkeys : List Nat := []
        for gx in ghAll do for gy in ghArg do for q in qs do
          let p := diffPre gx gy q c
          if p.1 then
            if stop p.2 then return (true, [p.2])
            r := p.2 :: r
          else
            let h := normTwo p.2
            if !hkeys.contains (keyTwo h) then
              hkeys := keyTwo h :: hkeys
              heads := h :: heads
        let mut cache : List (Nat × List PState) := []
        for h in heads do
          let reach ← match cache.find? (·.1 == keyOf h.x) with
            | some e => pure e.2
            | none => do
              let v := diffReach h.x
              cache := (keyOf h.x, v) :: cache
              pure v
          for nw in reach do
            let c' := Two.onX (fun x => assign x nw) h
            if stop c' then return (true, [c'])
            r := c' :: r
      | _ =>
        let mut states : List Two := [c]
        for step in steps2Of o do
          let mut next : List Two := []
          let mut keys : List Nat := []
          for t in states do
            for gx in (if o.isObserver && o != .isDisjointFrom then ghObsX else ghMutX) do for gy in ghArg do for q in qs do
              let t' := normTwo (step { gx, gy, q } t)
              let k := keyTwo t'
              if !keys.contains k then
                keys := k :: keys
                next := t' :: next
          states := next
        for t in states do
          if stop t then return (true, [t])
        r := states ++ r
  return (false, r)

structure Call where
  pre : Option Obs := none
  apre : Option Obs := none
  post : Option Obs := none
  apost : Option Obs := none
deriving Inhabited

structure Stats where
  ok : Nat := 0
  bad : Nat := 0
  skip : Nat := 0
  memo : Std.HashMap String Bool := {}    -- (method, facts, pre, post) already found to agree

def obsInvOK (o : Obs) : Bool :=
  let s := o.toState false
  s.statusOK && s.polyOK

def Obs.factStr (o : Obs) : String := String.intercalate "," (o.facts.map fun (k, v) => k ++ "=" ++ toString v)

def judgeCore (c : Call) (st : Stats) : IO Stats := do
  let some post := c.post | return st
  let method := post.method
  let ln := post.line
  let okLine (pre : String) := do
    IO.println s!"ok {ln} {method} pre={pre} post={post.flags}"
    return { st with ok := st.ok + 1 }
  let badLine (pre : String) (allowed : List String) (forbidden : Bool) := do
    IO.println s!"MISMATCH {ln} {method} pre={pre} post={post.flags} allowed={String.intercalate "|" (dedupStr allowed)} forbidden={if forbidden then 1 else 0}"
    return { st with bad := st.bad + 1 }
  -- constructors
  if method == "ctor_univ" || method == "ctor_empty" || method == "ctor_cons" || method == "ctor_gens" then
    let f := post.toFacts
    let outs := ghAll.map fun g =>
      if method == "ctor_univ" then ctorDegenerate post.nnc f.dim false g
      else if method == "ctor_empty" then ctorDegenerate post.nnc f.dim true g
      else if method == "ctor_cons" then ctorCons post.nnc f g
      else ctorGens post.nnc f g
    if outs.any (agrees · post) then okLine "-"
    else badLine "-" (outs.map stFlags) (outs.all fun s => !(withObsFlags s post).invB)
  else if method == "copy_ctor" then
    let some src := c.apre | return st
    let outs := src.emps.map fun e => copyCtor (src.toState e)
    let srcSame := match c.apost with | some a => a.flags == src.flags | none => true
    if outs.any (agrees · post) && srcSame then okLine src.flags
    else badLine src.flags (outs.map stFlags) (outs.all fun s => !(withObsFlags s post).invB)
  else
    let some pre := c.pre | return st
    match op1OfName method with
    | some o =>
      let f := pre.toFacts
      if find1 o f pre post then okLine pre.flags
      else
        let outs := outcomes1 o f pre
        badLine pre.flags (outs.map stFlags) (!obsInvOK post || outs.all fun s => !(withObsFlags s post).invB)
    | none =>
      match op2OfName method with
      | none =>
        IO.println s!"skip {ln} {method} not-modelled"
        return { st with skip := st.skip + 1 }
      | some o =>
        let alias := pre.factB "alias"
        let yPre := if alias then none else c.apre
        if !alias && c.apre.isNone then
          IO.println s!"skip {ln} {method} argument-status-missing"
          return { st with skip := st.skip + 1 }
        let yPost := c.apost
        let stop (t : Two) : Bool :=
          agrees t.x post && (match yPost with | some yp => alias || agrees t.y yp | none => true)
        let preS := pre.flags ++ (match yPre with | some y => ";" ++ y.flags | none => ";alias")
        let (found, outs) := outcomes2 o pre yPre stop
        if found then
          IO.println s!"ok {ln} {method} pre={preS} post={post.flags}{match yPost with | some y => ";" ++ y.flags | none => ""}"
          return { st with ok := st.ok + 1 }
        else
          let allowed := outs.map fun t => stFlags t.x ++ (if alias then "" else ";" ++ stFlags t.y)
          let forb := !obsInvOK post || outs.all fun t =>
            !(withObsFlags t.x post).invB || (match yPost with | some yp => !alias && !(withObsFlags t.y yp).invB | none => false)
          IO.println s!"MISMATCH {ln} {method} pre={preS} post={post.flags}{match yPost with | some y => ";" ++ y.flags | none => ""} allowed={String.intercalate "|" ((dedupStr allowed).take 12)} forbidden={if forb then 1 else 0}"
          return { st with bad := st.bad + 1 }

/-- identical (method, facts, pre, post) tuples are judged once. -/
def judge (c : Call) (st : Stats) : IO Stats := do
  let some post := c.post | return st
  let f (o : Option Obs) := match o with | some x => x.flags ++ (if x.nnc then "N" else "C") | none => "-"
  let key := post.method ++ " " ++ post.factStr ++ " " ++ f c.pre ++ " " ++ f c.apre ++ " " ++ post.flags ++ " " ++ f c.apost
  match st.memo.get? key with
  | some true =>
    let preS := match c.pre with | some p => p.flags | none => f c.apre
    IO.println s!"ok {post.line} {post.method} pre={preS} post={post.flags}"
    return { st with ok := st.ok + 1 }
  | _ =>
    let st' ← judgeCore c st
    return { st' with memo := st'.memo.insert key (st'.bad == st.bad && st'.skip == st.skip) }

partial def loop (h : IO.FS.Stream) (ln : Nat) (cur : Call) (st : Stats) : IO Stats := do
  let line ← h.getLine
  if line.isEmpty then return st
  let l := line.trimAscii.toString
  if l.startsWith "status " then
    match parseObs ln l with
    | none => loop h (ln + 1) cur st
    | some o =>
      if o.phase == "pre" then loop h (ln + 1) { pre := some o } st
      else if o.phase == "apre" then
        -- copy construction has no `pre`
        if o.method == "copy_ctor" then loop h (ln + 1) { apre := some o } st
        else loop h (ln + 1) { cur with apre := some o } st
      else if o.phase == "post" then
        let consistent := match cur.pre with
          | some p => p.method == o.method && p.slot == o.slot
          | none => o.method.startsWith "ctor_" || (o.method == "copy_ctor" && cur.apre.isSome)
        if !consistent then loop h (ln + 1) {} st
        else
          let cur := if o.method.startsWith "ctor_" then { post := some o } else { cur with post := some o }
          let needsArg := cur.apre.isSome
          if needsArg then loop h (ln + 1) cur st
          else
            let st ← judge cur st
            loop h (ln + 1) {} st
      else if o.phase == "apost" then
        if cur.post.isSome then
          let st ← judge { cur with apost := some o } st
          loop h (ln + 1) {} st
        else loop h (ln + 1) {} st
      else loop h (ln + 1) cur st
  else if l.startsWith "hist " || l.startsWith "exc " || l.startsWith "crash" then loop h (ln + 1) {} st
  else loop h (ln + 1) cur st

def main (_ : List String) : IO UInt32 := do
  let stdin ← IO.getStdin
  let st ← loop stdin 0 {} {}
  IO.println s!"summary ok={st.ok} mismatch={st.bad} skip={st.skip}"
  return 0
